import ErgVerif.C13.ExprSim
/-! C13: simulation for argument lists, chunks and whole programs on the targets 3.7 – 3.10. -/
namespace ErgVerif.C13
open ErgVerif.C07.Stage1

theorem exec_argsO (u base : Nat) (hu : u = 1 ∨ u = 2) : ∀ (es : List Expr) (pos : Nat) (cs : List Instr), compileArgsO u pos es = some cs →
    pos % 2 = 0 → ∀ code st env out, CodeAtO base code pos cs → EnvOk env →
    match evalArgsW env es with
    | .ok (vs, _) => ReachesG (stepO u base code) ⟨pos, 0, st, env, out⟩ ⟨pos + osz cs, 0, vs.reverse ++ st, env, out⟩
    | .error ex => HaltsG (stepO u base code) ⟨pos, 0, st, env, out⟩ ⟨out.reverse, .exc ex⟩
  | [], pos, cs, hcs, _, code, st, env, out, _, _ => by
    simp only [compileArgsO, Option.some.injEq] at hcs
    subst hcs
    simpa [evalArgsW] using ReachesG.refl (stepO u base code) _
  | e :: es, pos, cs, hcs, hpos, code, st, env, out, hcode, henv => by
    simp only [compileArgsO] at hcs
    cases hc : compileEO u pos e with
    | none => simp [hc] at hcs
    | some c =>
      cases hcs' : compileArgsO u (pos + osz c) es with
      | none => simp [hc, hcs'] at hcs
      | some cs' =>
        simp only [hc, hcs', Option.some.injEq] at hcs
        subst hcs
        have hp2 : (pos + osz c) % 2 = 0 := by have := osz_even c; omega
        have h1 := exec_exprO u base hu e pos c hc hpos code st env out hcode.left henv
        cases hE : evalW env e with
        | error x =>
          simp only [hE, ExecSpecO] at h1
          simpa [evalArgsW, hE] using h1
        | ok pv =>
          obtain ⟨v, c1⟩ := pv
          simp only [hE, ExecSpecO] at h1
          have h2 := exec_argsO u base hu es (pos + osz c) cs' hcs' hp2 code (v :: st) env out hcode.right henv
          cases hEs : evalArgsW env es with
          | error x =>
            simp only [hEs] at h2
            simpa [evalArgsW, hE, hEs] using h1.halts h2
          | ok pvs =>
            obtain ⟨vs, c2⟩ := pvs
            simp only [hEs] at h2
            have := h1.trans h2
            simpa [evalArgsW, hE, hEs, Nat.add_assoc] using this

theorem exec_chunkO (u base : Nat) (hu : u = 1 ∨ u = 2) (s : Stmt) (pos : Nat) (c : List Instr) (leaves : Bool)
    (hc : compileSO u pos s = some (c, leaves)) (hpos : pos % 2 = 0)
    (code : List Instr) (st : List Val) (env : Env) (out : List (List Char))
    (hcode : CodeAtO base code pos c) (henv : EnvOk env) (hns : NoShadow [s]) :
    match chunk env out s with
    | .error ex => HaltsG (stepO u base code) ⟨pos, 0, st, env, out⟩ ⟨out.reverse, .exc ex⟩
    | .ok (env', out', val) =>
      ReachesG (stepO u base code) ⟨pos, 0, st, env, out⟩ ⟨pos + osz c, 0, val.toList ++ st, env', out'⟩
        ∧ leaves = val.isSome ∧ EnvOk env' := by
  cases s with
  | defv x e =>
    simp only [compileSO] at hc
    cases hce : compileEO u pos e with
    | none => simp [hce] at hc
    | some ce =>
      simp only [hce, Option.some.injEq, Prod.mk.injEq] at hc
      obtain ⟨hc1, hc2⟩ := hc
      subst hc1 hc2
      have h1 := exec_exprO u base hu e pos ce hce hpos code st env out hcode.left henv
      have hst : CodeAtO base code (pos + osz ce) [.storeName x] := hcode.right
      simp only [chunk]
      cases hE : evalW env e with
      | error ex => simpa [hE, ExecSpecO] using h1
      | ok p =>
        obtain ⟨v, cl⟩ := p
        simp only [hE, ExecSpecO] at h1
        refine ⟨h1.trans (ReachesG.step1 ?_), rfl, henv.cons hns.1 v⟩
        simp [stepO, hst.fetch, Nat.add_assoc]
  | print args =>
    simp only [compileSO] at hc
    cases hca : compileArgsO u (pos + 2) args with
    | none => simp [hca] at hc
    | some ca =>
      simp only [hca, Option.some.injEq, Prod.mk.injEq] at hc
      obtain ⟨hc1, hc2⟩ := hc
      subst hc1 hc2
      have hcode' : CodeAtO base code pos (.loadName "print" :: (ca ++ [.call args.length])) := by
        simpa [List.append_assoc] using hcode
      have r1 : ReachesG (stepO u base code) ⟨pos, 0, st, env, out⟩ ⟨pos + 2, 0, .printFn :: st, env, out⟩ :=
        exec_loadNameO hcode' (lookup_print henv)
      have hca' : CodeAtO base code (pos + 2) ca := hcode'.tail.left
      have hcall : CodeAtO base code (pos + 2 + osz ca) [.call args.length] := hcode'.tail.right
      have h2 := exec_argsO u base hu args (pos + 2) ca hca (by omega) code (.printFn :: st) env out hca' henv
      simp only [chunk]
      cases hE : evalArgsW env args with
      | error ex =>
        simp only [hE] at h2
        exact r1.halts h2
      | ok p =>
        obtain ⟨vs, cl⟩ := p
        simp only [hE] at h2
        have hlen : args.length = vs.length := evalArgsW_length env args vs cl hE
        refine ⟨(r1.trans h2).trans (ReachesG.step1 ?_), rfl, henv⟩
        have hp := popArgs_reverse vs (.printFn :: st)
        simp [stepO, hcall.fetch, hlen, hp]
        omega
  | expr e =>
    simp only [compileSO] at hc
    cases hce : compileEO u pos (stripWrap e) with
    | none => simp [hce] at hc
    | some ce =>
      simp only [hce, Option.some.injEq, Prod.mk.injEq] at hc
      obtain ⟨hc1, hc2⟩ := hc
      subst hc1 hc2
      have h1 := exec_exprO u base hu (stripWrap e) pos ce hce hpos code st env out hcode henv
      simp only [chunk]
      cases hE : evalW env (stripWrap e) with
      | error ex => simpa [hE, ExecSpecO] using h1
      | ok p =>
        obtain ⟨v, cl⟩ := p
        simp only [hE, ExecSpecO] at h1
        exact ⟨by simpa using h1, rfl, henv⟩

theorem exec_returnO {u base : Nat} {code : List Instr} {pc : Nat} {st : List Val} {env : Env} {out : List (List Char)} {cs}
    (h : CodeAtO base code pc (.returnValue :: cs)) :
    HaltsG (stepO u base code) ⟨pc, 0, st, env, out⟩ ⟨out.reverse, .ok⟩ :=
  HaltsG.now (by simp [stepO, h.fetch])

/-- the whole chunk sequence: the machine halts with the outcome of the wrapper-aware source semantics -/
theorem exec_stmtsO (u base : Nat) (hu : u = 1 ∨ u = 2) : ∀ (ss : List Stmt) (pos : Nat) (cs : List Instr), compileStmtsO u pos ss = some cs →
    pos % 2 = 0 → ∀ (code : List Instr) (env : Env) (out : List (List Char)) (clean : Bool),
    CodeAtO base code pos cs → EnvOk env → NoShadow ss →
    HaltsG (stepO u base code) ⟨pos, 0, [], env, out⟩ (execW ss env out clean).1
  | [], pos, cs, hcs, _, code, env, out, clean, hcode, _, _ => by
    simp only [compileStmtsO, Option.some.injEq] at hcs
    subst hcs
    exact (exec_loadConstO hcode).halts (exec_returnO hcode.tail)
  | [s], pos, cs, hcs, hpos, code, env, out, clean, hcode, henv, hns => by
    simp only [compileStmtsO] at hcs
    cases hc : compileSO u pos s with
    | none => simp [hc] at hcs
    | some p =>
      obtain ⟨c, leaves⟩ := p
      simp only [hc, Option.some.injEq] at hcs
      subst hcs
      have hcc : CodeAtO base code pos c := hcode.left.left
      have h1 := exec_chunkO u base hu s pos c leaves hc hpos code [] env out hcc henv hns
      rw [execW_cons]
      cases hch : chunk env out s with
      | error ex => simpa [hch] using h1
      | ok r =>
        obtain ⟨env', out', val⟩ := r
        simp only [hch] at h1 ⊢
        obtain ⟨hr, hl, _⟩ := h1
        simp only [execW]
        cases val with
        | none =>
          simp only [Option.isSome_none] at hl
          subst hl
          have hrest : CodeAtO base code (pos + osz c) [.loadConst .none, .returnValue] := by
            have : CodeAtO base code pos (c ++ [.loadConst .none, .returnValue]) := by simpa [List.append_assoc] using hcode
            exact this.right
          simp only [Option.toList_none, List.nil_append] at hr
          exact hr.halts ((exec_loadConstO hrest).halts (exec_returnO hrest.tail))
        | some v =>
          simp only [Option.isSome_some] at hl
          subst hl
          have hrest : CodeAtO base code (pos + osz c) [.returnValue] := by
            have : CodeAtO base code pos (c ++ [.returnValue]) := by simpa [List.append_assoc] using hcode
            exact this.right
          exact hr.halts (exec_returnO hrest)
  | s :: s2 :: ss, pos, cs, hcs, hpos, code, env, out, clean, hcode, henv, hns => by
    simp only [compileStmtsO] at hcs
    cases hc : compileSO u pos s with
    | none => simp [hc] at hcs
    | some p =>
      obtain ⟨c, leaves⟩ := p
      cases hcs' : compileStmtsO u (pos + osz c + (if leaves then 2 else 0)) (s2 :: ss) with
      | none => simp [hc, hcs'] at hcs
      | some cs' =>
        simp only [hc, hcs', Option.some.injEq] at hcs
        subst hcs
        have hev := osz_even c
        have hcc : CodeAtO base code pos c := hcode.left.left
        have h1 := exec_chunkO u base hu s pos c leaves hc hpos code [] env out hcc henv hns.head
        rw [execW_cons]
        cases hch : chunk env out s with
        | error ex => simpa [hch] using h1
        | ok r =>
          obtain ⟨env', out', val⟩ := r
          simp only [hch] at h1 ⊢
          obtain ⟨hr, hl, henv'⟩ := h1
          cases val with
          | none =>
            simp only [Option.isSome_none] at hl
            subst hl
            simp only [Bool.false_eq_true, if_false, Nat.add_zero, List.append_nil] at hcs' hcode
            have hrest : CodeAtO base code (pos + osz c) cs' := hcode.right
            simp only [Option.toList_none, List.nil_append] at hr
            exact hr.halts (exec_stmtsO u base hu (s2 :: ss) _ cs' hcs' (by omega) code env' out' true hrest henv' hns.tail)
          | some v =>
            simp only [Option.isSome_some] at hl
            subst hl
            simp only [if_true] at hcs' hcode
            have hrest : CodeAtO base code (pos + osz c) (.popTop :: cs') := by
              have : CodeAtO base code pos (c ++ (.popTop :: cs')) := by simpa [List.append_assoc] using hcode
              exact this.right
            have hpop : ReachesG (stepO u base code) ⟨pos + osz c, 0, [v], env', out'⟩ ⟨pos + osz c + 2, 0, [], env', out'⟩ :=
              ReachesG.step1 (by simp [stepO, hrest.fetch])
            simp only [Option.toList_some, List.singleton_append] at hr
            have hrest' : CodeAtO base code (pos + osz c + 2) cs' := hrest.tail
            exact (hr.trans hpop).halts (exec_stmtsO u base hu (s2 :: ss) _ cs' hcs' (by omega) code env' out' true hrest' henv' hns.tail)

end ErgVerif.C13
