import ErgVerif.C01.ProgSim
/-! C01: simulation for loop bodies, the counting loop, and programs with loops. -/
namespace ErgVerif.C01

/-- a loop body (chunks, each value popped) computes `bodyW` -/
theorem exec_body : ∀ (body : List Stmt) (cs : List Instr), compileBody body = some cs →
    ∀ (code : List Instr) (pc : Nat) (st : List Val) (env : Env) (out : List (List Char)) (clean : Bool),
    CodeAt code pc cs → EnvOk env → NoShadow body →
    match bodyW body env out clean with
    | .ok (env', out', _) => Reaches code ⟨pc, 0, st, env, out⟩ ⟨pc + codeSize cs, 0, st, env', out'⟩ ∧ EnvOk env'
    | .error (ex, o) => HaltsWith code ⟨pc, 0, st, env, out⟩ ⟨o.reverse, .exc ex⟩
  | [], cs, hcs, code, pc, st, env, out, clean, _, henv, _ => by
    simp only [compileBody, Option.some.injEq] at hcs
    subst hcs
    simpa [bodyW] using ⟨Reaches.refl code _, henv⟩
  | s :: ss, cs, hcs, code, pc, st, env, out, clean, hcode, henv, hns => by
    simp only [compileBody] at hcs
    cases hc : compileS s with
    | none => simp [hc] at hcs
    | some p =>
      obtain ⟨c, leaves⟩ := p
      cases hcs' : compileBody ss with
      | none => simp [hc, hcs'] at hcs
      | some cs' =>
        simp only [hc, hcs', Option.some.injEq] at hcs
        subst hcs
        have hcc : CodeAt code pc c := hcode.left.left
        have h1 := exec_chunk s c leaves hc code pc st env out hcc henv hns.head
        -- the continuation after the chunk (and its POP_TOP when it leaves a value)
        have cont : ∀ (env' : Env) (out' : List (List Char)) (val : Option Val) (cl : Bool),
            Reaches code ⟨pc, 0, st, env, out⟩ ⟨pc + codeSize c, 0, val.toList ++ st, env', out'⟩ →
            leaves = val.isSome → EnvOk env' →
            match bodyW ss env' out' cl with
            | .ok (env'', out'', _) =>
              Reaches code ⟨pc, 0, st, env, out⟩
                ⟨pc + codeSize (c ++ (if leaves then [Instr.popTop] else []) ++ cs'), 0, st, env'', out''⟩ ∧ EnvOk env''
            | .error (ex, o) => HaltsWith code ⟨pc, 0, st, env, out⟩ ⟨o.reverse, .exc ex⟩ := by
          intro env' out' val cl hr hl henv'
          cases val with
          | none =>
            simp only [Option.isSome_none] at hl
            subst hl
            have hrest : CodeAt code (pc + codeSize c) cs' := by
              have : CodeAt code pc (c ++ cs') := by simpa [List.append_assoc] using hcode
              exact this.right
            have ih := exec_body ss cs' hcs' code (pc + codeSize c) st env' out' cl hrest henv' hns.tail
            simp only [Option.toList_none, List.nil_append] at hr
            cases hb : bodyW ss env' out' cl with
            | error e => obtain ⟨ex, o⟩ := e; simp only [hb] at ih; exact hr.halts ih
            | ok r =>
              obtain ⟨env'', out'', c2⟩ := r
              simp only [hb] at ih
              exact ⟨by simpa [Nat.add_assoc] using hr.trans ih.1, ih.2⟩
          | some v =>
            simp only [Option.isSome_some] at hl
            subst hl
            have hrest : CodeAt code (pc + codeSize c) (.popTop :: cs') := by
              have : CodeAt code pc (c ++ (.popTop :: cs')) := by simpa [List.append_assoc] using hcode
              exact this.right
            have hpop : Reaches code ⟨pc + codeSize c, 0, v :: st, env', out'⟩ ⟨pc + codeSize c + 2, 0, st, env', out'⟩ :=
              Reaches.step1 (by simp [step, hrest.fetch, Instr.size])
            have hrest' : CodeAt code (pc + codeSize c + 2) cs' := by simpa [Instr.size] using hrest.tail
            have ih := exec_body ss cs' hcs' code (pc + codeSize c + 2) st env' out' cl hrest' henv' hns.tail
            simp only [Option.toList_some, List.singleton_append] at hr
            cases hb : bodyW ss env' out' cl with
            | error e => obtain ⟨ex, o⟩ := e; simp only [hb] at ih; exact (hr.trans hpop).halts ih
            | ok r =>
              obtain ⟨env'', out'', c2⟩ := r
              simp only [hb] at ih
              refine ⟨?_, ih.2⟩
              have := (hr.trans hpop).trans ih.1
              simpa [Instr.size, Nat.add_assoc] using this
        cases s with
        | defv x e =>
          simp only [chunk] at h1
          simp only [bodyW]
          cases hE : evalW env e with
          | error ex => simpa [hE] using h1
          | ok r =>
            obtain ⟨v, cl⟩ := r
            simp only [hE] at h1 ⊢
            exact cont _ _ none _ h1.1 h1.2.1 h1.2.2
        | print args =>
          simp only [chunk] at h1
          simp only [bodyW]
          cases hE : evalArgsW env args with
          | error ex => simpa [hE] using h1
          | ok r =>
            obtain ⟨vs, cl⟩ := r
            simp only [hE] at h1 ⊢
            exact cont _ _ (some .none) _ h1.1 h1.2.1 h1.2.2
        | expr e =>
          simp only [chunk] at h1
          simp only [bodyW]
          cases hE : evalW env (stripWrap e) with
          | error ex => simpa [hE] using h1
          | ok r =>
            obtain ⟨v, cl⟩ := r
            simp only [hE] at h1 ⊢
            exact cont _ _ (some v) _ h1.1 h1.2.1 h1.2.2

/-- `EXTENDED_ARG hi; FOR_ITER lo` on a range iterator -/
theorem exec_forIter {code : List Instr} {pc : Nat} {st : List Val} {env : Env} {out : List (List Char)} {hi lo n : Nat}
    {cur h : Int} {cs}
    (hc : CodeAt code pc (.extArg hi :: .forIter lo :: cs)) (hj : jumpArgs n = some (hi, lo)) (hn : n % 2 = 0) :
    Reaches code ⟨pc, 0, .iter cur h :: st, env, out⟩
      (if cur < h then ⟨pc + 4, 0, .int cur :: .iter (cur + 1) h :: st, env, out⟩ else ⟨pc + 4 + n, 0, st, env, out⟩) := by
  have f1 := hc.fetch
  have f2 := hc.tail.fetch
  simp only [Instr.size] at f2
  have hs := jumpArgs_units hj
  have r1 : Reaches code ⟨pc, 0, .iter cur h :: st, env, out⟩ ⟨pc + 2, 0 * 256 + hi, .iter cur h :: st, env, out⟩ :=
    Reaches.step1 (by simp [step, f1, Instr.size])
  refine r1.trans (Reaches.step1 ?_)
  by_cases ht : cur < h
  · simp [step, f2, ht, Instr.size]
  · simp only [step, f2, ht, Instr.size, if_false]
    rw [hs]
    have : 2 * (n / 2) = n := by omega
    simp [this, Nat.add_assoc]

/-- `EXTENDED_ARG hi; JUMP_BACKWARD lo` -/
theorem exec_jumpBackward {code : List Instr} {pc : Nat} {st : List Val} {env : Env} {out : List (List Char)} {hi lo n : Nat} {cs}
    (hc : CodeAt code pc (.extArg hi :: .jumpBackward lo :: cs)) (hj : jumpArgs n = some (hi, lo)) (hn : n % 2 = 0) :
    Reaches code ⟨pc, 0, st, env, out⟩ ⟨pc + 4 - n, 0, st, env, out⟩ := by
  have f1 := hc.fetch
  have f2 := hc.tail.fetch
  simp only [Instr.size] at f2
  have hs := jumpArgs_units hj
  have r1 : Reaches code ⟨pc, 0, st, env, out⟩ ⟨pc + 2, 0 * 256 + hi, st, env, out⟩ :=
    Reaches.step1 (by simp [step, f1, Instr.size])
  refine r1.trans (Reaches.step1 ?_)
  simp only [step, f2, Instr.size]
  rw [hs]
  have : 2 * (n / 2) = n := by omega
  simp [this, Nat.add_assoc]

/-- the loop proper: from the `EXTENDED_ARG` before `FOR_ITER`, with the iterator on the stack, the machine performs
    exactly the iterations of `loopW` and ends behind the `JUMP_BACKWARD` with the iterator popped -/
theorem exec_loop (i : String) (body : List Stmt) (cb : List Instr) (h1 l1 h2 l2 : Nat)
    (hcb : compileBody body = some cb)
    (hj1 : jumpArgs (codeSize cb + 2 + 4) = some (h1, l1)) (hj2 : jumpArgs (codeSize cb + 2 + 8) = some (h2, l2))
    (code : List Instr) (P0 : Nat) (rest : List Instr)
    (hcode : CodeAt code P0 (.extArg h1 :: .forIter l1 :: .storeName i :: (cb ++ (.extArg h2 :: .jumpBackward l2 :: rest))))
    (hi_res : reserved i = false) (hns : NoShadow body) :
    ∀ (n : Nat) (cur hi : Int) (st : List Val) (env : Env) (out : List (List Char)) (clean : Bool),
      n = (hi - cur).toNat → EnvOk env →
      match loopW i body n cur env out clean with
      | .ok (env', out', _) =>
        Reaches code ⟨P0, 0, .iter cur hi :: st, env, out⟩ ⟨P0 + 4 + 2 + codeSize cb + 4, 0, st, env', out'⟩ ∧ EnvOk env'
      | .error (ex, o) => HaltsWith code ⟨P0, 0, .iter cur hi :: st, env, out⟩ ⟨o.reverse, .exc ex⟩ := by
  have hev := codeSize_even cb
  intro n
  induction n with
  | zero =>
    intro cur hi st env out clean hn henv
    have hnot : ¬ cur < hi := by omega
    have r := exec_forIter (st := st) (env := env) (out := out) (cur := cur) (h := hi) hcode hj1 (by omega)
    simp only [hnot, if_false] at r
    simp only [loopW]
    refine ⟨?_, henv⟩
    have e : P0 + 4 + (codeSize cb + 2 + 4) = P0 + 4 + 2 + codeSize cb + 4 := by omega
    rw [e] at r
    exact r
  | succ n ih =>
    intro cur hi st env out clean hn henv
    have hlt : cur < hi := by omega
    have r1 := exec_forIter (st := st) (env := env) (out := out) (cur := cur) (h := hi) hcode hj1 (by omega)
    simp only [hlt, if_true] at r1
    have hst : CodeAt code (P0 + 4) (.storeName i :: (cb ++ (.extArg h2 :: .jumpBackward l2 :: rest))) := by
      have := hcode.tail.tail
      simpa [Instr.size, Nat.add_assoc] using this
    have r2 : Reaches code ⟨P0 + 4, 0, .int cur :: .iter (cur + 1) hi :: st, env, out⟩
        ⟨P0 + 4 + 2, 0, .iter (cur + 1) hi :: st, (i, .int cur) :: env, out⟩ :=
      Reaches.step1 (by simp [step, hst.fetch, Instr.size])
    have hbody : CodeAt code (P0 + 4 + 2) cb := by
      have := hst.tail
      simp only [Instr.size] at this
      exact this.left
    have hjb : CodeAt code (P0 + 4 + 2 + codeSize cb) (.extArg h2 :: .jumpBackward l2 :: rest) := by
      have := hst.tail
      simp only [Instr.size] at this
      exact this.right
    have henv1 : EnvOk ((i, .int cur) :: env) := henv.cons hi_res _
    have hb := exec_body body cb hcb code (P0 + 4 + 2) (.iter (cur + 1) hi :: st) ((i, .int cur) :: env) out clean hbody henv1 hns
    simp only [loopW]
    cases hB : bodyW body ((i, .int cur) :: env) out clean with
    | error e =>
      obtain ⟨ex, o⟩ := e
      simp only [hB] at hb ⊢
      exact (r1.trans r2).halts hb
    | ok r =>
      obtain ⟨env', out', cl'⟩ := r
      simp only [hB] at hb ⊢
      have rjb := exec_jumpBackward (st := .iter (cur + 1) hi :: st) (env := env') (out := out') hjb hj2 (by omega)
      have e : P0 + 4 + 2 + codeSize cb + 4 - (codeSize cb + 2 + 8) = P0 := by omega
      rw [e] at rjb
      have rall := ((r1.trans r2).trans hb.1).trans rjb
      have ihn := ih (cur + 1) hi st env' out' cl' (by omega) hb.2
      cases hL : loopW i body n (cur + 1) env' out' cl' with
      | error e2 =>
        obtain ⟨ex, o⟩ := e2
        simp only [hL] at ihn ⊢
        exact rall.halts ihn
      | ok r2' =>
        obtain ⟨env'', out'', cl''⟩ := r2'
        simp only [hL] at ihn ⊢
        exact ⟨rall.trans ihn.1, ihn.2⟩

/-- name hygiene for programs with loops -/
def NoShadowT : List Top → Prop
  | [] => True
  | .stmt s :: ts => NoShadow [s] ∧ NoShadowT ts
  | .forRange i _ _ body :: ts => reserved i = false ∧ NoShadow body ∧ NoShadowT ts

theorem exec_top (t : Top) (c : List Instr) (leaves : Bool) (hc : compileTop t = some (c, leaves))
    (code : List Instr) (pc : Nat) (st : List Val) (env : Env) (out : List (List Char)) (clean : Bool)
    (hcode : CodeAt code pc c) (henv : EnvOk env) (hns : NoShadowT [t]) :
    match topW t env out clean with
    | .ok (env', out', _) =>
      ∃ vals : List Val, Reaches code ⟨pc, 0, st, env, out⟩ ⟨pc + codeSize c, 0, vals ++ st, env', out'⟩
        ∧ vals.length = (if leaves then 1 else 0) ∧ EnvOk env'
    | .error (ex, o) => HaltsWith code ⟨pc, 0, st, env, out⟩ ⟨o.reverse, .exc ex⟩ := by
  cases t with
  | stmt s =>
    simp only [compileTop] at hc
    have h1 := exec_chunk s c leaves hc code pc st env out hcode henv hns.1
    simp only [topW]
    cases s with
    | defv x e =>
      simp only [chunk] at h1
      simp only [bodyW]
      cases hE : evalW env e with
      | error ex => simpa [hE] using h1
      | ok r =>
        obtain ⟨v, cl⟩ := r
        simp only [hE] at h1 ⊢
        refine ⟨[], by simpa using h1.1, ?_, h1.2.2⟩
        have := h1.2.1; simp at this; simp [this]
    | print args =>
      simp only [chunk] at h1
      simp only [bodyW]
      cases hE : evalArgsW env args with
      | error ex => simpa [hE] using h1
      | ok r =>
        obtain ⟨vs, cl⟩ := r
        simp only [hE] at h1 ⊢
        refine ⟨[.none], by simpa using h1.1, ?_, h1.2.2⟩
        have := h1.2.1; simp at this; simp [this]
    | expr e =>
      simp only [chunk] at h1
      simp only [bodyW]
      cases hE : evalW env (stripWrap e) with
      | error ex => simpa [hE] using h1
      | ok r =>
        obtain ⟨v, cl⟩ := r
        simp only [hE] at h1 ⊢
        refine ⟨[v], by simpa using h1.1, ?_, h1.2.2⟩
        have := h1.2.1; simp at this; simp [this]
  | forRange i lo hi body =>
    simp only [compileTop] at hc
    cases hcl : compileE lo with
    | none => simp [hcl] at hc
    | some cl =>
      cases hch : compileE hi with
      | none => simp [hcl, hch] at hc
      | some ch =>
        cases hcb : compileBody body with
        | none => simp [hcl, hch, hcb] at hc
        | some cb =>
          cases hj1 : jumpArgs (codeSize cb + 2 + 4) with
          | none => simp [hcl, hch, hcb, hj1] at hc
          | some p1 =>
            obtain ⟨h1, l1⟩ := p1
            cases hj2 : jumpArgs (codeSize cb + 2 + 8) with
            | none => simp [hcl, hch, hcb, hj1, hj2] at hc
            | some p2 =>
              obtain ⟨h2, l2⟩ := p2
              simp only [hcl, hch, hcb, hj1, hj2, Option.some.injEq, Prod.mk.injEq] at hc
              obtain ⟨hc1, hc2⟩ := hc
              subst hc1 hc2
              obtain ⟨hres, hnsb, _⟩ := hns
              -- reassociate the code
              have hcode' : CodeAt code pc (.pushNull :: .loadName "RightOpenRange" :: (cl ++ (ch ++ (.call 2 :: .getIter ::
                  (.extArg h1 :: .forIter l1 :: .storeName i :: (cb ++ (.extArg h2 :: .jumpBackward l2 :: [.loadConst .none]))))))) := by
                simpa [List.append_assoc] using hcode
              have hsize : codeSize ([Instr.pushNull, .loadName "RightOpenRange"] ++ cl ++ ch ++ [.call 2, .getIter, .extArg h1, .forIter l1, .storeName i]
                  ++ cb ++ [.extArg h2, .jumpBackward l2, .loadConst .none])
                  = 2 + 2 + codeSize cl + codeSize ch + 14 + 2 + 4 + 2 + codeSize cb + 4 + 2 := by
                simp [Instr.size]; omega
              rw [hsize]
              have r0 : Reaches code ⟨pc, 0, st, env, out⟩ ⟨pc + 2 + 2, 0, .rangeCtor :: .null :: st, env, out⟩ :=
                (exec_pushNull hcode').trans (exec_loadName (by simpa [Instr.size] using hcode'.tail) (lookup_range henv))
              have hrest := hcode'.tail.tail
              simp only [Instr.size] at hrest
              have hlo : CodeAt code (pc + 2 + 2) cl := hrest.left
              have hrest2 := hrest.right
              have hhi : CodeAt code (pc + 2 + 2 + codeSize cl) ch := hrest2.left
              have hrest3 := hrest2.right
              have hcall := hrest3
              have hget : CodeAt code (pc + 2 + 2 + codeSize cl + codeSize ch + 14) (.getIter :: (.extArg h1 :: .forIter l1 :: .storeName i ::
                  (cb ++ (.extArg h2 :: .jumpBackward l2 :: [.loadConst .none])))) := by
                simpa [Instr.size] using hrest3.tail
              have hloop : CodeAt code (pc + 2 + 2 + codeSize cl + codeSize ch + 14 + 2) (.extArg h1 :: .forIter l1 :: .storeName i ::
                  (cb ++ (.extArg h2 :: .jumpBackward l2 :: [.loadConst .none]))) := by
                simpa [Instr.size] using hget.tail
              have e1 := exec_expr lo cl hcl code (pc + 2 + 2) (.rangeCtor :: .null :: st) env out hlo henv
              simp only [topW]
              cases hEl : evalW env lo with
              | error ex =>
                simp only [hEl, ExecSpec] at e1 ⊢
                exact r0.halts e1
              | ok ra =>
                obtain ⟨va, c1⟩ := ra
                simp only [hEl, ExecSpec] at e1 ⊢
                have e2 := exec_expr hi ch hch code (pc + 2 + 2 + codeSize cl) (va :: .rangeCtor :: .null :: st) env out hhi henv
                cases hEh : evalW env hi with
                | error ex =>
                  simp only [hEh, ExecSpec] at e2 ⊢
                  exact (r0.trans e1).halts e2
                | ok rb =>
                  obtain ⟨vb, c2⟩ := rb
                  simp only [hEh, ExecSpec] at e2 ⊢
                  have rpre := (r0.trans e1).trans e2
                  have fcall := hcall.fetch
                  -- the call of RightOpenRange on the two bounds
                  cases va with
                  | int a =>
                    cases vb with
                    | int b =>
                      have rcall : Reaches code ⟨pc + 2 + 2 + codeSize cl + codeSize ch, 0, .int b :: .int a :: .rangeCtor :: .null :: st, env, out⟩
                          ⟨pc + 2 + 2 + codeSize cl + codeSize ch + 14, 0, .range a b :: st, env, out⟩ :=
                        Reaches.step1 (by simp [step, fcall, popArgs, Instr.size])
                      have rget : Reaches code ⟨pc + 2 + 2 + codeSize cl + codeSize ch + 14, 0, .range a b :: st, env, out⟩
                          ⟨pc + 2 + 2 + codeSize cl + codeSize ch + 14 + 2, 0, .iter a b :: st, env, out⟩ :=
                        Reaches.step1 (by simp [step, hget.fetch, Instr.size])
                      have hl := exec_loop i body cb h1 l1 h2 l2 hcb hj1 hj2 code _ [.loadConst .none] hloop hres hnsb
                        (b - a).toNat a b st env out (clean && c1 && c2) rfl henv
                      have hnone : CodeAt code (pc + 2 + 2 + codeSize cl + codeSize ch + 14 + 2 + 4 + 2 + codeSize cb + 4) [.loadConst .none] := by
                        have h3 := hloop.tail.tail.tail
                        simp only [Instr.size] at h3
                        have h4 := h3.right.tail.tail
                        simpa [Instr.size, Nat.add_assoc] using h4
                      cases hL : loopW i body (b - a).toNat a env out (clean && c1 && c2) with
                      | error e =>
                        obtain ⟨ex, o⟩ := e
                        simp only [hL] at hl ⊢
                        exact ((rpre.trans rcall).trans rget).halts hl
                      | ok r =>
                        obtain ⟨env', out', cl'⟩ := r
                        simp only [hL] at hl ⊢
                        refine ⟨[.none], ?_, by simp, hl.2⟩
                        have rend := exec_loadConst (st := st) (env := env') (out := out') hnone
                        have := (((rpre.trans rcall).trans rget).trans hl.1).trans rend
                        simpa [Const.toVal, Nat.add_assoc] using this
                    | _ =>
                      simp only []
                      exact rpre.halts (HaltsWith.now (by simp [step, fcall, popArgs, raise]))
                  | _ =>
                    simp only []
                    exact rpre.halts (HaltsWith.now (by simp [step, fcall, popArgs, raise]))

theorem NoShadowT.head {t : Top} {ts : List Top} (h : NoShadowT (t :: ts)) : NoShadowT [t] := by
  cases t <;> simp_all [NoShadowT]

theorem NoShadowT.tail {t : Top} {ts : List Top} (h : NoShadowT (t :: ts)) : NoShadowT ts := by
  cases t with
  | stmt s => exact h.2
  | forRange i lo hi body => exact h.2.2

/-- whole programs with loops: the machine halts with the outcome of the wrapper-aware source semantics -/
theorem exec_tops : ∀ (ts : List Top) (cs : List Instr), compileTops ts = some cs →
    ∀ (code : List Instr) (pc : Nat) (env : Env) (out : List (List Char)) (clean : Bool),
    CodeAt code pc cs → EnvOk env → NoShadowT ts →
    HaltsWith code ⟨pc, 0, [], env, out⟩ (execTopsW ts env out clean).1
  | [], cs, hcs, code, pc, env, out, clean, hcode, _, _ => by
    simp only [compileTops, Option.some.injEq] at hcs
    subst hcs
    exact (exec_loadConst hcode).halts (exec_return (by simpa [Instr.size] using hcode.tail))
  | [t], cs, hcs, code, pc, env, out, clean, hcode, henv, hns => by
    simp only [compileTops] at hcs
    cases hc : compileTop t with
    | none => simp [hc] at hcs
    | some p =>
      obtain ⟨c, leaves⟩ := p
      simp only [hc, Option.some.injEq] at hcs
      subst hcs
      have hcc : CodeAt code pc c := hcode.left.left
      have h1 := exec_top t c leaves hc code pc [] env out clean hcc henv hns
      simp only [execTopsW]
      cases hT : topW t env out clean with
      | error e => obtain ⟨ex, o⟩ := e; simpa [hT] using h1
      | ok r =>
        obtain ⟨env', out', cl'⟩ := r
        simp only [hT] at h1 ⊢
        obtain ⟨vals, hr, hl, _⟩ := h1
        cases leaves with
        | false =>
          have hv : vals = [] := by simpa using hl
          subst hv
          have hrest : CodeAt code (pc + codeSize c) [.loadConst .none, .returnValue] := by
            have : CodeAt code pc (c ++ [.loadConst .none, .returnValue]) := by simpa [List.append_assoc] using hcode
            exact this.right
          simp only [List.nil_append] at hr
          exact hr.halts ((exec_loadConst hrest).halts (exec_return (by simpa [Instr.size] using hrest.tail)))
        | true =>
          have hrest : CodeAt code (pc + codeSize c) [.returnValue] := by
            have : CodeAt code pc (c ++ [.returnValue]) := by simpa [List.append_assoc] using hcode
            exact this.right
          exact hr.halts (exec_return hrest)
  | t :: t2 :: ts, cs, hcs, code, pc, env, out, clean, hcode, henv, hns => by
    simp only [compileTops] at hcs
    cases hc : compileTop t with
    | none => simp [hc] at hcs
    | some p =>
      obtain ⟨c, leaves⟩ := p
      cases hcs' : compileTops (t2 :: ts) with
      | none => simp [hc, hcs'] at hcs
      | some cs' =>
        simp only [hc, hcs', Option.some.injEq] at hcs
        subst hcs
        have hcc : CodeAt code pc c := hcode.left.left
        have h1 := exec_top t c leaves hc code pc [] env out clean hcc henv hns.head
        simp only [execTopsW]
        cases hT : topW t env out clean with
        | error e => obtain ⟨ex, o⟩ := e; simpa [hT] using h1
        | ok r =>
          obtain ⟨env', out', cl'⟩ := r
          simp only [hT] at h1 ⊢
          obtain ⟨vals, hr, hl, henv'⟩ := h1
          cases leaves with
          | false =>
            have hv : vals = [] := by simpa using hl
            subst hv
            have hrest : CodeAt code (pc + codeSize c) cs' := by
              have : CodeAt code pc (c ++ cs') := by simpa [List.append_assoc] using hcode
              exact this.right
            simp only [List.nil_append] at hr
            exact hr.halts (exec_tops (t2 :: ts) cs' hcs' code _ env' out' cl' hrest henv' hns.tail)
          | true =>
            obtain ⟨v, hv⟩ : ∃ v, vals = [v] := by
              match vals, hl with
              | [v], _ => exact ⟨v, rfl⟩
            subst hv
            have hrest : CodeAt code (pc + codeSize c) (.popTop :: cs') := by
              have : CodeAt code pc (c ++ (.popTop :: cs')) := by simpa [List.append_assoc] using hcode
              exact this.right
            have hpop : Reaches code ⟨pc + codeSize c, 0, [v], env', out'⟩ ⟨pc + codeSize c + 2, 0, [], env', out'⟩ :=
              Reaches.step1 (by simp [step, hrest.fetch, Instr.size])
            have hrest' : CodeAt code (pc + codeSize c + 2) cs' := by simpa [Instr.size] using hrest.tail
            simp only [List.singleton_append] at hr
            exact (hr.trans hpop).halts (exec_tops (t2 :: ts) cs' hcs' code _ env' out' cl' hrest' henv' hns.tail)

end ErgVerif.C01
