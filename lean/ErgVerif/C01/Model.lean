/-
C01 (stages 1–2) — model of the code generator for Python 3.11 on the scalar fragment with conditionals and counting
loops, a model of
the CPython 3.11 evaluation loop for exactly the instructions that fragment compiles to, the wrapper-aware
source semantics, and the plain "Python-semantics reading" of the source.

Transcribed from /repo/crates/erg_compiler/codegen.rs (target 3.11):
  `emit` (top level: one chunk after the other, `POP_TOP` after a chunk that leaves a value, `cancel_if_pop_top`,
  `LOAD_CONST None` when the last chunk leaves nothing, `RETURN_VALUE`), `emit_chunk` (no wrapper at chunk level),
  `emit_expr` (the `Nat/Int/Str/Bool(...)` wrapper around literals, names, calls, binary and unary operations
  whose derefined type is one of those classes: `PUSH_NULL; LOAD_NAME cls; …; PRECALL 1; CALL 1`),
  `emit_load_const`, `emit_acc` (identifier), `emit_var_def` (`STORE_NAME`), `emit_binop` / `emit_binop_instr_311`
  (`BINARY_OP k` + 1 cache entry, `COMPARE_OP k` + 2 cache entries, short-circuit `and`/`or` as
  `EXTENDED_ARG hi; JUMP_IF_{FALSE,TRUE}_OR_POP lo` with the byte distance patched by `fill_jump`),
  `emit_unaryop` (`UNARY_NEGATIVE`), `emit_not_instr` (`UNARY_NOT`), `emit_if_instr` (both branches, one-expression bodies through `emit_simple_block`), `emit_call_local` default arm + `emit_args_311`
  (`PUSH_NULL; LOAD_NAME f; args…; PRECALL n; CALL n`), `emit_precall_and_call`.
Constant/name *indices* are resolved (an instruction carries the constant or the name itself); the real code object is
decoded to the same form by the harness, which refuses (`out-of-model`) code containing an index ≥ 256.
Sizes are in bytes, jump arguments in code units, exactly as in the 3.11 byte stream.

`emit_for_instr` + `emit_control_block` for `for! lo..<hi, i => chunks` (`GET_ITER`, `EXTENDED_ARG; FOR_ITER`, `STORE_NAME i`,
  body chunks each popped, `EXTENDED_ARG; JUMP_BACKWARD`, `LOAD_CONST None`) with `RightOpenRange`/`RangeIterator` of
  `_erg_range.py` as machine values (section "Programs with `for!` loops" at the end of this file).
Not modelled here (tied behaviourally by the second stream of the check): the import prelude, floats, lists, `while!`,
nested loops, the one-branch `if`, `if!` statements, user subroutines, other target versions.
Import-free: the driver links as a `lean_exe`.
-/
namespace ErgVerif.C01

/-- wrapper classes of the runtime library that `emit_expr` may wrap a value in -/
inductive Cls where
  | bool | nat | int | str
  deriving DecidableEq, Repr

def Cls.name : Cls → String
  | .bool => "Bool" | .nat => "Nat" | .int => "Int" | .str => "Str"

/-- constants of the fragment (what `ValueObj` literals marshal to) -/
inductive Const where
  | int (i : Int)
  | str (s : List Char)
  | bool (b : Bool)
  | none
  deriving DecidableEq, Repr

inductive BinOp where
  | add | sub | mul | floordiv | mod
  deriving DecidableEq, Repr

inductive CmpOp where
  | lt | le | eq | ne | gt | ge
  deriving DecidableEq, Repr

/-- mini-HIR of the fragment. `w` is the wrapper class `emit_expr` derives from the node's type
    (`none`: the derefined type is not one of Bool/Nat/Int/Str, or the node kind is never wrapped). -/
inductive Expr where
  | lit (c : Const) (w : Option Cls)
  | var (x : String) (w : Option Cls)
  | bin (op : BinOp) (l r : Expr) (w : Option Cls)
  | cmp (op : CmpOp) (l r : Expr) (w : Option Cls)
  | and (l r : Expr) (w : Option Cls)
  | or (l r : Expr) (w : Option Cls)
  | neg (e : Expr) (w : Option Cls)
  | not (e : Expr) (w : Option Cls)
  /-- `if(c, do a, do b)` with one-expression branch bodies. The branches are held in *chunk form* (`stripWrap`
      applied by whoever builds the node): `emit_if_instr` emits a branch body through `emit_simple_block`/`emit_chunk`,
      which does not apply the node's own wrapper. -/
  | ite (c a b : Expr) (w : Option Cls)
  deriving Repr

/-- `emit_expr`'s wrapper decision: `should_wrap()` and the structural variant of the derefined type
    (`Bool | Nat | Int | Float | Str` ⇒ wrap with that class; the container names `Bytes/List/Dict/Set` ⇒ wrap with
    those — outside this model, as is `Float`; anything else ⇒ no wrapper). Outer `none` = outside the model. -/
def wrapOf (shouldWrap : Bool) (tyKind : String) : Option (Option Cls) :=
  if !shouldWrap then some none
  else if tyKind = "Bool" then some (some .bool)
  else if tyKind = "Nat" then some (some .nat)
  else if tyKind = "Int" then some (some .int)
  else if tyKind = "Str" then some (some .str)
  else if tyKind = "Float" then none
  else if tyKind = "other:Bytes" || tyKind = "other:List" || tyKind = "other:Dict" || tyKind = "other:Set" then none
  else some none

/-- `escape_ident`/`escape_name` for the identifiers of the fragment: a Python name when the variable has one
    (`print!` ↦ `print`), the bare name for parameters, otherwise private names are mangled with their definition site
    (`::x_L1`, `::x_L1_C4`, `::x_C4`, `::x`); public names are kept. Names containing `!` or `$` are outside the model. -/
def escapeIdent (name : String) (isPrivate : Bool) (line col : Nat) (pyName : String) (isParam : Bool) : Option String :=
  if pyName ≠ "" then some pyName
  else if isParam then some name
  else if name.toList.any (fun c => c = '!' || c = '$') then none
  else if isPrivate && !(name.toList.head? = some '%') then
    let m := if line = 0 && col = 0 then ""
      else if line = 0 then "_C" ++ toString col
      else if col = 0 then "_L" ++ toString line
      else "_L" ++ toString line ++ "_C" ++ toString col
    some ("::" ++ name ++ m)
  else some name

/-- top-level chunks -/
inductive Stmt where
  | defv (x : String) (e : Expr)          -- `x = e`
  | print (args : List Expr)              -- `print!(e₁, …, eₙ)`
  | expr (e : Expr)                       -- a bare expression chunk (its value is discarded)
  deriving Repr

abbrev Prog := List Stmt

/-! ### Instructions (3.11), byte sizes including inline cache entries -/

inductive Instr where
  | pushNull
  | loadConst (c : Const)
  | loadName (x : String)
  | storeName (x : String)
  | call (argc : Nat)                     -- `PRECALL argc` (+1 cache) followed by `CALL argc` (+4 cache)
  | binaryOp (op : BinOp)                 -- +1 cache
  | compareOp (op : CmpOp)                -- +2 cache
  | unaryNeg
  | unaryNot
  | extArg (hi : Nat)
  | jumpIfFalseOrPop (lo : Nat)
  | jumpIfTrueOrPop (lo : Nat)
  | popJumpIfFalse (lo : Nat)             -- `POP_JUMP_FORWARD_IF_FALSE`
  | jumpForward (lo : Nat)
  | getIter
  | forIter (lo : Nat)
  | jumpBackward (lo : Nat)
  | popTop
  | returnValue
  deriving DecidableEq, Repr

def Instr.size : Instr → Nat
  | .call _ => 14
  | .binaryOp _ => 4
  | .compareOp _ => 6
  | _ => 2

def codeSize : List Instr → Nat
  | [] => 0
  | i :: is => i.size + codeSize is

/-! ### The code generator -/

def wrapPre : Option Cls → List Instr
  | none => []
  | some c => [.pushNull, .loadName c.name]

def wrapPost : Option Cls → List Instr
  | none => []
  | some _ => [.call 1]

/-- `fill_jump(idx + 1, lasti − idx − 4)`: the distance in code units, split big-endian over the `EXTENDED_ARG`
    argument and the jump argument; `u16::try_from(arg).unwrap()` panics from 65536 on. -/
def jumpArgs (rhsBytes : Nat) : Option (Nat × Nat) :=
  let arg := rhsBytes / 2
  if arg < 65536 then some (arg / 256, arg % 256) else none

/-- `emit_expr`; `none` = the compiler panics (`fill_jump` overflow) -/
def compileE : Expr → Option (List Instr)
  | .lit c w => some (wrapPre w ++ [.loadConst c] ++ wrapPost w)
  | .var x w => some (wrapPre w ++ [.loadName x] ++ wrapPost w)
  | .bin op l r w =>
    match compileE l, compileE r with
    | some cl, some cr => some (wrapPre w ++ cl ++ cr ++ [.binaryOp op] ++ wrapPost w)
    | _, _ => none
  | .cmp op l r w =>
    match compileE l, compileE r with
    | some cl, some cr => some (wrapPre w ++ cl ++ cr ++ [.compareOp op] ++ wrapPost w)
    | _, _ => none
  | .and l r w =>
    match compileE l, compileE r with
    | some cl, some cr =>
      match jumpArgs (codeSize cr) with
      | some (hi, lo) => some (wrapPre w ++ cl ++ [.extArg hi, .jumpIfFalseOrPop lo] ++ cr ++ wrapPost w)
      | none => none
    | _, _ => none
  | .or l r w =>
    match compileE l, compileE r with
    | some cl, some cr =>
      match jumpArgs (codeSize cr) with
      | some (hi, lo) => some (wrapPre w ++ cl ++ [.extArg hi, .jumpIfTrueOrPop lo] ++ cr ++ wrapPost w)
      | none => none
    | _, _ => none
  | .neg e w =>
    match compileE e with
    | some c => some (wrapPre w ++ c ++ [.unaryNeg] ++ wrapPost w)
    | none => none
  | .not e w =>
    match compileE e with
    | some c => some (wrapPre w ++ c ++ [.unaryNot] ++ wrapPost w)
    | none => none
  | .ite c a b w =>
    -- `emit_if_instr`: cond; EXTENDED_ARG, POP_JUMP_FORWARD_IF_FALSE → else; then; EXTENDED_ARG, JUMP_FORWARD → end; else.
    -- `fill_jump(idx_pop + 1, lasti − idx_pop − 4)` and `fill_jump(idx_jf + 1, idx_end − idx_jf − 2 − 1)`
    match compileE c, compileE a, compileE b with
    | some cc, some ca, some cb =>
      -- (idx_end − idx_jf = 4 + |else code|, so the second distance is |else code| + 4 − 2 − 1 = |else code| + 1 bytes,
      --  halved with rounding down by `fill_jump`)
      match jumpArgs (codeSize ca + 4), jumpArgs (codeSize cb + 1) with
      | some (h1, l1), some (h2, l2) =>
        some (wrapPre w ++ cc ++ [.extArg h1, .popJumpIfFalse l1] ++ ca ++ [.extArg h2, .jumpForward l2] ++ cb ++ wrapPost w)
      | _, _ => none
    | _, _, _ => none

def compileArgs : List Expr → Option (List Instr)
  | [] => some []
  | e :: es =>
    match compileE e, compileArgs es with
    | some c, some cs => some (c ++ cs)
    | _, _ => none

/-- `emit_chunk` for a bare expression: the node's own wrapper is NOT applied at chunk level -/
def stripWrap : Expr → Expr
  | .lit c _ => .lit c none
  | .var x _ => .var x none
  | .bin op l r _ => .bin op l r none
  | .cmp op l r _ => .cmp op l r none
  | .and l r _ => .and l r none
  | .or l r _ => .or l r none
  | .neg e _ => .neg e none
  | .not e _ => .not e none
  | .ite c a b _ => .ite c a b none

/-- code of one chunk and whether it leaves a value on the stack -/
def compileS : Stmt → Option (List Instr × Bool)
  | .defv x e =>
    match compileE e with
    | some c => some (c ++ [.storeName x], false)
    | none => none
  | .print args =>
    match compileArgs args with
    | some cs => some ([.pushNull, .loadName "print"] ++ cs ++ [.call args.length], true)
    | none => none
  | .expr e =>
    match compileE (stripWrap e) with
    | some c => some (c, true)
    | none => none

/-- `emit`: every chunk is followed by `POP_TOP` when it leaves a value; after the last chunk that `POP_TOP` is
    cancelled (`cancel_if_pop_top`: the value becomes the module's return value), and when the last chunk leaves
    nothing `LOAD_CONST None` is emitted; then `RETURN_VALUE`. Written as a recursion over the chunk list. -/
def compileStmts : List Stmt → Option (List Instr)
  | [] => some [.loadConst .none, .returnValue]
  | [s] =>
    match compileS s with
    | some (c, leaves) => some (c ++ (if leaves then [] else [.loadConst .none]) ++ [.returnValue])
    | none => none
  | s :: s2 :: ss =>
    match compileS s, compileStmts (s2 :: ss) with
    | some (c, leaves), some cs => some (c ++ (if leaves then [.popTop] else []) ++ cs)
    | _, _ => none

def compile (p : Prog) : Option (List Instr) := compileStmts p

/-! ### Values, builtins and the wrapper classes of `_erg_std_prelude` (as far as the fragment needs them) -/

inductive Val where
  | int (i : Int)
  | str (s : List Char)
  | bool (b : Bool)
  | none
  | null                       -- the NULL pushed by `PUSH_NULL`
  | cls (c : Cls)
  | printFn
  | rangeCtor                  -- the class `RightOpenRange` of `_erg_range.py`
  | range (lo hi : Int)        -- `RightOpenRange(Nat lo, Nat hi)`
  | iter (cur hi : Int)        -- its `RangeIterator`: yields `cur, cur+1, …` while `cur < hi`
  deriving DecidableEq, Repr

def Const.toVal : Const → Val
  | .int i => .int i
  | .str s => .str s
  | .bool b => .bool b
  | .none => .none

/-- uncaught-exception classes that can arise in the fragment -/
inductive Exc where
  | zeroDivision | typeError | valueError | nameError
  deriving DecidableEq, Repr

def Exc.name : Exc → String
  | .zeroDivision => "ZeroDivisionError" | .typeError => "TypeError"
  | .valueError => "ValueError" | .nameError => "NameError"

/-- how a run ends: printed lines + normal end / uncaught exception / machine stuck (never for compiled code) -/
inductive Exit where
  | ok | exc (e : Exc) | stuck | outOfFuel
  deriving DecidableEq, Repr

structure Outcome where
  out : List (List Char)
  exit : Exit
  deriving DecidableEq, Repr

def truthy : Val → Bool
  | .int i => i != 0
  | .str s => !s.isEmpty
  | .bool b => b
  | .none => false
  | _ => true

def asInt? : Val → Option Int
  | .int i => some i
  | .bool b => some (if b then 1 else 0)
  | _ => Option.none

/-- Python `l op r` on the values of the fragment (int/bool arithmetic; `str + str`, `str * int`) -/
def pyBin (op : BinOp) (l r : Val) : Except Exc Val :=
  match op, l, r with
  | .add, .str a, .str b => .ok (.str (a ++ b))
  | _, _, _ =>
    match asInt? l, asInt? r with
    | some a, some b =>
      match op with
      | .add => .ok (.int (a + b))
      | .sub => .ok (.int (a - b))
      | .mul => .ok (.int (a * b))
      | .floordiv => if b = 0 then .error .zeroDivision else .ok (.int (Int.fdiv a b))
      | .mod => if b = 0 then .error .zeroDivision else .ok (.int (Int.fmod a b))
    | _, _ => .error .typeError

def cmpInt (op : CmpOp) (a b : Int) : Bool :=
  match op with
  | .lt => a < b | .le => a ≤ b | .eq => a = b | .ne => a ≠ b | .gt => a > b | .ge => a ≥ b

def pyCmp (op : CmpOp) (l r : Val) : Except Exc Val :=
  match asInt? l, asInt? r with
  | some a, some b => .ok (.bool (cmpInt op a b))
  | _, _ =>
    match op, l, r with
    | .eq, .str a, .str b => .ok (.bool (a = b))
    | .ne, .str a, .str b => .ok (.bool (a ≠ b))
    | .eq, _, _ => .ok (.bool (l = r))
    | .ne, _, _ => .ok (.bool (l ≠ r))
    | _, _, _ => .error .typeError

def pyNeg (v : Val) : Except Exc Val :=
  match asInt? v with
  | some a => .ok (.int (-a))
  | Option.none => .error .typeError

/-- calling a wrapper class on one argument (`_erg_nat.Nat.__init__` raises ValueError on a negative value; the
    wrappers are subclasses of int/str/… whose printed form is that of the wrapped value). A wrapper applied to a value
    of another kind *converts* it (`Nat(True)` is `1`, `Str(3)` is `"3"`): modelled, and flagged as unclean below. -/
def wrapCall (c : Cls) (v : Val) : Except Exc Val :=
  match c, v with
  | .nat, .int i => if i < 0 then .error .valueError else .ok (.int i)
  | .nat, .bool b => .ok (.int (if b then 1 else 0))
  | .int, .int i => .ok (.int i)
  | .int, .bool b => .ok (.int (if b then 1 else 0))
  | .str, .str s => .ok (.str s)
  | .bool, .bool b => .ok (.bool b)
  | .bool, .int i => .ok (.bool (i != 0))
  | _, _ => .error .typeError

/-- the wrapper leaves the value observably unchanged -/
def wrapClean (c : Cls) (v : Val) : Bool :=
  match c, v with
  | .nat, .int i => i ≥ 0
  | .int, .int _ => true
  | .str, .str _ => true
  | .bool, .bool _ => true
  | _, _ => false

def natRepr (n : Nat) : List Char := (toString n).toList

def intRepr (i : Int) : List Char :=
  match i with
  | .ofNat n => natRepr n
  | .negSucc n => '-' :: natRepr (n + 1)

/-- `str(v)` as `print` shows it -/
def showVal : Val → List Char
  | .int i => intRepr i
  | .str s => s
  | .bool b => if b then "True".toList else "False".toList
  | .none => "None".toList
  | .null => "<NULL>".toList
  | .cls c => ("<class '" ++ c.name ++ "'>").toList
  | .printFn => "<built-in function print>".toList
  | .rangeCtor => "<class 'RightOpenRange'>".toList
  | .range _ _ => "<RightOpenRange object>".toList
  | .iter _ _ => "<RangeIterator object>".toList

def joinSp : List (List Char) → List Char
  | [] => []
  | [x] => x
  | x :: xs => x ++ ' ' :: joinSp xs

abbrev Env := List (String × Val)

def Env.get (env : Env) (x : String) : Option Val :=
  match env with
  | [] => Option.none
  | (y, v) :: rest => if x = y then some v else Env.get rest x

/-- builtins visible through `from _erg_std_prelude import *` and Python's builtins -/
def builtin (x : String) : Option Val :=
  if x = "Nat" then some (.cls .nat)
  else if x = "Int" then some (.cls .int)
  else if x = "Str" then some (.cls .str)
  else if x = "Bool" then some (.cls .bool)
  else if x = "print" then some .printFn
  else if x = "RightOpenRange" then some .rangeCtor
  else Option.none

def lookup (env : Env) (x : String) : Option Val :=
  match env.get x with
  | some v => some v
  | Option.none => builtin x

/-! ### The 3.11 machine for these instructions -/

structure VM where
  pc : Nat                     -- byte offset of the next instruction
  ext : Nat                    -- pending EXTENDED_ARG value
  stack : List Val             -- head = top
  env : Env
  out : List (List Char)       -- printed lines, most recent first
  deriving Repr

/-- the instruction starting at byte offset `pc` (none when `pc` is not an instruction boundary or past the end) -/
def fetch : List Instr → Nat → Option Instr
  | [], _ => Option.none
  | i :: is, pc => if pc = 0 then some i else if pc < i.size then Option.none else fetch is (pc - i.size)

inductive StepResult where
  | next (s : VM)
  | halt (o : Outcome)

def raise (s : VM) (e : Exc) : StepResult := .halt ⟨s.out.reverse, .exc e⟩
def stuckAt (s : VM) : StepResult := .halt ⟨s.out.reverse, .stuck⟩

/-- pop `n` arguments (returned in call order) -/
def popArgs : Nat → List Val → Option (List Val × List Val)
  | 0, st => some ([], st)
  | _ + 1, [] => Option.none
  | n + 1, v :: st =>
    match popArgs n st with
    | some (args, rest) => some (args ++ [v], rest)
    | Option.none => Option.none

def step (code : List Instr) (s : VM) : StepResult :=
  match fetch code s.pc with
  | Option.none => stuckAt s
  | some i =>
    let pc' := s.pc + i.size
    match i with
    | .pushNull => .next { s with pc := pc', ext := 0, stack := .null :: s.stack }
    | .loadConst c => .next { s with pc := pc', ext := 0, stack := c.toVal :: s.stack }
    | .loadName x =>
      match lookup s.env x with
      | some v => .next { s with pc := pc', ext := 0, stack := v :: s.stack }
      | Option.none => raise s .nameError
    | .storeName x =>
      match s.stack with
      | v :: st => .next { s with pc := pc', ext := 0, stack := st, env := (x, v) :: s.env }
      | [] => stuckAt s
    | .popTop =>
      match s.stack with
      | _ :: st => .next { s with pc := pc', ext := 0, stack := st }
      | [] => stuckAt s
    | .returnValue => .halt ⟨s.out.reverse, .ok⟩
    | .binaryOp op =>
      match s.stack with
      | r :: l :: st =>
        match pyBin op l r with
        | .ok v => .next { s with pc := pc', ext := 0, stack := v :: st }
        | .error e => raise s e
      | _ => stuckAt s
    | .compareOp op =>
      match s.stack with
      | r :: l :: st =>
        match pyCmp op l r with
        | .ok v => .next { s with pc := pc', ext := 0, stack := v :: st }
        | .error e => raise s e
      | _ => stuckAt s
    | .unaryNeg =>
      match s.stack with
      | v :: st =>
        match pyNeg v with
        | .ok v' => .next { s with pc := pc', ext := 0, stack := v' :: st }
        | .error e => raise s e
      | [] => stuckAt s
    | .unaryNot =>
      match s.stack with
      | v :: st => .next { s with pc := pc', ext := 0, stack := .bool (!truthy v) :: st }
      | [] => stuckAt s
    | .extArg hi => .next { s with pc := pc', ext := s.ext * 256 + hi }
    | .jumpIfFalseOrPop lo =>
      match s.stack with
      | v :: st =>
        if truthy v then .next { s with pc := pc', ext := 0, stack := st }
        else .next { s with pc := pc' + 2 * (s.ext * 256 + lo), ext := 0 }
      | [] => stuckAt s
    | .jumpIfTrueOrPop lo =>
      match s.stack with
      | v :: st =>
        if truthy v then .next { s with pc := pc' + 2 * (s.ext * 256 + lo), ext := 0 }
        else .next { s with pc := pc', ext := 0, stack := st }
      | [] => stuckAt s
    | .popJumpIfFalse lo =>
      match s.stack with
      | v :: st =>
        if truthy v then .next { s with pc := pc', ext := 0, stack := st }
        else .next { s with pc := pc' + 2 * (s.ext * 256 + lo), ext := 0, stack := st }
      | [] => stuckAt s
    | .jumpForward lo => .next { s with pc := pc' + 2 * (s.ext * 256 + lo), ext := 0 }
    | .getIter =>
      match s.stack with
      | .range a b :: st => .next { s with pc := pc', ext := 0, stack := .iter a b :: st }
      | _ :: _ => raise s .typeError
      | [] => stuckAt s
    | .forIter lo =>
      -- 3.11: the iterator stays on the stack while it yields; when exhausted it is popped and the jump is taken
      match s.stack with
      | .iter cur hi :: st =>
        if cur < hi then .next { s with pc := pc', ext := 0, stack := .int cur :: .iter (cur + 1) hi :: st }
        else .next { s with pc := pc' + 2 * (s.ext * 256 + lo), ext := 0, stack := st }
      | _ => stuckAt s
    | .jumpBackward lo => .next { s with pc := pc' - 2 * (s.ext * 256 + lo), ext := 0 }
    | .call argc =>
      match popArgs argc s.stack with
      | some (args, f :: .null :: st) =>
        match f with
        | .cls c =>
          match args with
          | [v] =>
            match wrapCall c v with
            | .ok v' => .next { s with pc := pc', ext := 0, stack := v' :: st }
            | .error e => raise s e
          | _ => raise s .typeError
        | .printFn =>
          .next { s with pc := pc', ext := 0, stack := .none :: st, out := joinSp (args.map showVal) :: s.out }
        | .rangeCtor =>
          match args with
          | [.int a, .int b] => .next { s with pc := pc', ext := 0, stack := .range a b :: st }
          | _ => raise s .typeError
        | _ => raise s .typeError
      | _ => stuckAt s

def runN (code : List Instr) : Nat → VM → Outcome
  | 0, s => ⟨s.out.reverse, .outOfFuel⟩
  | n + 1, s =>
    match step code s with
    | .halt o => o
    | .next s' => runN code n s'

def VM.init : VM := ⟨0, 0, [], [], []⟩

/-- run with a generous fuel (loops jump backwards, so the byte count no longer bounds the number of steps; the driver
    reports `out-of-fuel` when this is not enough, and the theorems about `vmRun` are conditional on that not happening) -/
def vmRun (code : List Instr) : Outcome := runN code (1000 * codeSize code + 100000) VM.init

/-! ### Source semantics with the wrappers (`evalW`) -/

/-- result of evaluating an expression: value and whether every wrapper met so far was clean -/
abbrev R := Except Exc (Val × Bool)

def applyWrap (w : Option Cls) (v : Val) (clean : Bool) : R :=
  match w with
  | Option.none => .ok (v, clean)
  | some c =>
    match wrapCall c v with
    | .ok v' => .ok (v', clean && wrapClean c v)
    | .error e => .error e

def evalW (env : Env) : Expr → R
  | .lit c w => applyWrap w c.toVal true
  | .var x w =>
    match lookup env x with
    | some v => applyWrap w v true
    | Option.none => .error .nameError
  | .bin op l r w =>
    match evalW env l with
    | .error e => .error e
    | .ok (a, c1) =>
      match evalW env r with
      | .error e => .error e
      | .ok (b, c2) =>
        match pyBin op a b with
        | .ok v => applyWrap w v (c1 && c2)
        | .error e => .error e
  | .cmp op l r w =>
    match evalW env l with
    | .error e => .error e
    | .ok (a, c1) =>
      match evalW env r with
      | .error e => .error e
      | .ok (b, c2) =>
        match pyCmp op a b with
        | .ok v => applyWrap w v (c1 && c2)
        | .error e => .error e
  | .and l r w =>
    match evalW env l with
    | .error e => .error e
    | .ok (a, c1) =>
      if truthy a then
        match evalW env r with
        | .error e => .error e
        | .ok (b, c2) => applyWrap w b (c1 && c2)
      else applyWrap w a c1
  | .or l r w =>
    match evalW env l with
    | .error e => .error e
    | .ok (a, c1) =>
      if truthy a then applyWrap w a c1
      else
        match evalW env r with
        | .error e => .error e
        | .ok (b, c2) => applyWrap w b (c1 && c2)
  | .neg e w =>
    match evalW env e with
    | .error x => .error x
    | .ok (a, c1) =>
      match pyNeg a with
      | .ok v => applyWrap w v c1
      | .error x => .error x
  | .not e w =>
    match evalW env e with
    | .error x => .error x
    | .ok (a, c1) => applyWrap w (.bool (!truthy a)) c1
  | .ite c a b w =>
    match evalW env c with
    | .error x => .error x
    | .ok (vc, c0) =>
      if truthy vc then
        match evalW env a with
        | .error x => .error x
        | .ok (va, c1) => applyWrap w va (c0 && c1)
      else
        match evalW env b with
        | .error x => .error x
        | .ok (vb, c2) => applyWrap w vb (c0 && c2)

def evalArgsW (env : Env) : List Expr → Except Exc (List Val × Bool)
  | [] => .ok ([], true)
  | e :: es =>
    match evalW env e with
    | .error x => .error x
    | .ok (v, c1) =>
      match evalArgsW env es with
      | .error x => .error x
      | .ok (vs, c2) => .ok (v :: vs, c1 && c2)

/-- run the chunks; result: outcome and the clean flag (true = no wrapper changed a value or failed so far) -/
def execW : List Stmt → Env → List (List Char) → Bool → Outcome × Bool
  | [], _, out, clean => (⟨out.reverse, .ok⟩, clean)
  | s :: ss, env, out, clean =>
    match s with
    | .defv x e =>
      match evalW env e with
      | .error ex => (⟨out.reverse, .exc ex⟩, false)
      | .ok (v, c) => execW ss ((x, v) :: env) out (clean && c)
    | .print args =>
      match evalArgsW env args with
      | .error ex => (⟨out.reverse, .exc ex⟩, false)
      | .ok (vs, c) => execW ss env (joinSp (vs.map showVal) :: out) (clean && c)
    | .expr e =>
      match evalW env (stripWrap e) with
      | .error ex => (⟨out.reverse, .exc ex⟩, false)
      | .ok (_, c) => execW ss env out (clean && c)

def runW (p : Prog) : Outcome × Bool := execW p [] [] true

/-! ### Specification: the Python-semantics reading of the source (no runtime wrappers at all) -/

def evalPy (env : Env) : Expr → Except Exc Val
  | .lit c _ => .ok c.toVal
  | .var x _ =>
    match lookup env x with
    | some v => .ok v
    | Option.none => .error .nameError
  | .bin op l r _ =>
    match evalPy env l with
    | .error e => .error e
    | .ok a =>
      match evalPy env r with
      | .error e => .error e
      | .ok b => pyBin op a b
  | .cmp op l r _ =>
    match evalPy env l with
    | .error e => .error e
    | .ok a =>
      match evalPy env r with
      | .error e => .error e
      | .ok b => pyCmp op a b
  | .and l r _ =>
    match evalPy env l with
    | .error e => .error e
    | .ok a => if truthy a then evalPy env r else .ok a
  | .or l r _ =>
    match evalPy env l with
    | .error e => .error e
    | .ok a => if truthy a then .ok a else evalPy env r
  | .neg e _ =>
    match evalPy env e with
    | .error x => .error x
    | .ok a => pyNeg a
  | .not e _ =>
    match evalPy env e with
    | .error x => .error x
    | .ok a => .ok (.bool (!truthy a))
  | .ite c a b _ =>
    match evalPy env c with
    | .error x => .error x
    | .ok vc => if truthy vc then evalPy env a else evalPy env b

def evalArgsPy (env : Env) : List Expr → Except Exc (List Val)
  | [] => .ok []
  | e :: es =>
    match evalPy env e with
    | .error x => .error x
    | .ok v =>
      match evalArgsPy env es with
      | .error x => .error x
      | .ok vs => .ok (v :: vs)

def execPy : List Stmt → Env → List (List Char) → Outcome
  | [], _, out => ⟨out.reverse, .ok⟩
  | s :: ss, env, out =>
    match s with
    | .defv x e =>
      match evalPy env e with
      | .error ex => ⟨out.reverse, .exc ex⟩
      | .ok v => execPy ss ((x, v) :: env) out
    | .print args =>
      match evalArgsPy env args with
      | .error ex => ⟨out.reverse, .exc ex⟩
      | .ok vs => execPy ss env (joinSp (vs.map showVal) :: out)
    | .expr e =>
      match evalPy env e with
      | .error ex => ⟨out.reverse, .exc ex⟩
      | .ok _ => execPy ss env out

def runPy (p : Prog) : Outcome := execPy p [] []

/-- the effect of one chunk at source level: new environment, new output, value left on the stack (if any) -/
def chunk (env : Env) (out : List (List Char)) : Stmt → Except Exc (Env × List (List Char) × Option Val)
  | .defv x e =>
    match evalW env e with
    | .ok (v, _) => .ok ((x, v) :: env, out, none)
    | .error ex => .error ex
  | .print args =>
    match evalArgsW env args with
    | .ok (vs, _) => .ok (env, joinSp (vs.map showVal) :: out, some .none)
    | .error ex => .error ex
  | .expr e =>
    match evalW env (stripWrap e) with
    | .ok (v, _) => .ok (env, out, some v)
    | .error ex => .error ex


/-! ### Programs with `for!` loops over `lo..<hi` (bodies are chunk lists without nested loops) -/

/-- top-level chunks including the counting loop `for! lo..<hi, i => body` -/
inductive Top where
  | stmt (s : Stmt)
  | forRange (i : String) (lo hi : Expr) (body : List Stmt)
  deriving Repr

abbrev LProg := List Top

/-- `emit_control_block` body: every chunk followed by `POP_TOP` when it leaves a value (the cancelled last `POP_TOP` is
    re-emitted by `emit_for_instr`, so every value is popped) -/
def compileBody : List Stmt → Option (List Instr)
  | [] => some []
  | s :: ss =>
    match compileS s, compileBody ss with
    | some (c, leaves), some cs => some (c ++ (if leaves then [.popTop] else []) ++ cs)
    | _, _ => none

/-- `emit_for_instr` (3.11) with the iterable `lo..<hi` emitted by `emit_binop` (`PUSH_NULL; LOAD_NAME RightOpenRange;
    lo; hi; PRECALL 2; CALL 2`): `GET_ITER; EXTENDED_ARG; FOR_ITER → end; STORE_NAME i; body; EXTENDED_ARG; JUMP_BACKWARD →
    the EXTENDED_ARG before FOR_ITER; LOAD_CONST None`.
    `fill_jump(idx_for + 1, idx_end − idx_for − 2 − 2)` and `fill_jump(idx + 1, lasti − idx_for)`. -/
def compileTop : Top → Option (List Instr × Bool)
  | .stmt s => compileS s
  | .forRange i lo hi body =>
    match compileE lo, compileE hi, compileBody body with
    | some cl, some ch, some cb =>
      match jumpArgs (codeSize cb + 2 + 4), jumpArgs (codeSize cb + 2 + 8) with
      | some (h1, l1), some (h2, l2) =>
        some ([.pushNull, .loadName "RightOpenRange"] ++ cl ++ ch ++ [.call 2, .getIter, .extArg h1, .forIter l1, .storeName i]
              ++ cb ++ [.extArg h2, .jumpBackward l2, .loadConst .none], true)
      | _, _ => none
    | _, _, _ => none

def compileTops : List Top → Option (List Instr)
  | [] => some [.loadConst .none, .returnValue]
  | [t] =>
    match compileTop t with
    | some (c, leaves) => some (c ++ (if leaves then [] else [.loadConst .none]) ++ [.returnValue])
    | none => none
  | t :: t2 :: ts =>
    match compileTop t, compileTops (t2 :: ts) with
    | some (c, leaves), some cs => some (c ++ (if leaves then [.popTop] else []) ++ cs)
    | _, _ => none

def compileL (p : LProg) : Option (List Instr) := compileTops p

/-- a loop body at source level: chunks in order; an exception stops with the output printed so far -/
def bodyW : List Stmt → Env → List (List Char) → Bool → Except (Exc × List (List Char)) (Env × List (List Char) × Bool)
  | [], env, out, clean => .ok (env, out, clean)
  | s :: ss, env, out, clean =>
    match s with
    | .defv x e =>
      match evalW env e with
      | .error ex => .error (ex, out)
      | .ok (v, c) => bodyW ss ((x, v) :: env) out (clean && c)
    | .print args =>
      match evalArgsW env args with
      | .error ex => .error (ex, out)
      | .ok (vs, c) => bodyW ss env (joinSp (vs.map showVal) :: out) (clean && c)
    | .expr e =>
      match evalW env (stripWrap e) with
      | .error ex => .error (ex, out)
      | .ok (_, c) => bodyW ss env out (clean && c)

/-- `n` iterations starting at `cur`: bind the loop variable, run the body -/
def loopW (i : String) (body : List Stmt) : Nat → Int → Env → List (List Char) → Bool →
    Except (Exc × List (List Char)) (Env × List (List Char) × Bool)
  | 0, _, env, out, clean => .ok (env, out, clean)
  | n + 1, cur, env, out, clean =>
    match bodyW body ((i, .int cur) :: env) out clean with
    | .error e => .error e
    | .ok (env', out', clean') => loopW i body n (cur + 1) env' out' clean'

/-- one top-level chunk at source level -/
def topW (t : Top) (env : Env) (out : List (List Char)) (clean : Bool) :
    Except (Exc × List (List Char)) (Env × List (List Char) × Bool) :=
  match t with
  | .stmt s => bodyW [s] env out clean
  | .forRange i lo hi body =>
    match evalW env lo with
    | .error ex => .error (ex, out)
    | .ok (va, c1) =>
      match evalW env hi with
      | .error ex => .error (ex, out)
      | .ok (vb, c2) =>
        match va, vb with
        | .int a, .int b => loopW i body (b - a).toNat a env out (clean && c1 && c2)
        | _, _ => .error (.typeError, out)

def execTopsW : List Top → Env → List (List Char) → Bool → Outcome × Bool
  | [], _, out, clean => (⟨out.reverse, .ok⟩, clean)
  | t :: ts, env, out, clean =>
    match topW t env out clean with
    | .error (ex, o) => (⟨o.reverse, .exc ex⟩, false)
    | .ok (env', out', clean') => execTopsW ts env' out' clean'

def runLW (p : LProg) : Outcome × Bool := execTopsW p [] [] true

/-- the Python reading: `for i in range(lo, hi): body` -/
def bodyPy : List Stmt → Env → List (List Char) → Except (Exc × List (List Char)) (Env × List (List Char))
  | [], env, out => .ok (env, out)
  | s :: ss, env, out =>
    match s with
    | .defv x e =>
      match evalPy env e with
      | .error ex => .error (ex, out)
      | .ok v => bodyPy ss ((x, v) :: env) out
    | .print args =>
      match evalArgsPy env args with
      | .error ex => .error (ex, out)
      | .ok vs => bodyPy ss env (joinSp (vs.map showVal) :: out)
    | .expr e =>
      match evalPy env e with
      | .error ex => .error (ex, out)
      | .ok _ => bodyPy ss env out

def loopPy (i : String) (body : List Stmt) : Nat → Int → Env → List (List Char) →
    Except (Exc × List (List Char)) (Env × List (List Char))
  | 0, _, env, out => .ok (env, out)
  | n + 1, cur, env, out =>
    match bodyPy body ((i, .int cur) :: env) out with
    | .error e => .error e
    | .ok (env', out') => loopPy i body n (cur + 1) env' out'

def topPy (t : Top) (env : Env) (out : List (List Char)) : Except (Exc × List (List Char)) (Env × List (List Char)) :=
  match t with
  | .stmt s => bodyPy [s] env out
  | .forRange i lo hi body =>
    match evalPy env lo with
    | .error ex => .error (ex, out)
    | .ok va =>
      match evalPy env hi with
      | .error ex => .error (ex, out)
      | .ok vb =>
        match va, vb with
        | .int a, .int b => loopPy i body (b - a).toNat a env out
        | _, _ => .error (.typeError, out)

def execTopsPy : List Top → Env → List (List Char) → Outcome
  | [], _, out => ⟨out.reverse, .ok⟩
  | t :: ts, env, out =>
    match topPy t env out with
    | .error (ex, o) => ⟨o.reverse, .exc ex⟩
    | .ok (env', out') => execTopsPy ts env' out'

def runLPy (p : LProg) : Outcome := execTopsPy p [] []

end ErgVerif.C01
