import ErgVerif.C01.LoopSim
import ErgVerif.C01.CleanLoop
/-!
# C01 — Compiled bytecode computes what the source program means (stages 1–2: scalar fragment with `and`/`or`/`if` expressions and counting `for!` loops, target 3.11)

Property theorems only. `compile` transcribes the code generator (Model.lean header lists the Rust functions),
`runN`/`vmRun` is the model of the 3.11 evaluation loop for the emitted instructions, `runW` the source semantics with
the runtime wrapper classes, `runPy` the plain Python-semantics reading (the specification).
The full property (all of the checked fragment: loops, functions, lambdas, lists, floats, every target) is NOT proved
here; outside stage 1 it is exercised by the behavioural stream of `checks/c01.py` only.
-/
namespace ErgVerif.C01

/-- Compiler correctness w.r.t. the wrapper-aware source semantics, for every program of the fragment, with no side
    condition besides name hygiene: the machine halts, and with the printed lines and exit status of `runW`. -/
theorem C01_compile_simulates (p : LProg) (code : List Instr) (hc : compileL p = some code) (hns : NoShadowT p) :
    ∃ n, ∀ m, n ≤ m → runN code m VM.init = (runLW p).1 := by
  have hcode : CodeAt code 0 code := ⟨[], [], by simp, rfl⟩
  exact (exec_tops p code hc code 0 [] [] true hcode EnvOk.nil hns).runN

/-- When no wrapper call changes a value or fails (`clean`, a computable flag), the wrapper-aware semantics is exactly
    the Python-semantics reading of the source. -/
theorem C01_clean_is_python (p : LProg) (h : (runLW p).2 = true) : (runLW p).1 = runLPy p :=
  (execTopsPy_of_clean p [] [] true h).2

/-- Stage-1 statement of the property: the bytecode prints what the Python reading prints and ends the same way. -/
theorem C01_stage1 (p : LProg) (code : List Instr) (hc : compileL p = some code) (hns : NoShadowT p)
    (hclean : (runLW p).2 = true) : ∃ n, ∀ m, n ≤ m → runN code m VM.init = runLPy p := by
  obtain ⟨n, hn⟩ := C01_compile_simulates p code hc hns
  exact ⟨n, fun m hm => by rw [hn m hm, C01_clean_is_python p hclean]⟩

/-- more fuel never changes an outcome that is not `outOfFuel` -/
theorem C01_fuel_mono (code : List Instr) : ∀ (m k : Nat) (s : VM), (runN code m s).exit ≠ .outOfFuel → m ≤ k →
    runN code k s = runN code m s
  | 0, _, s, h, _ => by simp [runN] at h
  | m + 1, k, s, h, hk => by
    obtain ⟨k', rfl⟩ : ∃ k', k = k' + 1 := ⟨k - 1, by omega⟩
    simp only [runN] at h ⊢
    cases hs : step code s with
    | halt o => rfl
    | next s' =>
      simp only [hs] at h
      exact C01_fuel_mono code m k' s' h (by omega)

/-- The executable `vmRun` (generous fixed fuel) used by the driver: whenever it does not report `outOfFuel`, its answer
    is the Python reading. -/
theorem C01_vmRun (p : LProg) (code : List Instr) (hc : compileL p = some code) (hns : NoShadowT p)
    (hclean : (runLW p).2 = true) (hfuel : (vmRun code).exit ≠ .outOfFuel) : vmRun code = runLPy p := by
  obtain ⟨n, hn⟩ := C01_stage1 p code hc hns hclean
  have h1 := C01_fuel_mono code (1000 * codeSize code + 100000) (max n (1000 * codeSize code + 100000)) VM.init hfuel (by omega)
  rw [hn _ (by omega)] at h1
  exact h1.symm

/-- the only way the model compiler fails is the `fill_jump` overflow (`u16::try_from(arg).unwrap()`): a right operand
    of `and`/`or` whose code is 131072 bytes or longer -/
theorem C01_jumpArgs_small (n : Nat) (h : n < 131072) : (jumpArgs n).isSome = true := by
  simp only [jumpArgs]
  have : n / 2 < 65536 := by omega
  simp [this]

/-- Witness that the `clean` hypothesis is needed: a `Nat` wrapper around a negative difference (what the inference
    defect `({3} or {2}) - {4} : Nat` produces) makes the bytecode raise ValueError where the Python reading prints `-2`. -/
theorem C01_witness_unclean :
    let p : LProg := [.stmt (.print [.bin .sub (.lit (.int 2) (some .nat)) (.lit (.int 4) (some .nat)) (some .nat)])]
    (runLW p).1 = ⟨[], .exc .valueError⟩ ∧ (runLW p).2 = false ∧ runLPy p = ⟨[['-', '2']], .ok⟩ := by
  decide

/-- non-vacuity: a program with a definition, arithmetic, a comparison, an `if` expression, `and`/`or`/`not`, unary minus,
    a counting loop with a two-chunk body and a loop that runs zero times compiles, is clean, and the model machine prints what
    the Python reading prints -/
example :
    let x := "::x_L1"
    let p : LProg := [
      .stmt (.defv x (.lit (.int 3) (some .nat))),
      .stmt (.print [.bin .add (.var x (some .nat)) (.bin .mul (.lit (.int 4) (some .nat)) (.lit (.int 2) (some .nat)) (some .nat)) (some .nat),
              .neg (.var x (some .nat)) (some .int)]),
      .stmt (.print [.ite (.cmp .gt (.var x (some .nat)) (.lit (.int 5) (some .nat)) none) (.lit (.str ['a']) none)
                (.bin .add (.lit (.str ['b']) (some .str)) (.lit (.str ['c']) (some .str)) none) (some .str)]),
      .forRange "i" (.lit (.int 0) (some .nat)) (.var x (some .nat))
        [.defv "::y_L5" (.bin .mul (.var "i" (some .nat)) (.lit (.int 2) (some .nat)) (some .nat)),
         .print [.var "::y_L5" (some .nat)]],
      .forRange "j" (.var x (some .nat)) (.lit (.int 1) (some .nat)) [.print [.var "j" (some .nat)]],
      .stmt (.print [.or (.and (.cmp .gt (.var x (some .nat)) (.lit (.int 2) (some .nat)) (some .bool))
                        (.not (.cmp .eq (.var x (some .nat)) (.lit (.int 5) (some .nat)) (some .bool)) (some .bool)) none)
                  (.lit (.bool false) (some .bool)) (some .bool)])]
    (compileL p).isSome = true ∧ (runLW p).2 = true ∧
      (compileL p).map (fun c => runN c 400 VM.init) = some (runLPy p) ∧
      runLPy p = ⟨["11 -3".toList, "bc".toList, "0".toList, "2".toList, "4".toList, "True".toList], .ok⟩ := by
  decide +kernel

end ErgVerif.C01
