import ErgVerif.C01.Model
/-! Helper lemmas for C01: code placement, multi-step execution, the expression/statement simulation lemmas. -/
namespace ErgVerif.C01

/-! ### sizes -/

theorem Instr.size_pos (i : Instr) : 2 ≤ i.size := by cases i <;> simp [Instr.size]

theorem Instr.size_even (i : Instr) : i.size % 2 = 0 := by cases i <;> simp [Instr.size]

@[simp] theorem codeSize_nil : codeSize [] = 0 := rfl
@[simp] theorem codeSize_cons (i : Instr) (is : List Instr) : codeSize (i :: is) = i.size + codeSize is := rfl

@[simp] theorem codeSize_append (a b : List Instr) : codeSize (a ++ b) = codeSize a + codeSize b := by
  induction a with
  | nil => simp
  | cons i is ih => simp [ih]; omega

theorem codeSize_even (c : List Instr) : codeSize c % 2 = 0 := by
  induction c with
  | nil => rfl
  | cons i is ih => have := i.size_even; simp; omega

/-! ### code placement -/

/-- `cs` sits in `code` at byte offset `pc` -/
def CodeAt (code : List Instr) (pc : Nat) (cs : List Instr) : Prop :=
  ∃ pre post, code = pre ++ cs ++ post ∧ codeSize pre = pc

theorem CodeAt.left {code pc a b} (h : CodeAt code pc (a ++ b)) : CodeAt code pc a := by
  obtain ⟨pre, post, h1, h2⟩ := h
  exact ⟨pre, b ++ post, by simp [h1], h2⟩

theorem CodeAt.right {code pc a b} (h : CodeAt code pc (a ++ b)) : CodeAt code (pc + codeSize a) b := by
  obtain ⟨pre, post, h1, h2⟩ := h
  exact ⟨pre ++ a, post, by simp [h1], by simp [h2]⟩

theorem CodeAt.tail {code pc i cs} (h : CodeAt code pc (i :: cs)) : CodeAt code (pc + i.size) cs := by
  have : CodeAt code pc ([i] ++ cs) := h
  simpa using this.right

theorem fetch_append (pre : List Instr) (i : Instr) (post : List Instr) :
    fetch (pre ++ i :: post) (codeSize pre) = some i := by
  induction pre with
  | nil => simp [fetch]
  | cons j js ih =>
    have hj := j.size_pos
    simp only [List.cons_append, fetch, codeSize_cons]
    have h1 : ¬ (j.size + codeSize js = 0) := by omega
    have h2 : ¬ (j.size + codeSize js < j.size) := by omega
    simp only [h1, h2, if_false]
    have : j.size + codeSize js - j.size = codeSize js := by omega
    rw [this]; exact ih

theorem CodeAt.fetch {code pc i cs} (h : CodeAt code pc (i :: cs)) : fetch code pc = some i := by
  obtain ⟨pre, post, h1, h2⟩ := h
  subst h2
  rw [h1]
  simpa using fetch_append pre i (cs ++ post)

/-! ### multi-step execution -/

/-- `n` steps without halting -/
def iter (code : List Instr) : Nat → VM → Option VM
  | 0, s => some s
  | n + 1, s =>
    match step code s with
    | .next s' => iter code n s'
    | .halt _ => none

def Reaches (code : List Instr) (s s' : VM) : Prop := ∃ n, iter code n s = some s'

def HaltsWith (code : List Instr) (s : VM) (o : Outcome) : Prop :=
  ∃ n s', iter code n s = some s' ∧ step code s' = .halt o

theorem Reaches.refl (code : List Instr) (s : VM) : Reaches code s s := ⟨0, rfl⟩

theorem iter_add (code : List Instr) (n m : Nat) (s s' : VM) (h : iter code n s = some s') :
    iter code (n + m) s = iter code m s' := by
  induction n generalizing s with
  | zero =>
    simp only [iter, Option.some.injEq] at h
    subst h
    rw [Nat.zero_add]
  | succ n ih =>
    simp only [iter] at h
    have : n + 1 + m = (n + m) + 1 := by omega
    rw [this]
    simp only [iter]
    split at h
    · rename_i s1 hs; (try simp only [hs]); exact ih _ h
    · simp at h

theorem Reaches.trans {code s1 s2 s3} (h1 : Reaches code s1 s2) (h2 : Reaches code s2 s3) : Reaches code s1 s3 := by
  obtain ⟨n, hn⟩ := h1
  obtain ⟨m, hm⟩ := h2
  exact ⟨n + m, by rw [iter_add code n m s1 s2 hn, hm]⟩

theorem Reaches.halts {code s1 s2 o} (h1 : Reaches code s1 s2) (h2 : HaltsWith code s2 o) : HaltsWith code s1 o := by
  obtain ⟨n, hn⟩ := h1
  obtain ⟨m, s', hm, hs⟩ := h2
  exact ⟨n + m, s', by rw [iter_add code n m s1 s2 hn, hm], hs⟩

theorem Reaches.step1 {code s s'} (h : step code s = .next s') : Reaches code s s' :=
  ⟨1, by simp [iter, h]⟩

theorem HaltsWith.now {code s o} (h : step code s = .halt o) : HaltsWith code s o := ⟨0, s, rfl, h⟩

theorem runN_of_iter (code : List Instr) (n m : Nat) (s s' : VM) (h : iter code n s = some s') :
    runN code (n + m) s = runN code m s' := by
  induction n generalizing s with
  | zero =>
    simp only [iter, Option.some.injEq] at h
    subst h
    rw [Nat.zero_add]
  | succ n ih =>
    simp only [iter] at h
    have : n + 1 + m = (n + m) + 1 := by omega
    rw [this]
    simp only [runN]
    split at h
    · rename_i s1 hs; (try simp only [hs]); exact ih _ h
    · simp at h

/-- once the machine halts, any larger fuel gives the same outcome -/
theorem HaltsWith.runN {code s o} (h : HaltsWith code s o) : ∃ n, ∀ m, n ≤ m → runN code m s = o := by
  obtain ⟨n, s', hn, hs⟩ := h
  refine ⟨n + 1, fun m hm => ?_⟩
  obtain ⟨k, rfl⟩ : ∃ k, m = n + (k + 1) := ⟨m - n - 1, by omega⟩
  rw [runN_of_iter code n (k + 1) s s' hn]
  simp [ErgVerif.C01.runN, hs]

/-! ### single instructions -/

section single
variable {code : List Instr} {pc : Nat} {st : List Val} {env : Env} {out : List (List Char)}

theorem exec_pushNull {cs} (h : CodeAt code pc (.pushNull :: cs)) :
    Reaches code ⟨pc, 0, st, env, out⟩ ⟨pc + 2, 0, .null :: st, env, out⟩ :=
  Reaches.step1 (by simp [step, h.fetch, Instr.size])

theorem exec_loadConst {c cs} (h : CodeAt code pc (.loadConst c :: cs)) :
    Reaches code ⟨pc, 0, st, env, out⟩ ⟨pc + 2, 0, c.toVal :: st, env, out⟩ :=
  Reaches.step1 (by simp [step, h.fetch, Instr.size])

theorem exec_loadName {x v cs} (h : CodeAt code pc (.loadName x :: cs)) (hv : lookup env x = some v) :
    Reaches code ⟨pc, 0, st, env, out⟩ ⟨pc + 2, 0, v :: st, env, out⟩ :=
  Reaches.step1 (by simp [step, h.fetch, Instr.size, hv])

theorem exec_loadName_err {x cs} (h : CodeAt code pc (.loadName x :: cs)) (hv : lookup env x = none) :
    HaltsWith code ⟨pc, 0, st, env, out⟩ ⟨out.reverse, .exc .nameError⟩ :=
  HaltsWith.now (by simp [step, h.fetch, hv, raise])

end single

/-- the environment binds none of the names the generated code loads from the prelude / builtins (user variables are
    mangled to `::name_Ln` by the real compiler, so they never do) -/
def EnvOk (env : Env) : Prop :=
  (∀ c : Cls, env.get c.name = none) ∧ env.get "print" = none ∧ env.get "RightOpenRange" = none

theorem lookup_cls {env : Env} (h : EnvOk env) (c : Cls) : lookup env c.name = some (.cls c) := by
  simp only [lookup, h.1 c]
  cases c <;> simp [builtin, Cls.name]

theorem lookup_print {env : Env} (h : EnvOk env) : lookup env "print" = some .printFn := by
  simp [lookup, h.2.1, builtin]

theorem lookup_range {env : Env} (h : EnvOk env) : lookup env "RightOpenRange" = some .rangeCtor := by
  simp [lookup, h.2.2, builtin]

/-- what executing a piece of code must do, given the source-level result -/
def ExecSpec (code : List Instr) (pc pcEnd : Nat) (st : List Val) (env : Env) (out : List (List Char)) (r : R) : Prop :=
  match r with
  | .ok (v, _) => Reaches code ⟨pc, 0, st, env, out⟩ ⟨pcEnd, 0, v :: st, env, out⟩
  | .error ex => HaltsWith code ⟨pc, 0, st, env, out⟩ ⟨out.reverse, .exc ex⟩

def bindWrap (w : Option Cls) (rin : R) : R :=
  match rin with
  | .error e => .error e
  | .ok (v, c) => applyWrap w v c

theorem exec_wrap {code : List Instr} {pc : Nat} {st : List Val} {env : Env} {out : List (List Char)}
    (w : Option Cls) (body : List Instr) (rin : R)
    (hcode : CodeAt code pc (wrapPre w ++ body ++ wrapPost w)) (henv : EnvOk env)
    (hbody : ∀ st', ExecSpec code (pc + codeSize (wrapPre w)) (pc + codeSize (wrapPre w) + codeSize body) st' env out rin) :
    ExecSpec code pc (pc + codeSize (wrapPre w ++ body ++ wrapPost w)) st env out (bindWrap w rin) := by
  cases w with
  | none =>
    have hb := hbody st
    simp only [wrapPre, wrapPost, codeSize_nil, Nat.add_zero, List.nil_append, List.append_nil] at hb ⊢
    cases rin with
    | error e => exact hb
    | ok p => obtain ⟨v, c⟩ := p; exact hb
  | some c =>
    simp only [wrapPre, wrapPost] at hcode hbody ⊢
    have h1 : CodeAt code pc (.pushNull :: (.loadName c.name :: (body ++ [.call 1]))) := by simpa using hcode
    have h2 := h1.tail
    have h3 : CodeAt code (pc + 2 + 2 + codeSize body) [.call 1] := by
      have := h2.tail
      simp only [Instr.size] at this
      simpa using this.right
    have r1 : Reaches code ⟨pc, 0, st, env, out⟩ ⟨pc + 2 + 2, 0, .cls c :: .null :: st, env, out⟩ :=
      (exec_pushNull h1).trans (exec_loadName (by simpa [Instr.size] using h2) (lookup_cls henv c))
    have hb := hbody (.cls c :: .null :: st)
    simp only [codeSize_cons, codeSize_nil, Instr.size, Nat.add_zero] at hb
    have e4 : pc + (2 + 2) = pc + 2 + 2 := by omega
    rw [e4] at hb
    cases rin with
    | error e => exact r1.halts hb
    | ok p =>
      obtain ⟨v, cl⟩ := p
      simp only [ExecSpec] at hb
      have r2 := r1.trans hb
      have hf := h3.fetch
      simp only [bindWrap, applyWrap]
      cases hw : wrapCall c v with
      | error e =>
        simp only [ExecSpec]
        exact r2.halts (HaltsWith.now (by simp [step, hf, popArgs, hw, raise]))
      | ok v' =>
        simp only [ExecSpec]
        refine r2.trans (Reaches.step1 ?_)
        simp [step, hf, popArgs, hw, Instr.size]
        omega

theorem jumpArgs_spec {n hi lo : Nat} (h : jumpArgs n = some (hi, lo)) (hn : n % 2 = 0) : 2 * (0 * 256 + hi) * 256 / 256 = 2 * hi ∧ 2 * ((0 * 256 + hi) * 256 + lo) = n := by
  unfold jumpArgs at h
  simp only at h
  split at h
  · simp only [Option.some.injEq, Prod.mk.injEq] at h
    obtain ⟨h1, h2⟩ := h
    subst h1 h2
    constructor
    · omega
    · have := Nat.div_add_mod (n / 2) 256
      omega
  · simp at h

/-- body placement inside a wrapped expression -/
theorem CodeAt.body {code pc w body} (h : CodeAt code pc (wrapPre w ++ body ++ wrapPost w)) :
    CodeAt code (pc + codeSize (wrapPre w)) body := h.left.right

/-- the short-circuit pair `EXTENDED_ARG hi; JUMP_IF_FALSE_OR_POP lo` -/
theorem exec_jumpF {code : List Instr} {pc : Nat} {st : List Val} {env : Env} {out : List (List Char)} {hi lo n : Nat} {v : Val} {cs}
    (h : CodeAt code pc (.extArg hi :: .jumpIfFalseOrPop lo :: cs)) (hj : jumpArgs n = some (hi, lo)) (hn : n % 2 = 0) :
    Reaches code ⟨pc, 0, v :: st, env, out⟩
      (if truthy v then ⟨pc + 4, 0, st, env, out⟩ else ⟨pc + 4 + n, 0, v :: st, env, out⟩) := by
  have f1 := h.fetch
  have f2 := h.tail.fetch
  simp only [Instr.size] at f2
  have hs := (jumpArgs_spec hj hn).2
  have r1 : Reaches code ⟨pc, 0, v :: st, env, out⟩ ⟨pc + 2, 0 * 256 + hi, v :: st, env, out⟩ :=
    Reaches.step1 (by simp [step, f1, Instr.size])
  refine r1.trans (Reaches.step1 ?_)
  by_cases ht : truthy v
  · simp [step, f2, ht, Instr.size]
  · simp only [step, f2, ht, Instr.size]
    simp only [Bool.false_eq_true, if_false]
    congr 2
    omega

theorem exec_jumpT {code : List Instr} {pc : Nat} {st : List Val} {env : Env} {out : List (List Char)} {hi lo n : Nat} {v : Val} {cs}
    (h : CodeAt code pc (.extArg hi :: .jumpIfTrueOrPop lo :: cs)) (hj : jumpArgs n = some (hi, lo)) (hn : n % 2 = 0) :
    Reaches code ⟨pc, 0, v :: st, env, out⟩
      (if truthy v then ⟨pc + 4 + n, 0, v :: st, env, out⟩ else ⟨pc + 4, 0, st, env, out⟩) := by
  have f1 := h.fetch
  have f2 := h.tail.fetch
  simp only [Instr.size] at f2
  have hs := (jumpArgs_spec hj hn).2
  have r1 : Reaches code ⟨pc, 0, v :: st, env, out⟩ ⟨pc + 2, 0 * 256 + hi, v :: st, env, out⟩ :=
    Reaches.step1 (by simp [step, f1, Instr.size])
  refine r1.trans (Reaches.step1 ?_)
  by_cases ht : truthy v
  · simp only [step, f2, ht, Instr.size]
    simp only [if_true]
    congr 2
    omega
  · simp [step, f2, ht, Instr.size]

/-- `jumpArgs` on an even or odd byte count: the two jump arguments recombine to `n / 2` code units -/
theorem jumpArgs_units {n hi lo : Nat} (h : jumpArgs n = some (hi, lo)) : (0 * 256 + hi) * 256 + lo = n / 2 := by
  unfold jumpArgs at h
  simp only at h
  split at h
  · simp only [Option.some.injEq, Prod.mk.injEq] at h
    obtain ⟨h1, h2⟩ := h
    subst h1 h2
    have := Nat.div_add_mod (n / 2) 256
    omega
  · simp at h

/-- `EXTENDED_ARG hi; POP_JUMP_FORWARD_IF_FALSE lo` -/
theorem exec_popJump {code : List Instr} {pc : Nat} {st : List Val} {env : Env} {out : List (List Char)} {hi lo n : Nat} {v : Val} {cs}
    (h : CodeAt code pc (.extArg hi :: .popJumpIfFalse lo :: cs)) (hj : jumpArgs n = some (hi, lo)) :
    Reaches code ⟨pc, 0, v :: st, env, out⟩
      (if truthy v then ⟨pc + 4, 0, st, env, out⟩ else ⟨pc + 4 + 2 * (n / 2), 0, st, env, out⟩) := by
  have f1 := h.fetch
  have f2 := h.tail.fetch
  simp only [Instr.size] at f2
  have hs := jumpArgs_units hj
  have r1 : Reaches code ⟨pc, 0, v :: st, env, out⟩ ⟨pc + 2, 0 * 256 + hi, v :: st, env, out⟩ :=
    Reaches.step1 (by simp [step, f1, Instr.size])
  refine r1.trans (Reaches.step1 ?_)
  by_cases ht : truthy v
  · simp [step, f2, ht, Instr.size]
  · simp only [step, f2, ht, Instr.size]
    simp only [Bool.false_eq_true, if_false]
    rw [hs]

/-- `EXTENDED_ARG hi; JUMP_FORWARD lo` -/
theorem exec_jumpForward {code : List Instr} {pc : Nat} {st : List Val} {env : Env} {out : List (List Char)} {hi lo n : Nat} {cs}
    (h : CodeAt code pc (.extArg hi :: .jumpForward lo :: cs)) (hj : jumpArgs n = some (hi, lo)) :
    Reaches code ⟨pc, 0, st, env, out⟩ ⟨pc + 4 + 2 * (n / 2), 0, st, env, out⟩ := by
  have f1 := h.fetch
  have f2 := h.tail.fetch
  simp only [Instr.size] at f2
  have hs := jumpArgs_units hj
  have r1 : Reaches code ⟨pc, 0, st, env, out⟩ ⟨pc + 2, 0 * 256 + hi, st, env, out⟩ :=
    Reaches.step1 (by simp [step, f1, Instr.size])
  refine r1.trans (Reaches.step1 ?_)
  simp only [step, f2, Instr.size]
  rw [hs]

end ErgVerif.C01
