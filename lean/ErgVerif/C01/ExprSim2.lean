import ErgVerif.C01.ExprSim
/-! C01: simulation lemma for the short-circuit operators, and the lemma for all expressions. -/
namespace ErgVerif.C01

theorem exprOk_and (l r : Expr) (w : Option Cls) (ihl : ExprOk l) (ihr : ExprOk r) : ExprOk (.and l r w) := by
  intro cs hcs code pc st env out hcode henv
  simp only [compileE] at hcs
  cases hcl : compileE l with
  | none => simp [hcl] at hcs
  | some cl =>
    cases hcr : compileE r with
    | none => simp [hcl, hcr] at hcs
    | some cr =>
      cases hj : jumpArgs (codeSize cr) with
      | none => simp [hcl, hcr, hj] at hcs
      | some hl =>
        obtain ⟨hi, lo⟩ := hl
        simp only [hcl, hcr, hj, Option.some.injEq] at hcs
        subst hcs
        have hcode' : CodeAt code pc (wrapPre w ++ (cl ++ [.extArg hi, .jumpIfFalseOrPop lo] ++ cr) ++ wrapPost w) := by
          simpa [List.append_assoc] using hcode
        have hsz : codeSize (wrapPre w ++ cl ++ [.extArg hi, .jumpIfFalseOrPop lo] ++ cr ++ wrapPost w)
            = codeSize (wrapPre w ++ (cl ++ [.extArg hi, .jumpIfFalseOrPop lo] ++ cr) ++ wrapPost w) := by
          simp [List.append_assoc]
        rw [hsz]
        have hb := hcode'.body
        have hbl : CodeAt code (pc + codeSize (wrapPre w)) cl := hb.left.left
        have hbj : CodeAt code (pc + codeSize (wrapPre w) + codeSize cl) (.extArg hi :: .jumpIfFalseOrPop lo :: cr) := by
          have : CodeAt code (pc + codeSize (wrapPre w)) (cl ++ (.extArg hi :: .jumpIfFalseOrPop lo :: cr)) := by
            simpa [List.append_assoc] using hb
          exact this.right
        have hbr : CodeAt code (pc + codeSize (wrapPre w) + codeSize cl + 4) cr := by
          have := hbj.tail.tail
          simpa [Instr.size, Nat.add_assoc] using this
        have hev := codeSize_even cr
        have hsize : codeSize (cl ++ [.extArg hi, .jumpIfFalseOrPop lo] ++ cr) = codeSize cl + 4 + codeSize cr := by
          simp [Instr.size]; omega
        cases hEl : evalW env l with
        | error e =>
          have := exec_wrap (st := st) (out := out) w (cl ++ [.extArg hi, .jumpIfFalseOrPop lo] ++ cr) (.error e) hcode' henv (fun st' => by
            have := ihl cl hcl code _ st' env out hbl henv
            simpa [hEl, ExecSpec] using this)
          simpa [evalW, hEl, bindWrap] using this
        | ok pa =>
          obtain ⟨a, c1⟩ := pa
          by_cases ht : truthy a
          · cases hEr : evalW env r with
            | error e =>
              have := exec_wrap (st := st) (out := out) w (cl ++ [.extArg hi, .jumpIfFalseOrPop lo] ++ cr) (.error e) hcode' henv (fun st' => by
                have h1 := ihl cl hcl code _ st' env out hbl henv
                have hjmp := exec_jumpF (st := st') (env := env) (out := out) (v := a) hbj hj hev
                have h2 := ihr cr hcr code _ st' env out hbr henv
                simp only [hEl, hEr, ExecSpec, ht, if_true] at h1 h2 hjmp ⊢
                exact (h1.trans hjmp).halts h2)
              simpa [evalW, hEl, hEr, ht, bindWrap] using this
            | ok pb =>
              obtain ⟨b, c2⟩ := pb
              have := exec_wrap (st := st) (out := out) w (cl ++ [.extArg hi, .jumpIfFalseOrPop lo] ++ cr) (.ok (b, c1 && c2)) hcode' henv (fun st' => by
                have h1 := ihl cl hcl code _ st' env out hbl henv
                have hjmp := exec_jumpF (st := st') (env := env) (out := out) (v := a) hbj hj hev
                have h2 := ihr cr hcr code _ st' env out hbr henv
                simp only [hEl, hEr, ExecSpec, ht, if_true] at h1 h2 hjmp ⊢
                have := (h1.trans hjmp).trans h2
                rw [hsize]
                simpa [Nat.add_assoc] using this)
              simpa [evalW, hEl, hEr, ht, bindWrap] using this
          · have := exec_wrap (st := st) (out := out) w (cl ++ [.extArg hi, .jumpIfFalseOrPop lo] ++ cr) (.ok (a, c1)) hcode' henv (fun st' => by
              have h1 := ihl cl hcl code _ st' env out hbl henv
              have hjmp := exec_jumpF (st := st') (env := env) (out := out) (v := a) hbj hj hev
              simp only [hEl, ExecSpec, ht, Bool.false_eq_true, if_false] at h1 hjmp ⊢
              have := h1.trans hjmp
              rw [hsize]
              simpa [Nat.add_assoc] using this)
            simpa [evalW, hEl, ht, bindWrap] using this

theorem exprOk_or (l r : Expr) (w : Option Cls) (ihl : ExprOk l) (ihr : ExprOk r) : ExprOk (.or l r w) := by
  intro cs hcs code pc st env out hcode henv
  simp only [compileE] at hcs
  cases hcl : compileE l with
  | none => simp [hcl] at hcs
  | some cl =>
    cases hcr : compileE r with
    | none => simp [hcl, hcr] at hcs
    | some cr =>
      cases hj : jumpArgs (codeSize cr) with
      | none => simp [hcl, hcr, hj] at hcs
      | some hl =>
        obtain ⟨hi, lo⟩ := hl
        simp only [hcl, hcr, hj, Option.some.injEq] at hcs
        subst hcs
        have hcode' : CodeAt code pc (wrapPre w ++ (cl ++ [.extArg hi, .jumpIfTrueOrPop lo] ++ cr) ++ wrapPost w) := by
          simpa [List.append_assoc] using hcode
        have hsz : codeSize (wrapPre w ++ cl ++ [.extArg hi, .jumpIfTrueOrPop lo] ++ cr ++ wrapPost w)
            = codeSize (wrapPre w ++ (cl ++ [.extArg hi, .jumpIfTrueOrPop lo] ++ cr) ++ wrapPost w) := by
          simp [List.append_assoc]
        rw [hsz]
        have hb := hcode'.body
        have hbl : CodeAt code (pc + codeSize (wrapPre w)) cl := hb.left.left
        have hbj : CodeAt code (pc + codeSize (wrapPre w) + codeSize cl) (.extArg hi :: .jumpIfTrueOrPop lo :: cr) := by
          have : CodeAt code (pc + codeSize (wrapPre w)) (cl ++ (.extArg hi :: .jumpIfTrueOrPop lo :: cr)) := by
            simpa [List.append_assoc] using hb
          exact this.right
        have hbr : CodeAt code (pc + codeSize (wrapPre w) + codeSize cl + 4) cr := by
          have := hbj.tail.tail
          simpa [Instr.size, Nat.add_assoc] using this
        have hev := codeSize_even cr
        have hsize : codeSize (cl ++ [.extArg hi, .jumpIfTrueOrPop lo] ++ cr) = codeSize cl + 4 + codeSize cr := by
          simp [Instr.size]; omega
        cases hEl : evalW env l with
        | error e =>
          have := exec_wrap (st := st) (out := out) w (cl ++ [.extArg hi, .jumpIfTrueOrPop lo] ++ cr) (.error e) hcode' henv (fun st' => by
            have := ihl cl hcl code _ st' env out hbl henv
            simpa [hEl, ExecSpec] using this)
          simpa [evalW, hEl, bindWrap] using this
        | ok pa =>
          obtain ⟨a, c1⟩ := pa
          by_cases ht : truthy a
          · have := exec_wrap (st := st) (out := out) w (cl ++ [.extArg hi, .jumpIfTrueOrPop lo] ++ cr) (.ok (a, c1)) hcode' henv (fun st' => by
              have h1 := ihl cl hcl code _ st' env out hbl henv
              have hjmp := exec_jumpT (st := st') (env := env) (out := out) (v := a) hbj hj hev
              simp only [hEl, ExecSpec, ht, if_true] at h1 hjmp ⊢
              have := h1.trans hjmp
              rw [hsize]
              simpa [Nat.add_assoc] using this)
            simpa [evalW, hEl, ht, bindWrap] using this
          · cases hEr : evalW env r with
            | error e =>
              have := exec_wrap (st := st) (out := out) w (cl ++ [.extArg hi, .jumpIfTrueOrPop lo] ++ cr) (.error e) hcode' henv (fun st' => by
                have h1 := ihl cl hcl code _ st' env out hbl henv
                have hjmp := exec_jumpT (st := st') (env := env) (out := out) (v := a) hbj hj hev
                have h2 := ihr cr hcr code _ st' env out hbr henv
                simp only [hEl, hEr, ExecSpec, ht, Bool.false_eq_true, if_false] at h1 h2 hjmp ⊢
                exact (h1.trans hjmp).halts h2)
              simpa [evalW, hEl, hEr, ht, bindWrap] using this
            | ok pb =>
              obtain ⟨b, c2⟩ := pb
              have := exec_wrap (st := st) (out := out) w (cl ++ [.extArg hi, .jumpIfTrueOrPop lo] ++ cr) (.ok (b, c1 && c2)) hcode' henv (fun st' => by
                have h1 := ihl cl hcl code _ st' env out hbl henv
                have hjmp := exec_jumpT (st := st') (env := env) (out := out) (v := a) hbj hj hev
                have h2 := ihr cr hcr code _ st' env out hbr henv
                simp only [hEl, hEr, ExecSpec, ht, Bool.false_eq_true, if_false] at h1 h2 hjmp ⊢
                have := (h1.trans hjmp).trans h2
                rw [hsize]
                simpa [Nat.add_assoc] using this)
              simpa [evalW, hEl, hEr, ht, bindWrap] using this

theorem exprOk_ite (c a b : Expr) (w : Option Cls) (ihc : ExprOk c) (iha : ExprOk a) (ihb : ExprOk b) :
    ExprOk (.ite c a b w) := by
  intro cs hcs code pc st env out hcode henv
  simp only [compileE] at hcs
  cases hcc : compileE c with
  | none => simp [hcc] at hcs
  | some cc =>
    cases hca : compileE a with
    | none => simp [hcc, hca] at hcs
    | some ca =>
      cases hcb : compileE b with
      | none => simp [hcc, hca, hcb] at hcs
      | some cb =>
        cases hj1 : jumpArgs (codeSize ca + 4) with
        | none => simp [hcc, hca, hcb, hj1] at hcs
        | some p1 =>
          obtain ⟨h1, l1⟩ := p1
          cases hj2 : jumpArgs (codeSize cb + 1) with
          | none => simp [hcc, hca, hcb, hj1, hj2] at hcs
          | some p2 =>
            obtain ⟨h2, l2⟩ := p2
            simp only [hcc, hca, hcb, hj1, hj2, Option.some.injEq] at hcs
            subst hcs
            have hea := codeSize_even ca
            have heb := codeSize_even cb
            let body := cc ++ [Instr.extArg h1, .popJumpIfFalse l1] ++ ca ++ [.extArg h2, .jumpForward l2] ++ cb
            have hcode' : CodeAt code pc (wrapPre w ++ body ++ wrapPost w) := by
              simpa [body, List.append_assoc] using hcode
            have hsz : codeSize (wrapPre w ++ cc ++ [.extArg h1, .popJumpIfFalse l1] ++ ca ++ [.extArg h2, .jumpForward l2] ++ cb ++ wrapPost w)
                = codeSize (wrapPre w ++ body ++ wrapPost w) := by simp [body, List.append_assoc]
            rw [hsz]
            have hb := hcode'.body
            have hbody : body = cc ++ (.extArg h1 :: .popJumpIfFalse l1 :: (ca ++ (.extArg h2 :: .jumpForward l2 :: cb))) := by
              simp [body, List.append_assoc]
            rw [hbody] at hb
            have hbc : CodeAt code (pc + codeSize (wrapPre w)) cc := hb.left
            have hbj1 := hb.right
            have hbt : CodeAt code (pc + codeSize (wrapPre w) + codeSize cc + 4) (ca ++ (.extArg h2 :: .jumpForward l2 :: cb)) := by
              have := hbj1.tail.tail
              simpa [Instr.size, Nat.add_assoc] using this
            have hba : CodeAt code (pc + codeSize (wrapPre w) + codeSize cc + 4) ca := hbt.left
            have hbj2 : CodeAt code (pc + codeSize (wrapPre w) + codeSize cc + 4 + codeSize ca) (.extArg h2 :: .jumpForward l2 :: cb) :=
              hbt.right
            have hbb : CodeAt code (pc + codeSize (wrapPre w) + codeSize cc + 4 + codeSize ca + 4) cb := by
              have := hbj2.tail.tail
              simpa [Instr.size, Nat.add_assoc] using this
            have hsize : codeSize body = codeSize cc + 4 + codeSize ca + 4 + codeSize cb := by
              simp [body, Instr.size]; omega
            have hd1 : 2 * ((codeSize ca + 4) / 2) = codeSize ca + 4 := by omega
            have hd2 : 2 * ((codeSize cb + 1) / 2) = codeSize cb := by omega
            cases hEc : evalW env c with
            | error e =>
              have := exec_wrap (st := st) (out := out) w body (.error e) hcode' henv (fun st' => by
                have := ihc cc hcc code _ st' env out hbc henv
                simpa [hEc, ExecSpec] using this)
              simpa [evalW, hEc, bindWrap] using this
            | ok pc0 =>
              obtain ⟨vc, c0⟩ := pc0
              by_cases ht : truthy vc
              · cases hEa : evalW env a with
                | error e =>
                  have := exec_wrap (st := st) (out := out) w body (.error e) hcode' henv (fun st' => by
                    have r1 := ihc cc hcc code _ st' env out hbc henv
                    have rj := exec_popJump (st := st') (env := env) (out := out) (v := vc) hbj1 hj1
                    have r2 := iha ca hca code _ st' env out hba henv
                    simp only [hEc, hEa, ExecSpec, ht, if_true] at r1 r2 rj ⊢
                    exact (r1.trans rj).halts r2)
                  simpa [evalW, hEc, hEa, ht, bindWrap] using this
                | ok pa =>
                  obtain ⟨va, c1⟩ := pa
                  have := exec_wrap (st := st) (out := out) w body (.ok (va, c0 && c1)) hcode' henv (fun st' => by
                    have r1 := ihc cc hcc code _ st' env out hbc henv
                    have rj := exec_popJump (st := st') (env := env) (out := out) (v := vc) hbj1 hj1
                    have r2 := iha ca hca code _ st' env out hba henv
                    have rf := exec_jumpForward (st := va :: st') (env := env) (out := out) hbj2 hj2
                    simp only [hEc, hEa, ExecSpec, ht, if_true] at r1 r2 rj ⊢
                    have := ((r1.trans rj).trans r2).trans rf
                    rw [hd2] at this
                    rw [hsize]
                    simpa [Nat.add_assoc] using this)
                  simpa [evalW, hEc, hEa, ht, bindWrap] using this
              · cases hEb : evalW env b with
                | error e =>
                  have := exec_wrap (st := st) (out := out) w body (.error e) hcode' henv (fun st' => by
                    have r1 := ihc cc hcc code _ st' env out hbc henv
                    have rj := exec_popJump (st := st') (env := env) (out := out) (v := vc) hbj1 hj1
                    have r2 := ihb cb hcb code _ st' env out hbb henv
                    simp only [hEc, hEb, ExecSpec, ht, Bool.false_eq_true, if_false] at r1 r2 rj ⊢
                    rw [hd1] at rj
                    have e1 : pc + codeSize (wrapPre w) + codeSize cc + 4 + (codeSize ca + 4)
                        = pc + codeSize (wrapPre w) + codeSize cc + 4 + codeSize ca + 4 := by omega
                    rw [e1] at rj
                    exact (r1.trans rj).halts r2)
                  simpa [evalW, hEc, hEb, ht, bindWrap] using this
                | ok pb =>
                  obtain ⟨vb, c2⟩ := pb
                  have := exec_wrap (st := st) (out := out) w body (.ok (vb, c0 && c2)) hcode' henv (fun st' => by
                    have r1 := ihc cc hcc code _ st' env out hbc henv
                    have rj := exec_popJump (st := st') (env := env) (out := out) (v := vc) hbj1 hj1
                    have r2 := ihb cb hcb code _ st' env out hbb henv
                    simp only [hEc, hEb, ExecSpec, ht, Bool.false_eq_true, if_false] at r1 r2 rj ⊢
                    rw [hd1] at rj
                    have e1 : pc + codeSize (wrapPre w) + codeSize cc + 4 + (codeSize ca + 4)
                        = pc + codeSize (wrapPre w) + codeSize cc + 4 + codeSize ca + 4 := by omega
                    rw [e1] at rj
                    have := (r1.trans rj).trans r2
                    rw [hsize]
                    simpa [Nat.add_assoc] using this)
                  simpa [evalW, hEc, hEb, ht, bindWrap] using this

/-- the code of every expression computes its wrapper-aware source value (or raises the same exception) -/
theorem exec_expr : ∀ e : Expr, ExprOk e
  | .lit c w => exprOk_lit c w
  | .var x w => exprOk_var x w
  | .bin op l r w => exprOk_bin op l r w (exec_expr l) (exec_expr r)
  | .cmp op l r w => exprOk_cmp op l r w (exec_expr l) (exec_expr r)
  | .and l r w => exprOk_and l r w (exec_expr l) (exec_expr r)
  | .or l r w => exprOk_or l r w (exec_expr l) (exec_expr r)
  | .neg e w => exprOk_neg e w (exec_expr e)
  | .not e w => exprOk_not e w (exec_expr e)
  | .ite c a b w => exprOk_ite c a b w (exec_expr c) (exec_expr a) (exec_expr b)

end ErgVerif.C01
