import ErgVerif.C01.ExprSim2
/-! C01: simulation for argument lists, chunks and whole programs. -/
namespace ErgVerif.C01

theorem popArgs_append (ws : List Val) (rest : List Val) : popArgs ws.length (ws ++ rest) = some (ws.reverse, rest) := by
  induction ws with
  | nil => simp [popArgs]
  | cons w ws ih => simp [popArgs, ih]

theorem popArgs_reverse (vs : List Val) (rest : List Val) : popArgs vs.length (vs.reverse ++ rest) = some (vs, rest) := by
  have := popArgs_append vs.reverse rest
  simpa using this

theorem exec_args : ∀ (es : List Expr) (cs : List Instr), compileArgs es = some cs →
    ∀ code pc st env out, CodeAt code pc cs → EnvOk env →
    match evalArgsW env es with
    | .ok (vs, _) => Reaches code ⟨pc, 0, st, env, out⟩ ⟨pc + codeSize cs, 0, vs.reverse ++ st, env, out⟩
    | .error ex => HaltsWith code ⟨pc, 0, st, env, out⟩ ⟨out.reverse, .exc ex⟩
  | [], cs, hcs, code, pc, st, env, out, _, _ => by
    simp only [compileArgs, Option.some.injEq] at hcs
    subst hcs
    simpa [evalArgsW] using Reaches.refl code _
  | e :: es, cs, hcs, code, pc, st, env, out, hcode, henv => by
    simp only [compileArgs] at hcs
    cases hc : compileE e with
    | none => simp [hc] at hcs
    | some c =>
      cases hcs' : compileArgs es with
      | none => simp [hc, hcs'] at hcs
      | some cs' =>
        simp only [hc, hcs', Option.some.injEq] at hcs
        subst hcs
        have h1 := exec_expr e c hc code pc st env out hcode.left henv
        cases hE : evalW env e with
        | error x =>
          simp only [hE, ExecSpec] at h1
          simpa [evalArgsW, hE] using h1
        | ok pv =>
          obtain ⟨v, c1⟩ := pv
          simp only [hE, ExecSpec] at h1
          have h2 := exec_args es cs' hcs' code (pc + codeSize c) (v :: st) env out hcode.right henv
          cases hEs : evalArgsW env es with
          | error x =>
            simp only [hEs] at h2
            simpa [evalArgsW, hE, hEs] using h1.halts h2
          | ok pvs =>
            obtain ⟨vs, c2⟩ := pvs
            simp only [hEs] at h2
            have := h1.trans h2
            simpa [evalArgsW, hE, hEs, Nat.add_assoc] using this

/-- names the generated code loads from the prelude / builtins -/
def reserved (x : String) : Bool :=
  x = "Nat" || x = "Int" || x = "Str" || x = "Bool" || x = "print" || x = "RightOpenRange"

/-- no chunk defines a reserved name (real variable names are mangled `::x_L1`, so this always holds for
    code objects the compiler emits) -/
def NoShadow : List Stmt → Prop
  | [] => True
  | .defv x _ :: ss => reserved x = false ∧ NoShadow ss
  | _ :: ss => NoShadow ss

theorem EnvOk.cons {env : Env} (h : EnvOk env) {x : String} (hx : reserved x = false) (v : Val) : EnvOk ((x, v) :: env) := by
  simp only [reserved, Bool.or_eq_false_iff, decide_eq_false_iff_not] at hx
  obtain ⟨⟨⟨⟨⟨h1, h2⟩, h3⟩, h4⟩, h5⟩, h6⟩ := hx
  refine ⟨?_, ?_, ?_⟩
  · intro c
    have := h.1 c
    cases c <;> simp_all [Env.get, Cls.name] <;> (intro h; simp_all)
  · have := h.2.1
    simp only [Env.get]
    split
    · rename_i heq; exact absurd heq.symm h5
    · exact this
  · have := h.2.2
    simp only [Env.get]
    split
    · rename_i heq; exact absurd heq.symm h6
    · exact this

theorem EnvOk.nil : EnvOk [] := ⟨fun _ => rfl, rfl, rfl⟩

theorem execW_clean_irrel : ∀ (ss : List Stmt) (env : Env) (out : List (List Char)) (c1 c2 : Bool),
    (execW ss env out c1).1 = (execW ss env out c2).1
  | [], _, _, _, _ => rfl
  | s :: ss, env, out, c1, c2 => by
    cases s with
    | defv x e =>
      simp only [execW]
      cases evalW env e with
      | error ex => rfl
      | ok p => obtain ⟨v, c⟩ := p; exact execW_clean_irrel ss _ _ _ _
    | print args =>
      simp only [execW]
      cases evalArgsW env args with
      | error ex => rfl
      | ok p => obtain ⟨v, c⟩ := p; exact execW_clean_irrel ss _ _ _ _
    | expr e =>
      simp only [execW]
      cases evalW env (stripWrap e) with
      | error ex => rfl
      | ok p => obtain ⟨v, c⟩ := p; exact execW_clean_irrel ss _ _ _ _

theorem execW_cons (s : Stmt) (ss : List Stmt) (env : Env) (out : List (List Char)) (clean : Bool) :
    (execW (s :: ss) env out clean).1 =
      match chunk env out s with
      | .error ex => ⟨out.reverse, .exc ex⟩
      | .ok (env', out', _) => (execW ss env' out' true).1 := by
  cases s with
  | defv x e =>
    simp only [execW, chunk]
    cases evalW env e with
    | error ex => rfl
    | ok p => obtain ⟨v, c⟩ := p; exact execW_clean_irrel ss _ _ _ _
  | print args =>
    simp only [execW, chunk]
    cases evalArgsW env args with
    | error ex => rfl
    | ok p => obtain ⟨v, c⟩ := p; exact execW_clean_irrel ss _ _ _ _
  | expr e =>
    simp only [execW, chunk]
    cases evalW env (stripWrap e) with
    | error ex => rfl
    | ok p => obtain ⟨v, c⟩ := p; exact execW_clean_irrel ss _ _ _ _

theorem evalArgsW_length (env : Env) : ∀ (args : List Expr) (vs : List Val) (cl : Bool),
    evalArgsW env args = .ok (vs, cl) → args.length = vs.length
  | [], vs, cl, h => by simp [evalArgsW] at h; simp [h.1]
  | a :: as, vs, cl, h => by
    simp only [evalArgsW] at h
    cases ha : evalW env a with
    | error x => simp [ha] at h
    | ok pa =>
      obtain ⟨va, ca'⟩ := pa
      cases has : evalArgsW env as with
      | error x => simp [ha, has] at h
      | ok pas =>
        obtain ⟨vas, cas⟩ := pas
        simp only [ha, has, Except.ok.injEq, Prod.mk.injEq] at h
        have := evalArgsW_length env as vas cas has
        simp [← h.1, this]

theorem exec_chunk (s : Stmt) (c : List Instr) (leaves : Bool) (hc : compileS s = some (c, leaves))
    (code : List Instr) (pc : Nat) (st : List Val) (env : Env) (out : List (List Char))
    (hcode : CodeAt code pc c) (henv : EnvOk env) (hns : NoShadow [s]) :
    match chunk env out s with
    | .error ex => HaltsWith code ⟨pc, 0, st, env, out⟩ ⟨out.reverse, .exc ex⟩
    | .ok (env', out', val) =>
      Reaches code ⟨pc, 0, st, env, out⟩ ⟨pc + codeSize c, 0, val.toList ++ st, env', out'⟩
        ∧ leaves = val.isSome ∧ EnvOk env' := by
  cases s with
  | defv x e =>
    simp only [compileS] at hc
    cases hce : compileE e with
    | none => simp [hce] at hc
    | some ce =>
      simp only [hce, Option.some.injEq, Prod.mk.injEq] at hc
      obtain ⟨hc1, hc2⟩ := hc
      subst hc1 hc2
      have h1 := exec_expr e ce hce code pc st env out hcode.left henv
      have hst : CodeAt code (pc + codeSize ce) [.storeName x] := hcode.right
      simp only [chunk]
      cases hE : evalW env e with
      | error ex => simpa [hE, ExecSpec] using h1
      | ok p =>
        obtain ⟨v, cl⟩ := p
        simp only [hE, ExecSpec] at h1
        refine ⟨h1.trans (Reaches.step1 ?_), rfl, henv.cons hns.1 v⟩
        simp [step, hst.fetch, Instr.size, Nat.add_assoc]
  | print args =>
    simp only [compileS] at hc
    cases hca : compileArgs args with
    | none => simp [hca] at hc
    | some ca =>
      simp only [hca, Option.some.injEq, Prod.mk.injEq] at hc
      obtain ⟨hc1, hc2⟩ := hc
      subst hc1 hc2
      have hcode' : CodeAt code pc (.pushNull :: .loadName "print" :: (ca ++ [.call args.length])) := by
        simpa [List.append_assoc] using hcode
      have r1 : Reaches code ⟨pc, 0, st, env, out⟩ ⟨pc + 2 + 2, 0, .printFn :: .null :: st, env, out⟩ :=
        (exec_pushNull hcode').trans (exec_loadName (by simpa [Instr.size] using hcode'.tail) (lookup_print henv))
      have hca' : CodeAt code (pc + 2 + 2) ca := by
        have := hcode'.tail.tail
        simp only [Instr.size] at this
        exact this.left
      have hcall : CodeAt code (pc + 2 + 2 + codeSize ca) [.call args.length] := by
        have := hcode'.tail.tail
        simp only [Instr.size] at this
        exact this.right
      have h2 := exec_args args ca hca code (pc + 2 + 2) (.printFn :: .null :: st) env out hca' henv
      simp only [chunk]
      cases hE : evalArgsW env args with
      | error ex =>
        simp only [hE] at h2
        exact r1.halts h2
      | ok p =>
        obtain ⟨vs, cl⟩ := p
        simp only [hE] at h2
        have hlen : args.length = vs.length := evalArgsW_length env args vs cl hE
        refine ⟨(r1.trans h2).trans (Reaches.step1 ?_), rfl, henv⟩
        have hp := popArgs_reverse vs (.printFn :: .null :: st)
        simp [step, hcall.fetch, hlen, hp, Instr.size]
        omega
  | expr e =>
    simp only [compileS] at hc
    cases hce : compileE (stripWrap e) with
    | none => simp [hce] at hc
    | some ce =>
      simp only [hce, Option.some.injEq, Prod.mk.injEq] at hc
      obtain ⟨hc1, hc2⟩ := hc
      subst hc1 hc2
      have h1 := exec_expr (stripWrap e) ce hce code pc st env out hcode henv
      simp only [chunk]
      cases hE : evalW env (stripWrap e) with
      | error ex => simpa [hE, ExecSpec] using h1
      | ok p =>
        obtain ⟨v, cl⟩ := p
        simp only [hE, ExecSpec] at h1
        exact ⟨by simpa using h1, rfl, henv⟩

theorem NoShadow.head {s : Stmt} {ss : List Stmt} (h : NoShadow (s :: ss)) : NoShadow [s] := by
  cases s <;> simp_all [NoShadow]

theorem NoShadow.tail {s : Stmt} {ss : List Stmt} (h : NoShadow (s :: ss)) : NoShadow ss := by
  cases s <;> simp_all [NoShadow]

theorem exec_return {code : List Instr} {pc : Nat} {st : List Val} {env : Env} {out : List (List Char)} {cs}
    (h : CodeAt code pc (.returnValue :: cs)) : HaltsWith code ⟨pc, 0, st, env, out⟩ ⟨out.reverse, .ok⟩ :=
  HaltsWith.now (by simp [step, h.fetch])

/-- the whole chunk sequence: the machine halts with the outcome of the wrapper-aware source semantics -/
theorem exec_stmts : ∀ (ss : List Stmt) (cs : List Instr), compileStmts ss = some cs →
    ∀ (code : List Instr) (pc : Nat) (env : Env) (out : List (List Char)) (clean : Bool),
    CodeAt code pc cs → EnvOk env → NoShadow ss →
    HaltsWith code ⟨pc, 0, [], env, out⟩ (execW ss env out clean).1
  | [], cs, hcs, code, pc, env, out, clean, hcode, _, _ => by
    simp only [compileStmts, Option.some.injEq] at hcs
    subst hcs
    exact (exec_loadConst hcode).halts (exec_return (by simpa [Instr.size] using hcode.tail))
  | [s], cs, hcs, code, pc, env, out, clean, hcode, henv, hns => by
    simp only [compileStmts] at hcs
    cases hc : compileS s with
    | none => simp [hc] at hcs
    | some p =>
      obtain ⟨c, leaves⟩ := p
      simp only [hc, Option.some.injEq] at hcs
      subst hcs
      have hcc : CodeAt code pc c := hcode.left.left
      have h1 := exec_chunk s c leaves hc code pc [] env out hcc henv hns
      rw [execW_cons]
      cases hch : chunk env out s with
      | error ex => simpa [hch] using h1
      | ok r =>
        obtain ⟨env', out', val⟩ := r
        simp only [hch] at h1 ⊢
        obtain ⟨hr, hl, _⟩ := h1
        simp only [execW]
        cases val with
        | none =>
          simp only [Option.isSome_none] at hl
          subst hl
          have hrest : CodeAt code (pc + codeSize c) [.loadConst .none, .returnValue] := by
            have : CodeAt code pc (c ++ [.loadConst .none, .returnValue]) := by simpa [List.append_assoc] using hcode
            exact this.right
          simp only [Option.toList_none, List.nil_append] at hr
          exact hr.halts ((exec_loadConst hrest).halts (exec_return (by simpa [Instr.size] using hrest.tail)))
        | some v =>
          simp only [Option.isSome_some] at hl
          subst hl
          have hrest : CodeAt code (pc + codeSize c) [.returnValue] := by
            have : CodeAt code pc (c ++ [.returnValue]) := by simpa [List.append_assoc] using hcode
            exact this.right
          exact hr.halts (exec_return hrest)
  | s :: s2 :: ss, cs, hcs, code, pc, env, out, clean, hcode, henv, hns => by
    simp only [compileStmts] at hcs
    cases hc : compileS s with
    | none => simp [hc] at hcs
    | some p =>
      obtain ⟨c, leaves⟩ := p
      cases hcs' : compileStmts (s2 :: ss) with
      | none => simp [hc, hcs'] at hcs
      | some cs' =>
        simp only [hc, hcs', Option.some.injEq] at hcs
        subst hcs
        have hcc : CodeAt code pc c := hcode.left.left
        have h1 := exec_chunk s c leaves hc code pc [] env out hcc henv hns.head
        rw [execW_cons]
        cases hch : chunk env out s with
        | error ex => simpa [hch] using h1
        | ok r =>
          obtain ⟨env', out', val⟩ := r
          simp only [hch] at h1 ⊢
          obtain ⟨hr, hl, henv'⟩ := h1
          cases val with
          | none =>
            simp only [Option.isSome_none] at hl
            subst hl
            have hrest : CodeAt code (pc + codeSize c) cs' := by
              have : CodeAt code pc (c ++ cs') := by simpa [List.append_assoc] using hcode
              exact this.right
            simp only [Option.toList_none, List.nil_append] at hr
            exact hr.halts (exec_stmts (s2 :: ss) cs' hcs' code _ env' out' true hrest henv' hns.tail)
          | some v =>
            simp only [Option.isSome_some] at hl
            subst hl
            have hrest : CodeAt code (pc + codeSize c) (.popTop :: cs') := by
              have : CodeAt code pc (c ++ (.popTop :: cs')) := by simpa [List.append_assoc] using hcode
              exact this.right
            have hpop : Reaches code ⟨pc + codeSize c, 0, [v], env', out'⟩ ⟨pc + codeSize c + 2, 0, [], env', out'⟩ :=
              Reaches.step1 (by simp [step, hrest.fetch, Instr.size])
            simp only [Option.toList_some, List.singleton_append] at hr
            have hrest' : CodeAt code (pc + codeSize c + 2) cs' := by simpa [Instr.size] using hrest.tail
            exact (hr.trans hpop).halts (exec_stmts (s2 :: ss) cs' hcs' code _ env' out' true hrest' henv' hns.tail)

end ErgVerif.C01
