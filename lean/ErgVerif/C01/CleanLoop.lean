import ErgVerif.C01.Clean
/-! C01: `clean` programs with loops — the wrapper-aware semantics is the Python reading. -/
namespace ErgVerif.C01

theorem bodyPy_of_clean : ∀ (body : List Stmt) (env : Env) (out : List (List Char)) (clean : Bool)
    (env' : Env) (out' : List (List Char)),
    bodyW body env out clean = .ok (env', out', true) → clean = true ∧ bodyPy body env out = .ok (env', out')
  | [], env, out, clean, env', out', h => by
    simp only [bodyW, Except.ok.injEq, Prod.mk.injEq] at h
    obtain ⟨h1, h2, h3⟩ := h
    subst h1 h2 h3
    exact ⟨rfl, rfl⟩
  | s :: ss, env, out, clean, env', out', h => by
    cases s with
    | defv x e =>
      simp only [bodyW] at h
      cases he : evalW env e with
      | error ex => simp [he] at h
      | ok p =>
        obtain ⟨v, c⟩ := p
        simp only [he] at h
        have := bodyPy_of_clean ss _ out _ env' out' h
        simp only [Bool.and_eq_true] at this
        obtain ⟨⟨h1, h2⟩, h3⟩ := this
        subst h1 h2
        exact ⟨rfl, by simp [bodyPy, evalPy_of_clean env e v he, h3]⟩
    | print args =>
      simp only [bodyW] at h
      cases he : evalArgsW env args with
      | error ex => simp [he] at h
      | ok p =>
        obtain ⟨vs, c⟩ := p
        simp only [he] at h
        have := bodyPy_of_clean ss env _ _ env' out' h
        simp only [Bool.and_eq_true] at this
        obtain ⟨⟨h1, h2⟩, h3⟩ := this
        subst h1 h2
        exact ⟨rfl, by simp [bodyPy, evalArgsPy_of_clean env args vs he, h3]⟩
    | expr e =>
      simp only [bodyW] at h
      cases he : evalW env (stripWrap e) with
      | error ex => simp [he] at h
      | ok p =>
        obtain ⟨v, c⟩ := p
        simp only [he] at h
        have := bodyPy_of_clean ss env out _ env' out' h
        simp only [Bool.and_eq_true] at this
        obtain ⟨⟨h1, h2⟩, h3⟩ := this
        subst h1 h2
        have hpy := evalPy_of_clean env (stripWrap e) v he
        rw [evalPy_stripWrap] at hpy
        exact ⟨rfl, by simp [bodyPy, hpy, h3]⟩

theorem loopPy_of_clean (i : String) (body : List Stmt) : ∀ (n : Nat) (cur : Int) (env : Env) (out : List (List Char))
    (clean : Bool) (env' : Env) (out' : List (List Char)),
    loopW i body n cur env out clean = .ok (env', out', true) → clean = true ∧ loopPy i body n cur env out = .ok (env', out')
  | 0, cur, env, out, clean, env', out', h => by
    simp only [loopW, Except.ok.injEq, Prod.mk.injEq] at h
    obtain ⟨h1, h2, h3⟩ := h
    subst h1 h2 h3
    exact ⟨rfl, rfl⟩
  | n + 1, cur, env, out, clean, env', out', h => by
    simp only [loopW] at h
    cases hb : bodyW body ((i, .int cur) :: env) out clean with
    | error e => simp [hb] at h
    | ok r =>
      obtain ⟨e1, o1, c1⟩ := r
      simp only [hb] at h
      have h2 := loopPy_of_clean i body n (cur + 1) e1 o1 c1 env' out' h
      obtain ⟨hc1, hl⟩ := h2
      subst hc1
      have h3 := bodyPy_of_clean body _ out clean e1 o1 hb
      exact ⟨h3.1, by simp [loopPy, h3.2, hl]⟩

theorem topPy_of_clean (t : Top) (env : Env) (out : List (List Char)) (clean : Bool) (env' : Env) (out' : List (List Char))
    (h : topW t env out clean = .ok (env', out', true)) : clean = true ∧ topPy t env out = .ok (env', out') := by
  cases t with
  | stmt s =>
    simp only [topW] at h
    have := bodyPy_of_clean [s] env out clean env' out' h
    exact ⟨this.1, by simp [topPy, this.2]⟩
  | forRange i lo hi body =>
    simp only [topW] at h
    cases hl : evalW env lo with
    | error ex => simp [hl] at h
    | ok ra =>
      obtain ⟨va, c1⟩ := ra
      cases hh : evalW env hi with
      | error ex => simp [hl, hh] at h
      | ok rb =>
        obtain ⟨vb, c2⟩ := rb
        simp only [hl, hh] at h
        cases va with
        | int a =>
          cases vb with
          | int b =>
            simp only at h
            have := loopPy_of_clean i body _ a env out _ env' out' h
            simp only [Bool.and_eq_true] at this
            obtain ⟨⟨⟨hc, hc1⟩, hc2⟩, hlp⟩ := this
            subst hc hc1 hc2
            exact ⟨rfl, by simp [topPy, evalPy_of_clean env lo _ hl, evalPy_of_clean env hi _ hh, hlp]⟩
          | _ => simp at h
        | _ => simp at h

theorem execTopsPy_of_clean : ∀ (ts : List Top) (env : Env) (out : List (List Char)) (clean : Bool),
    (execTopsW ts env out clean).2 = true → clean = true ∧ (execTopsW ts env out clean).1 = execTopsPy ts env out
  | [], env, out, clean, h => by simpa [execTopsW, execTopsPy] using h
  | t :: ts, env, out, clean, h => by
    simp only [execTopsW] at h ⊢
    cases hT : topW t env out clean with
    | error e => obtain ⟨ex, o⟩ := e; simp [hT] at h
    | ok r =>
      obtain ⟨env', out', c'⟩ := r
      simp only [hT] at h ⊢
      have h2 := execTopsPy_of_clean ts env' out' c' h
      obtain ⟨hc, hrest⟩ := h2
      subst hc
      have h3 := topPy_of_clean t env out clean env' out' hT
      exact ⟨h3.1, by simp [execTopsPy, h3.2, hrest]⟩

end ErgVerif.C01
