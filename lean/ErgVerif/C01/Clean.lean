import ErgVerif.C01.Model
/-! C01: when no wrapper changes a value or fails (`clean`), the wrapper-aware semantics is the plain Python reading. -/
namespace ErgVerif.C01

theorem wrapCall_of_clean {c : Cls} {v : Val} (h : wrapClean c v = true) : wrapCall c v = .ok v := by
  cases c <;> cases v <;> simp_all [wrapClean, wrapCall]

theorem applyWrap_clean {w : Option Cls} {v v' : Val} {c : Bool} (h : applyWrap w v c = .ok (v', true)) :
    v' = v ∧ c = true := by
  cases w with
  | none => simp [applyWrap] at h; exact ⟨h.1.symm, h.2⟩
  | some cl =>
    simp only [applyWrap] at h
    cases hw : wrapCall cl v with
    | error e => simp [hw] at h
    | ok v2 =>
      simp only [hw, Except.ok.injEq, Prod.mk.injEq, Bool.and_eq_true] at h
      obtain ⟨h1, h2, h3⟩ := h
      have := wrapCall_of_clean h3
      rw [this] at hw
      simp only [Except.ok.injEq] at hw
      exact ⟨by rw [← h1, ← hw], h2⟩

theorem evalPy_of_clean_ite (env : Env) (c a b : Expr) (w : Option Cls) (v : Val)
    (ihc : ∀ v, evalW env c = .ok (v, true) → evalPy env c = .ok v)
    (iha : ∀ v, evalW env a = .ok (v, true) → evalPy env a = .ok v)
    (ihb : ∀ v, evalW env b = .ok (v, true) → evalPy env b = .ok v)
    (h : evalW env (.ite c a b w) = .ok (v, true)) : evalPy env (.ite c a b w) = .ok v := by
  simp only [evalW] at h
  cases hc : evalW env c with
  | error e => simp [hc] at h
  | ok pc =>
    obtain ⟨vc, c0⟩ := pc
    simp only [hc] at h
    by_cases ht : truthy vc
    · simp only [ht, if_true] at h
      cases ha : evalW env a with
      | error e => simp [ha] at h
      | ok pa =>
        obtain ⟨va, c1⟩ := pa
        simp only [ha] at h
        have hcl := applyWrap_clean h
        simp only [Bool.and_eq_true] at hcl
        obtain ⟨hv, hc0, hc1⟩ := hcl
        subst hc0 hc1
        simp [evalPy, ihc vc hc, iha va ha, ht, hv]
    · simp only [ht, Bool.false_eq_true, if_false] at h
      cases hb : evalW env b with
      | error e => simp [hb] at h
      | ok pb =>
        obtain ⟨vb, c2⟩ := pb
        simp only [hb] at h
        have hcl := applyWrap_clean h
        simp only [Bool.and_eq_true] at hcl
        obtain ⟨hv, hc0, hc2⟩ := hcl
        subst hc0 hc2
        simp [evalPy, ihc vc hc, ihb vb hb, ht, hv]

theorem evalPy_of_clean (env : Env) : ∀ (e : Expr) (v : Val), evalW env e = .ok (v, true) → evalPy env e = .ok v
  | .lit c w, v, h => by
    simp only [evalW] at h
    have := applyWrap_clean h
    simp [evalPy, this.1]
  | .var x w, v, h => by
    simp only [evalW] at h
    cases hl : lookup env x with
    | none => simp [hl] at h
    | some v0 =>
      simp only [hl] at h
      have := applyWrap_clean h
      simp [evalPy, hl, this.1]
  | .bin op l r w, v, h => by
    simp only [evalW] at h
    cases hl : evalW env l with
    | error e => simp [hl] at h
    | ok pa =>
      obtain ⟨a, c1⟩ := pa
      cases hr : evalW env r with
      | error e => simp [hl, hr] at h
      | ok pb =>
        obtain ⟨b, c2⟩ := pb
        cases hp : pyBin op a b with
        | error e => simp [hl, hr, hp] at h
        | ok v0 =>
          simp only [hl, hr, hp] at h
          have hc := applyWrap_clean h
          simp only [Bool.and_eq_true] at hc
          obtain ⟨hv, hc1, hc2⟩ := hc
          subst hc1 hc2
          simp [evalPy, evalPy_of_clean env l a hl, evalPy_of_clean env r b hr, hp, hv]
  | .cmp op l r w, v, h => by
    simp only [evalW] at h
    cases hl : evalW env l with
    | error e => simp [hl] at h
    | ok pa =>
      obtain ⟨a, c1⟩ := pa
      cases hr : evalW env r with
      | error e => simp [hl, hr] at h
      | ok pb =>
        obtain ⟨b, c2⟩ := pb
        cases hp : pyCmp op a b with
        | error e => simp [hl, hr, hp] at h
        | ok v0 =>
          simp only [hl, hr, hp] at h
          have hc := applyWrap_clean h
          simp only [Bool.and_eq_true] at hc
          obtain ⟨hv, hc1, hc2⟩ := hc
          subst hc1 hc2
          simp [evalPy, evalPy_of_clean env l a hl, evalPy_of_clean env r b hr, hp, hv]
  | .and l r w, v, h => by
    simp only [evalW] at h
    cases hl : evalW env l with
    | error e => simp [hl] at h
    | ok pa =>
      obtain ⟨a, c1⟩ := pa
      simp only [hl] at h
      by_cases ht : truthy a
      · simp only [ht, if_true] at h
        cases hr : evalW env r with
        | error e => simp [hr] at h
        | ok pb =>
          obtain ⟨b, c2⟩ := pb
          simp only [hr] at h
          have hc := applyWrap_clean h
          simp only [Bool.and_eq_true] at hc
          obtain ⟨hv, hc1, hc2⟩ := hc
          subst hc1 hc2
          simp [evalPy, evalPy_of_clean env l a hl, evalPy_of_clean env r b hr, ht, hv]
      · simp only [ht, Bool.false_eq_true, if_false] at h
        have hc := applyWrap_clean h
        obtain ⟨hv, hc1⟩ := hc
        subst hc1
        simp [evalPy, evalPy_of_clean env l a hl, ht, hv]
  | .or l r w, v, h => by
    simp only [evalW] at h
    cases hl : evalW env l with
    | error e => simp [hl] at h
    | ok pa =>
      obtain ⟨a, c1⟩ := pa
      simp only [hl] at h
      by_cases ht : truthy a
      · simp only [ht, if_true] at h
        have hc := applyWrap_clean h
        obtain ⟨hv, hc1⟩ := hc
        subst hc1
        simp [evalPy, evalPy_of_clean env l a hl, ht, hv]
      · simp only [ht, Bool.false_eq_true, if_false] at h
        cases hr : evalW env r with
        | error e => simp [hr] at h
        | ok pb =>
          obtain ⟨b, c2⟩ := pb
          simp only [hr] at h
          have hc := applyWrap_clean h
          simp only [Bool.and_eq_true] at hc
          obtain ⟨hv, hc1, hc2⟩ := hc
          subst hc1 hc2
          simp [evalPy, evalPy_of_clean env l a hl, evalPy_of_clean env r b hr, ht, hv]
  | .neg e w, v, h => by
    simp only [evalW] at h
    cases he : evalW env e with
    | error x => simp [he] at h
    | ok pa =>
      obtain ⟨a, c1⟩ := pa
      cases hp : pyNeg a with
      | error x => simp [he, hp] at h
      | ok v0 =>
        simp only [he, hp] at h
        have hc := applyWrap_clean h
        obtain ⟨hv, hc1⟩ := hc
        subst hc1
        simp [evalPy, evalPy_of_clean env e a he, hp, hv]
  | .not e w, v, h => by
    simp only [evalW] at h
    cases he : evalW env e with
    | error x => simp [he] at h
    | ok pa =>
      obtain ⟨a, c1⟩ := pa
      simp only [he] at h
      have hc := applyWrap_clean h
      obtain ⟨hv, hc1⟩ := hc
      subst hc1
      simp [evalPy, evalPy_of_clean env e a he, hv]
  | .ite c a b w, v, h =>
    evalPy_of_clean_ite env c a b w v (fun v h => evalPy_of_clean env c v h) (fun v h => evalPy_of_clean env a v h)
      (fun v h => evalPy_of_clean env b v h) h

theorem evalPy_stripWrap (env : Env) (e : Expr) : evalPy env (stripWrap e) = evalPy env e := by
  cases e <;> simp [stripWrap, evalPy]

theorem evalArgsPy_of_clean (env : Env) : ∀ (es : List Expr) (vs : List Val),
    evalArgsW env es = .ok (vs, true) → evalArgsPy env es = .ok vs
  | [], vs, h => by simp [evalArgsW] at h; simp [evalArgsPy, h]
  | e :: es, vs, h => by
    simp only [evalArgsW] at h
    cases he : evalW env e with
    | error x => simp [he] at h
    | ok pa =>
      obtain ⟨a, c1⟩ := pa
      cases hes : evalArgsW env es with
      | error x => simp [he, hes] at h
      | ok pb =>
        obtain ⟨bs, c2⟩ := pb
        simp only [he, hes, Except.ok.injEq, Prod.mk.injEq, Bool.and_eq_true] at h
        obtain ⟨hv, hc1, hc2⟩ := h
        subst hc1 hc2
        simp [evalArgsPy, evalPy_of_clean env e a he, evalArgsPy_of_clean env es bs hes, hv]

theorem execPy_of_clean : ∀ (ss : List Stmt) (env : Env) (out : List (List Char)) (clean : Bool),
    (execW ss env out clean).2 = true → clean = true ∧ (execW ss env out clean).1 = execPy ss env out
  | [], env, out, clean, h => by simpa [execW, execPy] using h
  | s :: ss, env, out, clean, h => by
    cases s with
    | defv x e =>
      simp only [execW] at h ⊢
      cases he : evalW env e with
      | error ex => simp [he] at h
      | ok p =>
        obtain ⟨v, c⟩ := p
        simp only [he] at h ⊢
        have := execPy_of_clean ss _ out _ h
        simp only [Bool.and_eq_true] at this
        obtain ⟨⟨h1, h2⟩, h3⟩ := this
        subst h1 h2
        simp only [Bool.and_self] at h3
        simp [execPy, evalPy_of_clean env e v he, h3]
    | print args =>
      simp only [execW] at h ⊢
      cases he : evalArgsW env args with
      | error ex => simp [he] at h
      | ok p =>
        obtain ⟨vs, c⟩ := p
        simp only [he] at h ⊢
        have := execPy_of_clean ss env _ _ h
        simp only [Bool.and_eq_true] at this
        obtain ⟨⟨h1, h2⟩, h3⟩ := this
        subst h1 h2
        simp only [Bool.and_self] at h3
        simp [execPy, evalArgsPy_of_clean env args vs he, h3]
    | expr e =>
      simp only [execW] at h ⊢
      cases he : evalW env (stripWrap e) with
      | error ex => simp [he] at h
      | ok p =>
        obtain ⟨v, c⟩ := p
        simp only [he] at h ⊢
        have := execPy_of_clean ss env out _ h
        simp only [Bool.and_eq_true] at this
        obtain ⟨⟨h1, h2⟩, h3⟩ := this
        subst h1 h2
        have hpy := evalPy_of_clean env (stripWrap e) v he
        rw [evalPy_stripWrap] at hpy
        simp only [Bool.and_self] at h3
        simp [execPy, hpy, h3]

end ErgVerif.C01
