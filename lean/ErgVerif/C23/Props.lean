import ErgVerif.C23.Model
/-!
# C23 — A moved mutable value cannot be used again

Property theorems only. Model: `ErgVerif/C23/Model.lean` (`checkModule fixed` = `OwnershipChecker::check` of `ownercheck.rs`
after the two `fix:` commits; `legacy` = pinned commit; `ideal` = current code + callee/receiver and unpacked arguments of a
call visited). What is proved for all states: the three local laws the property names (an owned, non-chunk access of an
alive mutable variable moves it and every later access of that name from the same or an inner scope is reported with the
recorded move site; a reference / immutable / chunk access moves nothing; an alive definition in a nearer scope shields a
moved outer name) and that the checker cannot panic on such an access. The whole-program statement is exercised
differentially (see notes/C23.md); the recorded finding C23-receiver-not-checked is the witness that it is false today.
-/
namespace ErgVerif.C23
open ErgVerif.MiniHir

theorem lookup_insertDropped (d : List (Name × Loc)) (n : Name) (l : Loc) : lookupDropped (insertDropped d n l) n = some l := by
  induction d with
  | nil => simp [insertDropped, lookupDropped]
  | cons p rest ih =>
    obtain ⟨m, l'⟩ := p
    by_cases h : m = n <;> simp [insertDropped, lookupDropped, h, ih]

/-- Moving: if the name is alive somewhere and not yet moved, `drop` succeeds (no panic) and afterwards the name counts as
    moved, with the move site recorded — from the same scope stack and from any scopes pushed on top that do not define it. -/
theorem C23_move_recorded (v : Variant) : ∀ (st : List Scope) (n : Name) (l : Loc),
    findDropped v st n = none → (∃ sc ∈ st, n ∈ sc.alive) →
    ∃ st', dropVar st n l = some st' ∧ findDropped v st' n = some l
  | [], _, _, _, h => by simp at h
  | sc :: rest, n, l, hnd, hal => by
    have hl : lookupDropped sc.dropped n = none := by
      unfold findDropped at hnd
      split at hnd
      · simp at hnd
      · assumption
    by_cases ha : n ∈ sc.alive
    · refine ⟨{ alive := sc.alive.erase n, dropped := insertDropped sc.dropped n l } :: rest, by simp [dropVar, ha], ?_⟩
      simp [findDropped, lookup_insertDropped]
    · have hrest : ∃ sc' ∈ rest, n ∈ sc'.alive := by
        obtain ⟨s, hs, hs2⟩ := hal
        cases hs with
        | head => exact absurd hs2 ha
        | tail _ h => exact ⟨s, h, hs2⟩
      have hnd' : findDropped v rest n = none := by
        unfold findDropped at hnd
        simp only [hl] at hnd
        simpa [ha] using hnd
      obtain ⟨st', h1, h2⟩ := C23_move_recorded v rest n l hnd' hrest
      refine ⟨sc :: st', by simp [dropVar, ha, h1], ?_⟩
      simp [findDropped, hl, ha, h2]

/-- A later use of a moved name is rejected, whatever the ownership of the use, and the state is left unchanged. -/
theorem C23_use_after_move_reported (v : Variant) (st : List Scope) (n : Name) (ml loc : Loc) (mutTy : Bool) (own : Own)
    (chunk : Bool) (errs : List MErr) (h : findDropped v st n = some ml) :
    checkIdent v loc n mutTy own chunk st errs = .ok st (errs ++ [⟨n, loc, ml⟩]) := by
  simp [checkIdent, h]

/-- Moving then using, composed: an owned non-chunk access of an alive, not yet moved mutable variable yields no error and
    no panic, and any later access of the name on the resulting state is reported with that access as the move site. -/
theorem C23_move_then_use (v : Variant) (st : List Scope) (n : Name) (l loc : Loc) (own : Own) (chunk mutTy : Bool)
    (errs : List MErr) (hnd : findDropped v st n = none) (hal : ∃ sc ∈ st, n ∈ sc.alive) :
    ∃ st', checkIdent v l n true .owned false st errs = .ok st' errs ∧
      checkIdent v loc n mutTy own chunk st' errs = .ok st' (errs ++ [⟨n, loc, l⟩]) := by
  obtain ⟨st', h1, h2⟩ := C23_move_recorded v st n l hnd hal
  refine ⟨st', ?_, C23_use_after_move_reported v st' n l loc mutTy own chunk errs h2⟩
  simp [checkIdent, hnd, h1]

/-- Passing for a reference or immutable parameter (`ownership ≠ Owned`), accessing an immutable value, or a bare access as a
    chunk does not move: no error, no panic, state unchanged. -/
theorem C23_ref_does_not_move (v : Variant) (st : List Scope) (n : Name) (loc : Loc) (mutTy : Bool) (own : Own) (chunk : Bool)
    (errs : List MErr) (hnd : findDropped v st n = none) (h : mutTy = false ∨ own ≠ .owned ∨ chunk = true) :
    checkIdent v loc n mutTy own chunk st errs = .ok st errs := by
  unfold checkIdent
  simp only [hnd]
  rcases h with h | h | h
  · simp [h]
  · cases own <;> simp_all
  · simp [h]

/-- Shadowing (current code): a name that is alive in a nearer scope, and moved only in scopes further out, is not reported. -/
theorem C23_shadowing_shields (inner : Scope) (outer : List Scope) (n : Name)
    (hi : n ∈ inner.alive) (hd : lookupDropped inner.dropped n = none) :
    findDropped fixed (inner :: outer) n = none := by
  simp [findDropped, hd, hi, fixed]

/-- Scopes pushed for a definition or lambda start empty and are transparent for a moved outer name that they do not define. -/
theorem C23_inner_scope_sees_outer_move (v : Variant) (outer : List Scope) (n : Name) (ml : Loc)
    (h : findDropped v outer n = some ml) : findDropped v (emptyScope :: outer) n = some ml := by
  simp [findDropped, emptyScope, lookupDropped, h]

/-! ## witnesses -/

private def L (l c : Nat) : Loc := ⟨l, c⟩
private def varDef (l : Nat) (n : String) (body : List Expr) : Expr :=
  .defn (L l 0) ⟨n.toList, false, false, false, false, false, false, false, none⟩ .nil (.ofList body)
private def mutIdent (l c : Nat) (n : String) : Expr := .ident (L l c) n.toList ⟨false, true, false, "<module>".toList⟩
private def immIdent (l c : Nat) (n : String) : Expr := .ident (L l c) n.toList ⟨false, false, false, "<module>".toList⟩
private def newList (l c : Nat) : Expr := .un (L l c) "Mutate".toList (.coll .list (.ofList [.lit (L l (c + 2))]))

/-- `v = ![1]; w = v; print! v`-like: the use at 3:7 is reported with move line 2 -/
private def wBasic : ExprList := .ofList [varDef 1 "v" [newList 1 4], varDef 2 "w" [mutIdent 2 4 "v"], varDef 3 "u" [mutIdent 3 4 "v"]]

/-- `v = ![1, 2]; w = v; f() =⏎ v = 3⏎ v + 1` (finding #21) -/
private def wShadow : ExprList := .ofList
  [varDef 1 "v" [newList 1 4], varDef 2 "w" [mutIdent 2 4 "v"],
   .defn (L 3 0) ⟨['f'], false, true, false, false, false, false, false, none⟩ .nil
     (.ofList [varDef 4 "v" [.lit (L 4 8)], .bin (L 5 4) "Plus".toList (immIdent 5 4 "v") (.lit (L 5 8))])]

/-- `g = (a: List!(Int, 2)) -> [a]` (finding #22) -/
private def wLambda : ExprList := .ofList
  [varDef 1 "g" [.lambda (L 1 4) ⟨0, false⟩ (.cons (.mk ⟨.nd, L 1 5, some ['a'], true, false, false⟩ .nil) .nil)
     (.ofList [.coll .list (.ofList [.ident (L 1 28) ['a'] ⟨true, true, false, "<module>::g::<lambda_0>".toList⟩])])]]

/-- `v = ![1]; w = v; v.push! 2`: the moved variable as the receiver of a method call (recorded finding) -/
private def wReceiver : ExprList := .ofList
  [varDef 1 "v" [newList 1 4], varDef 2 "w" [mutIdent 2 4 "v"],
   .call (L 3 0) ⟨some "push!".toList, false, true, false, true, true,
       .some ⟨[(some "self".toList, .refMut), (some "elem".toList, .ref)], none, [], none⟩⟩
     (mutIdent 3 0 "v") (.ofList [.lit (L 3 8)]) .nil .nil .nil]

theorem C23_basic : checkModule fixed wBasic = .ok [⟨["u".toList, "w".toList], [("v".toList, L 2 4)]⟩] [⟨"v".toList, L 3 4, L 2 4⟩] := by
  decide

/-- Finding #21 (repaired): the pinned commit reported the inner `v`; the current code does not. -/
theorem C23_witness_shadow :
    resErrs (checkModule legacy wShadow) = some [⟨"v".toList, L 5 4, L 2 4⟩] ∧ resErrs (checkModule fixed wShadow) = some [] := by
  decide

/-- Finding #22 (repaired): the pinned commit panicked; the current code accepts. -/
theorem C23_witness_lambda_param :
    checkModule legacy wLambda = .crash "variable not found" ∧ resErrs (checkModule fixed wLambda) = some [] := by
  decide

/-- Recorded finding C23-receiver-not-checked: the current code accepts a use of a moved variable as a method receiver;
    the reference walker reports it. The whole-program soundness statement is therefore false of the code today. -/
theorem C23_witness_receiver :
    resErrs (checkModule fixed wReceiver) = some [] ∧ resErrs (checkModule ideal wReceiver) = some [⟨"v".toList, L 3 0, L 2 4⟩] := by
  decide

/-- `v = ![1]; p!() =⏎ v = ![3]⏎ w = v⏎ u = v; t = v` — moves under shadowing: the move of the inner `v` marks the inner
    variable (its later use at 5:8 is reported with move site 4:8) and leaves the outer `v` alone (its use at 6:4 is accepted).
    `drop` and `check_if_dropped` resolve a name to the same, innermost, variable (seeded change C23-m9 broke exactly this). -/
private def wShadowMove : ExprList := .ofList
  [varDef 1 "v" [newList 1 4],
   .defn (L 2 0) ⟨"p!".toList, false, true, true, false, false, false, false, none⟩ .nil
     (.ofList [.defn (L 3 4) ⟨['v'], false, false, false, false, false, false, false, none⟩ .nil (.ofList [newList 3 8]),
               .defn (L 4 4) ⟨['w'], false, false, false, false, false, false, false, none⟩ .nil (.ofList [mutIdent 4 8 "v"]),
               .defn (L 5 4) ⟨['u'], false, false, false, false, false, false, false, none⟩ .nil (.ofList [mutIdent 5 8 "v"])]),
   varDef 6 "t" [mutIdent 6 4 "v"]]

theorem C23_witness_move_under_shadowing :
    resErrs (checkModule fixed wShadowMove) = some [⟨"v".toList, L 5 8, L 4 8⟩] := by decide

/-- General form: a move never touches a variable of the same name in a scope further out than the innermost alive one. -/
theorem C23_move_marks_innermost (sc : Scope) (rest : List Scope) (n : Name) (l : Loc) (h : n ∈ sc.alive) :
    dropVar (sc :: rest) n l = some ({ alive := sc.alive.erase n, dropped := insertDropped sc.dropped n l } :: rest) := by
  simp [dropVar, h]

/-- non-vacuity of `C23_move_then_use` / `C23_shadowing_shields` -/
example : findDropped fixed [⟨["v".toList], []⟩] "v".toList = none ∧ (∃ sc ∈ [(⟨["v".toList], []⟩ : Scope)], "v".toList ∈ sc.alive) ∧
    findDropped fixed [⟨["v".toList], []⟩, ⟨[], [("v".toList, L 2 4)]⟩] "v".toList = none ∧
    findDropped legacy [⟨["v".toList], []⟩, ⟨[], [("v".toList, L 2 4)]⟩] "v".toList = some (L 2 4) := by
  refine ⟨by decide, ⟨_, List.mem_singleton.mpr rfl, by decide⟩, by decide, by decide⟩

end ErgVerif.C23
