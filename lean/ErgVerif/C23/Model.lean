import ErgVerif.Shared.MiniHir
/-!
# C23 model — transcription of `crates/erg_compiler/ownercheck.rs`

Transcribed: `OwnershipChecker::check`, `check_block`, `check_expr` (every arm), `check_acc`, `define`, `define_params`,
`define_param`, `drop`, `check_if_dropped`. State: the `LocalVars` of the scopes on the current path, innermost first
(`dict` is keyed by `full_path()`; a scope is created empty on entry of a `Def`/`Lambda` and unreachable after the matching
`path_stack.pop()`, so the entries reachable through `nth_outer_scope` are exactly this list — assuming the path strings of
the scopes on one path are pairwise different, which holds because each is a proper extension of the previous one).
Panic sites are explicit (`Res.crash`): `drop` ("variable not found"), `todo!()` in the keyword-argument loop and for
list comprehensions, `args_ownership()`'s `todo!`, `non_defaults.len() - 1` underflow for a method call without parameters.

`Variant`: `fixed` = current code; `legacy` = pinned commit (lambda parameters not defined; moved-name lookup over all
enclosing scopes); `ideal` = current code + the callee/receiver and unpacked arguments of a call are visited (by reference)
— the reference against which the recorded finding C23-receiver-not-checked is stated.
-/
namespace ErgVerif.C23
open ErgVerif.MiniHir

structure Scope where
  alive : List Name
  dropped : List (Name × Loc)
  deriving DecidableEq, Repr

structure MErr where
  name : Name
  useLoc : Loc
  movedLoc : Loc
  deriving DecidableEq, Repr

inductive Res where
  | ok (st : List Scope) (errs : List MErr)
  | crash (why : String)
  deriving DecidableEq, Repr

structure Variant where
  defineLambdaParams : Bool
  stopAtDefiningScope : Bool
  visitReceiver : Bool

def fixed : Variant := ⟨true, true, false⟩
def legacy : Variant := ⟨false, false, false⟩
def ideal : Variant := ⟨true, true, true⟩

def emptyScope : Scope := ⟨[], []⟩

def lookupDropped (dropped : List (Name × Loc)) (n : Name) : Option Loc :=
  match dropped with
  | [] => none
  | (m, l) :: rest => if m = n then some l else lookupDropped rest n

/-- `check_if_dropped`: the moved location if the name counts as moved -/
def findDropped (v : Variant) : List Scope → Name → Option Loc
  | [], _ => none
  | sc :: rest, n =>
    match lookupDropped sc.dropped n with
    | some l => some l
    | none => if v.stopAtDefiningScope && sc.alive.contains n then none else findDropped v rest n

def insertDropped (dropped : List (Name × Loc)) (n : Name) (l : Loc) : List (Name × Loc) :=
  match dropped with
  | [] => [(n, l)]
  | (m, l') :: rest => if m = n then (n, l) :: rest else (m, l') :: insertDropped rest n l

/-- `drop`: the innermost scope in which the name is alive; `none` = `panic!("variable not found")` -/
def dropVar : List Scope → Name → Loc → Option (List Scope)
  | [], _, _ => none
  | sc :: rest, n, l =>
    if sc.alive.contains n then some ({ alive := sc.alive.erase n, dropped := insertDropped sc.dropped n l } :: rest)
    else (dropVar rest n l).map (sc :: ·)

/-- `alive_vars.insert` in the current scope -/
def defineName (st : List Scope) (n : Name) : List Scope :=
  match st with
  | [] => []     -- `current_scope()` would panic; unreachable: the module scope is always there
  | sc :: rest => (if sc.alive.contains n then sc else { sc with alive := n :: sc.alive }) :: rest

/-- `define_params`: only `ParamPattern::VarName` patterns are defined -/
def defineParams : ParamList → List Scope → List Scope
  | .nil, st => st
  | .cons (.mk pi _) ps, st =>
    defineParams ps (match pi.varName, pi.name with
      | true, some n => defineName st n
      | _, _ => st)

def bindRes (r : Res) (f : List Scope → List MErr → Res) : Res :=
  match r with
  | .ok st errs => f st errs
  | .crash w => .crash w

def popScope (r : Res) : Res := bindRes r (fun st errs => .ok st.tail errs)

/-- `check_acc` on an identifier -/
def checkIdent (v : Variant) (loc : Loc) (name : Name) (mutTy : Bool) (own : Own) (chunk : Bool) (st : List Scope)
    (errs : List MErr) : Res :=
  match findDropped v st name with
  | some ml => .ok st (errs ++ [⟨name, loc, ml⟩])
  | none =>
    if mutTy && own == .owned && !chunk then
      match dropVar st name loc with
      | some st' => .ok st' errs
      | none => .crash "variable not found"
    else .ok st errs

def ownOfKw (o : OwnsInfo) (k : Name) : Option Own :=
  match o.d.find? (fun p => p.1 = k) with
  | some p => some p.2
  | none =>
    match o.nd.find? (fun p => p.1 = some k) with
    | some p => some p.2
    | none => o.kwvar.map (·.2)

mutual
/-- `check_expr(expr, ownership, chunk)` -/
def checkExpr (v : Variant) : Expr → Own → Bool → List Scope → List MErr → Res
  | .ident loc name ai, own, chunk, st, errs => checkIdent v loc name ai.mutTy own chunk st errs
  | .attr _ obj _ _, own, _, st, errs => checkExpr v obj own false st errs
  | .defn _ di ps body, _, _, st, errs =>
    let st := if di.glob then st else defineName st di.name
    let st := emptyScope :: st
    let st := if di.subr then defineParams ps st else st
    popScope (checkBlock v body (body.len == 1) st errs)
  | .classDef _ _ _ rs ms, _, _, st, errs =>
    bindRes (checkEach v rs .owned false st errs) (fun st errs => checkEach v ms .owned true st errs)
  | .patchDef _ base ms, _, _, st, errs =>
    bindRes (checkExpr v base .owned false st errs) (fun st errs => checkEach v ms .owned true st errs)
  | .call _ ci obj pos var kw kwvar, _, _, st, errs =>
    bindRes (if v.visitReceiver then checkExpr v obj .ref false st errs else .ok st errs) (fun st errs =>
    if !ci.sigSubr then .ok st errs
    else match ci.owns with
      | .notSubr => .ok st errs
      | .todo => .crash "args_ownership todo"
      | .some o =>
        if ci.method && o.nd.isEmpty then .crash "attempt to subtract with overflow"
        else
          let ndLen := if ci.method then o.nd.length - 1 else o.nd.length
          bindRes (checkPos v pos ndLen (o.nd.map (·.2)) o.var (o.d.map (·.2)) st errs) (fun st errs =>
          bindRes (if v.visitReceiver then checkEach v var .ref false st errs else .ok st errs) (fun st errs =>
          bindRes (checkKws v kw o.d.length o (o.d.map (·.2)) st errs) (fun st errs =>
          if v.visitReceiver then checkEach v kwvar .ref false st errs else .ok st errs))))
  | .bin _ _ l r, _, _, st, errs =>
    bindRes (checkExpr v l .ref false st errs) (fun st errs => checkExpr v r .ref false st errs)
  | .un _ _ e, _, _, st, errs => checkExpr v e .ref false st errs
  | .coll k es, own, _, st, errs =>
    match k with
    | .listComp => .crash "not yet implemented"
    | _ => checkEach v es own false st errs
  | .record _ attrs, own, _, st, errs => checkRecord v attrs own st errs
  | .lambda _ _ ps body, _, _, st, errs =>
    let st := emptyScope :: st
    let st := if v.defineLambdaParams then defineParams ps st else st
    popScope (checkBlock v body (body.len == 1) st errs)
  | .tasc e, own, chunk, st, errs => checkExpr v e own chunk st errs
  | .lit _, _, _, st, errs => .ok st errs
  | .redef _ _ _, _, _, st, errs => .ok st errs
  | .blk _ _, _, _, st, errs => .ok st errs
  | .import, _, _, st, errs => .ok st errs
/-- `check_block`: a one-expression block is checked as a non-chunk -/
def checkBlock (v : Variant) : ExprList → Bool → List Scope → List MErr → Res
  | .nil, _, st, errs => .ok st errs
  | .cons e es, single, st, errs =>
    bindRes (checkExpr v e .owned (!single) st errs) (fun st errs => checkBlock v es single st errs)
def checkEach (v : Variant) : ExprList → Own → Bool → List Scope → List MErr → Res
  | .nil, _, _, st, errs => .ok st errs
  | .cons e es, own, chunk, st, errs =>
    bindRes (checkExpr v e own chunk st errs) (fun st errs => checkEach v es own chunk st errs)
/-- the record arm: the chunks of every attribute body, in the enclosing scope -/
def checkRecord (v : Variant) : ExprList → Own → List Scope → List MErr → Res
  | .nil, _, st, errs => .ok st errs
  | .cons (.defn _ _ _ body) rest, own, st, errs =>
    bindRes (checkEach v body own false st errs) (fun st errs => checkRecord v rest own st errs)
  | .cons _ rest, own, st, errs => checkRecord v rest own st errs
/-- positional arguments: the first `ndLen` are zipped with `non_defaults` (from index 0, also for method calls), the rest
    go to `*args` if declared, else are zipped with `defaults` -/
def checkPos (v : Variant) : ExprList → Nat → List Own → Option (Option Name × Own) → List Own → List Scope → List MErr → Res
  | .nil, _, _, _, _, st, errs => .ok st errs
  | .cons e es, n + 1, nd, var, ds, st, errs =>
    match nd with
    | o :: nd' => bindRes (checkExpr v e o false st errs) (fun st errs => checkPos v es n nd' var ds st errs)
    | [] => checkPos v es n [] var ds st errs     -- `zip` ran out of parameters: the argument is skipped
  | .cons e es, 0, nd, var, ds, st, errs =>
    match var with
    | some (_, o) => bindRes (checkExpr v e o false st errs) (fun st errs => checkPos v es 0 nd var ds st errs)
    | none =>
      match ds with
      | o :: ds' => bindRes (checkExpr v e o false st errs) (fun st errs => checkPos v es 0 nd var ds' st errs)
      | [] => .ok st errs
/-- keyword arguments: the first `dLen` are looked up by name (defaults, non-defaults, `**kwargs`, else `todo!()`), the rest
    go to `**kwargs` if declared, else are zipped with `defaults` -/
def checkKws (v : Variant) : KwList → Nat → OwnsInfo → List Own → List Scope → List MErr → Res
  | .nil, _, _, _, st, errs => .ok st errs
  | .cons k e rest, n + 1, o, ds, st, errs =>
    match ownOfKw o k with
    | some w => bindRes (checkExpr v e w false st errs) (fun st errs => checkKws v rest n o ds st errs)
    | none => .crash "not yet implemented"
  | .cons _ e rest, 0, o, ds, st, errs =>
    match o.kwvar with
    | some (_, w) => bindRes (checkExpr v e w false st errs) (fun st errs => checkKws v rest 0 o ds st errs)
    | none =>
      match ds with
      | w :: ds' => bindRes (checkExpr v e w false st errs) (fun st errs => checkKws v rest 0 o ds' st errs)
      | [] => .ok st errs
end

/-- `OwnershipChecker::check`: every chunk of the module with `(Owned, chunk = true)` in the module scope -/
def checkModule (v : Variant) (p : ExprList) : Res := checkEach v p .owned true [emptyScope] []

/-- the diagnostics of a run (`none` = the checker panicked) -/
def resErrs : Res → Option (List MErr)
  | .ok _ errs => some errs
  | .crash _ => none

end ErgVerif.C23
