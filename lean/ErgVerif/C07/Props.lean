import ErgVerif.C07.Proofs
import ErgVerif.Gen.C07Sites
/-!
# C07 — the checker and code generator never crash on a well-formed program (the transcribed part)

Property theorems only. `compile` is C01's transcription of the code generator (stage-1 fragment, target 3.11; the frozen copy in
`C07/Stage1`, tied to codegen.rs on every run through the `c01` harness), whose
only crash outcome is `fill_jump`'s `u16::try_from(arg).unwrap()` (`compile p = none`); `runN`/`vmRun` the model of the
3.11 evaluation loop; `depthE`/`depthS`/`emitCounterOk` the generator's static stack counter with its `crash()` arms.
The FULL property (every syntactically valid program, type checking + optimisation + code generation, every -o level)
is NOT proved: lower.rs, inquire.rs, instantiate.rs, generalize.rs, the optimiser and code generation outside stage 1
have no transcription; for them `checks/c07.py` gives differential evidence only.
-/
namespace ErgVerif.C07
open ErgVerif.C07.Stage1

/-- The transcribed code generator is total below the `fill_jump` limit: if the right operand of every `and`/`or`
    compiles to fewer than 131072 bytes (`jumpOk`, computed from the tree alone), the generator does not reach its only
    crash site. -/
theorem C07_codegen_total (p : Prog) (h : jumpOk p = true) : (compile p).isSome = true := by
  rw [compile, compileStmts_isSome]; exact h

/-- … and that is exact: the model generator crashes if and only if some `and`/`or` right operand is too large. -/
theorem C07_codegen_crash_iff (p : Prog) : compile p = none ↔ jumpOk p = false := by
  have := compileStmts_isSome p
  rw [compile]
  cases h : compileStmts p <;> simp_all

/-- the size `fill_jump` converts is the size computed from the tree -/
theorem C07_code_size (e : Expr) (c : List Instr) (h : compileE e = some c) : codeSize c = sizeE e :=
  (compileE_spec e).2 c h

/-- The crash site IS reachable in the model (the full statement "the generator never crashes" is false of it):
    `True and -(-(…(0)))` with 65535 minus signs has a right operand of exactly 131072 bytes. (On the real compiler this
    depth overflows the parser's stack first — finding C09-nesting-overflow; the same `unwrap` is reached by realistic
    programs on the older targets, where the jump argument is the absolute offset: finding C07-fill-jump-u16.) -/
theorem C07_witness_fill_jump_overflow :
    compile [.expr (.and (.lit (.bool true) none) (negN 65535 (.lit (.int 0) none)) none)] = none := by
  rw [C07_codegen_crash_iff]
  simp [jumpOk, jumpOkS, stripWrap, jumpOkE, jumpOkE_negN, sizeE_negN, sizeE, wrapSize]

/-- one minus sign fewer compiles -/
example : (compile [.expr (.and (.lit (.bool true) none) (negN 65534 (.lit (.int 0) none)) none)]).isSome = true := by
  apply C07_codegen_total
  simp [jumpOk, jumpOkS, stripWrap, jumpOkE, jumpOkE_negN, sizeE_negN, sizeE, wrapSize]

/-- The static stack counter: after `emit_expr e` it is exactly one higher, for every expression and every start value —
    so neither the underflow arm of `stack_dec`/`stack_dec_n` (`crash("the stack size becomes -1")`) nor the
    `debug_assert_eq!(stack_len, init_stack_len + 1)` of emit_expr / emit_acc / emit_binop / emit_unaryop / emit_call fires. -/
theorem C07_stack_counter_expr (e : Expr) (d : Nat) : depthE e d = some (d + 1) := depthE_ok e d

/-- … and after every chunk it is 0 or 1, so `emit` never reaches `crash("error in emit: invalid stack size")`. -/
theorem C07_stack_counter_prog (p : Prog) : emitCounterOk p = true := by
  induction p with
  | nil => rfl
  | cons s ss ih =>
    simp only [emitCounterOk]
    rcases depthS_ok s with h | h <;> simp [h, ih]

/-- The model machine never gets stuck and never runs out of fuel on compiled code: with enough fuel the run ends
    normally or with a Python exception (corollary of C01_compile_simulates). -/
theorem C07_machine_never_stuck (p : Prog) (code : List Instr) (hc : compile p = some code) (hns : NoShadow p) :
    ∃ n, ∀ m, n ≤ m → (runN code m VM.init).exit = .ok ∨ ∃ e, (runN code m VM.init).exit = .exc e := by
  obtain ⟨n, hn⟩ := compile_simulates p code hc hns
  refine ⟨n, fun m hm => ?_⟩
  rw [hn m hm]
  have := execW_proper p [] [] true
  unfold runW
  cases h : (execW p [] [] true).1.exit <;> simp_all [Exit.proper]

/-- the executable `vmRun` of the driver (fuel = code size + 1) never reports `stuck` on compiled code -/
theorem C07_vmRun_never_stuck (p : Prog) (code : List Instr) (hc : compile p = some code) (hns : NoShadow p) :
    (vmRun code).exit ≠ .stuck := by
  intro hst
  obtain ⟨n, hn⟩ := C07_machine_never_stuck p code hc hns
  have hne : (runN code (codeSize code + 1) VM.init).exit ≠ .outOfFuel := by
    unfold vmRun at hst; rw [hst]; simp
  have h1 := fuel_mono code (codeSize code + 1) (max n (codeSize code + 1)) VM.init hne (by omega)
  have h2 := hn (max n (codeSize code + 1)) (by omega)
  rw [h1] at h2
  unfold vmRun at hst
  rw [hst] at h2
  rcases h2 with h | ⟨e, h⟩ <;> simp at h

/-- T-gen obligation: the panic-capable sites found in the transcribed functions of codegen.rs on this run are exactly
    the hand-reviewed ones (each carries its disposition in `Spec.sites`). A new `unwrap()`/`panic!`/… in one of those
    functions breaks this and only this obligation. -/
theorem C07_sites_reviewed : ErgVerif.Gen.C07Sites.sites = Spec.sites.map Site.key := by decide

/-- non-vacuity of the hypotheses: a program with a definition, `and`/`or`, a wrapper and two prints satisfies `jumpOk`
    and `NoShadow`, compiles, and the driver's machine run ends normally -/
example :
    let x := "::x_L1"
    let p : Prog := [
      .defv x (.lit (.int 3) (some .nat)),
      .print [.or (.and (.cmp .gt (.var x (some .nat)) (.lit (.int 2) (some .nat)) (some .bool)) (.lit (.bool true) (some .bool)) none)
                  (.lit (.bool false) (some .bool)) (some .bool)],
      .expr (.neg (.var x (some .nat)) (some .int))]
    jumpOk p = true ∧ (compile p).isSome = true ∧ ((compile p).map fun c => (vmRun c).exit) = some .ok := by
  decide

end ErgVerif.C07
