import ErgVerif.C07.Model
import ErgVerif.C07.Stage1.ProgSim
/-! Helper lemmas for C07: size of compiled code, exact characterisation of the `fill_jump` crash, the static stack
counter, exit classes of the source semantics. -/
namespace ErgVerif.C07
open ErgVerif.C07.Stage1

theorem wrap_size (w : Option Cls) (body : List Instr) :
    codeSize (wrapPre w ++ body ++ wrapPost w) = wrapSize w + codeSize body := by
  cases w <;> simp [wrapPre, wrapPost, wrapSize, Instr.size] <;> omega

theorem jumpArgs_isSome (n : Nat) : (jumpArgs n).isSome = decide (n < 131072) := by
  simp only [jumpArgs]
  by_cases h : n < 131072
  · have : n / 2 < 65536 := by omega
    simp [this, h]
  · have : ¬ n / 2 < 65536 := by omega
    simp [this, h]

/-- size and success of `compileE` in one statement -/
theorem compileE_spec : ∀ e : Expr,
    (compileE e).isSome = jumpOkE e ∧ ∀ c, compileE e = some c → codeSize c = sizeE e
  | .lit k w => by
    refine ⟨by simp [compileE, jumpOkE], fun c h => ?_⟩
    simp only [compileE, Option.some.injEq] at h
    subst h
    rw [wrap_size]; simp [sizeE, Instr.size]
  | .var x w => by
    refine ⟨by simp [compileE, jumpOkE], fun c h => ?_⟩
    simp only [compileE, Option.some.injEq] at h
    subst h
    rw [wrap_size]; simp [sizeE, Instr.size]
  | .bin op l r w => by
    obtain ⟨hl1, hl2⟩ := compileE_spec l
    obtain ⟨hr1, hr2⟩ := compileE_spec r
    cases hcl : compileE l with
    | none => simp [compileE, jumpOkE, hcl, ← hl1]
    | some cl =>
      cases hcr : compileE r with
      | none => simp [compileE, jumpOkE, hcl, hcr, ← hr1]
      | some cr =>
        refine ⟨by simp [compileE, jumpOkE, hcl, hcr, ← hl1, ← hr1], fun c h => ?_⟩
        simp only [compileE, hcl, hcr, Option.some.injEq] at h
        subst h
        have : wrapPre w ++ cl ++ cr ++ [Instr.binaryOp op] ++ wrapPost w = wrapPre w ++ (cl ++ cr ++ [Instr.binaryOp op]) ++ wrapPost w := by
          simp [List.append_assoc]
        rw [this, wrap_size]
        simp [sizeE, Instr.size, hl2 cl hcl, hr2 cr hcr]; omega
  | .cmp op l r w => by
    obtain ⟨hl1, hl2⟩ := compileE_spec l
    obtain ⟨hr1, hr2⟩ := compileE_spec r
    cases hcl : compileE l with
    | none => simp [compileE, jumpOkE, hcl, ← hl1]
    | some cl =>
      cases hcr : compileE r with
      | none => simp [compileE, jumpOkE, hcl, hcr, ← hr1]
      | some cr =>
        refine ⟨by simp [compileE, jumpOkE, hcl, hcr, ← hl1, ← hr1], fun c h => ?_⟩
        simp only [compileE, hcl, hcr, Option.some.injEq] at h
        subst h
        have : wrapPre w ++ cl ++ cr ++ [Instr.compareOp op] ++ wrapPost w = wrapPre w ++ (cl ++ cr ++ [Instr.compareOp op]) ++ wrapPost w := by
          simp [List.append_assoc]
        rw [this, wrap_size]
        simp [sizeE, Instr.size, hl2 cl hcl, hr2 cr hcr]; omega
  | .and l r w => by
    obtain ⟨hl1, hl2⟩ := compileE_spec l
    obtain ⟨hr1, hr2⟩ := compileE_spec r
    cases hcl : compileE l with
    | none => simp [compileE, jumpOkE, hcl, ← hl1]
    | some cl =>
      cases hcr : compileE r with
      | none => simp [compileE, jumpOkE, hcl, hcr, ← hr1]
      | some cr =>
        have hsz := hr2 cr hcr
        have hj := jumpArgs_isSome (codeSize cr)
        cases hja : jumpArgs (codeSize cr) with
        | none =>
          rw [hja] at hj
          simp only [Option.isSome_none] at hj
          simp [compileE, jumpOkE, hcl, hcr, hja, ← hsz, ← hj]
        | some hl =>
          obtain ⟨hi, lo⟩ := hl
          rw [hja] at hj
          simp only [Option.isSome_some] at hj
          refine ⟨by simp [compileE, jumpOkE, hcl, hcr, hja, ← hl1, ← hr1, ← hsz, ← hj], fun c h => ?_⟩
          simp only [compileE, hcl, hcr, hja, Option.some.injEq] at h
          subst h
          have : wrapPre w ++ cl ++ [Instr.extArg hi, Instr.jumpIfFalseOrPop lo] ++ cr ++ wrapPost w
              = wrapPre w ++ (cl ++ [Instr.extArg hi, Instr.jumpIfFalseOrPop lo] ++ cr) ++ wrapPost w := by
            simp [List.append_assoc]
          rw [this, wrap_size]
          simp [sizeE, Instr.size, hl2 cl hcl, hsz]; omega
  | .or l r w => by
    obtain ⟨hl1, hl2⟩ := compileE_spec l
    obtain ⟨hr1, hr2⟩ := compileE_spec r
    cases hcl : compileE l with
    | none => simp [compileE, jumpOkE, hcl, ← hl1]
    | some cl =>
      cases hcr : compileE r with
      | none => simp [compileE, jumpOkE, hcl, hcr, ← hr1]
      | some cr =>
        have hsz := hr2 cr hcr
        have hj := jumpArgs_isSome (codeSize cr)
        cases hja : jumpArgs (codeSize cr) with
        | none =>
          rw [hja] at hj
          simp only [Option.isSome_none] at hj
          simp [compileE, jumpOkE, hcl, hcr, hja, ← hsz, ← hj]
        | some hl =>
          obtain ⟨hi, lo⟩ := hl
          rw [hja] at hj
          simp only [Option.isSome_some] at hj
          refine ⟨by simp [compileE, jumpOkE, hcl, hcr, hja, ← hl1, ← hr1, ← hsz, ← hj], fun c h => ?_⟩
          simp only [compileE, hcl, hcr, hja, Option.some.injEq] at h
          subst h
          have : wrapPre w ++ cl ++ [Instr.extArg hi, Instr.jumpIfTrueOrPop lo] ++ cr ++ wrapPost w
              = wrapPre w ++ (cl ++ [Instr.extArg hi, Instr.jumpIfTrueOrPop lo] ++ cr) ++ wrapPost w := by
            simp [List.append_assoc]
          rw [this, wrap_size]
          simp [sizeE, Instr.size, hl2 cl hcl, hsz]; omega
  | .neg e w => by
    obtain ⟨h1, h2⟩ := compileE_spec e
    cases hc : compileE e with
    | none => simp [compileE, jumpOkE, hc, ← h1]
    | some c =>
      refine ⟨by simp [compileE, jumpOkE, hc, ← h1], fun c' h => ?_⟩
      simp only [compileE, hc, Option.some.injEq] at h
      subst h
      have : wrapPre w ++ c ++ [Instr.unaryNeg] ++ wrapPost w = wrapPre w ++ (c ++ [Instr.unaryNeg]) ++ wrapPost w := by
        simp [List.append_assoc]
      rw [this, wrap_size]
      simp [sizeE, Instr.size, h2 c hc]; omega
  | .not e w => by
    obtain ⟨h1, h2⟩ := compileE_spec e
    cases hc : compileE e with
    | none => simp [compileE, jumpOkE, hc, ← h1]
    | some c =>
      refine ⟨by simp [compileE, jumpOkE, hc, ← h1], fun c' h => ?_⟩
      simp only [compileE, hc, Option.some.injEq] at h
      subst h
      have : wrapPre w ++ c ++ [Instr.unaryNot] ++ wrapPost w = wrapPre w ++ (c ++ [Instr.unaryNot]) ++ wrapPost w := by
        simp [List.append_assoc]
      rw [this, wrap_size]
      simp [sizeE, Instr.size, h2 c hc]; omega

theorem compileArgs_isSome : ∀ es : List Expr, (compileArgs es).isSome = jumpOkArgs es
  | [] => by simp [compileArgs, jumpOkArgs]
  | e :: es => by
    have h1 := (compileE_spec e).1
    have h2 := compileArgs_isSome es
    cases hc : compileE e <;> cases hcs : compileArgs es <;> simp_all [compileArgs, jumpOkArgs]

theorem compileS_isSome (s : Stmt) : (compileS s).isSome = jumpOkS s := by
  cases s with
  | defv x e =>
    have h1 := (compileE_spec e).1
    cases hc : compileE e <;> simp_all [compileS, jumpOkS]
  | print args =>
    have h1 := compileArgs_isSome args
    cases hc : compileArgs args <;> simp_all [compileS, jumpOkS]
  | expr e =>
    have h1 := (compileE_spec (stripWrap e)).1
    cases hc : compileE (stripWrap e) <;> simp_all [compileS, jumpOkS]

theorem compileStmts_isSome : ∀ p : List Stmt, (compileStmts p).isSome = jumpOk p
  | [] => by simp [compileStmts, jumpOk]
  | [s] => by
    have h1 := compileS_isSome s
    cases hc : compileS s with
    | none => simp_all [compileStmts, jumpOk]
    | some r => obtain ⟨c, l⟩ := r; simp_all [compileStmts, jumpOk]
  | s :: s2 :: ss => by
    have h1 := compileS_isSome s
    have h2 := compileStmts_isSome (s2 :: ss)
    cases hc : compileS s with
    | none => simp_all [compileStmts, jumpOk]
    | some r =>
      obtain ⟨c, l⟩ := r
      cases hcs : compileStmts (s2 :: ss) with
      | none =>
        rw [hcs] at h2
        simp only [Option.isSome_none] at h2
        simp [compileStmts, hc, hcs, jumpOk.eq_2 s (s2 :: ss), ← h2]
      | some cs =>
        rw [hcs] at h2
        simp only [Option.isSome_some] at h2
        rw [hc] at h1
        simp only [Option.isSome_some] at h1
        simp [compileStmts, hc, hcs, jumpOk.eq_2 s (s2 :: ss), ← h2, ← h1]

/-! ### nested negations -/

theorem sizeE_negN (n : Nat) (e : Expr) : sizeE (negN n e) = sizeE e + 2 * n := by
  induction n with
  | zero => simp [negN]
  | succ n ih => simp [negN, sizeE, wrapSize, ih]; omega

theorem jumpOkE_negN (n : Nat) (e : Expr) : jumpOkE (negN n e) = jumpOkE e := by
  induction n with
  | zero => simp [negN]
  | succ n ih => simp [negN, jumpOkE, ih]

/-! ### static stack counter -/

theorem decBy_le {d n : Nat} (h : n ≤ d) : decBy d n = some (d - n) := by simp [decBy, h]

theorem depthWrap_ok (w : Option Cls) (body : Nat → Option Nat) (hb : ∀ d, body d = some (d + 1)) (d : Nat) :
    depthE.depthWrap w body d = some (d + 1) := by
  cases w with
  | none => simp [depthE.depthWrap, hb]
  | some c => simp [depthE.depthWrap, hb, decBy]

theorem depthE_ok : ∀ (e : Expr) (d : Nat), depthE e d = some (d + 1)
  | .lit _ w, d => by simp only [depthE]; exact depthWrap_ok w _ (fun _ => rfl) d
  | .var _ w, d => by simp only [depthE]; exact depthWrap_ok w _ (fun _ => rfl) d
  | .bin _ l r w, d => by
    simp only [depthE]
    exact depthWrap_ok w _ (fun d => by simp [depthE_ok l, depthE_ok r, decBy]) d
  | .cmp _ l r w, d => by
    simp only [depthE]
    exact depthWrap_ok w _ (fun d => by simp [depthE_ok l, depthE_ok r, decBy]) d
  | .and l r w, d => by
    simp only [depthE]
    exact depthWrap_ok w _ (fun d => by simp [depthE_ok l, depthE_ok r, decBy]) d
  | .or l r w, d => by
    simp only [depthE]
    exact depthWrap_ok w _ (fun d => by simp [depthE_ok l, depthE_ok r, decBy]) d
  | .neg e w, d => by
    simp only [depthE]
    exact depthWrap_ok w _ (fun d => depthE_ok e d) d
  | .not e w, d => by
    simp only [depthE]
    exact depthWrap_ok w _ (fun d => depthE_ok e d) d

theorem depthArgs_ok : ∀ (es : List Expr) (d : Nat), depthArgs es d = some (d + es.length)
  | [], d => by simp [depthArgs]
  | e :: es, d => by simp [depthArgs, depthE_ok, depthArgs_ok es]; omega

theorem depthS_ok (s : Stmt) : depthS s 0 = some 0 ∨ depthS s 0 = some 1 := by
  cases s with
  | defv x e => left; simp [depthS, depthE_ok, decBy]
  | print args =>
    right
    have h1 : decBy (0 + 2 + args.length) 1 = some (1 + args.length) := by
      rw [decBy_le (by omega)]; congr 1; omega
    have h2 : decBy (1 + args.length) args.length = some 1 := by
      rw [decBy_le (by omega)]; congr 1; omega
    simp [depthS, depthArgs_ok, h1, h2]
  | expr e => right; simp [depthS, depthE_ok]

/-! ### exit classes of the source semantics -/

def Exit.proper : Exit → Prop
  | .ok => True
  | .exc _ => True
  | .stuck => False
  | .outOfFuel => False

theorem execW_proper : ∀ (ss : List Stmt) (env : Env) (out : List (List Char)) (c : Bool),
    Exit.proper (execW ss env out c).1.exit
  | [], _, _, _ => by simp [execW, Exit.proper]
  | s :: ss, env, out, c => by
    cases s with
    | defv x e =>
      simp only [execW]
      cases evalW env e with
      | error ex => simp [Exit.proper]
      | ok p => obtain ⟨v, cl⟩ := p; exact execW_proper ss _ _ _
    | print args =>
      simp only [execW]
      cases evalArgsW env args with
      | error ex => simp [Exit.proper]
      | ok p => obtain ⟨v, cl⟩ := p; exact execW_proper ss _ _ _
    | expr e =>
      simp only [execW]
      cases evalW env (stripWrap e) with
      | error ex => simp [Exit.proper]
      | ok p => obtain ⟨v, cl⟩ := p; exact execW_proper ss _ _ _

/-! ### the two C01 property theorems used here, restated over the snapshot (proofs as in lean/ErgVerif/C01/Props.lean) -/

theorem compile_simulates (p : Prog) (code : List Instr) (hc : compile p = some code) (hns : NoShadow p) :
    ∃ n, ∀ m, n ≤ m → runN code m VM.init = (runW p).1 := by
  have hcode : CodeAt code 0 code := ⟨[], [], by simp, rfl⟩
  exact (exec_stmts p code hc code 0 [] [] true hcode EnvOk.nil hns).runN

theorem fuel_mono (code : List Instr) : ∀ (m k : Nat) (s : VM), (runN code m s).exit ≠ .outOfFuel → m ≤ k →
    runN code k s = runN code m s
  | 0, _, s, h, _ => by simp [runN] at h
  | m + 1, k, s, h, hk => by
    obtain ⟨k', rfl⟩ : ∃ k', k = k' + 1 := ⟨k - 1, by omega⟩
    simp only [runN] at h ⊢
    cases hs : step code s with
    | halt o => rfl
    | next s' =>
      simp only [hs] at h
      exact fuel_mono code m k' s' h (by omega)

end ErgVerif.C07
