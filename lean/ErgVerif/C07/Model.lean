import ErgVerif.C07.Stage1.Model
/-
C07 — the checker and code generator never crash on a well-formed program: the part that has a transcription.

This file adds to C01's stage-1 model of the code generator (lean/ErgVerif/C01/Model.lean, which keeps the one crash
site the transcribed code can reach — `fill_jump`'s `u16::try_from(arg).unwrap()` — as `compile p = none`):

  * `sizeE`/`jumpOk…`: a closed description of when that crash site is reached (the right operand of some `and`/`or`
    compiles to 131072 bytes or more), computed from the source tree without running the generator;
  * the static stack counter of `PyCodeGenerator` (`stack_inc`/`stack_dec`/`stack_dec_n`, whose underflow arm calls
    `crash()`, and the `debug_assert_eq!(stack_len, init + 1)` at the end of `emit_expr`/`emit_acc`/`emit_binop`/
    `emit_unaryop`/`emit_call`, and the "invalid stack size" `crash()` at the end of `emit`) as a function on the
    emitted instruction list: `depthAfter`;
  * `Spec.sites`: the hand-reviewed list of every panic-capable macro/method occurrence in the transcribed functions of
    crates/erg_compiler/codegen.rs and the helpers they call, each with its disposition (the model outcome it maps
    to, or why it cannot be reached on the fragment). `checks/c07.py` regenerates the occurrence list from the source
    on every run into `lean/ErgVerif/Gen/C07Sites.lean`; `Props.lean` proves the two lists equal.

Nothing here models lower.rs / inquire.rs / instantiate.rs / generalize.rs: for those passes the evidence of C07 is the
differential stream of checks/c07.py only.
-/
namespace ErgVerif.C07
open ErgVerif.C07.Stage1

/-! ### when does the transcribed generator reach `fill_jump`'s `unwrap` -/

def wrapSize : Option Cls → Nat
  | none => 0
  | some _ => 18          -- PUSH_NULL, LOAD_NAME cls (2 + 2) and PRECALL/CALL with their caches (14)

/-- byte size of the code `emit_expr` produces (independent of whether `fill_jump` succeeds) -/
def sizeE : Expr → Nat
  | .lit _ w => wrapSize w + 2
  | .var _ w => wrapSize w + 2
  | .bin _ l r w => wrapSize w + sizeE l + sizeE r + 4
  | .cmp _ l r w => wrapSize w + sizeE l + sizeE r + 6
  | .and l r w => wrapSize w + sizeE l + 4 + sizeE r
  | .or l r w => wrapSize w + sizeE l + 4 + sizeE r
  | .neg e w => wrapSize w + sizeE e + 2
  | .not e w => wrapSize w + sizeE e + 2

/-- `fill_jump` limit: `u16::try_from((lasti − idx − 4) / 2)` succeeds for every `and`/`or` of the expression -/
def jumpOkE : Expr → Bool
  | .lit _ _ => true
  | .var _ _ => true
  | .bin _ l r _ => jumpOkE l && jumpOkE r
  | .cmp _ l r _ => jumpOkE l && jumpOkE r
  | .and l r _ => jumpOkE l && jumpOkE r && decide (sizeE r < 131072)
  | .or l r _ => jumpOkE l && jumpOkE r && decide (sizeE r < 131072)
  | .neg e _ => jumpOkE e
  | .not e _ => jumpOkE e

def jumpOkArgs : List Expr → Bool
  | [] => true
  | e :: es => jumpOkE e && jumpOkArgs es

def jumpOkS : Stmt → Bool
  | .defv _ e => jumpOkE e
  | .print args => jumpOkArgs args
  | .expr e => jumpOkE (stripWrap e)

def jumpOk : Prog → Bool
  | [] => true
  | s :: ss => jumpOkS s && jumpOk ss

/-- `n` nested unary minus signs around `e` (used for the witness that the crash site is reachable in the model) -/
def negN : Nat → Expr → Expr
  | 0, e => e
  | n + 1, e => .neg (negN n e) none

/-! ### the generator's static stack counter

`stack_len` is updated by the emit functions, not per instruction; on the fragment the updates made while one
instruction (or the PRECALL/CALL pair) is written are:
  PUSH_NULL, LOAD_CONST, LOAD_NAME        stack_inc()                                    +1
  STORE_NAME, POP_TOP, BINARY_OP, COMPARE_OP     stack_dec()                             −1
  UNARY_*                                 —                                               0
  PRECALL n; CALL n                       emit_precall_and_call: stack_dec(); then emit_args_311: stack_dec_n(argc)
                                          (wrapper call: emit_call_instr(1) + stack_dec(): the same total)   −(n+1)
  EXTENDED_ARG; JUMP_IF_…_OR_POP          nothing when written; `stack_dec()` after the right operand  (see `depthE`)
`none` = the underflow arm (`crash("the stack size becomes -1")`). -/

def decBy (d n : Nat) : Option Nat := if n ≤ d then some (d - n) else none

/-- counter after `emit_expr e`, following the order of the updates in the Rust code -/
def depthE : Expr → Nat → Option Nat
  | .lit _ w, d => depthWrap w (fun d => some (d + 1)) d
  | .var _ w, d => depthWrap w (fun d => some (d + 1)) d
  | .bin _ l r w, d => depthWrap w (fun d => (depthE l d).bind fun d1 => (depthE r d1).bind fun d2 => decBy d2 1) d
  | .cmp _ l r w, d => depthWrap w (fun d => (depthE l d).bind fun d1 => (depthE r d1).bind fun d2 => decBy d2 1) d
  | .and l r w, d => depthWrap w (fun d => (depthE l d).bind fun d1 => (depthE r d1).bind fun d2 => decBy d2 1) d
  | .or l r w, d => depthWrap w (fun d => (depthE l d).bind fun d1 => (depthE r d1).bind fun d2 => decBy d2 1) d
  | .neg e w, d => depthWrap w (fun d => depthE e d) d
  | .not e w, d => depthWrap w (fun d => depthE e d) d
where
  /-- the wrapper: `emit_push_null` (+1), `emit_load_name_instr` (+1), body, `emit_call_instr(1)` (−1) and `stack_dec()` (−1) -/
  depthWrap (w : Option Cls) (body : Nat → Option Nat) (d : Nat) : Option Nat :=
    match w with
    | none => body d
    | some _ => (body (d + 2)).bind fun d1 => (decBy d1 1).bind fun d2 => decBy d2 1

def depthArgs : List Expr → Nat → Option Nat
  | [], d => some d
  | e :: es, d => (depthE e d).bind (depthArgs es)

/-- counter after `emit_chunk` -/
def depthS : Stmt → Nat → Option Nat
  | .defv _ e, d => (depthE e d).bind fun d1 => decBy d1 1
  | .print args, d => (depthArgs args (d + 2)).bind fun d1 => (decBy d1 1).bind fun d2 => decBy d2 args.length
  | .expr e, d => depthE (stripWrap e) d

/-- what `emit` does with the counter: after every chunk `if stack_len == 1 { emit_pop_top() }`; the final check accepts
    0 or 1 and calls `crash("error in emit: invalid stack size")` otherwise. `true` = no crash arm taken. -/
def emitCounterOk : Prog → Bool
  | [] => true
  | s :: ss =>
    match depthS s 0 with
    | some 0 => emitCounterOk ss
    | some 1 => emitCounterOk ss      -- POP_TOP (or, for the last chunk, cancelled again): back to 0
    | _ => false

/-! ### the reviewed site list -/

/-- what becomes of a panic-capable site -/
inductive Disposition where
  /-- kept in the model as the outcome `compile p = none`; `C07_codegen_total`/`C07_codegen_crash_iff` say exactly when -/
  | modelCrash (what : String)
  /-- the static stack counter: `C07_stack_counter_*` prove the arm is not taken for any program of the fragment -/
  | counter (what : String)
  /-- cannot be reached while compiling a program of the fragment, for the stated (reviewed, not machine-checked) reason -/
  | unreachable (why : String)
  /-- in a part of the function that the model does not transcribe (line table, other targets' arms): differential only -/
  | untranscribed (why : String)
  deriving Repr

structure Site where
  fn : String
  kind : String
  nth : Nat            -- occurrence number of this kind inside the function, in source order, from 1
  disp : Disposition
  deriving Repr

namespace Spec

/-- every `unwrap()` / `expect(` / `panic!` / `todo!` / `unreachable!` / `unimplemented!` / `enum_unwrap!` / `.crash(` /
    `assume_unreachable!` / `debug_assert…!` / `assert…!` / unsigned subtraction (`sub`: ` - `, ` -= `, an overflow check in the
    debug build) in the transcribed functions of codegen.rs and the helpers they
    call (function list: `checks/c07.py` `site_functions`), in source order -/
def sites : List Site := [
  ⟨"toplevel_block", "unwrap", 1, .unreachable "`units` is non-empty between the push at the start of `emit` and the pop at its end"⟩,
  ⟨"cur_block", "unwrap", 1, .unreachable "as toplevel_block"⟩,
  ⟨"mut_cur_block", "unwrap", 1, .unreachable "as toplevel_block"⟩,
  ⟨"fill_jump", "unwrap", 1, .modelCrash "u16::try_from(arg): jumpArgs = none; reached iff some and/or right operand is ≥ 131072 bytes (C07_codegen_crash_iff); recorded finding C07-fill-jump-u16"⟩,
  ⟨"fill_jump", "unwrap", 2, .unreachable "idx = position of the EXTENDED_ARG argument written two instructions earlier: inside the code vector"⟩,
  ⟨"fill_jump", "unwrap", 3, .unreachable "idx + 2 = position of the jump argument written by the same arm of emit_binop"⟩,
  ⟨"write_arg", "unwrap", 1, .untranscribed "argument ≥ 256 (constant/name index or argc): the harness reports such code objects as out-of-model; `code` is non-empty because write_instr precedes every write_arg"⟩,
  ⟨"write_arg", "unwrap", 2, .untranscribed "u16::try_from(code + delta) for arguments in 256‥65535 (delta ≤ 2): indices ≥ 65534 are outside the model"⟩,
  ⟨"write_arg", "unwrap", 3, .untranscribed "argument ≥ 65536: outside the model"⟩,
  ⟨"write_arg", "unwrap", 4, .untranscribed "u32::try_from of an argument ≥ 65536: a constant pool of 2^32 entries is not constructible"⟩,
  ⟨"stack_dec", "unwrap", 1, .counter "only evaluated inside the underflow arm"⟩,
  ⟨"stack_dec", "crash", 1, .counter "underflow arm: depthE/depthS = none; C07_stack_counter_expr/_prog"⟩,
  ⟨"stack_dec", "sub", 1, .counter "`stack_len -= 1` in the arm guarded by `stack_len != 0`"⟩,
  ⟨"stack_dec_n", "unwrap", 1, .counter "only evaluated inside the underflow arm"⟩,
  ⟨"stack_dec_n", "crash", 1, .counter "underflow arm: depthS (print) = none; C07_stack_counter_prog"⟩,
  ⟨"stack_dec_n", "sub", 1, .counter "`stack_len -= n` in the arm guarded by `n <= stack_len`"⟩,
  ⟨"emit_load_const", "sub", 1, .unreachable "`consts.len() - 1` right after a push"⟩,
  ⟨"register_const", "sub", 1, .unreachable "`consts.len() - 1` right after a push"⟩,
  ⟨"rec_search", "unwrap", 1, .unreachable "only for a name found in an enclosing *function* unit's varnames; the fragment has a single module-level unit"⟩,
  ⟨"register_name", "sub", 1, .unreachable "`varnames.len() - 1` right after a push"⟩,
  ⟨"register_name", "sub", 2, .unreachable "`names.len() - 1` right after a push"⟩,
  ⟨"register_name", "sub", 3, .unreachable "`varnames.len() - 1` right after a push"⟩,
  ⟨"register_name", "sub", 4, .unreachable "`freevars.len() - 1` right after a push"⟩,
  ⟨"register_name", "sub", 5, .unreachable "`names.len() - 1` right after a push"⟩,
  ⟨"register_name", "sub", 6, .unreachable "`varnames.len() - 1` right after a push"⟩,
  ⟨"cancel_if_pop_top", "sub", 1, .unreachable "`code.len() - 2` after the early return for `code.len() < 2`"⟩,
  ⟨"cancel_if_pop_top", "sub", 2, .unreachable "`lasti -= 2` after two bytes were popped from `code` (lasti = code.len())"⟩,
  ⟨"crash", "panic", 1, .unreachable "the body of crash() itself: reached only through one of the .crash( call sites listed here"⟩,
  ⟨"emit_acc", "debug_assert", 1, .counter "stack_len = init + 1 after an identifier load (C07_stack_counter_expr, var case)"⟩,
  ⟨"emit_unaryop", "debug_assert", 1, .counter "C07_stack_counter_expr, neg case (no wrapper: the assertion sits inside the wrapper)"⟩,
  ⟨"emit_binop", "sub", 1, .unreachable "`lasti() - idx - 4`: idx is lasti before the two placeholder instructions (4 bytes) were written; the model's `codeSize cr`"⟩,
  ⟨"emit_binop", "sub", 2, .unreachable "same expression (second minus sign)"⟩,
  ⟨"emit_binop", "sub", 3, .unreachable "as the `or` arm"⟩,
  ⟨"emit_binop", "sub", 4, .unreachable "as the `or` arm"⟩,
  ⟨"emit_binop", "debug_assert", 1, .counter "C07_stack_counter_expr, bin/cmp cases (the and/or arms return before the assertion)"⟩,
  ⟨"emit_not_instr", "unwrap", 1, .unreachable "args.remove_left_or_key(\"b\"): `not` is type-checked with exactly one argument (the harness refuses other shapes as out-of-model)"⟩,
  ⟨"emit_call", "debug_assert", 1, .counter "C07_stack_counter_expr (not) and C07_stack_counter_prog (print!)"⟩,
  ⟨"emit_call_local", "todo", 1, .untranscribed "`with!` arm for an unsupported target version: `with!` is outside the fragment"⟩,
  ⟨"emit_args_311", "sub", 1, .unreachable "`(1 + argc + kwsc) - 1`"⟩,
  ⟨"push_lnotab", "sub", 1, .untranscribed "line table is not modelled: `lasti() - prev_lasti`, lasti only decreases in cancel_if_pop_top after the last chunk"⟩,
  ⟨"push_lnotab", "sub", 2, .untranscribed "line table is not modelled: `ln_begin - prev_lineno` under the guard `ln_begin > prev_lineno`"⟩,
  ⟨"push_lnotab", "sub", 3, .untranscribed "`sd -= 254` under `sd > 254`"⟩,
  ⟨"push_lnotab", "sub", 4, .untranscribed "`ld -= 127` under `ld > 127`"⟩,
  ⟨"push_lnotab", "sub", 5, .untranscribed "`rest -= room` with room = min(…, rest) (was: `ld -= 127` without a guard — fixed finding C07-lnotab-underflow)"⟩,
  ⟨"push_lnotab", "sub", 6, .untranscribed "`rest -= step` with step = min(rest, 127)"⟩,
  ⟨"push_lnotab", "crash", 1, .untranscribed "line table is not modelled; the arm needs ld = 0 inside `ln_begin > prev_lineno`, i.e. is dead"⟩,
  ⟨"emit_expr", "debug_assert", 1, .counter "stack_len = init + 1 after any expression: C07_stack_counter_expr"⟩,
  ⟨"emit", "crash", 1, .counter "stack_len > 1 after the last chunk: emitCounterOk; C07_stack_counter_prog"⟩,
  ⟨"emit", "unwrap", 1, .unreachable "units.pop() of the unit pushed at the start of emit"⟩,
  ⟨"emit", "sub", 1, .unreachable "`unit.prev_lineno - cur_block().prev_lineno` is evaluated only when another unit remains (`!self.units.is_empty()`): never for the module unit"⟩,
  ⟨"emit", "unwrap", 2, .unreachable "u8::try_from(ld) under the same guard: never for the module unit"⟩
]

end Spec

def Site.key (s : Site) : String × String × Nat := (s.fn, s.kind, s.nth)

end ErgVerif.C07
