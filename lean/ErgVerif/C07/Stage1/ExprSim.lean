import ErgVerif.C07.Stage1.Proofs
/-! C01: simulation lemma for expressions — the code of `e` computes `evalW env e`. -/
namespace ErgVerif.C07.Stage1

theorem exec_binaryOp {code : List Instr} {pc : Nat} {st : List Val} {env : Env} {out : List (List Char)} {op a b cs}
    (h : CodeAt code pc (.binaryOp op :: cs)) :
    match pyBin op a b with
    | .ok v => Reaches code ⟨pc, 0, b :: a :: st, env, out⟩ ⟨pc + 4, 0, v :: st, env, out⟩
    | .error e => HaltsWith code ⟨pc, 0, b :: a :: st, env, out⟩ ⟨out.reverse, .exc e⟩ := by
  cases hp : pyBin op a b with
  | ok v => exact Reaches.step1 (by simp [step, h.fetch, hp, Instr.size])
  | error e => exact HaltsWith.now (by simp [step, h.fetch, hp, raise])

theorem exec_compareOp {code : List Instr} {pc : Nat} {st : List Val} {env : Env} {out : List (List Char)} {op a b cs}
    (h : CodeAt code pc (.compareOp op :: cs)) :
    match pyCmp op a b with
    | .ok v => Reaches code ⟨pc, 0, b :: a :: st, env, out⟩ ⟨pc + 6, 0, v :: st, env, out⟩
    | .error e => HaltsWith code ⟨pc, 0, b :: a :: st, env, out⟩ ⟨out.reverse, .exc e⟩ := by
  cases hp : pyCmp op a b with
  | ok v => exact Reaches.step1 (by simp [step, h.fetch, hp, Instr.size])
  | error e => exact HaltsWith.now (by simp [step, h.fetch, hp, raise])

theorem exec_unaryNeg {code : List Instr} {pc : Nat} {st : List Val} {env : Env} {out : List (List Char)} {a cs}
    (h : CodeAt code pc (.unaryNeg :: cs)) :
    match pyNeg a with
    | .ok v => Reaches code ⟨pc, 0, a :: st, env, out⟩ ⟨pc + 2, 0, v :: st, env, out⟩
    | .error e => HaltsWith code ⟨pc, 0, a :: st, env, out⟩ ⟨out.reverse, .exc e⟩ := by
  cases hp : pyNeg a with
  | ok v => exact Reaches.step1 (by simp [step, h.fetch, hp, Instr.size])
  | error e => exact HaltsWith.now (by simp [step, h.fetch, hp, raise])

theorem exec_unaryNot {code : List Instr} {pc : Nat} {st : List Val} {env : Env} {out : List (List Char)} {a cs}
    (h : CodeAt code pc (.unaryNot :: cs)) :
    Reaches code ⟨pc, 0, a :: st, env, out⟩ ⟨pc + 2, 0, .bool (!truthy a) :: st, env, out⟩ :=
  Reaches.step1 (by simp [step, h.fetch, Instr.size])

/-- the statement proved for every expression -/
def ExprOk (e : Expr) : Prop :=
  ∀ cs, compileE e = some cs → ∀ code pc st env out, CodeAt code pc cs → EnvOk env →
    ExecSpec code pc (pc + codeSize cs) st env out (evalW env e)

theorem exprOk_lit (c : Const) (w : Option Cls) : ExprOk (.lit c w) := by
  intro cs hcs code pc st env out hcode henv
  simp only [compileE, Option.some.injEq] at hcs
  subst hcs
  have := exec_wrap (st := st) (out := out) w [.loadConst c] (.ok (c.toVal, true)) hcode henv (fun st' => by
    simp only [ExecSpec, codeSize_cons, codeSize_nil, Instr.size, Nat.add_zero]
    exact exec_loadConst hcode.body)
  simpa [evalW, bindWrap] using this

theorem exprOk_var (x : String) (w : Option Cls) : ExprOk (.var x w) := by
  intro cs hcs code pc st env out hcode henv
  simp only [compileE, Option.some.injEq] at hcs
  subst hcs
  cases hl : lookup env x with
  | none =>
    have := exec_wrap (st := st) (out := out) w [.loadName x] (.error .nameError) hcode henv (fun st' => by
      simp only [ExecSpec]
      exact exec_loadName_err hcode.body hl)
    simpa [evalW, bindWrap, hl] using this
  | some v =>
    have := exec_wrap (st := st) (out := out) w [.loadName x] (.ok (v, true)) hcode henv (fun st' => by
      simp only [ExecSpec, codeSize_cons, codeSize_nil, Instr.size, Nat.add_zero]
      exact exec_loadName hcode.body hl)
    simpa [evalW, bindWrap, hl] using this

theorem exprOk_bin (op : BinOp) (l r : Expr) (w : Option Cls) (ihl : ExprOk l) (ihr : ExprOk r) :
    ExprOk (.bin op l r w) := by
  intro cs hcs code pc st env out hcode henv
  simp only [compileE] at hcs
  cases hcl : compileE l with
  | none => simp [hcl] at hcs
  | some cl =>
    cases hcr : compileE r with
    | none => simp [hcl, hcr] at hcs
    | some cr =>
      simp only [hcl, hcr, Option.some.injEq] at hcs
      subst hcs
      have hcode' : CodeAt code pc (wrapPre w ++ (cl ++ cr ++ [.binaryOp op]) ++ wrapPost w) := by
        simpa [List.append_assoc] using hcode
      have hsz : codeSize (wrapPre w ++ cl ++ cr ++ [.binaryOp op] ++ wrapPost w)
          = codeSize (wrapPre w ++ (cl ++ cr ++ [.binaryOp op]) ++ wrapPost w) := by simp [List.append_assoc]
      rw [hsz]
      have hb := hcode'.body
      have hbl : CodeAt code (pc + codeSize (wrapPre w)) cl := hb.left.left
      have hbr : CodeAt code (pc + codeSize (wrapPre w) + codeSize cl) cr := hb.left.right
      have hbo : CodeAt code (pc + codeSize (wrapPre w) + codeSize cl + codeSize cr) [.binaryOp op] := by
        have := hb.right
        simpa [Nat.add_assoc] using this
      cases hEl : evalW env l with
      | error e =>
        have := exec_wrap (st := st) (out := out) w (cl ++ cr ++ [.binaryOp op]) (.error e) hcode' henv (fun st' => by
          have := ihl cl hcl code _ st' env out hbl henv
          simpa [hEl, ExecSpec] using this)
        simpa [evalW, hEl, bindWrap] using this
      | ok pa =>
        obtain ⟨a, c1⟩ := pa
        cases hEr : evalW env r with
        | error e =>
          have := exec_wrap (st := st) (out := out) w (cl ++ cr ++ [.binaryOp op]) (.error e) hcode' henv (fun st' => by
            have h1 := ihl cl hcl code _ st' env out hbl henv
            have h2 := ihr cr hcr code _ (a :: st') env out hbr henv
            simp only [hEl, hEr, ExecSpec] at h1 h2 ⊢
            exact h1.halts h2)
          simpa [evalW, hEl, hEr, bindWrap] using this
        | ok pb =>
          obtain ⟨b, c2⟩ := pb
          cases hp : pyBin op a b with
          | error e =>
            have := exec_wrap (st := st) (out := out) w (cl ++ cr ++ [.binaryOp op]) (.error e) hcode' henv (fun st' => by
              have h1 := ihl cl hcl code _ st' env out hbl henv
              have h2 := ihr cr hcr code _ (a :: st') env out hbr henv
              have h3 := exec_binaryOp (st := st') (env := env) (out := out) (a := a) (b := b) hbo
              simp only [hEl, hEr, hp, ExecSpec] at h1 h2 h3 ⊢
              exact (h1.trans h2).halts h3)
            simpa [evalW, hEl, hEr, hp, bindWrap] using this
          | ok v =>
            have := exec_wrap (st := st) (out := out) w (cl ++ cr ++ [.binaryOp op]) (.ok (v, c1 && c2)) hcode' henv (fun st' => by
              have h1 := ihl cl hcl code _ st' env out hbl henv
              have h2 := ihr cr hcr code _ (a :: st') env out hbr henv
              have h3 := exec_binaryOp (st := st') (env := env) (out := out) (a := a) (b := b) hbo
              simp only [hEl, hEr, hp, ExecSpec] at h1 h2 h3 ⊢
              have := (h1.trans h2).trans h3
              simpa [Instr.size, Nat.add_assoc] using this)
            simpa [evalW, hEl, hEr, hp, bindWrap] using this

theorem exprOk_cmp (op : CmpOp) (l r : Expr) (w : Option Cls) (ihl : ExprOk l) (ihr : ExprOk r) :
    ExprOk (.cmp op l r w) := by
  intro cs hcs code pc st env out hcode henv
  simp only [compileE] at hcs
  cases hcl : compileE l with
  | none => simp [hcl] at hcs
  | some cl =>
    cases hcr : compileE r with
    | none => simp [hcl, hcr] at hcs
    | some cr =>
      simp only [hcl, hcr, Option.some.injEq] at hcs
      subst hcs
      have hcode' : CodeAt code pc (wrapPre w ++ (cl ++ cr ++ [.compareOp op]) ++ wrapPost w) := by
        simpa [List.append_assoc] using hcode
      have hsz : codeSize (wrapPre w ++ cl ++ cr ++ [.compareOp op] ++ wrapPost w)
          = codeSize (wrapPre w ++ (cl ++ cr ++ [.compareOp op]) ++ wrapPost w) := by simp [List.append_assoc]
      rw [hsz]
      have hb := hcode'.body
      have hbl : CodeAt code (pc + codeSize (wrapPre w)) cl := hb.left.left
      have hbr : CodeAt code (pc + codeSize (wrapPre w) + codeSize cl) cr := hb.left.right
      have hbo : CodeAt code (pc + codeSize (wrapPre w) + codeSize cl + codeSize cr) [.compareOp op] := by
        have := hb.right
        simpa [Nat.add_assoc] using this
      cases hEl : evalW env l with
      | error e =>
        have := exec_wrap (st := st) (out := out) w (cl ++ cr ++ [.compareOp op]) (.error e) hcode' henv (fun st' => by
          have := ihl cl hcl code _ st' env out hbl henv
          simpa [hEl, ExecSpec] using this)
        simpa [evalW, hEl, bindWrap] using this
      | ok pa =>
        obtain ⟨a, c1⟩ := pa
        cases hEr : evalW env r with
        | error e =>
          have := exec_wrap (st := st) (out := out) w (cl ++ cr ++ [.compareOp op]) (.error e) hcode' henv (fun st' => by
            have h1 := ihl cl hcl code _ st' env out hbl henv
            have h2 := ihr cr hcr code _ (a :: st') env out hbr henv
            simp only [hEl, hEr, ExecSpec] at h1 h2 ⊢
            exact h1.halts h2)
          simpa [evalW, hEl, hEr, bindWrap] using this
        | ok pb =>
          obtain ⟨b, c2⟩ := pb
          cases hp : pyCmp op a b with
          | error e =>
            have := exec_wrap (st := st) (out := out) w (cl ++ cr ++ [.compareOp op]) (.error e) hcode' henv (fun st' => by
              have h1 := ihl cl hcl code _ st' env out hbl henv
              have h2 := ihr cr hcr code _ (a :: st') env out hbr henv
              have h3 := exec_compareOp (st := st') (env := env) (out := out) (a := a) (b := b) hbo
              simp only [hEl, hEr, hp, ExecSpec] at h1 h2 h3 ⊢
              exact (h1.trans h2).halts h3)
            simpa [evalW, hEl, hEr, hp, bindWrap] using this
          | ok v =>
            have := exec_wrap (st := st) (out := out) w (cl ++ cr ++ [.compareOp op]) (.ok (v, c1 && c2)) hcode' henv (fun st' => by
              have h1 := ihl cl hcl code _ st' env out hbl henv
              have h2 := ihr cr hcr code _ (a :: st') env out hbr henv
              have h3 := exec_compareOp (st := st') (env := env) (out := out) (a := a) (b := b) hbo
              simp only [hEl, hEr, hp, ExecSpec] at h1 h2 h3 ⊢
              have := (h1.trans h2).trans h3
              simpa [Instr.size, Nat.add_assoc] using this)
            simpa [evalW, hEl, hEr, hp, bindWrap] using this

theorem exprOk_neg (e : Expr) (w : Option Cls) (ih : ExprOk e) : ExprOk (.neg e w) := by
  intro cs hcs code pc st env out hcode henv
  simp only [compileE] at hcs
  cases hc : compileE e with
  | none => simp [hc] at hcs
  | some c =>
    simp only [hc, Option.some.injEq] at hcs
    subst hcs
    have hcode' : CodeAt code pc (wrapPre w ++ (c ++ [.unaryNeg]) ++ wrapPost w) := by
      simpa [List.append_assoc] using hcode
    have hsz : codeSize (wrapPre w ++ c ++ [.unaryNeg] ++ wrapPost w)
        = codeSize (wrapPre w ++ (c ++ [.unaryNeg]) ++ wrapPost w) := by simp [List.append_assoc]
    rw [hsz]
    have hb := hcode'.body
    have hbe : CodeAt code (pc + codeSize (wrapPre w)) c := hb.left
    have hbo : CodeAt code (pc + codeSize (wrapPre w) + codeSize c) [.unaryNeg] := hb.right
    cases hE : evalW env e with
    | error x =>
      have := exec_wrap (st := st) (out := out) w (c ++ [.unaryNeg]) (.error x) hcode' henv (fun st' => by
        have := ih c hc code _ st' env out hbe henv
        simpa [hE, ExecSpec] using this)
      simpa [evalW, hE, bindWrap] using this
    | ok pa =>
      obtain ⟨a, c1⟩ := pa
      cases hp : pyNeg a with
      | error x =>
        have := exec_wrap (st := st) (out := out) w (c ++ [.unaryNeg]) (.error x) hcode' henv (fun st' => by
          have h1 := ih c hc code _ st' env out hbe henv
          have h3 := exec_unaryNeg (st := st') (env := env) (out := out) (a := a) hbo
          simp only [hE, hp, ExecSpec] at h1 h3 ⊢
          exact h1.halts h3)
        simpa [evalW, hE, hp, bindWrap] using this
      | ok v =>
        have := exec_wrap (st := st) (out := out) w (c ++ [.unaryNeg]) (.ok (v, c1)) hcode' henv (fun st' => by
          have h1 := ih c hc code _ st' env out hbe henv
          have h3 := exec_unaryNeg (st := st') (env := env) (out := out) (a := a) hbo
          simp only [hE, hp, ExecSpec] at h1 h3 ⊢
          have := h1.trans h3
          simpa [Instr.size, Nat.add_assoc] using this)
        simpa [evalW, hE, hp, bindWrap] using this

theorem exprOk_not (e : Expr) (w : Option Cls) (ih : ExprOk e) : ExprOk (.not e w) := by
  intro cs hcs code pc st env out hcode henv
  simp only [compileE] at hcs
  cases hc : compileE e with
  | none => simp [hc] at hcs
  | some c =>
    simp only [hc, Option.some.injEq] at hcs
    subst hcs
    have hcode' : CodeAt code pc (wrapPre w ++ (c ++ [.unaryNot]) ++ wrapPost w) := by
      simpa [List.append_assoc] using hcode
    have hsz : codeSize (wrapPre w ++ c ++ [.unaryNot] ++ wrapPost w)
        = codeSize (wrapPre w ++ (c ++ [.unaryNot]) ++ wrapPost w) := by simp [List.append_assoc]
    rw [hsz]
    have hb := hcode'.body
    have hbe : CodeAt code (pc + codeSize (wrapPre w)) c := hb.left
    have hbo : CodeAt code (pc + codeSize (wrapPre w) + codeSize c) [.unaryNot] := hb.right
    cases hE : evalW env e with
    | error x =>
      have := exec_wrap (st := st) (out := out) w (c ++ [.unaryNot]) (.error x) hcode' henv (fun st' => by
        have := ih c hc code _ st' env out hbe henv
        simpa [hE, ExecSpec] using this)
      simpa [evalW, hE, bindWrap] using this
    | ok pa =>
      obtain ⟨a, c1⟩ := pa
      have := exec_wrap (st := st) (out := out) w (c ++ [.unaryNot]) (.ok (.bool (!truthy a), c1)) hcode' henv (fun st' => by
        have h1 := ih c hc code _ st' env out hbe henv
        have h3 := exec_unaryNot (st := st') (env := env) (out := out) (a := a) hbo
        simp only [hE, ExecSpec] at h1 h3 ⊢
        have := h1.trans h3
        simpa [Instr.size, Nat.add_assoc] using this)
      simpa [evalW, hE, bindWrap] using this

end ErgVerif.C07.Stage1
