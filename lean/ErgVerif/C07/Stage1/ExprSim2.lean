import ErgVerif.C07.Stage1.ExprSim
/-! C01: simulation lemma for the short-circuit operators, and the lemma for all expressions. -/
namespace ErgVerif.C07.Stage1

theorem exprOk_and (l r : Expr) (w : Option Cls) (ihl : ExprOk l) (ihr : ExprOk r) : ExprOk (.and l r w) := by
  intro cs hcs code pc st env out hcode henv
  simp only [compileE] at hcs
  cases hcl : compileE l with
  | none => simp [hcl] at hcs
  | some cl =>
    cases hcr : compileE r with
    | none => simp [hcl, hcr] at hcs
    | some cr =>
      cases hj : jumpArgs (codeSize cr) with
      | none => simp [hcl, hcr, hj] at hcs
      | some hl =>
        obtain ⟨hi, lo⟩ := hl
        simp only [hcl, hcr, hj, Option.some.injEq] at hcs
        subst hcs
        have hcode' : CodeAt code pc (wrapPre w ++ (cl ++ [.extArg hi, .jumpIfFalseOrPop lo] ++ cr) ++ wrapPost w) := by
          simpa [List.append_assoc] using hcode
        have hsz : codeSize (wrapPre w ++ cl ++ [.extArg hi, .jumpIfFalseOrPop lo] ++ cr ++ wrapPost w)
            = codeSize (wrapPre w ++ (cl ++ [.extArg hi, .jumpIfFalseOrPop lo] ++ cr) ++ wrapPost w) := by
          simp [List.append_assoc]
        rw [hsz]
        have hb := hcode'.body
        have hbl : CodeAt code (pc + codeSize (wrapPre w)) cl := hb.left.left
        have hbj : CodeAt code (pc + codeSize (wrapPre w) + codeSize cl) (.extArg hi :: .jumpIfFalseOrPop lo :: cr) := by
          have : CodeAt code (pc + codeSize (wrapPre w)) (cl ++ (.extArg hi :: .jumpIfFalseOrPop lo :: cr)) := by
            simpa [List.append_assoc] using hb
          exact this.right
        have hbr : CodeAt code (pc + codeSize (wrapPre w) + codeSize cl + 4) cr := by
          have := hbj.tail.tail
          simpa [Instr.size, Nat.add_assoc] using this
        have hev := codeSize_even cr
        have hsize : codeSize (cl ++ [.extArg hi, .jumpIfFalseOrPop lo] ++ cr) = codeSize cl + 4 + codeSize cr := by
          simp [Instr.size]; omega
        cases hEl : evalW env l with
        | error e =>
          have := exec_wrap (st := st) (out := out) w (cl ++ [.extArg hi, .jumpIfFalseOrPop lo] ++ cr) (.error e) hcode' henv (fun st' => by
            have := ihl cl hcl code _ st' env out hbl henv
            simpa [hEl, ExecSpec] using this)
          simpa [evalW, hEl, bindWrap] using this
        | ok pa =>
          obtain ⟨a, c1⟩ := pa
          by_cases ht : truthy a
          · cases hEr : evalW env r with
            | error e =>
              have := exec_wrap (st := st) (out := out) w (cl ++ [.extArg hi, .jumpIfFalseOrPop lo] ++ cr) (.error e) hcode' henv (fun st' => by
                have h1 := ihl cl hcl code _ st' env out hbl henv
                have hjmp := exec_jumpF (st := st') (env := env) (out := out) (v := a) hbj hj hev
                have h2 := ihr cr hcr code _ st' env out hbr henv
                simp only [hEl, hEr, ExecSpec, ht, if_true] at h1 h2 hjmp ⊢
                exact (h1.trans hjmp).halts h2)
              simpa [evalW, hEl, hEr, ht, bindWrap] using this
            | ok pb =>
              obtain ⟨b, c2⟩ := pb
              have := exec_wrap (st := st) (out := out) w (cl ++ [.extArg hi, .jumpIfFalseOrPop lo] ++ cr) (.ok (b, c1 && c2)) hcode' henv (fun st' => by
                have h1 := ihl cl hcl code _ st' env out hbl henv
                have hjmp := exec_jumpF (st := st') (env := env) (out := out) (v := a) hbj hj hev
                have h2 := ihr cr hcr code _ st' env out hbr henv
                simp only [hEl, hEr, ExecSpec, ht, if_true] at h1 h2 hjmp ⊢
                have := (h1.trans hjmp).trans h2
                rw [hsize]
                simpa [Nat.add_assoc] using this)
              simpa [evalW, hEl, hEr, ht, bindWrap] using this
          · have := exec_wrap (st := st) (out := out) w (cl ++ [.extArg hi, .jumpIfFalseOrPop lo] ++ cr) (.ok (a, c1)) hcode' henv (fun st' => by
              have h1 := ihl cl hcl code _ st' env out hbl henv
              have hjmp := exec_jumpF (st := st') (env := env) (out := out) (v := a) hbj hj hev
              simp only [hEl, ExecSpec, ht, Bool.false_eq_true, if_false] at h1 hjmp ⊢
              have := h1.trans hjmp
              rw [hsize]
              simpa [Nat.add_assoc] using this)
            simpa [evalW, hEl, ht, bindWrap] using this

theorem exprOk_or (l r : Expr) (w : Option Cls) (ihl : ExprOk l) (ihr : ExprOk r) : ExprOk (.or l r w) := by
  intro cs hcs code pc st env out hcode henv
  simp only [compileE] at hcs
  cases hcl : compileE l with
  | none => simp [hcl] at hcs
  | some cl =>
    cases hcr : compileE r with
    | none => simp [hcl, hcr] at hcs
    | some cr =>
      cases hj : jumpArgs (codeSize cr) with
      | none => simp [hcl, hcr, hj] at hcs
      | some hl =>
        obtain ⟨hi, lo⟩ := hl
        simp only [hcl, hcr, hj, Option.some.injEq] at hcs
        subst hcs
        have hcode' : CodeAt code pc (wrapPre w ++ (cl ++ [.extArg hi, .jumpIfTrueOrPop lo] ++ cr) ++ wrapPost w) := by
          simpa [List.append_assoc] using hcode
        have hsz : codeSize (wrapPre w ++ cl ++ [.extArg hi, .jumpIfTrueOrPop lo] ++ cr ++ wrapPost w)
            = codeSize (wrapPre w ++ (cl ++ [.extArg hi, .jumpIfTrueOrPop lo] ++ cr) ++ wrapPost w) := by
          simp [List.append_assoc]
        rw [hsz]
        have hb := hcode'.body
        have hbl : CodeAt code (pc + codeSize (wrapPre w)) cl := hb.left.left
        have hbj : CodeAt code (pc + codeSize (wrapPre w) + codeSize cl) (.extArg hi :: .jumpIfTrueOrPop lo :: cr) := by
          have : CodeAt code (pc + codeSize (wrapPre w)) (cl ++ (.extArg hi :: .jumpIfTrueOrPop lo :: cr)) := by
            simpa [List.append_assoc] using hb
          exact this.right
        have hbr : CodeAt code (pc + codeSize (wrapPre w) + codeSize cl + 4) cr := by
          have := hbj.tail.tail
          simpa [Instr.size, Nat.add_assoc] using this
        have hev := codeSize_even cr
        have hsize : codeSize (cl ++ [.extArg hi, .jumpIfTrueOrPop lo] ++ cr) = codeSize cl + 4 + codeSize cr := by
          simp [Instr.size]; omega
        cases hEl : evalW env l with
        | error e =>
          have := exec_wrap (st := st) (out := out) w (cl ++ [.extArg hi, .jumpIfTrueOrPop lo] ++ cr) (.error e) hcode' henv (fun st' => by
            have := ihl cl hcl code _ st' env out hbl henv
            simpa [hEl, ExecSpec] using this)
          simpa [evalW, hEl, bindWrap] using this
        | ok pa =>
          obtain ⟨a, c1⟩ := pa
          by_cases ht : truthy a
          · have := exec_wrap (st := st) (out := out) w (cl ++ [.extArg hi, .jumpIfTrueOrPop lo] ++ cr) (.ok (a, c1)) hcode' henv (fun st' => by
              have h1 := ihl cl hcl code _ st' env out hbl henv
              have hjmp := exec_jumpT (st := st') (env := env) (out := out) (v := a) hbj hj hev
              simp only [hEl, ExecSpec, ht, if_true] at h1 hjmp ⊢
              have := h1.trans hjmp
              rw [hsize]
              simpa [Nat.add_assoc] using this)
            simpa [evalW, hEl, ht, bindWrap] using this
          · cases hEr : evalW env r with
            | error e =>
              have := exec_wrap (st := st) (out := out) w (cl ++ [.extArg hi, .jumpIfTrueOrPop lo] ++ cr) (.error e) hcode' henv (fun st' => by
                have h1 := ihl cl hcl code _ st' env out hbl henv
                have hjmp := exec_jumpT (st := st') (env := env) (out := out) (v := a) hbj hj hev
                have h2 := ihr cr hcr code _ st' env out hbr henv
                simp only [hEl, hEr, ExecSpec, ht, Bool.false_eq_true, if_false] at h1 h2 hjmp ⊢
                exact (h1.trans hjmp).halts h2)
              simpa [evalW, hEl, hEr, ht, bindWrap] using this
            | ok pb =>
              obtain ⟨b, c2⟩ := pb
              have := exec_wrap (st := st) (out := out) w (cl ++ [.extArg hi, .jumpIfTrueOrPop lo] ++ cr) (.ok (b, c1 && c2)) hcode' henv (fun st' => by
                have h1 := ihl cl hcl code _ st' env out hbl henv
                have hjmp := exec_jumpT (st := st') (env := env) (out := out) (v := a) hbj hj hev
                have h2 := ihr cr hcr code _ st' env out hbr henv
                simp only [hEl, hEr, ExecSpec, ht, Bool.false_eq_true, if_false] at h1 h2 hjmp ⊢
                have := (h1.trans hjmp).trans h2
                rw [hsize]
                simpa [Nat.add_assoc] using this)
              simpa [evalW, hEl, hEr, ht, bindWrap] using this

/-- the code of every expression computes its wrapper-aware source value (or raises the same exception) -/
theorem exec_expr : ∀ e : Expr, ExprOk e
  | .lit c w => exprOk_lit c w
  | .var x w => exprOk_var x w
  | .bin op l r w => exprOk_bin op l r w (exec_expr l) (exec_expr r)
  | .cmp op l r w => exprOk_cmp op l r w (exec_expr l) (exec_expr r)
  | .and l r w => exprOk_and l r w (exec_expr l) (exec_expr r)
  | .or l r w => exprOk_or l r w (exec_expr l) (exec_expr r)
  | .neg e w => exprOk_neg e w (exec_expr e)
  | .not e w => exprOk_not e w (exec_expr e)

end ErgVerif.C07.Stage1
