import ErgVerif.C20.Model
import ErgVerif.C21.SortProofs
/-!
# C20 — helper lemmas

Part 1: `register`/`resolve` keep the `ModuleGraph` representation invariant and acyclicity (from C21's `add_*`, `incRef_spec`,
`spec_inc_acyclic`). Part 2: the scheduling worklist (`bdmLoop`/`bdm`): invariant, sink lemma, fuel bound, start order.
Part 3: the promise protocol machine.
-/
namespace ErgVerif.C20
open ErgVerif.Graph ErgVerif.C21

/-! ## Part 1: resolution -/

/-- what `resolve` maintains about the graph -/
structure GoodG (g : MG) : Prop where
  inv : Inv g
  acyclic : (abs g).Acyclic
  closed : (abs g).Closed

theorem GoodG.new : GoodG MG.new :=
  ⟨Inv.init, by rw [abs_new]; exact RG.empty_acyclic, by rw [abs_new]; intro a b h; exact h.elim⟩

theorem GoodG.add {g : MG} (h : GoodG g) (p : Path) : GoodG (g.addNodeIfNone p) := by
  refine ⟨add_inv h.inv p, ?_, ?_⟩
  · rw [add_abs h.inv p]
    exact RG.Acyclic.of_edges_sub h.acyclic (fun _ _ e => e)
  · rw [add_abs h.inv p]
    intro a b e
    exact Or.inl (h.closed a b e)

theorem GoodG.add_node {g : MG} (h : GoodG g) (p : Path) : (abs (g.addNodeIfNone p)).nodes p := by
  rw [add_abs h.inv p]; exact Or.inr rfl

theorem GoodG.incRef {g g' : MG} {r : Bool} (h : GoodG g) {a b : Path} (hb : (abs g).nodes b)
    (hr : g.incRef a b = .ok (g', r)) : GoodG g' := by
  obtain ⟨s', r', hr', inv', habs, _⟩ := incRef_spec h.inv a b
  rw [hr] at hr'; cases hr'
  refine ⟨inv', by rw [habs]; exact spec_inc_acyclic _ h.acyclic a b, ?_⟩
  rw [habs]
  intro x y e
  rcases e with e | ⟨_, rfl, _⟩
  · exact Or.inl (h.closed x y e)
  · exact Or.inl hb

/-- `resolveList` preserves any state predicate that `reg` preserves -/
theorem resolveList_pres (P : RState → Prop) (reg : Path → RState → Except Err (RState × List Path))
    (hreg : ∀ i st st' errs, P st → reg i st = .ok (st', errs) → P st') :
    ∀ (is : List Path) (st st' : RState) (errs : List Path), P st → resolveList reg is st = .ok (st', errs) → P st' := by
  intro is
  induction is with
  | nil => intro st st' errs hp h; simp [resolveList] at h; rw [← h.1]; exact hp
  | cons i is ih =>
    intro st st' errs hp h
    unfold resolveList at h
    split at h
    · cases h
    · rename_i st1 errs1 h1
      split at h
      · cases h
      · rename_i st2 errs2 h2
        cases h
        exact ih st1 _ errs2 (hreg i st st1 errs1 hp h1) h2

theorem register_good (pr : Proj) : ∀ (fuel : Nat) (frm imp : Path) (st st' : RState) (errs : List Path),
    GoodG st.graph → register pr fuel frm imp st = .ok (st', errs) → GoodG st'.graph := by
  intro fuel
  induction fuel with
  | zero => intro frm imp st st' errs _ h; simp [register] at h
  | succ fuel ih =>
    intro frm imp st st' errs hg h
    unfold register at h
    simp only at h
    have hg1 := hg.add imp
    split at h
    · cases h
    · rename_i g2 hinc
      cases h
      exact hg1.incRef (hg.add_node imp) hinc
    · rename_i g2 hinc
      have hg2 : GoodG g2 := hg1.incRef (hg.add_node imp) hinc
      split at h
      · cases h; exact hg2
      · have key := resolveList_pres (fun s => GoodG s.graph) (register pr fuel imp)
          (fun i s s' e hp hr => ih imp i s s' e hp hr)
        split at h
        · cases h
        · rename_i st3 hres
          cases h
          exact key _ _ st3 _ hg2 hres
        · rename_i st3 e es hres
          have h3 : GoodG st3.graph := key _ _ st3 _ hg2 hres
          split at h <;> (cases h; exact h3)

theorem resolveRoot_good (pr : Proj) (root : Path) (rs : RState) (errs : List Path)
    (h : resolveRoot pr root = .ok (rs, errs)) : GoodG rs.graph := by
  unfold resolveRoot at h
  exact resolveList_pres (fun s => GoodG s.graph) _ (fun i s s' e hp hr => register_good pr _ root i s s' e hp hr)
    _ _ _ _ GoodG.new h

end ErgVerif.C20

namespace ErgVerif.C20
open ErgVerif.Graph ErgVerif.C21

/-! ## Part 2: the scheduling worklist -/

/-- `startable` answers without error, and `true` exactly when `a` has no remaining dependency (in particular when `a` is
    no longer a node of the cloned graph) -/
theorem startable_spec {g : MG} (h : Inv g) (a : Path) :
    ∃ b, startable g a = .ok b ∧ (b = true ↔ ∀ d, ¬ (abs g).edges a d) := by
  unfold startable
  rcases parents_spec h a with ⟨l, hp, _, _, hl⟩ | ⟨hp, hn⟩
  · rw [hp]
    refine ⟨l.isEmpty, rfl, ?_⟩
    constructor
    · intro he d hd
      have := (hl d).mpr hd
      rw [List.isEmpty_iff] at he
      rw [he] at this; cases this
    · intro hno
      cases l with
      | nil => rfl
      | cons x xs => exact absurd ((hl x).mp (List.mem_cons_self ..)) (hno x)
  · rw [hp]
    refine ⟨true, rfl, ?_⟩
    simp only [true_iff]
    intro d hd
    obtain ⟨n, hn', e, _⟩ := hd
    exact hn ⟨n, hn', e⟩

/-- an acyclic relation restricted to a non-empty finite set closed under successors has a sink in that set -/
theorem exists_sink (g : RG) (hac : g.Acyclic) : ∀ (n : Nat) (work : List Path), work.length ≤ n → work ≠ [] →
    (∀ a ∈ work, ∀ d, g.edges a d → d ∈ work) → ∃ a ∈ work, ∀ d, ¬ g.edges a d := by
  intro n
  induction n with
  | zero =>
    intro work hl hne
    cases work with
    | nil => exact absurd rfl hne
    | cons a rest => simp at hl
  | succ n ih =>
    intro work hl hne hcl
    cases work with
    | nil => exact absurd rfl hne
    | cons a rest =>
      by_cases hs : ∀ d, ¬ g.edges a d
      · exact ⟨a, List.mem_cons_self .., hs⟩
      · obtain ⟨d, hd⟩ : ∃ d, g.edges a d := Classical.not_forall_not.mp hs
        classical
        have hmem : ∀ x, x ∈ (a :: rest).filter (fun x => decide (g.Reach1 a x)) ↔ x ∈ a :: rest ∧ g.Reach1 a x := by
          intro x; simp [List.mem_filter]
        have hd' := (hmem d).mpr ⟨hcl a (List.mem_cons_self ..) d hd, .edge hd⟩
        have hlen : ((a :: rest).filter (fun x => decide (g.Reach1 a x))).length ≤ n := by
          have h1 := filter_length_lt (a :: rest) (fun x => decide (g.Reach1 a x)) (fun _ => true) (fun _ _ => rfl) a
            (List.mem_cons_self ..) rfl (by simpa using hac a)
          have hft : ∀ l : List Path, l.filter (fun _ => true) = l := by
            intro l; induction l with
            | nil => rfl
            | cons x xs ihx => simp [List.filter_cons]
          rw [hft] at h1
          simp only [List.length_cons] at hl h1
          omega
        obtain ⟨s, hs', hsink⟩ := ih _ hlen (List.ne_nil_of_mem hd') (by
          intro x hx y hxy
          obtain ⟨hx1, hx2⟩ := (hmem x).mp hx
          exact (hmem y).mpr ⟨hcl x hx1 y hxy, hx2.tail hxy⟩)
        exact ⟨s, ((hmem s).mp hs').1, hsink⟩

/-- the graph part of the worklist invariant: representation invariant, no cycle, every dependency is a node -/
structure BInv (g : MG) : Prop where
  inv : Inv g
  acyclic : (abs g).Acyclic
  closed : (abs g).Closed

/-- what any stretch of the worklist does to the cloned graph and to the promise table: nodes and edges only disappear,
    registrations only appear, and every node that disappeared is registered -/
structure Shrink (g : MG) (reg : List Path) (g' : MG) (reg' : List Path) : Prop where
  edges : ∀ x y, (abs g').edges x y → (abs g).edges x y
  nodes : ∀ x, (abs g').nodes x → (abs g).nodes x
  reg : ∀ x ∈ reg, x ∈ reg'
  removed : ∀ x, (abs g).nodes x → ¬ (abs g').nodes x → x ∈ reg'
  len : g'.graph.length ≤ g.graph.length

theorem Shrink.refl (g : MG) (reg : List Path) : Shrink g reg g reg :=
  ⟨fun _ _ h => h, fun _ h => h, fun _ h => h, fun _ h h' => absurd h h', Nat.le_refl _⟩

theorem Shrink.trans {g1 g2 g3 : MG} {r1 r2 r3 : List Path} (a : Shrink g1 r1 g2 r2) (b : Shrink g2 r2 g3 r3) :
    Shrink g1 r1 g3 r3 := by
  refine ⟨fun x y h => a.edges x y (b.edges x y h), fun x h => a.nodes x (b.nodes x h), fun x h => b.reg x (a.reg x h), ?_,
    Nat.le_trans b.len a.len⟩
  intro x h1 h3
  by_cases h2 : (abs g2).nodes x
  · exact b.removed x h2 h3
  · exact b.reg x (a.removed x h1 h2)

/-- `remove` on the model: one node fewer (if it was a node), `BInv` kept -/
theorem remove_len {s s' : MG} {p : Path} (h : s.remove p = .ok s') :
    s'.graph.length ≤ s.graph.length ∧ ((dget s.index p).isSome → s'.graph.length + 1 = s.graph.length) := by
  unfold MG.remove MG.removeNode at h
  cases hd : dget s.index p with
  | none => simp [hd] at h; subst h; simp
  | some i =>
    simp only [hd] at h
    by_cases hi : i < s.graph.length
    · simp only [hi, if_true] at h
      cases h
      simp [List.length_eraseIdx, hi]
      omega
    · simp [hi] at h

theorem BInv.remove {g : MG} (h : BInv g) (a : Path) :
    ∃ g', g.remove a = .ok g' ∧ BInv g' ∧
      (∀ x, (abs g').nodes x ↔ (abs g).nodes x ∧ x ≠ a) ∧
      (∀ x y, (abs g').edges x y ↔ (abs g).edges x y ∧ x ≠ a ∧ y ≠ a) ∧
      g'.graph.length ≤ g.graph.length ∧ ((abs g).nodes a → g'.graph.length + 1 = g.graph.length) := by
  obtain ⟨g', hrem, inv', habs⟩ := remove_spec h.inv a
  have hn : ∀ x, (abs g').nodes x ↔ (abs g).nodes x ∧ x ≠ a := by intro x; rw [habs]; rfl
  have he : ∀ x y, (abs g').edges x y ↔ (abs g).edges x y ∧ x ≠ a ∧ y ≠ a := by intro x y; rw [habs]; rfl
  refine ⟨g', hrem, ⟨inv', RG.Acyclic.of_edges_sub h.acyclic (fun x y e => ((he x y).mp e).1), ?_⟩, hn, he,
    (remove_len hrem).1, fun hna => (remove_len hrem).2 ((h.inv.dget_isSome a).mpr hna)⟩
  intro x y e
  obtain ⟨e1, _, hy⟩ := (he x y).mp e
  exact (hn y).mpr ⟨h.closed x y e1, hy⟩

/-- the decision `startable g a = Ok(true)` as a Boolean -/
def isStart (g : MG) (a : Path) : Bool := match startable g a with | .ok true => true | _ => false

theorem isStart_iff {g : MG} (h : Inv g) (a : Path) : isStart g a = true ↔ ∀ d, ¬ (abs g).edges a d := by
  obtain ⟨b, hb, hiff⟩ := startable_spec h a
  unfold isStart
  rw [hb]
  cases b <;> simp_all

/-- the work-list part of the invariant: closed under remaining dependencies; an element that is no longer a node is registered -/
structure WInv (work : List Path) (g : MG) (reg : List Path) : Prop where
  closure : ∀ a ∈ work, ∀ d, (abs g).edges a d → d ∈ work
  settled : ∀ a ∈ work, (abs g).nodes a ∨ a ∈ reg

/-- in a non-empty work list some element is startable, so the rotation finds it before coming round -/
theorem findIdx_lt {work : List Path} {g : MG} {reg : List Path} (hb : BInv g) (hw : WInv work g reg) (hne : work ≠ []) :
    work.findIdx (isStart g) < work.length := by
  obtain ⟨s, hs, hsink⟩ := exists_sink (abs g) hb.acyclic work.length work (Nat.le_refl _) hne hw.closure
  exact List.findIdx_lt_length_of_exists ⟨s, hs, (isStart_iff hb.inv s).mpr hsink⟩

/-- contract of the nested `build_deps_and_module` call made by `build_inlined_module`, for graphs with fewer than `n` nodes -/
def RecOK (rec : Path → BState → Except Err BState) (n : Nat) : Prop :=
  ∀ p st, BInv st.graph → st.graph.graph.length < n →
    rec p st ≠ .error .fuel ∧
    ∀ st', rec p st = .ok st' → BInv st'.graph ∧ Shrink st.graph st.registered st'.graph st'.registered

theorem tri_succ (n : Nat) : tri (n + 1) = tri n + (n + 1) := rfl

/-- the worklist loop terminates within the stated fuel (`k + tri |rest| + 2`, where `k` is the distance to the first
    startable element) and only shrinks the graph, for every contents of `inlines` and every behaviour of the nested call that
    satisfies `RecOK` -/
theorem bdmLoop_ok (inl : List (Path × Path)) (rec : Path → BState → Except Err BState) (n : Nat) (hrec : RecOK rec n) :
    ∀ (fuel : Nat) (work : List Path) (st : BState), BInv st.graph → st.graph.graph.length ≤ n →
      WInv work st.graph st.registered → (work = [] → 1 ≤ fuel) →
      (∀ a rest, work = a :: rest → work.findIdx (isStart st.graph) + tri rest.length + 2 ≤ fuel) →
      bdmLoop inl rec fuel work st ≠ .error .fuel ∧
      ∀ st', bdmLoop inl rec fuel work st = .ok st' →
        BInv st'.graph ∧ Shrink st.graph st.registered st'.graph st'.registered ∧
        ∀ x ∈ work, ¬ (abs st'.graph).nodes x := by
  intro fuel
  induction fuel with
  | zero =>
    intro work st _ _ _ h0 h1
    cases work with
    | nil => exact absurd (h0 rfl) (by omega)
    | cons a rest => exact absurd (h1 a rest rfl) (by omega)
  | succ f ih =>
    intro work st hb hn hw h0 h1
    cases work with
    | nil =>
      simp only [bdmLoop]
      refine ⟨fun h => (by cases h), fun st' h => ?_⟩
      cases h
      exact ⟨hb, Shrink.refl _ _, fun x hx => (by cases hx)⟩
    | cons a rest =>
      have hfuel := h1 a rest rfl
      obtain ⟨b, hsb, hbiff⟩ := startable_spec hb.inv a
      have hisa : isStart st.graph a = b := by unfold isStart; rw [hsb]; cases b <;> rfl
      unfold bdmLoop
      rw [hsb]
      cases b with
      | false =>
        -- rotation
        simp only
        have hidx : (a :: rest).findIdx (isStart st.graph) = rest.findIdx (isStart st.graph) + 1 := by
          rw [List.findIdx_cons, hisa]; simp
        have hlt := findIdx_lt hb hw (List.cons_ne_nil a rest)
        rw [hidx] at hlt hfuel
        have hlt' : rest.findIdx (isStart st.graph) < rest.length := by simpa using hlt
        have hw' : WInv (rest ++ [a]) st.graph st.registered := by
          refine ⟨fun x hx d hd => ?_, fun x hx => ?_⟩
          · have hx' : x ∈ a :: rest := by
              rcases List.mem_append.mp hx with h | h
              · exact List.mem_cons_of_mem _ h
              · simp at h; subst h; exact List.mem_cons_self ..
            have := hw.closure x hx' d hd
            rcases List.mem_cons.mp this with rfl | h
            · exact List.mem_append.mpr (Or.inr (by simp))
            · exact List.mem_append.mpr (Or.inl h)
          · apply hw.settled
            rcases List.mem_append.mp hx with h | h
            · exact List.mem_cons_of_mem _ h
            · simp at h; subst h; exact List.mem_cons_self ..
        have := ih (rest ++ [a]) { st with evs := st.evs ++ [.rotate a] } hb hn hw'
          (by intro h; simp at h)
          (by
            intro a' rest' heq
            have hl : rest'.length = rest.length := by
              have := congrArg List.length heq; simp at this; omega
            have hfi : (rest ++ [a]).findIdx (isStart st.graph) = rest.findIdx (isStart st.graph) := by
              rw [List.findIdx_append]; simp [hlt']
            show List.findIdx (isStart st.graph) (rest ++ [a]) + tri rest'.length + 2 ≤ f
            rw [hfi, hl]
            omega)
        refine ⟨this.1, fun st' hst' => ?_⟩
        obtain ⟨hb3, hs3, hgone⟩ := this.2 st' hst'
        refine ⟨hb3, hs3, fun x hx => hgone x ?_⟩
        rcases List.mem_cons.mp hx with rfl | h
        · exact List.mem_append.mpr (Or.inr (by simp))
        · exact List.mem_append.mpr (Or.inl h)
      | true =>
        have hnoedge := hbiff.mp rfl
        obtain ⟨g', hrem, hb', hnodes, hedges, hlen, hlen1⟩ := hb.remove a
        simp only [hrem]
        -- facts shared by the three continuations
        have hclosure' : ∀ (g2 : MG), (∀ x y, (abs g2).edges x y → (abs g').edges x y) →
            ∀ x ∈ rest, ∀ d, (abs g2).edges x d → d ∈ rest := by
          intro g2 hsub x hx d hd
          obtain ⟨e1, _, hda⟩ := (hedges x d).mp (hsub x d hd)
          have := hw.closure x (List.mem_cons_of_mem _ hx) d e1
          rcases List.mem_cons.mp this with rfl | h
          · exact absurd rfl hda
          · exact h
        have hfuel' : ∀ (g2 : MG) (reg2 : List Path), BInv g2 → WInv rest g2 reg2 →
            (rest = [] → 1 ≤ f) ∧
            (∀ a' rest', rest = a' :: rest' → rest.findIdx (isStart g2) + tri rest'.length + 2 ≤ f) := by
          intro g2 reg2 hb2 hw2
          have hk : (a :: rest).findIdx (isStart st.graph) = 0 := by rw [List.findIdx_cons, hisa]; simp
          rw [hk] at hfuel
          refine ⟨fun _ => by omega, fun a' rest' heq => ?_⟩
          have hlt := findIdx_lt hb2 hw2 (by rw [heq]; exact List.cons_ne_nil _ _)
          rw [heq] at hlt hfuel ⊢
          simp only [List.length_cons] at hlt hfuel
          rw [tri_succ] at hfuel
          omega
        by_cases hast : st.asts.contains a = true
        · -- start_analysis_process
          simp only [hast, if_true]
          have hw2 : WInv rest g' (st.registered ++ [a]) := by
            refine ⟨hclosure' g' (fun _ _ h => h), fun x hx => ?_⟩
            by_cases hxa : x = a
            · right; subst hxa; simp
            · rcases hw.settled x (List.mem_cons_of_mem _ hx) with h | h
              · left; exact (hnodes x).mpr ⟨h, hxa⟩
              · right; exact List.mem_append.mpr (Or.inl h)
          obtain ⟨hf0, hf1⟩ := hfuel' g' _ hb' hw2
          have := ih rest { st with graph := g', asts := st.asts.erase a, registered := st.registered ++ [a],
                                     evs := st.evs ++ [.start a] } hb' (Nat.le_trans hlen hn) hw2 hf0 hf1
          refine ⟨this.1, fun st' hst' => ?_⟩
          obtain ⟨hb3, hs3, hgone⟩ := this.2 st' hst'
          refine ⟨hb3, Shrink.trans ⟨fun x y h => ((hedges x y).mp h).1, fun x h => ((hnodes x).mp h).1,
            fun x h => List.mem_append.mpr (Or.inl h), ?_, hlen⟩ hs3, ?_⟩
          · intro x hx hnx
            by_cases hxa : x = a
            · subst hxa; simp
            · exact absurd ((hnodes x).mpr ⟨hx, hxa⟩) hnx
          · intro x hx
            rcases List.mem_cons.mp hx with rfl | h
            · exact fun hc => ((hnodes _).mp (hs3.nodes _ hc)).2 rfl
            · exact hgone x h
        · -- build_inlined_module
          simp only [hast, Bool.false_eq_true, if_false]
          unfold buildInlined
          simp only
          by_cases hreg : st.registered.contains a = true
          · simp only [hreg, if_true]
            have hareg : a ∈ st.registered := by simpa using hreg
            have hw2 : WInv rest g' st.registered := by
              refine ⟨hclosure' g' (fun _ _ h => h), fun x hx => ?_⟩
              by_cases hxa : x = a
              · right; subst hxa; exact hareg
              · rcases hw.settled x (List.mem_cons_of_mem _ hx) with h | h
                · left; exact (hnodes x).mpr ⟨h, hxa⟩
                · right; exact h
            obtain ⟨hf0, hf1⟩ := hfuel' g' _ hb' hw2
            have := ih rest { st with graph := g', evs := st.evs ++ [.inlined a] ++ [.settled a] } hb'
              (Nat.le_trans hlen hn) hw2 hf0 hf1
            refine ⟨this.1, fun st' hst' => ?_⟩
            obtain ⟨hb3, hs3, hgone⟩ := this.2 st' hst'
            refine ⟨hb3, Shrink.trans ⟨fun x y h => ((hedges x y).mp h).1, fun x h => ((hnodes x).mp h).1,
              fun x h => h, ?_, hlen⟩ hs3, ?_⟩
            · intro x hx hnx
              by_cases hxa : x = a
              · subst hxa; exact hareg
              · exact absurd ((hnodes x).mpr ⟨hx, hxa⟩) hnx
            · intro x hx
              rcases List.mem_cons.mp hx with rfl | h
              · exact fun hc => ((hnodes _).mp (hs3.nodes _ hc)).2 rfl
              · exact hgone x h
          · simp only [hreg, Bool.false_eq_true, if_false]
            have hanreg : a ∉ st.registered := by simpa using hreg
            have hnode : (abs st.graph).nodes a := by
              rcases hw.settled a (List.mem_cons_self ..) with h | h
              · exact h
              · exact absurd h hanreg
            cases hlk : lookup inl a with
            | none =>
              dsimp only
              exact ⟨fun h => (by cases h), fun st' h => (by cases h)⟩
            | some i =>
              dsimp only
              have hlt : g'.graph.length < n := by have := hlen1 hnode; omega
              obtain ⟨hnf, hok⟩ := hrec i { st with graph := g', evs := st.evs ++ [.inlined a] ++ [.recurse a i] } hb' hlt
              cases hr : rec i { st with graph := g', evs := st.evs ++ [.inlined a] ++ [.recurse a i] } with
              | error e =>
                dsimp only
                refine ⟨?_, fun st' h => (by cases h)⟩
                intro h; cases h; exact hnf hr
              | ok stN =>
                dsimp only
                obtain ⟨hbN, hsN⟩ := hok stN hr
                have hsN' : Shrink g' st.registered stN.graph stN.registered := hsN
                have hw2 : WInv rest stN.graph (stN.registered ++ [a]) := by
                  refine ⟨hclosure' stN.graph hsN'.edges, fun x hx => ?_⟩
                  by_cases hxa : x = a
                  · right; subst hxa; simp
                  · by_cases hxn : (abs stN.graph).nodes x
                    · left; exact hxn
                    · right
                      rcases hw.settled x (List.mem_cons_of_mem _ hx) with h | h
                      · exact List.mem_append.mpr (Or.inl (hsN'.removed x ((hnodes x).mpr ⟨h, hxa⟩) hxn))
                      · exact List.mem_append.mpr (Or.inl (hsN'.reg x h))
                obtain ⟨hf0, hf1⟩ := hfuel' stN.graph _ hbN hw2
                have := ih rest { stN with registered := stN.registered ++ [a], evs := stN.evs ++ [.joined a] } hbN
                  (Nat.le_trans hsN'.len (Nat.le_trans hlen hn)) hw2 hf0 hf1
                refine ⟨this.1, fun st' hst' => ?_⟩
                obtain ⟨hb3, hs3, hgone⟩ := this.2 st' hst'
                refine ⟨hb3, Shrink.trans ⟨fun x y h => ((hedges x y).mp (hsN'.edges x y h)).1,
                  fun x h => ((hnodes x).mp (hsN'.nodes x h)).1,
                  fun x h => List.mem_append.mpr (Or.inl (hsN'.reg x h)), ?_, Nat.le_trans hsN'.len hlen⟩ hs3, ?_⟩
                · intro x hx hnx
                  by_cases hxa : x = a
                  · subst hxa; simp
                  · exact List.mem_append.mpr (Or.inl (hsN'.removed x ((hnodes x).mpr ⟨hx, hxa⟩) hnx))
                · intro x hx
                  rcases List.mem_cons.mp hx with rfl | h
                  · exact fun hc => ((hnodes _).mp (hsN'.nodes _ (hs3.nodes _ hc))).2 rfl
                  · exact hgone x h


/-- the oracle only ever yields a list with exactly the members of the computed ancestor set, and touches nothing else -/
theorem takeOrder_spec (anc : List Path) (st : BState) :
    (∀ x, x ∈ (takeOrder anc st).1 ↔ x ∈ anc) ∧ (takeOrder anc st).2.graph = st.graph ∧
    (takeOrder anc st).2.registered = st.registered ∧ (takeOrder anc st).2.asts = st.asts := by
  unfold takeOrder
  cases ho : st.orders with
  | nil => simp
  | cons o rest =>
    refine ⟨?_, rfl, rfl, rfl⟩
    show ∀ x, x ∈ (if isPermOf o anc = true then o else anc) ↔ x ∈ anc
    by_cases hp : isPermOf o anc = true
    · simp only [hp, if_true]
      unfold isPermOf at hp
      simp only [Bool.and_eq_true, List.all_eq_true, List.contains_eq_mem, decide_eq_true_eq] at hp
      intro x; exact ⟨fun h => hp.1.2 x h, fun h => hp.2 x h⟩
    · simp [hp]

/-- `build_deps_and_module` with nesting budget `d` meets the contract on every graph with fewer than `d` nodes -/
theorem bdm_ok (inl : List (Path × Path)) : ∀ d, RecOK (bdm inl d) d := by
  intro d
  induction d with
  | zero => intro p st _ h; exact absurd h (Nat.not_lt_zero _)
  | succ d ih =>
    intro p st hb hlen
    unfold bdm
    obtain ⟨anc, hanc, _, hmem⟩ := ancestors_spec hb.inv p
    rw [hanc]
    simp only
    obtain ⟨hord, hg, hr, _⟩ := takeOrder_spec anc st
    have hw : WInv (takeOrder anc st).1.reverse (takeOrder anc st).2.graph (takeOrder anc st).2.registered := by
      rw [hg, hr]
      refine ⟨fun a ha y hy => ?_, fun a ha => ?_⟩
      · have ha' := (hmem a).mp ((hord a).mp (List.mem_reverse.mp ha))
        exact List.mem_reverse.mpr ((hord y).mpr ((hmem y).mpr (ha'.tail hy)))
      · left
        have ha' := (hmem a).mp ((hord a).mp (List.mem_reverse.mp ha))
        obtain ⟨b, _, hb'⟩ := ha'.exists_last
        exact hb.closed b a hb'
    have hb1 : BInv ({ (takeOrder anc st).2 with evs := (takeOrder anc st).2.evs ++ [.enter p (takeOrder anc st).1] } : BState).graph := by
      show BInv (takeOrder anc st).2.graph
      rw [hg]; exact hb
    have hloop := bdmLoop_ok inl (bdm inl d) d ih (loopFuel (takeOrder anc st).1.length) (takeOrder anc st).1.reverse
      { (takeOrder anc st).2 with evs := (takeOrder anc st).2.evs ++ [.enter p (takeOrder anc st).1] } hb1
      (by show (takeOrder anc st).2.graph.graph.length ≤ d; rw [hg]; omega) hw
      (by intro _; unfold loopFuel; omega)
      (by
        intro a rest heq
        have hlt := findIdx_lt hb1 hw (by rw [heq]; exact List.cons_ne_nil _ _)
        have hl : (takeOrder anc st).1.length = rest.length + 1 := by
          have := congrArg List.length heq; simpa using this
        rw [heq] at hlt ⊢
        simp only [List.length_cons] at hlt
        unfold loopFuel
        rw [hl, tri_succ]
        show List.findIdx (isStart (takeOrder anc st).2.graph) (a :: rest) + tri rest.length + 2 ≤ _
        have : List.findIdx (isStart ({ (takeOrder anc st).2 with evs := (takeOrder anc st).2.evs ++ [.enter p (takeOrder anc st).1] } : BState).graph) (a :: rest)
            = List.findIdx (isStart (takeOrder anc st).2.graph) (a :: rest) := rfl
        omega)
    cases hl : bdmLoop inl (bdm inl d) (loopFuel (takeOrder anc st).1.length) (takeOrder anc st).1.reverse
        { (takeOrder anc st).2 with evs := (takeOrder anc st).2.evs ++ [.enter p (takeOrder anc st).1] } with
    | error e =>
      dsimp only
      refine ⟨?_, fun st' h => (by cases h)⟩
      intro h; cases h; exact hloop.1 hl
    | ok st2 =>
      dsimp only
      refine ⟨fun h => (by cases h), fun st' h => ?_⟩
      cases h
      obtain ⟨hb2, hs2, _⟩ := hloop.2 st2 hl
      refine ⟨hb2, ?_⟩
      have : Shrink (takeOrder anc st).2.graph (takeOrder anc st).2.registered st2.graph st2.registered := hs2
      rw [hg, hr] at this
      exact this


/-! ## Part 3: the promise protocol -/

/-- spawn order in which every thread comes after the threads it joins (what the worklist guarantees) -/
def DepsBefore (deps : Path → List Path) (order : List Path) : Prop :=
  ∀ l1 x l2, order = l1 ++ x :: l2 → ∀ d ∈ deps x, d ∈ l1

/-- reachable-state invariant: the spawned prefix of `order` is exactly running ∪ finished -/
def SInv (sc : Sched) (s : SState) : Prop :=
  ∃ pre, sc.order = pre ++ s.toSpawn ∧ ∀ x, x ∈ pre ↔ (x ∈ s.running ∨ x ∈ s.finished)

theorem SInv.init (sc : Sched) : SInv sc sc.init := ⟨[], by simp [Sched.init], by simp [Sched.init]⟩

theorem SInv.step {sc : Sched} {s : SState} (h : SInv sc s) (a : SStep) (he : sc.enabled s a = true) :
    SInv sc (Sched.step s a) := by
  obtain ⟨pre, ho, hm⟩ := h
  cases a with
  | spawn m =>
    simp only [Sched.enabled, beq_iff_eq] at he
    cases hts : s.toSpawn with
    | nil => rw [hts] at he; simp at he
    | cons y t =>
      rw [hts] at he; simp at he; subst he
      refine ⟨pre ++ [y], by simp [Sched.step, hts, ho], fun x => ?_⟩
      simp only [Sched.step, List.mem_append, List.mem_singleton, hm x]
      constructor
      · rintro (h | h)
        · rcases h with h | h
          · exact Or.inl (Or.inl h)
          · exact Or.inr h
        · exact Or.inl (Or.inr h)
      · rintro (h | h)
        · rcases h with h | h
          · exact Or.inl (Or.inl h)
          · exact Or.inr h
        · exact Or.inl (Or.inr h)
  | finish m =>
    simp only [Sched.enabled, Bool.and_eq_true, List.contains_eq_mem, decide_eq_true_eq] at he
    refine ⟨pre, ho, fun x => ?_⟩
    simp only [Sched.step, List.mem_append, List.mem_singleton, hm x]
    by_cases hx : x = m
    · subst hx; exact ⟨fun _ => Or.inr (Or.inr rfl), fun _ => Or.inl he.1⟩
    · constructor
      · rintro (h | h)
        · exact Or.inl ((List.mem_erase_of_ne hx).mpr h)
        · exact Or.inr (Or.inl h)
      · rintro (h | h | h)
        · exact Or.inl (List.mem_of_mem_erase h)
        · exact Or.inr h
        · exact absurd h hx
  | mainFinish => exact ⟨pre, ho, hm⟩
  | stutter => exact ⟨pre, ho, hm⟩

/-- among the running threads of a dependency-ordered prefix the earliest one has all its dependencies finished -/
theorem exists_ready (deps : Path → List Path) (running finished : List Path) :
    ∀ (pre acc : List Path), (∀ y ∈ acc, y ∈ finished) → DepsBefore deps (acc ++ pre) →
      (∀ x ∈ pre, x ∈ running ∨ x ∈ finished) → (∃ m ∈ pre, m ∈ running) →
      ∃ m ∈ running, ∀ d ∈ deps m, d ∈ finished := by
  intro pre
  induction pre with
  | nil => intro _ _ _ _ ⟨m, hm, _⟩; cases hm
  | cons x t ih =>
    intro acc hacc hdb hall hex
    by_cases hx : x ∈ running
    · exact ⟨x, hx, fun d hd => hacc d (hdb acc x t rfl d hd)⟩
    · have hxf : x ∈ finished := (hall x (List.mem_cons_self ..)).resolve_left hx
      apply ih (acc ++ [x])
      · intro y hy
        rcases List.mem_append.mp hy with h | h
        · exact hacc y h
        · simp at h; subst h; exact hxf
      · simpa using hdb
      · exact fun y hy => hall y (List.mem_cons_of_mem _ hy)
      · obtain ⟨m, hm, hmr⟩ := hex
        rcases List.mem_cons.mp hm with rfl | h
        · exact absurd hmr hx
        · exact ⟨m, h, hmr⟩

theorem DepsBefore.prefix {deps : Path → List Path} {pre suf : List Path} (h : DepsBefore deps (pre ++ suf)) :
    DepsBefore deps pre := by
  intro l1 x l2 heq d hd
  exact h l1 x (l2 ++ suf) (by rw [heq]; simp) d hd

/-- the progress measure: spawns still to do (twice), running threads, and the main thread -/
def mc : Bool → Nat
  | true => 0
  | false => 1

def mu (s : SState) : Nat := 2 * s.toSpawn.length + s.running.length + mc s.mainDone

theorem mu_step_le (sc : Sched) (s : SState) (a : SStep) (he : sc.enabled s a = true) : mu (Sched.step s a) ≤ mu s := by
  cases a with
  | spawn m =>
    simp only [Sched.enabled, beq_iff_eq] at he
    cases hts : s.toSpawn with
    | nil => rw [hts] at he; simp at he
    | cons y t => simp [mu, Sched.step, hts]; omega
  | finish m =>
    simp only [Sched.enabled, Bool.and_eq_true, List.contains_eq_mem, decide_eq_true_eq] at he
    simp only [mu, Sched.step, List.length_erase_of_mem he.1]; omega
  | mainFinish => cases hm : s.mainDone <;> simp [mu, Sched.step, mc]
  | stutter => simp [Sched.step]

theorem mu_step_lt (sc : Sched) (s : SState) (a : SStep) (he : sc.enabled s a = true) (hns : a ≠ .stutter) :
    mu (Sched.step s a) < mu s := by
  cases a with
  | spawn m =>
    simp only [Sched.enabled, beq_iff_eq] at he
    cases hts : s.toSpawn with
    | nil => rw [hts] at he; simp at he
    | cons y t => simp [mu, Sched.step, hts]; omega
  | finish m =>
    simp only [Sched.enabled, Bool.and_eq_true, List.contains_eq_mem, decide_eq_true_eq] at he
    have hpos : 0 < s.running.length := List.length_pos_of_mem he.1
    simp only [mu, Sched.step, List.length_erase_of_mem he.1]; omega
  | mainFinish =>
    simp only [Sched.enabled, Bool.and_eq_true, Bool.not_eq_true'] at he
    simp [mu, Sched.step, he.1.1, mc]
  | stutter => exact absurd rfl hns

end ErgVerif.C20
