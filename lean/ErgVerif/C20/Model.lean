import ErgVerif.Shared.Graph
/-!
# C20 — model: import resolution, the scheduling worklist, and the promise protocol

Transcribes (file + function), on top of the shared `ModuleGraph` model (`ErgVerif/Shared/Graph.lean`):

* `crates/erg_compiler/build_package.rs`
  * `GenericPackageBuilder::resolve` / `check_import` / `register`, at the level of their effects on
    `shared.graph`, `self.inlines`, `self.asts`, `self.cyclic` and of the `ResolveError` lists they return:
    `add_node_if_none(import)`, `inc_ref(from, import)`; a refused `inc_ref` (CycleDetected) returns
    `Err([import])`; `import == from`, an already inlined or an already parsed import returns `Ok`; otherwise the
    import's own imports are resolved recursively and, if that reports errors, the import is inlined
    (`inlines[import] = from`), the errors naming `from` are filtered, and `cyclic.push(from)` when none remain;
    with no errors `asts.insert(import)`.  (`resolve` = `resolveList`, `register` = `register`.)
  * `build_deps_and_module` (`bdm`/`bdmLoop`): `ancestors(path).into_vec()`, `while let Some(a) = ancestors.pop()`,
    `parents(a).is_none_or(empty)` → `graph.remove(a)` and `start_analysis_process` (if `asts.remove(a)` is `Some`) or
    `build_inlined_module`; otherwise `ancestors.insert(0, a)` (rotation).
  * `build_inlined_module` (`buildInlined`): already analysed or registered → nothing / `wait_until_finished`;
    inlined → `build_deps_and_module(inliner, graph)` on the SAME cloned graph, then `mark_as_joined`; else `unreachable!`.
  * `start_analysis_process`: at this level `promises.insert(path, handle)` / `mark_as_joined(path)` = `registered`.
* `crates/erg_compiler/module/promise.rs` `SharedPromises::join` / `wait_until_finished` and the analysis threads: the abstract
  machine `Sched` at the end of this file.

Modelling conventions
* a project is the list of its modules with their *resolved* import lists in source order (`Proj`); imports that do not resolve
  to a file have no graph effect in `register` and are left out; the `foo/bar` root-package branch of `register` is outside
  the model (the generator uses flat module names).
* `ancestors(path).cloned().into_vec()` iterates a hash set: its order is taken from an oracle (`BState.orders`, consumed one
  list per call; an entry that is not a permutation of the computed set is ignored). Theorems hold for every oracle; the driver
  feeds the orders the implementation dumped.
* the Rust vector pops from the END; the model's work list has its head = next element popped, so `work = order.reverse`, and
  `ancestors.insert(0, a)` is `rest ++ [a]`.
* recursion has fuel (`Err.fuel` on exhaustion; theorems show the stated fuel suffices); `unreachable!` is `Err.crash`.
-/
namespace ErgVerif.C20
open ErgVerif.Graph

/-! ## import resolution -/

/-- a project: every module with its resolved imports in source order -/
abbrev Proj := List (Path × List Path)

def importsOf (pr : Proj) (p : Path) : List Path := ((pr.find? (fun kv => kv.1 == p)).map (·.2)).getD []

/-- `Dict<NormalizedPathBuf, NormalizedPathBuf>::get` on `self.inlines` -/
def lookup (d : List (Path × Path)) (p : Path) : Option Path := (d.find? (fun kv => kv.1 == p)).map (·.2)

/-- the fields of `GenericPackageBuilder` + `shared.graph` that `resolve` touches -/
structure RState where
  graph : MG
  inlines : List (Path × Path)     -- key: inlined module, value: inliner
  asts : List Path                 -- keys of `self.asts`, in insertion order
  cyclic : List Path
  deriving DecidableEq, Repr, Inhabited

def RState.init : RState := ⟨MG.new, [], [], []⟩

/-- `resolve(ast, cfg)`: `check_import` on every chunk, errors concatenated; `reg` = `register` with `from` fixed by `cfg` -/
def resolveList (reg : Path → RState → Except Err (RState × List Path)) :
    List Path → RState → Except Err (RState × List Path)
  | [], st => .ok (st, [])
  | i :: is, st =>
    match reg i st with
    | .error e => .error e
    | .ok (st1, errs1) =>
      match resolveList reg is st1 with
      | .error e => .error e
      | .ok (st2, errs2) => .ok (st2, errs1 ++ errs2)

/-- `register(expr, cfg)` for an import of `imp` written in module `frm` -/
def register (pr : Proj) : Nat → Path → Path → RState → Except Err (RState × List Path)
  | 0, _, _, _ => .error .fuel
  | fuel + 1, frm, imp, st =>
    let g1 := st.graph.addNodeIfNone imp
    match g1.incRef frm imp with
    | .error e => .error e
    | .ok (g2, false) => .ok ({ st with graph := g2 }, [imp])         -- Err(vec![ResolveError { path: import_path }])
    | .ok (g2, true) =>
      let st2 := { st with graph := g2 }
      if imp = frm || (lookup st2.inlines imp).isSome || st2.asts.contains imp then .ok (st2, [])
      else
        match resolveList (register pr fuel imp) (importsOf pr imp) st2 with
        | .error e => .error e
        | .ok (st3, []) => .ok ({ st3 with asts := st3.asts ++ [imp] }, [])
        | .ok (st3, e :: es) =>
          let st4 := { st3 with inlines := st3.inlines ++ [(imp, frm)] }
          let errs := (e :: es).filter (fun p => p != frm)
          if errs.isEmpty then .ok ({ st4 with cyclic := st4.cyclic ++ [frm] }, [])
          else .ok (st4, errs)

/-- `build_root`: `self.resolve(&mut ast, &cfg)` for the entry module; recursion depth ≤ number of modules -/
def resolveRoot (pr : Proj) (root : Path) : Except Err (RState × List Path) :=
  resolveList (register pr (pr.length + 1) root) (importsOf pr root) RState.init

/-! ## the scheduling worklist -/

inductive Ev where
  | enter (p : Path) (anc : List Path)   -- build_deps_and_module(p): the `ancestors` vector
  | start (p : Path)                     -- start_analysis_process
  | inlined (p : Path)                   -- build_inlined_module
  | rotate (p : Path)                    -- ancestors.insert(0, p)
  | exit (p : Path)
  | settled (p : Path)                   -- build_inlined_module: already analysed / registered (wait_until_finished)
  | recurse (p i : Path)                 -- build_deps_and_module(inliner i) for the inlined p
  | joined (p : Path)                    -- mark_as_joined(p)
  deriving DecidableEq, Repr, Inhabited

structure BState where
  graph : MG                      -- the clone `self.shared.graph.clone_inner()`
  asts : List Path
  registered : List Path          -- `promises.is_registered`, in registration order
  orders : List (List Path)       -- oracle: iteration orders of the `ancestors` sets
  evs : List Ev
  deriving DecidableEq, Repr, Inhabited

def nodupB : List Path → Bool
  | [] => true
  | x :: xs => !xs.contains x && nodupB xs

/-- `o` is a duplicate-free list with exactly the members of `anc` -/
def isPermOf (o anc : List Path) : Bool := nodupB o && o.all (anc.contains ·) && anc.all (o.contains ·)

def takeOrder (anc : List Path) (st : BState) : List Path × BState :=
  match st.orders with
  | o :: rest => (if isPermOf o anc then o else anc, { st with orders := rest })
  | [] => (anc, st)

/-- `graph.parents(&a).is_none_or(|parents| parents.is_empty())` -/
def startable (g : MG) (a : Path) : Except Err Bool :=
  match g.parents a with
  | .error e => .error e
  | .ok none => .ok true
  | .ok (some ps) => .ok ps.isEmpty

/-- `build_inlined_module(path, graph)`; `rec` = `build_deps_and_module` one level deeper -/
def buildInlined (inl : List (Path × Path)) (rec : Path → BState → Except Err BState) (a : Path) (st : BState) :
    Except Err BState :=
  if st.registered.contains a then .ok { st with evs := st.evs ++ [.settled a] }
  else
    match lookup inl a with
    | some i =>
      match rec i { st with evs := st.evs ++ [.recurse a i] } with
      | .error e => .error e
      | .ok st' => .ok { st' with registered := st'.registered ++ [a], evs := st'.evs ++ [.joined a] }
    | none => .error .crash                          -- unreachable!("… is not found in self.inlines and self.asts")

/-- the `while let Some(ancestor) = ancestors.pop()` loop -/
def bdmLoop (inl : List (Path × Path)) (rec : Path → BState → Except Err BState) :
    Nat → List Path → BState → Except Err BState
  | 0, _, _ => .error .fuel
  | _ + 1, [], st => .ok st
  | f + 1, a :: rest, st =>
    match startable st.graph a with
    | .error e => .error e
    | .ok false => bdmLoop inl rec f (rest ++ [a]) { st with evs := st.evs ++ [.rotate a] }
    | .ok true =>
      match st.graph.remove a with
      | .error e => .error e
      | .ok g' =>
        if st.asts.contains a then
          bdmLoop inl rec f rest
            { st with graph := g', asts := st.asts.erase a, registered := st.registered ++ [a], evs := st.evs ++ [.start a] }
        else
          match buildInlined inl rec a { st with graph := g', evs := st.evs ++ [.inlined a] } with
          | .error e => .error e
          | .ok st2 => bdmLoop inl rec f rest st2

/-- `1 + 2 + … + n`: the loop runs at most `n` times between two removals and removes `n` elements -/
def tri : Nat → Nat
  | 0 => 0
  | n + 1 => tri n + (n + 1)

def loopFuel (n : Nat) : Nat := tri n + 1

/-- `build_deps_and_module(path, graph)`; the first argument bounds the nesting through `build_inlined_module` -/
def bdm (inl : List (Path × Path)) : Nat → Path → BState → Except Err BState
  | 0, _, _ => .error .fuel
  | d + 1, path, st =>
    match st.graph.ancestors path with
    | .error e => .error e
    | .ok anc =>
      let ord := (takeOrder anc st).1
      let st1 := (takeOrder anc st).2
      match bdmLoop inl (bdm inl d) (loopFuel ord.length) ord.reverse { st1 with evs := st1.evs ++ [.enter path ord] } with
      | .error e => .error e
      | .ok st2 => .ok { st2 with evs := st2.evs ++ [.exit path] }

/-- `execute`: clone the graph, `build_deps_and_module(root, &mut graph)` -/
def execute (rs : RState) (root : Path) (orders : List (List Path)) : Except Err BState :=
  bdm rs.inlines (rs.graph.graph.length + 1) root ⟨rs.graph, rs.asts, [], orders, []⟩

/-- resolution followed by scheduling: what `build_root` does before the entry module itself is analysed -/
def buildRoot (pr : Proj) (root : Path) (orders : List (List Path)) : Except Err (RState × List Path × BState) :=
  match resolveRoot pr root with
  | .error e => .error e
  | .ok (rs, errs) =>
    match execute rs root orders with
    | .error e => .error e
    | .ok bs => .ok (rs, errs, bs)

/-! ## the promise protocol (abstract machine)

Threads are the modules that `start_analysis_process` spawned (`spawned`, in spawn order); a thread joins the modules it
depends on (`deps`) before it can finish: `SharedPromises::join(d)` polls `is_finished(d)` (`safe_yield` = a stutter step) and
returns immediately when `d` is an ancestor of the current path, unrelated, or already `Joined` — those joins never block and
are not steps of the machine. The main thread spawns the threads of `order` one after the other (`build_deps_and_module`) and
then behaves like a thread whose dependencies are all of them (`join_all`). -/

structure Sched where
  deps : Path → List Path          -- the modules a thread joins (its accepted imports that run in threads)
  order : List Path                -- spawn order decided by `build_deps_and_module`

structure SState where
  toSpawn : List Path              -- suffix of `order` not yet spawned
  running : List Path
  finished : List Path
  mainDone : Bool
  deriving DecidableEq, Repr, Inhabited

inductive SStep where
  | spawn (m : Path)               -- main: start_analysis_process(m)
  | finish (m : Path)              -- thread m: all joins returned, analysis done, handle.is_finished()
  | mainFinish                     -- main: join_all returned
  | stutter                        -- some thread polls (`safe_yield`) without progress
  deriving DecidableEq, Repr, Inhabited

def Sched.init (sc : Sched) : SState := ⟨sc.order, [], [], false⟩

def Sched.enabled (sc : Sched) (s : SState) : SStep → Bool
  | .spawn m => s.toSpawn.head? == some m
  | .finish m => s.running.contains m && (sc.deps m).all (s.finished.contains ·)
  | .mainFinish => !s.mainDone && s.toSpawn.isEmpty && s.running.isEmpty
  | .stutter => true

def Sched.step (s : SState) : SStep → SState
  | .spawn m => { s with toSpawn := s.toSpawn.tail, running := s.running ++ [m] }
  | .finish m => { s with running := s.running.erase m, finished := s.finished ++ [m] }
  | .mainFinish => { s with mainDone := true }
  | .stutter => s

def SState.allDone (s : SState) : Bool := s.mainDone

end ErgVerif.C20
