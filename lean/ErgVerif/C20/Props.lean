import ErgVerif.C20.Proofs
/-!
# C20 — Multi-module analysis terminates and resolves every import graph

Property theorems only. Model: `ErgVerif/C20/Model.lean` (transcription of `register`/`resolve`, `build_deps_and_module`,
`build_inlined_module` of crates/erg_compiler/build_package.rs at the level of their effects on the module graph, `inlines`,
`asts` and the promise table; the promise protocol of module/promise.rs as the abstract machine `Sched`), on top of the
`ModuleGraph` model of C21 (`ErgVerif/Shared/Graph.lean`) and its refinement to a reference graph (`abs`, `Inv`).

All worklist theorems hold for every content of `inlines`/`asts` and every oracle for the hash-set iteration orders.
-/
namespace ErgVerif.C20
open ErgVerif.Graph ErgVerif.C21

/-! ## import resolution -/

/-- after import resolution of ANY project (any import graph: cycles, self-imports, diamonds, any number of modules) the module
    graph satisfies the representation invariant, is acyclic, and every dependency is a registered node — whatever `resolve`
    returned as unfiltered errors -/
theorem C20_graph_acyclic (pr : Proj) (root : Path) (rs : RState) (errs : List Path)
    (h : resolveRoot pr root = .ok (rs, errs)) :
    Inv rs.graph ∧ (abs rs.graph).Acyclic ∧ (abs rs.graph).Closed :=
  let g := resolveRoot_good pr root rs errs h
  ⟨g.inv, g.acyclic, g.closed⟩

/-- the same for one `register` call from any state reachable so far -/
theorem C20_register_keeps_acyclic (pr : Proj) (fuel : Nat) (frm imp : Path) (st st' : RState) (errs : List Path)
    (hi : Inv st.graph) (ha : (abs st.graph).Acyclic) (hc : (abs st.graph).Closed)
    (h : register pr fuel frm imp st = .ok (st', errs)) :
    Inv st'.graph ∧ (abs st'.graph).Acyclic ∧ (abs st'.graph).Closed :=
  let g := register_good pr fuel frm imp st st' errs ⟨hi, ha, hc⟩ h
  ⟨g.inv, g.acyclic, g.closed⟩

/-! ## the scheduling worklist -/

/-- an acyclic relation on a non-empty finite set closed under successors has an element without successors: in a non-empty
    work list some module has no remaining parents -/
theorem C20_sink_exists (g : MG) (hac : (abs g).Acyclic) (work : List Path) (hne : work ≠ [])
    (hcl : ∀ a ∈ work, ∀ d, (abs g).edges a d → d ∈ work) : ∃ a ∈ work, ∀ d, ¬ (abs g).edges a d :=
  exists_sink (abs g) hac work.length work (Nat.le_refl _) hne hcl

/-- … and the rotation (`ancestors.insert(0, a)`) reaches it before coming round: its distance from the top of the stack is
    less than the length of the work list -/
theorem C20_rotation_reaches (g : MG) (reg work : List Path) (hb : BInv g) (hw : WInv work g reg) (hne : work ≠ []) :
    work.findIdx (isStart g) < work.length := findIdx_lt hb hw hne

/-- `build_deps_and_module` terminates: on every acyclic closed graph (any size), for every `inlines`, `asts`, promise table
    and iteration-order oracle, the worklist — including the nested calls through `build_inlined_module` on the same cloned
    graph — finishes within the fuel the model provides (`tri |ancestors| + 1` loop iterations per call, nesting depth
    ≤ number of nodes + 1). (The `unreachable!` outcome is possible for an `inlines` table that does not cover the graph; the
    correspondence shows it never arises from `resolve`.) -/
theorem C20_worklist_terminates (inl : List (Path × Path)) (root : Path) (st : BState)
    (hi : Inv st.graph) (ha : (abs st.graph).Acyclic) (hc : (abs st.graph).Closed) :
    bdm inl (st.graph.graph.length + 1) root st ≠ .error .fuel :=
  (bdm_ok inl (st.graph.graph.length + 1) root st ⟨hi, ha, hc⟩ (Nat.lt_succ_self _)).1

/-- resolution followed by scheduling never runs out of scheduling fuel, for any project -/
theorem C20_execute_terminates (pr : Proj) (root : Path) (rs : RState) (errs : List Path) (orders : List (List Path))
    (h : resolveRoot pr root = .ok (rs, errs)) : execute rs root orders ≠ .error .fuel := by
  obtain ⟨hi, ha, hc⟩ := C20_graph_acyclic pr root rs errs h
  exact C20_worklist_terminates rs.inlines root ⟨rs.graph, rs.asts, [], orders, []⟩ hi ha hc

/-- when the worklist is done, everything the entry module (transitively) depends on has been removed from the cloned graph and
    is registered in the promise table (started or joined) — the assertion `execute` makes after `build_deps_and_module` —
    and the graph only shrank -/
theorem C20_all_registered (inl : List (Path × Path)) (root : Path) (st st' : BState)
    (hi : Inv st.graph) (ha : (abs st.graph).Acyclic) (hc : (abs st.graph).Closed)
    (h : bdm inl (st.graph.graph.length + 1) root st = .ok st') :
    (∀ x, (abs st.graph).Reach1 root x → ¬ (abs st'.graph).nodes x → x ∈ st'.registered) ∧
    (∀ x ∈ st.registered, x ∈ st'.registered) ∧
    (∀ x y, (abs st'.graph).edges x y → (abs st.graph).edges x y) := by
  obtain ⟨_, hs⟩ := (bdm_ok inl (st.graph.graph.length + 1) root st ⟨hi, ha, hc⟩ (Nat.lt_succ_self _)).2 st' h
  refine ⟨fun x hx hnx => ?_, hs.reg, hs.edges⟩
  obtain ⟨b, _, hb'⟩ := hx.exists_last
  exact hs.removed x (hc b x hb') hnx

/-! ## the promise protocol -/

/-- no deadlock: in every reachable state of the protocol in which the main thread has not finished, some step other than a
    polling stutter is enabled — for every dependency relation and every spawn order that respects it -/
theorem C20_no_deadlock (sc : Sched) (hdb : DepsBefore sc.deps sc.order) (s : SState) (hs : SInv sc s)
    (hnd : s.mainDone = false) : ∃ a, a ≠ SStep.stutter ∧ sc.enabled s a = true := by
  obtain ⟨pre, ho, hm⟩ := hs
  cases hts : s.toSpawn with
  | cons y t => exact ⟨.spawn y, by simp, by simp [Sched.enabled, hts]⟩
  | nil =>
    cases hr : s.running with
    | nil => exact ⟨.mainFinish, by simp, by simp [Sched.enabled, hnd, hts, hr]⟩
    | cons m t =>
      have hdb' : DepsBefore sc.deps ([] ++ pre) := by
        rw [ho] at hdb; simpa using hdb.prefix
      obtain ⟨m', hm', hdeps⟩ := exists_ready sc.deps s.running s.finished pre [] (by simp) hdb'
        (fun x hx => (hm x).mp hx) ⟨m, (hm m).mpr (Or.inl (by rw [hr]; exact List.mem_cons_self ..)), by rw [hr]; exact List.mem_cons_self ..⟩
      refine ⟨.finish m', by simp, ?_⟩
      simp only [Sched.enabled, Bool.and_eq_true, List.contains_eq_mem, decide_eq_true_eq, List.all_eq_true]
      exact ⟨hm', hdeps⟩

/-- the reachable-state invariant used above is an invariant -/
theorem C20_protocol_invariant (sc : Sched) (s : SState) (hs : SInv sc s) (a : SStep) (he : sc.enabled s a = true) :
    SInv sc (Sched.step s a) := hs.step a he

/-- a run: an infinite sequence of enabled steps from the initial state -/
structure Run (sc : Sched) where
  st : Nat → SState
  act : Nat → SStep
  init : st 0 = sc.init
  en : ∀ i, sc.enabled (st i) (act i) = true
  next : ∀ i, st (i + 1) = Sched.step (st i) (act i)

/-- weak fairness as the protocol needs it: the threads are not left polling forever while some thread could make progress -/
def Run.Fair {sc : Sched} (r : Run sc) : Prop :=
  ∀ i, (∃ a, a ≠ SStep.stutter ∧ sc.enabled (r.st i) a = true) → ∃ j, i ≤ j ∧ r.act j ≠ .stutter

theorem run_inv {sc : Sched} (r : Run sc) : ∀ i, SInv sc (r.st i) := by
  intro i
  induction i with
  | zero => rw [r.init]; exact SInv.init sc
  | succ i ih => rw [r.next]; exact ih.step _ (r.en i)

theorem run_mu_mono {sc : Sched} (r : Run sc) (i : Nat) : ∀ k, mu (r.st (i + k)) ≤ mu (r.st i) := by
  intro k
  induction k with
  | zero => exact Nat.le_refl _
  | succ k ih =>
    rw [← Nat.add_assoc, r.next]
    exact Nat.le_trans (mu_step_le sc _ _ (r.en _)) ih

/-- every thread finishes: in every fair run the main thread eventually passes `join_all`, at which point every spawned thread
    has finished — for every dependency relation and every spawn order that respects it -/
theorem C20_all_finish (sc : Sched) (hdb : DepsBefore sc.deps sc.order) (r : Run sc) (hf : r.Fair) :
    ∃ i, (r.st i).mainDone = true ∧ (r.st i).running = [] ∧ (r.st i).toSpawn = [] := by
  have key : ∀ n i, mu (r.st i) ≤ n → ∃ j, (r.st j).mainDone = true := by
    intro n
    induction n with
    | zero =>
      intro i h
      refine ⟨i, ?_⟩
      cases hm : (r.st i).mainDone with
      | true => rfl
      | false => simp [mu, hm, mc] at h
    | succ n ih =>
      intro i h
      cases hm : (r.st i).mainDone with
      | true => exact ⟨i, hm⟩
      | false =>
        obtain ⟨j, hij, hj⟩ := hf i (C20_no_deadlock sc hdb _ (run_inv r i) hm)
        obtain ⟨k, rfl⟩ := Nat.exists_eq_add_of_le hij
        have h1 := run_mu_mono r i k
        have h2 := mu_step_lt sc _ _ (r.en (i + k)) hj
        rw [← r.next] at h2
        exact ih (i + k + 1) (by omega)
  obtain ⟨j, hj⟩ := key _ 0 (Nat.le_refl _)
  -- mainDone is only set by `mainFinish`, which needs both lists empty; they stay empty afterwards
  have hstable : ∀ i, (r.st i).mainDone = true → (r.st i).running = [] ∧ (r.st i).toSpawn = [] := by
    intro i
    induction i with
    | zero => intro h; rw [r.init] at h; simp [Sched.init] at h
    | succ i ih =>
      intro h
      rw [r.next] at h ⊢
      have he := r.en i
      cases ha : r.act i with
      | spawn m =>
        rw [ha] at h he
        have := ih (by simpa [Sched.step] using h)
        simp [Sched.enabled, this.2] at he
      | finish m =>
        rw [ha] at h he
        have := ih (by simpa [Sched.step] using h)
        simp [Sched.enabled, this.1] at he
      | mainFinish =>
        rw [ha] at he
        simp only [Sched.enabled, Bool.and_eq_true, List.isEmpty_iff] at he
        simp [Sched.step, he.2, he.1.2]
      | stutter =>
        rw [ha] at h
        simpa [Sched.step] using ih (by simpa [Sched.step] using h)
  exact ⟨j, hj, hstable j hj⟩

/-! ## witnesses / non-vacuity -/

/-- a 2-cycle below the entry (0 → 1 → 2 → 1): the import 2 → 1 is refused, 2 is inlined into 1, the graph stays acyclic -/
example : (resolveRoot [(0, [1]), (1, [2]), (2, [1])] 0).map (fun r => (r.1.inlines, r.1.asts, r.1.cyclic, r.2)) =
    .ok ([(2, 1)], [1], [1], []) := by decide

/-- a 3-cycle through the entry: both other modules are inlined, one inside the other -/
example : (resolveRoot [(0, [1]), (1, [2]), (2, [0])] 0).map (fun r => (r.1.inlines, r.1.asts, r.1.cyclic)) =
    .ok ([(2, 1), (1, 0)], [], [0]) := by decide

/-- the diamond 0 → {1, 2} → 3 is scheduled 3, 2, 1 (vector order 3 1 2: two rotations first) -/
example : (buildRoot [(0, [1, 2]), (1, [3]), (2, [3]), (3, [])] 0 [[3, 1, 2]]).map (fun r => r.2.2.registered) =
    .ok [3, 2, 1] := by decide

/-- the hypotheses of `C20_no_deadlock` / `C20_all_finish` are satisfiable by a non-trivial protocol instance -/
example : DepsBefore (fun m => if m = 1 then [3] else if m = 2 then [3] else []) [3, 2, 1] := by
  intro l1 x l2 h d hd
  match l1, h with
  | [], h => simp at h; obtain ⟨rfl, _⟩ := h; simp at hd
  | [a], h => simp at h; obtain ⟨rfl, rfl, _⟩ := h; simp at hd; simp [hd]
  | [a, b], h => simp at h; obtain ⟨rfl, rfl, rfl, _⟩ := h; simp at hd; simp [hd]
  | a :: b :: c :: l, h => simp at h

/-- with a spawn order that does NOT respect the dependencies the protocol does block: thread 1 joins thread 3, which is
    never spawned before the main thread waits for everything (why `C20_no_deadlock` needs `DepsBefore`) -/
example : let sc : Sched := ⟨fun m => if m = 1 then [3] else [], [1]⟩
    ∀ a, a ≠ SStep.stutter → sc.enabled ⟨[], [1], [], false⟩ a = false := by
  intro sc a ha
  cases a with
  | spawn m => simp [Sched.enabled]
  | finish m => by_cases h : m = 1 <;> simp [Sched.enabled, sc, h]
  | mainFinish => simp [Sched.enabled]
  | stutter => exact absurd rfl ha

end ErgVerif.C20
