import ErgVerif.C17.Model
/-! Helper lemmas for C17 (i). -/
namespace ErgVerif.C17
open PyLit

theorem replaceChar_cons (c : Char) (rep : List Char) (x : Char) (s : List Char) :
    replaceChar c rep (x :: s) = (if x = c then rep else [x]) ++ replaceChar c rep s := by
  simp [replaceChar]

theorem replaceChar_append (c : Char) (rep a b : List Char) :
    replaceChar c rep (a ++ b) = replaceChar c rep a ++ replaceChar c rep b := by
  simp [replaceChar]

theorem replaceChar_nil (c : Char) (rep : List Char) : replaceChar c rep [] = [] := rfl

/-- the chain of `replace` calls is one pass: no replacement text contains a character replaced later -/
theorem escapeStr_eq_escOne (s : List Char) : escapeStr s = escOne s := by
  induction s with
  | nil => rfl
  | cons c s ih =>
    unfold escapeStr at ih ⊢
    unfold escOne
    simp only [replaceChar_cons, replaceChar_append]
    rw [ih]
    split
    · next h => subst h; simp [replaceChar]
    split
    · next h1 h => subst h; simp [replaceChar]
    split
    · next h1 h2 h => subst h; simp [replaceChar]
    split
    · next h1 h2 h3 h => subst h; simp [replaceChar]
    split
    · next h1 h2 h3 h4 h => subst h; simp [replaceChar]
    split
    · next h1 h2 h3 h4 h5 h => subst h; simp [replaceChar]
    · next h1 h2 h3 h4 h5 h6 => simp [replaceChar, h2, h3, h4, h5, h6]

theorem parseBody_escOne (s : List Char) : ∀ (acc rest : List Char),
    parseBody .norm acc (escOne s ++ '"' :: rest) = some (acc.reverse ++ s, rest) := by
  induction s with
  | nil => intro acc rest; simp [escOne, parseBody]
  | cons c s ih =>
    intro acc rest
    unfold escOne
    split
    · next h => subst h; simp [parseBody, simpleEsc, isOct, ih]
    split
    · next h1 h => subst h; simp [parseBody, simpleEsc, isOct, ih]
    split
    · next h1 h2 h => subst h; simp [parseBody, simpleEsc, isOct, ih]
    split
    · next h1 h2 h3 h => subst h; simp [parseBody, simpleEsc, isOct, ih]
    split
    · next h1 h2 h3 h4 h => subst h; simp [parseBody, simpleEsc, isOct, ih]
    split
    · next h1 h2 h3 h4 h5 h =>
      subst h
      have e0 : hexVal '0' = some 0 := by decide
      simp [parseBody, isOct, ih, e0, validScalar]
    · next h1 h2 h3 h4 h5 h6 =>
      simp [parseBody, h1, h2, h3, h4, h6, ih]

theorem natText_digits (n : Nat) : ∀ c ∈ natText n, c.isDigit = true :=
  fun _ hc => Nat.isDigit_of_mem_toDigits (by decide) (by decide) hc

theorem digitChar_ne_zero : ∀ n, n < 10 → 0 < n → Nat.digitChar n ≠ '0' := by decide

theorem natText_head (n : Nat) (hn : 0 < n) : ∃ c r, natText n = c :: r ∧ c ≠ '0' := by
  induction n using Nat.strongRecOn with
  | _ n ih =>
    unfold natText
    rw [Nat.toDigits_eq_if (by decide)]
    split
    · next h => exact ⟨_, [], rfl, digitChar_ne_zero n h hn⟩
    · next h =>
      obtain ⟨c, r, e, hc⟩ := ih (n / 10) (by omega) (by omega)
      unfold natText at e
      exact ⟨c, r ++ [Nat.digitChar (n % 10)], by rw [e]; rfl, hc⟩

theorem pyDecInt_natText (n : Nat) : pyDecInt (natText n) = some n := by
  cases n with
  | zero => decide
  | succ m =>
    obtain ⟨c, r, e, hc⟩ := natText_head (m + 1) (by omega)
    have hd := natText_digits (m + 1)
    have hv : Nat.ofDigitChars 10 (natText (m + 1)) 0 = m + 1 := by simp [natText]
    rw [e] at hd hv
    rw [e]
    simp only [pyDecInt]
    have hall : (c :: r).all (fun d => d.isDigit) = true := by
      simp only [List.all_eq_true]; exact hd
    simp [hall, hc, hv]
