import ErgVerif.C17.Proofs
/-!
# C17 — Transpiled Python behaves like the compiled bytecode: part (i), literals

Property theorems only. Spec: `PyLit.parseStrLit` (Python's lexing of a short double-quoted string literal) and
`PyLit.pyDecInt` (decimal integer literal). Model: `escapeStr`/`pyStrLit`/`transpileLit`, the transcription of
`PyScriptGenerator::escape_str`/`transpile_lit` after the `fix:` commit; `legacyPyStrLit` is the pinned commit.
Part (ii) of the property (behaviour of whole scripts) has no theorem here: it is exercised by the behavioural tie in
checks/c17.py (transpile with the real compiler, compile and run under the target interpreter, compare with `erg run`).
-/
namespace ErgVerif.C17
open PyLit

/-- **C17 (i)**: for every string content — any characters: quotes, backslashes, braces, NUL followed by digits, tabs,
    carriage returns, any Unicode scalar — the literal written into the script is a Python string literal denoting exactly
    that content (and nothing of the surrounding text is consumed). -/
theorem C17_str (s rest : List Char) : parseStrLit (pyStrLit s ++ rest) = some (s, rest) := by
  simp [parseStrLit, pyStrLit, escapeStr_eq_escOne, parseBody_escOne]

/-- the whole expression `Str("…")` as written by `transpile_lit` -/
theorem C17_str_lit (s : List Char) :
    ∃ t, transpileLit (.str s) = some ("Str(".toList ++ t ++ [')']) ∧ parseStrLit (t ++ [')']) = some (s, [')']) :=
  ⟨pyStrLit s, rfl, C17_str s [')']⟩

/-- the chain of `str::replace` calls in `escape_str` acts as one left-to-right pass -/
theorem C17_escape_one_pass (s : List Char) : escapeStr s = escOne s := escapeStr_eq_escOne s

/-- every Nat literal is written as a decimal integer literal Python accepts and reads as the same number
    (no leading zeros, no Erg spelling) -/
theorem C17_nat (n : Nat) : transpileLit (.nat n) = some ("Nat(".toList ++ natText n ++ [')']) ∧ pyDecInt (natText n) = some n :=
  ⟨rfl, pyDecInt_natText n⟩

/-! ### witnesses: the pinned commit -/

/-- pinned commit: `"a\"b"` (content `a"b`) was written as `"a"b"`: Python's literal ends after `a`. -/
theorem C17_legacy_quote_witness :
    parseStrLit (legacyPyStrLit ['a', '"', 'b']) = some (['a'], ['b', '"'])
      ∧ parseStrLit (pyStrLit ['a', '"', 'b']) = some (['a', '"', 'b'], []) := by decide

/-- pinned commit: `"a\\nb"` (content `a`, backslash, `n`, `b`) was written as `"a\nb"`: Python reads a newline. -/
theorem C17_legacy_backslash_witness :
    parseStrLit (legacyPyStrLit ['a', '\\', 'n', 'b']) = some (['a', '\n', 'b'], [])
      ∧ parseStrLit (pyStrLit ['a', '\\', 'n', 'b']) = some (['a', '\\', 'n', 'b'], []) := by decide

/-- pinned commit (finding #25): `"a\01b"` (content `a`, NUL, `1`, `b`) was written as `"a\01b"`: Python reads the octal
    escape `\01`. -/
theorem C17_legacy_nul_digit_witness :
    parseStrLit (legacyPyStrLit ['a', Char.ofNat 0, '1', 'b']) = some (['a', Char.ofNat 1, 'b'], [])
      ∧ parseStrLit (pyStrLit ['a', Char.ofNat 0, '1', 'b']) = some (['a', Char.ofNat 0, '1', 'b'], []) := by decide

/-- pinned commit: the token `007` was copied into the script; Python rejects a decimal literal with leading zeros. -/
theorem C17_legacy_leading_zero_witness : pyDecInt ['0', '0', '7'] = none ∧ pyDecInt (natText 7) = some 7 := by decide

/-- non-vacuity: a content with every escaped character and an astral one -/
example : parseStrLit (pyStrLit ['"', '\\', '\n', '\r', '\t', Char.ofNat 0, '7', '{', Char.ofNat 0x1F600] ++ [')'])
    = some (['"', '\\', '\n', '\r', '\t', Char.ofNat 0, '7', '{', Char.ofNat 0x1F600], [')']) := C17_str _ _

example : pyStrLit ['a', '"', Char.ofNat 0, '1'] = "\"a\\\"\\x001\"".toList := by decide

end ErgVerif.C17
