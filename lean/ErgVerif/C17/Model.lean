/-
C17 (i) — literals in the transpiled Python script.

Spec (`namespace PyLit`): Python's lexing of a *short* string literal in double quotes without prefix (all escape
sequences of the language reference 2.4.1: `\newline \\ \' \" \a \b \f \n \r \t \v \ooo \xhh \uXXXX \UXXXXXXXX`; an unknown
escape keeps its backslash; a raw newline, carriage return or NUL ends the literal with an error; `\N{…}` is not modelled and
rejected), and of a decimal/prefixed integer literal (`pyIntLit`: no leading zeros unless the number is zero).

Model: `PyScriptGenerator::escape_str` and `transpile_lit` in /repo/crates/erg_compiler/transpile.rs *after* the `fix:` commit
(string, Nat and Int literals are written from their values: `escape_str` is the chain of `str::replace` calls of the
source). `legacyEscapeStr`/`legacyTranspileStr` are the functions of the pinned commit (the token content, quotes included,
with only `\n \r \t \0` replaced), kept for the witness theorems.
Import-free: the driver links as a `lean_exe`.
-/
namespace ErgVerif.C17

namespace PyLit

def isOct (c : Char) : Bool := '0' ≤ c && c ≤ '7'

def hexVal (c : Char) : Option Nat :=
  if '0' ≤ c ∧ c ≤ '9' then some (c.toNat - 48)
  else if 'a' ≤ c ∧ c ≤ 'f' then some (c.toNat - 87)
  else if 'A' ≤ c ∧ c ≤ 'F' then some (c.toNat - 55)
  else none

inductive St where
  | norm
  | esc
  | oct (k : Nat) (v : Nat)      -- inside `\ooo`: up to `k` more digits, value so far `v`
  | hex (k : Nat) (v : Nat)      -- inside `\x`/`\u`/`\U`: exactly `k` more digits

def simpleEsc (c : Char) : Option Char :=
  if c = '\\' then some '\\'
  else if c = '\'' then some '\''
  else if c = '"' then some '"'
  else if c = 'a' then some (Char.ofNat 7)
  else if c = 'b' then some (Char.ofNat 8)
  else if c = 'f' then some (Char.ofNat 12)
  else if c = 'n' then some '\n'
  else if c = 'r' then some '\r'
  else if c = 't' then some '\t'
  else if c = 'v' then some (Char.ofNat 11)
  else none

def validScalar (u : Nat) : Bool := u < 0xD800 || (0xE000 ≤ u && u < 0x110000)

/-- the inside of `"…"` after the opening quote: decoded characters and the input after the closing quote -/
def parseBody (st : St) (acc : List Char) : List Char → Option (List Char × List Char)
  | [] => none
  | c :: r =>
    -- a pending octal escape ends at the first character that does not continue it
    let st1 := match st with
      | .oct k _ => if k > 0 ∧ isOct c then st else .norm
      | s => s
    let acc1 := match st with
      | .oct k v => if k > 0 ∧ isOct c then acc else Char.ofNat v :: acc
      | _ => acc
    match st1 with
    | .norm =>
      if c = '"' then some (acc1.reverse, r)
      else if c = '\\' then parseBody .esc acc1 r
      else if c = '\n' ∨ c = '\r' ∨ c = Char.ofNat 0 then none
      else parseBody .norm (c :: acc1) r
    | .esc =>
      if c = '\n' then parseBody .norm acc1 r
      else if isOct c then parseBody (.oct 2 (c.toNat - 48)) acc1 r
      else if c = 'x' then parseBody (.hex 2 0) acc1 r
      else if c = 'u' then parseBody (.hex 4 0) acc1 r
      else if c = 'U' then parseBody (.hex 8 0) acc1 r
      else if c = 'N' then none
      else match simpleEsc c with
        | some d => parseBody .norm (d :: acc1) r
        | none => if c = '\r' ∨ c = Char.ofNat 0 then none else parseBody .norm (c :: '\\' :: acc1) r
    | .oct k v => parseBody (.oct (k - 1) (v * 8 + (c.toNat - 48))) acc1 r
    | .hex k v =>
      match hexVal c with
      | none => none
      | some d =>
        if k ≤ 1 then (if validScalar (v * 16 + d) then parseBody .norm (Char.ofNat (v * 16 + d) :: acc1) r else none)
        else parseBody (.hex (k - 1) (v * 16 + d)) acc1 r

/-- a complete double-quoted short literal -/
def parseStrLit : List Char → Option (List Char × List Char)
  | '"' :: r => parseBody .norm [] r
  | _ => none

/-- Python decimal integer literal (`decinteger`): nonzero digit then digits, or zeros only; `_` allowed between digits -/
def pyDecInt (t : List Char) : Option Nat :=
  match t with
  | [] => none
  | c :: r =>
    if !(c :: r).all (fun d => d.isDigit) then none
    else if c = '0' then (if r.all (fun d => d = '0') then some 0 else none)
    else some (Nat.ofDigitChars 10 (c :: r) 0)

end PyLit

/-! ## Model of the generator (fixed code) -/

/-- `str::replace(c, rep)` for a one-character pattern -/
def replaceChar (c : Char) (rep : List Char) (s : List Char) : List Char :=
  s.flatMap (fun x => if x = c then rep else [x])

/-- `PyScriptGenerator::escape_str`: the chain of `replace` calls, in the order of the source -/
def escapeStr (s : List Char) : List Char :=
  replaceChar (Char.ofNat 0) ['\\', 'x', '0', '0']
    (replaceChar '\t' ['\\', 't']
      (replaceChar '\r' ['\\', 'r']
        (replaceChar '\n' ['\\', 'n']
          (replaceChar '"' ['\\', '"']
            (replaceChar '\\' ['\\', '\\'] s)))))

/-- one pass with the same effect (theorem `escapeStr_eq_escOne` in Proofs) -/
def escOne : List Char → List Char
  | [] => []
  | c :: cs =>
    if c = '\\' then '\\' :: '\\' :: escOne cs
    else if c = '"' then '\\' :: '"' :: escOne cs
    else if c = '\n' then '\\' :: 'n' :: escOne cs
    else if c = '\r' then '\\' :: 'r' :: escOne cs
    else if c = '\t' then '\\' :: 't' :: escOne cs
    else if c = Char.ofNat 0 then '\\' :: 'x' :: '0' :: '0' :: escOne cs
    else c :: escOne cs

/-- the Python literal `transpile_lit` writes for a string value -/
def pyStrLit (s : List Char) : List Char := '"' :: (escapeStr s ++ ['"'])

def natText (n : Nat) : List Char := Nat.toDigits 10 n

inductive LitVal where
  | str (s : List Char)
  | nat (n : Nat)
  | int (i : Int)
  | other

/-- `transpile_lit` for Str / Nat / Int literals: `{class}({code})` -/
def transpileLit : LitVal → Option (List Char)
  | .str s => some ("Str(".toList ++ pyStrLit s ++ [')'])
  | .nat n => some ("Nat(".toList ++ natText n ++ [')'])
  | .int i => some ("Int(".toList ++ (if i < 0 then '-' :: natText i.natAbs else natText i.toNat) ++ [')'])
  | .other => none

/-! ## The pinned commit -/

def legacyEscapeStr (s : List Char) : List Char :=
  replaceChar (Char.ofNat 0) ['\\', '0']
    (replaceChar '\t' ['\\', 't']
      (replaceChar '\r' ['\\', 'r']
        (replaceChar '\n' ['\\', 'n'] s)))

/-- pinned `transpile_lit`: `escape_str` of the token content (the content between the original quotes, already unescaped
    by the lexer, *with* the quotes) -/
def legacyPyStrLit (content : List Char) : List Char := legacyEscapeStr ('"' :: (content ++ ['"']))

/-- class of the fixed finding: contents the pinned `escape_str` did not preserve -/
def legacyBadClass (s : List Char) : Bool := PyLit.parseStrLit (legacyPyStrLit s) != some (s, [])

end ErgVerif.C17
