import ErgVerif.C06.Spec
import ErgVerif.Shared.PredProofs
/-!
C06 helper lemmas: the closed form of the judgement on two table rows, reflexivity of type equality, fuel bounds, the
semantics of `or`/`and`/`List` denotations.
-/
namespace ErgVerif.C06
open ErgVerif

def cheapMono (T : Table) (l r : Nat) : Bool × Bool := if l = r then (true, true) else cheapMM T l r

def monoRel (T : Table) (a b : Nat) : Bool :=
  match cheapMono T a b with
  | (true, j) => j
  | (false, j) =>
    j || (match T.rows[b]? with
      | none => false
      | some row =>
        let loop (supers : List Nat) : Bool := supers.any (fun s => match cheapMono T a s with | (true, j) => j | (false, _) => false)
        ((a == T.iNever || (T.row a).kind == 0) && (b == T.iNever || (T.row b).kind == 0) && loop row.supC) ||
          ((a != T.iNever && (T.row a).kind == 1) && (loop row.supT || loop row.supC)))

theorem cheap_mono (T : Table) (n a b : Nat) : cheap T (n+1) (.mono a) (.mono b) = cheapMono T a b := by
  unfold cheap cheapMono tyEq
  by_cases h : a = b <;> simp [h]

theorem struc_mono_mono (T : Table) (fx : Fx) (ord) (n a b : Nat) : sup T fx ord n .struc (.mono a) (.mono b) = false := by
  cases n with
  | zero => rfl
  | succ n => rfl

theorem sup_mono_mono (T : Table) (fx : Fx) (ord) (n a b : Nat) :
    sup T fx ord (n+3) .full (.mono a) (.mono b) = monoRel T a b := by
  unfold monoRel
  rw [sup, cheap_mono]
  rcases hc : cheapMono T a b with ⟨c1, c2⟩
  cases c1
  · simp only [struc_mono_mono, Bool.or_false, Bool.and_false]
    congr 1
    rw [sup]
    simp only [ctxRow, isClass, isTrait, cheap_mono, struc_mono_mono]
    cases hr : T.rows[b]? <;> first | rfl | simp
  · simp
  all_goals (intros; first | contradiction | (rename_i h; cases h))

/-! ### fuel bounds and reflexivity of `tyEq` -/

mutual
theorem size_lt_fuel : ∀ t : Ty, t.size + 1 ≤ t.fuel
  | .mono _ => by simp [Ty.size, Ty.fuel]
  | .refine _ _ => by simp [Ty.size, Ty.fuel]
  | .or ts => by have := sizeL_le_fuel ts; simp [Ty.size, Ty.fuel]; omega
  | .and ts => by have := sizeL_le_fuel ts; simp [Ty.size, Ty.fuel]; omega
  | .list t _ => by have := size_lt_fuel t; simp [Ty.size, Ty.fuel]; omega
  | .tuple ts => by have := sizeL_le_fuel ts; simp [Ty.size, Ty.fuel]; omega
theorem sizeL_le_fuel : ∀ ts : TyList, ts.size ≤ ts.fuel + 2
  | .nil => by simp [TyList.size, TyList.fuel]
  | .cons t ts => by have := size_lt_fuel t; have := sizeL_le_fuel ts; simp [TyList.size, TyList.fuel]; omega
end

theorem all_zip_self {α} (f : α → α → Bool) : ∀ l : List α, (∀ x ∈ l, f x x = true) → (l.zip l).all (fun p => f p.1 p.2) = true
  | [], _ => by simp
  | x :: xs, h => by
    simp only [List.zip_cons_cons, List.all_cons, Bool.and_eq_true]
    exact ⟨h x (by simp), all_zip_self f xs (fun y hy => h y (by simp [hy]))⟩

mutual
theorem tyEq_refl : ∀ (t : Ty) (n : Nat), t.size ≤ n → tyEq n t t = true
  | .mono k, n, h => by
    cases n with
    | zero => simp [Ty.size] at h
    | succ n => simp [tyEq]
  | .refine b p, n, h => by
    cases n with
    | zero => simp [Ty.size] at h
    | succ n => simp [tyEq]
  | .or ts, n, h => by
    cases n with
    | zero => simp [Ty.size] at h
    | succ n =>
      have hl := tyEqL_refl ts n (by simp [Ty.size] at h; omega)
      simp only [tyEq, beq_self_eq_true, Bool.true_and, List.all_eq_true, List.any_eq_true]
      intro x hx
      exact ⟨x, hx, hl x hx⟩
  | .and ts, n, h => by
    cases n with
    | zero => simp [Ty.size] at h
    | succ n =>
      have hl := tyEqL_refl ts n (by simp [Ty.size] at h; omega)
      simp only [tyEq, beq_self_eq_true, Bool.true_and, List.all_eq_true, List.any_eq_true]
      intro x hx
      exact ⟨x, hx, hl x hx⟩
  | .list t k, n, h => by
    cases n with
    | zero => simp [Ty.size] at h
    | succ n =>
      have := tyEq_refl t n (by simp [Ty.size] at h; omega)
      simp [tyEq, this]
  | .tuple ts, n, h => by
    cases n with
    | zero => simp [Ty.size] at h
    | succ n =>
      have hl := tyEqL_refl ts n (by simp [Ty.size] at h; omega)
      simp only [tyEq, beq_self_eq_true, Bool.true_and]
      exact all_zip_self (tyEq n) ts.toList hl
theorem tyEqL_refl : ∀ (ts : TyList) (n : Nat), ts.size ≤ n → ∀ x ∈ ts.toList, tyEq n x x = true
  | .nil, _, _ => by simp [TyList.toList]
  | .cons t ts, n, h => by
    intro x hx
    simp only [TyList.toList, List.mem_cons] at hx
    rcases hx with hx | hx
    · rw [hx]; exact tyEq_refl t n (by simp [TyList.size] at h; omega)
    · exact tyEqL_refl ts n (by simp [TyList.size] at h; omega) x hx
end

/-- `supertype_of(t, t)`: the `lhs == rhs` test of `cheap_supertype_of` answers -/
theorem sup_refl (T : Table) (fx : Fx) (ord) (t : Ty) (n : Nat) (h : t.size + 1 ≤ n) : sup T fx ord n .full t t = true := by
  obtain ⟨m, rfl⟩ : ∃ m, n = m + 1 := ⟨n - 1, by omega⟩
  have : cheap T m t t = (true, true) := by
    unfold cheap
    rw [tyEq_refl t m (by omega)]
    simp
  unfold sup
  simp only [this]

theorem mem_toList_size {t : Ty} : ∀ {ts : TyList}, t ∈ ts.toList → t.fuel ≤ ts.fuel
  | .nil, h => by simp [TyList.toList] at h
  | .cons u us, h => by
    simp only [TyList.toList, List.mem_cons] at h
    rcases h with rfl | h
    · simp [TyList.fuel]
    · have := mem_toList_size h; simp [TyList.fuel]; omega

/-! ### semantics of the denotation -/

theorem denAny_iff (T : Table) (v : Val) : ∀ ts : TyList, denAny T ts v = true ↔ ∃ t ∈ ts.toList, den T t v = true
  | .nil => by simp [denAny, TyList.toList]
  | .cons t ts => by simp [denAny, TyList.toList, denAny_iff T v ts]

theorem denAll_iff (T : Table) (v : Val) : ∀ ts : TyList, denAll T ts v = true ↔ ∀ t ∈ ts.toList, den T t v = true
  | .nil => by simp [denAll, TyList.toList]
  | .cons t ts => by simp [denAll, TyList.toList, denAll_iff T v ts]

theorem all_den_mono (T : Table) (s t : Ty) (h : ∀ v, den T s v = true → den T t v = true) (vs : List Val)
    (hv : vs.all (fun x => den T s x) = true) : vs.all (fun x => den T t x) = true := by
  rw [List.all_eq_true] at hv ⊢
  exact fun x hx => h x (hv x hx)

end ErgVerif.C06
