import ErgVerif.C06.Model
/-!
C06 specification — the value denotation ⟦T⟧ of the value-carrying part of G, and a finite test set for the driver's oracle.

Values: integers (Python `int`; `True`/`False` are 1/0, so 0 and 1 are the instances of `Bool`, the non-negative integers those
of `Nat`), string literals (abstracted to integer codes as in the model), instances `obj k` of any other monomorphic class `k`,
lists and tuples.

  ⟦C⟧ for a monomorphic class/trait C = the instances of every class DECLARED below C: membership is the model's own judgement
      on the pair of table rows (`monoSup`), i.e. the nominal part of the denotation is the generated lattice itself; a list is a
      member of C when C is above the `List` row (`GenericList`, `Obj`, `Eq`, …), and — as the code has it — of a meta type
      (`Type`, `ClassType`, `TraitType`) when all its elements are
  ⟦{I: B | P}⟧  = the integers (strings) of ⟦B⟧ satisfying P (`Pred.sat`, the specification of C03/C32)
  ⟦or⟧ = ∪, ⟦and⟧ = ∩
  ⟦List(T, N)⟧  = lists of members of ⟦T⟧ of length ≥ N — the only reading under which the length rule
                  `try_cmp(llen, rlen).canbe_eq() || canbe_lt()` (`List(T, 3) <: List(T, 2)`) is sound
  ⟦Tuple([T₁ … Tₙ])⟧ = tuples of length ≥ n whose first n components lie in T₁ … Tₙ (the prefix rule of `supertype_of_tp`)
-/
namespace ErgVerif.C06
open ErgVerif

mutual
inductive Val where
  | int (i : Int)
  | str (c : Int)
  | obj (k : Nat)
  | list (vs : ValList)
  | tuple (vs : ValList)
  deriving DecidableEq
inductive ValList where
  | nil | cons (v : Val) (vs : ValList)
  deriving DecidableEq
end

def ValList.toList : ValList → List Val
  | .nil => [] | .cons v vs => v :: vs.toList

def ValList.ofList : List Val → ValList
  | [] => .nil | v :: vs => .cons v (ValList.ofList vs)

def ValList.length : ValList → Nat
  | .nil => 0 | .cons _ vs => vs.length + 1

/-- the model's judgement `C :> D` on two table rows (cheap table, then nominal lookup) -/
def monoSup (T : Table) (c d : Nat) : Bool := sup T Fx.code id 3 .full (.mono c) (.mono d)

/-- the class of an integer value -/
def clsOfInt (T : Table) (i : Int) : Nat := if i = 0 ∨ i = 1 then T.iBool else if 0 ≤ i then T.iNat else T.iInt

/-- is the monomorphic class `c` above the row of a polymorphic container (what `supertype_of(C, List(…))` answers apart from the
    meta-type arm): `Obj`, `GenericList` for lists (cheap table), then the nominal lookup in the container's row -/
def monoSupRow (T : Table) (c : Nat) (isList : Bool) (row : Row) : Bool :=
  c == T.iObj || (isList && c == T.iGenericList) ||
    ((c == T.iNever || (T.row c).kind == 0) && row.kind == 0 && row.supC.any (fun s => (cheap T 3 (.mono c) (.mono s)) == (true, true))) ||
    ((c != T.iNever && (T.row c).kind == 1) && (row.supT ++ row.supC).any (fun s => (cheap T 3 (.mono c) (.mono s)) == (true, true)))

/-- classes whose instances are written `int`/`str` (and `Never`, which has none): `obj k` denotes nothing for them -/
def isScalarCls (T : Table) (k : Nat) : Bool :=
  k == T.iNever || k == T.iBool || k == T.iNat || k == T.iInt || k == T.iStr

mutual
/-- membership of a value in a monomorphic class -/
def denMono (T : Table) (c : Nat) : Val → Bool
  | .int i => monoSup T c (clsOfInt T i)
  | .str _ => monoSup T c T.iStr
  | .obj k => !(isScalarCls T k) && monoSup T c k
  | .list vs => monoSupRow T c true T.listRow || (isMeta T c && denMonoAll T c vs)
  | .tuple vs => monoSupRow T c false T.tupleRow || (isMeta T c && denMonoAll T c vs)
def denMonoAll (T : Table) (c : Nat) : ValList → Bool
  | .nil => true
  | .cons v vs => denMono T c v && denMonoAll T c vs
end

mutual
/-- ⟦t⟧ v -/
def den (T : Table) : Ty → Val → Bool
  | .mono c, v => denMono T c v
  | .refine b p, v => denMono T b v && (match v with | .int i => p.sat i | .str c => p.sat c | _ => false)
  | .or ts, v => denAny T ts v
  | .and ts, v => denAll T ts v
  | .list t n, v => match v with
    | .list vs => decide (n ≤ vs.length) && vs.toList.all (fun x => den T t x)
    | _ => false
  | .tuple ts, v => match v with
    | .tuple vs => denPrefix T ts vs
    | _ => false
def denAny (T : Table) : TyList → Val → Bool
  | .nil, _ => false
  | .cons t ts, v => den T t v || denAny T ts v
def denAll (T : Table) : TyList → Val → Bool
  | .nil, _ => true
  | .cons t ts, v => den T t v && denAll T ts v
def denPrefix (T : Table) : TyList → ValList → Bool
  | .nil, _ => true
  | .cons _ _, .nil => false
  | .cons t ts, .cons v vs => den T t v && denPrefix T ts vs
end

/-! ### the finite test set of the driver's oracle (not part of any theorem) -/

mutual
def Ty.consts : Ty → List Int
  | .mono _ => []
  | .refine _ p => p.consts
  | .or ts => ts.consts
  | .and ts => ts.consts
  | .list t _ => t.consts
  | .tuple ts => ts.consts
def TyList.consts : TyList → List Int
  | .nil => []
  | .cons t ts => t.consts ++ ts.consts
end

mutual
def Ty.monos : Ty → List Nat
  | .mono k => [k]
  | .refine b _ => [b]
  | .or ts => ts.monos
  | .and ts => ts.monos
  | .list t _ => t.monos
  | .tuple ts => ts.monos
def TyList.monos : TyList → List Nat
  | .nil => []
  | .cons t ts => t.monos ++ ts.monos
end

mutual
def Ty.lens : Ty → List Nat
  | .mono _ => []
  | .refine _ _ => []
  | .or ts => ts.lens
  | .and ts => ts.lens
  | .list t n => n :: t.lens
  | .tuple ts => ts.toList.length :: ts.lens
def TyList.lens : TyList → List Nat
  | .nil => []
  | .cons t ts => t.lens ++ ts.lens
end

def dedupBy {α} [DecidableEq α] : List α → List α
  | [] => []
  | x :: xs => if x ∈ xs then dedupBy xs else x :: dedupBy xs

/-- scalar test values for a pair of types: the critical integers of all constants, the string codes, one instance of each class
    mentioned (and of every class below or above it in the table would be exhaustive; the mentioned ones and a few fixed ones are
    what the oracle uses) -/
def scalars (T : Table) (s t : Ty) : List Val :=
  let cs := s.consts ++ t.consts
  let ints := dedupBy ((critPoints cs) ++ [-1, 0, 1, 2])
  let strs := dedupBy (cs ++ [0, 977])
  let ks := dedupBy (s.monos ++ t.monos ++ [T.iFloat, T.iObj, T.iComplex, T.iRatio])
  ints.map Val.int ++ strs.map Val.str ++ ks.map Val.obj

def replicateV (n : Nat) (v : Val) : ValList := ValList.ofList (List.replicate n v)

/-- the test set: scalars, lists and tuples over the scalars (constant lists of the lengths around those mentioned, all pairs of a
    small pool), lists of such lists -/
def testVals (T : Table) (s t : Ty) : List Val :=
  let sc := scalars T s t
  let lens := dedupBy ((s.lens ++ t.lens).flatMap (fun n => [n - 1, n, n + 1]) ++ [0, 1, 2])
  let pool := sc.take 14
  let consts := lens.flatMap (fun n => sc.map (fun v => replicateV n v))
  let pairs := pool.flatMap (fun a => pool.map (fun b => ValList.ofList [a, b]))
  let triples := (pool.take 6).flatMap (fun a => (pool.take 6).flatMap (fun b => (pool.take 6).map (fun c => ValList.ofList [a, b, c])))
  let seqs := consts ++ pairs ++ triples
  let l1 := seqs.map Val.list
  let t1 := seqs.map Val.tuple
  let inner := (l1.take 40) ++ (t1.take 20)
  let l2 := lens.flatMap (fun n => inner.map (fun v => Val.list (replicateV n v)))
  let t2 := inner.flatMap (fun v => [Val.tuple (ValList.ofList [v]), Val.tuple (ValList.ofList [v, v])])
  sc ++ l1 ++ t1 ++ l2 ++ t2

/-- bottoms of the transitivity failures of the generated lattice (recorded finding C06-lattice-not-transitive): `Ratio` (below
    `Float` in the cheap table but without `Float`'s traits `ToInt ToFloat ToBool Pos Neg`), the mutable classes `…!` (below
    `Immutizable`, which is below `Mutable`, without `Mutable`), `Quantified{Func,Proc}MetaType` (below `ProcMetaType` without its
    supers `Type Named Eq Hash`). Fixed by name, NOT generated: a new failure is not absorbed. -/
def badBottomName (n : String) : Bool :=
  n == "Ratio" || n == "QuantifiedFuncMetaType" || n == "QuantifiedProcMetaType" || n.toList.getLast? == some '!'

def Table.badBottom (T : Table) (k : Nat) : Bool := badBottomName (T.row k).name

mutual
/-- the value contains an instance of one of those classes -/
def Val.usesBad (T : Table) : Val → Bool
  | .int _ => false
  | .str _ => false
  | .obj k => T.badBottom k
  | .list vs => vs.usesBad T
  | .tuple vs => vs.usesBad T
def ValList.usesBad (T : Table) : ValList → Bool
  | .nil => false
  | .cons v vs => v.usesBad T || vs.usesBad T
end

/-- does a meta type (`Type`, `ClassType`, `TraitType`: not value-carrying) occur -/
def mentionsMeta (T : Table) (t : Ty) : Bool := t.monos.any (isMeta T)

/-- a sampled value in ⟦s⟧ and not in ⟦t⟧ (no verdict when a meta type occurs) -/
def refuteSub (T : Table) (s t : Ty) : Option Val :=
  if mentionsMeta T s || mentionsMeta T t then none
  else
    let vs := testVals T s t
    match vs.find? (fun v => !v.usesBad T && den T s v && !den T t v) with
    | some v => some v
    | none => vs.find? (fun v => den T s v && !den T t v)

end ErgVerif.C06
