import ErgVerif.C06.Lattice
/-!
C06 — subtyping is a preorder with the documented bottom, top and tower.
`subOf T fx ord S U` is the transcription of `Context::subtype_of(S, U)` over the class table `T`; `genTable` is the table dumped
from the real builtin context on this run; `Fx.code` is the code as it is, `Fx.repaired` the variant that delimits the recorded
findings; `ord` is the hash-iteration order inside `is_super_pred_of` (any). Laws that are false of the code are stated in full,
proved under the hypothesis the proof forces (`_partial`), and refuted at a witness that the check replays on the real code.
-/
namespace ErgVerif.C06
open ErgVerif

/-! ### laws that hold of the code for every type of G, every table, every variant -/

/-- reflexivity, full strength -/
theorem C06_refl (T : Table) (fx : Fx) (ord) (t : Ty) : subOf T fx ord t t = true := by
  unfold subOf superOf
  exact sup_refl T fx ord t _ (by have := size_lt_fuel t; omega)

/-- `Never` is below every type, full strength -/
theorem C06_never_bot (T : Table) (fx : Fx) (ord) (t : Ty) : subOf T fx ord (.mono T.iNever) t = true := by
  unfold subOf superOf
  have : ∀ m, cheap T m t (.mono T.iNever) = (true, true) := by
    intro m
    unfold cheap
    split
    · rfl
    · cases t <;> simp [cheapMM]
  unfold sup
  simp only [this]

/-- `Obj` is above every type, full strength -/
theorem C06_obj_top (T : Table) (fx : Fx) (ord) (t : Ty) : subOf T fx ord t (.mono T.iObj) = true := by
  unfold subOf superOf
  have : ∀ m, cheap T m (.mono T.iObj) t = (true, true) := by
    intro m
    unfold cheap
    split
    · rfl
    · cases t <;> simp [cheapMM]
  unfold sup
  simp only [this]

/-- the judgement on two monomorphic types is the closed form `monoRel` (cheap table, then nominal lookup), whatever the fuel
    (≥ 3), the variant and the order: the table theorems below are about the model's `subOf` itself -/
theorem C06_mono_closed_form (T : Table) (fx : Fx) (ord) (a b : Nat) :
    subOf T fx ord (.mono b) (.mono a) = monoRel T a b := by
  unfold subOf superOf
  exact sup_mono_mono T fx ord _ a b

/-! ### the generated lattice (`decide +kernel` in ErgVerif.C06.Lattice over the table dumped from the real builtin context on
    this run; re-elaborated whenever the table changes) -/

/-- reflexivity on the table (also a consequence of `C06_refl`; kept as a check of the closed form) -/
theorem C06_refl_mono : (List.range nRows).all (fun k => monoRel genTable k k) = true := lat_refl_mono

/-- bottom and top on the table -/
theorem C06_bot_top_mono :
    (List.range nRows).all (fun k => monoRel genTable k genTable.iNever && monoRel genTable genTable.iObj k) = true :=
  lat_bot_top_mono

/-- `Never` has no proper subtype and `Obj` no proper supertype among the value classes -/
theorem C06_bot_top_strict :
    (List.range nRows).all (fun k => (genTable.row k).mvc == false || k == genTable.iNever || !monoRel genTable genTable.iNever k) = true ∧
    (List.range nRows).all (fun k => (genTable.row k).mvc == false || k == genTable.iObj || !monoRel genTable k genTable.iObj) = true :=
  lat_bot_top_strict

/-- the numeric tower `Bool <: Nat <: Int <: Ratio <: Float <: Complex` (every one of the 15 pairs), and no arrow back -/
theorem C06_tower :
    let t := [genTable.iBool, genTable.iNat, genTable.iInt, genTable.iRatio, genTable.iFloat, genTable.iComplex]
    (List.range 6).all (fun i => (List.range 6).all (fun j =>
      monoRel genTable (t.getD j 0) (t.getD i 0) == decide (i ≤ j))) = true := lat_tower

/-- the rows of the generated table really are the named classes the model's special indices point to -/
theorem C06_special_rows :
    (genTable.row genTable.iObj).name = "Obj" ∧ (genTable.row genTable.iNever).name = "Never" ∧
    (genTable.row genTable.iBool).name = "Bool" ∧ (genTable.row genTable.iNat).name = "Nat" ∧
    (genTable.row genTable.iInt).name = "Int" ∧ (genTable.row genTable.iRatio).name = "Ratio" ∧
    (genTable.row genTable.iFloat).name = "Float" ∧ (genTable.row genTable.iComplex).name = "Complex" ∧
    (genTable.row genTable.iStr).name = "Str" ∧ (genTable.row genTable.iType).name = "Type" ∧
    (genTable.row genTable.iClassType).name = "ClassType" ∧ (genTable.row genTable.iTraitType).name = "TraitType" :=
  lat_special_rows

/-- TRANSITIVITY on the monomorphic classes and traits — THE FULL STATEMENT IS FALSE of the code (`C06_witness_lattice`).
    Partial: for every triple whose bottom is not one of the recorded rows (`badBottomName`: `Ratio`, the mutable classes `…!`,
    `Quantified{Func,Proc}MetaType`), `c <: b` and `b <: a` give `c <: a`. -/
theorem C06_trans_mono_partial :
    (List.range nRows).all (fun c => genTable.badBottom c ||
      (List.range nRows).all (fun b => !monoRel genTable b c ||
        (List.range nRows).all (fun a => !monoRel genTable a b || monoRel genTable a c))) = true := lat_trans_mono_partial

/-- the same as a statement about `subOf` on any three rows of the table -/
theorem C06_trans_mono (fx : Fx) (ord) (a b c : Nat) (ha : a < nRows) (hb : b < nRows) (hc : c < nRows)
    (hk : genTable.badBottom c = false) (h1 : subOf genTable fx ord (.mono c) (.mono b) = true)
    (h2 : subOf genTable fx ord (.mono b) (.mono a) = true) : subOf genTable fx ord (.mono c) (.mono a) = true := by
  rw [C06_mono_closed_form] at h1 h2 ⊢
  have h := C06_trans_mono_partial
  rw [List.all_eq_true] at h
  have h' := h c (List.mem_range.mpr hc)
  rw [hk, Bool.false_or, List.all_eq_true] at h'
  have h'' := h' b (List.mem_range.mpr hb)
  rw [h1, Bool.not_true, Bool.false_or, List.all_eq_true] at h''
  have h3 := h'' a (List.mem_range.mpr ha)
  rw [h2, Bool.not_true, Bool.false_or] at h3
  exact h3

/-- recorded finding `C06-lattice-not-transitive`: `Ratio <: Float`, `Float <: ToBool`, not `Ratio <: ToBool` -/
theorem C06_witness_lattice :
    ∃ k, (genTable.row k).name = "ToBool" ∧
      monoRel genTable genTable.iFloat genTable.iRatio = true ∧ monoRel genTable k genTable.iFloat = true ∧
      monoRel genTable k genTable.iRatio = false := lat_witness_lattice

/-! ### or-introduction and and-elimination -/

def Ty.isRefine : Ty → Bool | .refine _ _ => true | _ => false
def Ty.isOr : Ty → Bool | .or _ => true | _ => false
def Ty.isAnd : Ty → Bool | .and _ => true | _ => false

theorem cheap_or_lhs (T : Table) (m : Nat) (ts : TyList) (t : Ty) :
    cheap T m (.or ts) t = (true, true) ∨ cheap T m (.or ts) t = (false, false) := by
  unfold cheap
  split
  · exact Or.inl rfl
  · cases t <;> simp <;> omega

theorem cheap_and_rhs (T : Table) (m : Nat) (ts : TyList) (t : Ty) :
    cheap T m t (.and ts) = (true, true) ∨ cheap T m t (.and ts) = (false, false) := by
  unfold cheap
  split
  · exact Or.inl rfl
  · cases t <;> simp <;> omega

/-- `T <: T or U` for the REPAIRED variant (distribution tried before the structural arms), every member, every table -/
theorem C06_or_intro_repaired (T : Table) (fx : Fx) (hfx : fx.distribute = true) (ord) (ts : TyList) (t : Ty)
    (h : t ∈ ts.toList) : subOf T fx ord t (.or ts) = true := by
  unfold subOf superOf
  have hr : sup T fx ord (3 * ((Ty.or ts).fuel + t.fuel) + 7) .full t t = true :=
    sup_refl T fx ord t _ (by have := size_lt_fuel t; omega)
  unfold sup
  rcases cheap_or_lhs T (3 * ((Ty.or ts).fuel + t.fuel) + 7) ts t with hc | hc <;> simp only [hc]
  simp only [hfx, Bool.true_and, Bool.false_or]
  have : (ts.toList.any fun l => sup T fx ord (3 * ((Ty.or ts).fuel + t.fuel) + 7) .full l t) = true :=
    List.any_eq_true.mpr ⟨t, h, hr⟩
  simp [this]

/-- `T and U <: T` for the REPAIRED variant -/
theorem C06_and_elim_repaired (T : Table) (fx : Fx) (hfx : fx.distribute = true) (ord) (ts : TyList) (t : Ty)
    (h : t ∈ ts.toList) : subOf T fx ord (.and ts) t = true := by
  unfold subOf superOf
  have hr : sup T fx ord (3 * (t.fuel + (Ty.and ts).fuel) + 7) .full t t = true :=
    sup_refl T fx ord t _ (by have := size_lt_fuel t; omega)
  unfold sup
  rcases cheap_and_rhs T (3 * (t.fuel + (Ty.and ts).fuel) + 7) ts t with hc | hc <;> simp only [hc]
  simp only [hfx, Bool.true_and, Bool.false_or]
  have : (ts.toList.any fun r => sup T fx ord (3 * (t.fuel + (Ty.and ts).fuel) + 7) .full t r) = true :=
    List.any_eq_true.mpr ⟨t, h, hr⟩
  cases t <;> simp [this]

/-- or-introduction OF THE CODE — the full statement (every member `t`) is false (`C06_witness_or_intro`). Partial: it holds for
    every member that is not a refinement type and not itself a union, i.e. when the `(Or, rhs) ⇒ any` arm is reached. -/
theorem C06_or_intro_partial (T : Table) (fx : Fx) (ord) (ts : TyList) (t : Ty) (h : t ∈ ts.toList)
    (h1 : t.isRefine = false) (h2 : t.isOr = false) : subOf T fx ord t (.or ts) = true := by
  unfold subOf superOf
  have hf : ∃ m, 3 * ((Ty.or ts).fuel + t.fuel) + 7 = m + 1 := ⟨_, rfl⟩
  obtain ⟨m, hm⟩ := hf
  have hr : sup T fx ord m .full t t = true :=
    sup_refl T fx ord t _ (by have := size_lt_fuel t; simp [Ty.fuel] at hm; omega)
  have hany : (ts.toList.any fun l => sup T fx ord m .full l t) = true := List.any_eq_true.mpr ⟨t, h, hr⟩
  unfold sup
  rcases cheap_or_lhs T (3 * ((Ty.or ts).fuel + t.fuel) + 7) ts t with hc | hc <;> simp only [hc]
  rw [hm]
  have : sup T fx ord (m + 1) .struc (.or ts) t = true := by
    cases t <;> simp_all [sup, Ty.isRefine, Ty.isOr]
  simp [this]

/-- and-elimination OF THE CODE — the full statement is false (`C06_witness_and_elim`). Partial: it holds for every member that is a
    monomorphic class/trait, a list or a tuple type, i.e. when the `(lhs, And) ⇒ any` arm is reached. -/
theorem C06_and_elim_partial (T : Table) (fx : Fx) (ord) (ts : TyList) (t : Ty) (h : t ∈ ts.toList)
    (h1 : t.isRefine = false) (h2 : t.isOr = false) (h3 : t.isAnd = false) : subOf T fx ord (.and ts) t = true := by
  unfold subOf superOf
  have hf : ∃ m, 3 * (t.fuel + (Ty.and ts).fuel) + 7 = m + 1 := ⟨_, rfl⟩
  obtain ⟨m, hm⟩ := hf
  have hr : sup T fx ord m .full t t = true :=
    sup_refl T fx ord t _ (by have := size_lt_fuel t; simp [Ty.fuel] at hm; omega)
  have hany : (ts.toList.any fun r => sup T fx ord m .full t r) = true := List.any_eq_true.mpr ⟨t, h, hr⟩
  unfold sup
  rcases cheap_and_rhs T (3 * (t.fuel + (Ty.and ts).fuel) + 7) ts t with hc | hc <;> simp only [hc]
  rw [hm]
  have : sup T fx ord (m + 1) .struc t (.and ts) = true := by
    cases t <;> simp_all [sup, Ty.isRefine, Ty.isOr, Ty.isAnd]
  simp [this]


/-- a singleton / enum / interval type is below every class above its base class: for every predicate `p` and every
    monomorphic `c` other than `Nat`/`Bool` (which are themselves read as refinements of `Int`), `base <: c` gives
    `{I: base | p} <: c` -/
theorem C06_enum_below_class (T : Table) (fx : Fx) (ord) (b c : Nat) (p : Pred) (hn : c ≠ T.iNat) (hb : c ≠ T.iBool)
    (h : monoRel T c b = true) : subOf T fx ord (.refine b p) (.mono c) = true := by
  unfold subOf superOf
  have e : 3 * ((Ty.mono c).fuel + (Ty.refine b p).fuel) + 8 = 39 + 3 + 2 := by simp [Ty.fuel]
  rw [e]
  have h1 : sup T fx ord (39 + 3) .full (.mono c) (.mono b) = true := by rw [sup_mono_mono]; exact h
  have h2 : sup T fx ord (39 + 3 + 1) .struc (.mono c) (.refine b p) = true := by
    unfold sup
    simp [hn, hb, h1]
  unfold sup
  rcases hc : cheap T (39 + 3 + 1) (.mono c) (.refine b p) with ⟨c1, c2⟩
  cases c1
  · simp [h2]
  · unfold cheap at hc
    split at hc
    · simp at hc; simp [hc]
    · split at hc <;> (try split at hc) <;> simp_all

/-! ### soundness of the structural rules w.r.t. the value denotation (the arms, one by one) -/

/-- the refinement arm: what `is_super_pred_of` accepts is an implication (C03), for every membership-preserving order -/
theorem C06_sound_refinement_arm (ord : List Pred → List Pred) (hord : OrdOK ord) (lp rp : Pred)
    (h : predSuper ord lp rp = true) : ∀ i : Int, rp.sat i = true → lp.sat i = true :=
  isSuper_sound (Cfg.current ord) (by simp [Cfg.current]) rfl hord _ lp rp h

/-- … lifted to the denotation: if moreover every value of the right base class is a value of the left one -/
theorem C06_sound_refinement_den (T : Table) (ord : List Pred → List Pred) (hord : OrdOK ord) (lb rb : Nat) (lp rp : Pred)
    (h : predSuper ord lp rp = true) (hbase : ∀ v, denMono T rb v = true → denMono T lb v = true) :
    ∀ v, den T (.refine rb rp) v = true → den T (.refine lb lp) v = true := by
  intro v hv
  have hs := C06_sound_refinement_arm ord hord lp rp h
  cases v <;> simp_all [den]

/-- the `List` arm: element covariance and `llen ≤ rlen` are sound when `List(T, N)` is read as "lists of `T` of length ≥ N" -/
theorem C06_sound_list_arm (T : Table) (le re : Ty) (ln rn : Nat) (hel : ∀ v, den T re v = true → den T le v = true)
    (hlen : ln ≤ rn) : ∀ v, den T (.list re rn) v = true → den T (.list le ln) v = true := by
  intro v hv
  cases v <;> simp_all [den]
  omega

/-- … and is NOT sound under the exact-length reading: `List(Int, 3) <: List(Int, 2)` is accepted -/
theorem C06_list_length_rule : subOf genTable Fx.code id (.list (.mono genTable.iInt) 3) (.list (.mono genTable.iInt) 2) = true := by
  decide +kernel

/-- `(Or, rhs) ⇒ any`, `(lhs, Or) ⇒ all`, `(Or, Or) ⇒ ∀∃`: union is the union of the denotations -/
theorem C06_sound_or (T : Table) (ts : TyList) (v : Val) : den T (.or ts) v = true ↔ ∃ t ∈ ts.toList, den T t v = true := by
  simp [den, denAny_iff]

/-- `(And, rhs) ⇒ all`, `(lhs, And) ⇒ any`: intersection is the intersection of the denotations -/
theorem C06_sound_and (T : Table) (ts : TyList) (v : Val) : den T (.and ts) v = true ↔ ∀ t ∈ ts.toList, den T t v = true := by
  simp [den, denAll_iff]

/-! ### witnesses: laws that are false of the code (each replayed on the real `subtype_of` by the check) -/

def tNat (p : Pred) : Ty := .refine genTable.iNat p
def tStr : Ty := .mono genTable.iStr
def tInt : Ty := .mono genTable.iInt

/-- recorded finding `C06-derefine-unsound` — `C06_sound` is FALSE of the code: `{2} <: {1} or Str` is accepted
    (`Nat or Str :> Nat` after `derefine`), 2 is a value of the left type only; the repaired variant rejects the pair -/
theorem C06_witness_derefine_unsound :
    subOf genTable Fx.code id (tNat (.eq 2)) (.or (.cons (tNat (.eq 1)) (.cons tStr .nil))) = true ∧
    den genTable (tNat (.eq 2)) (.int 2) = true ∧
    den genTable (.or (.cons (tNat (.eq 1)) (.cons tStr .nil))) (.int 2) = false ∧
    subOf genTable Fx.repaired id (tNat (.eq 2)) (.or (.cons (tNat (.eq 1)) (.cons tStr .nil))) = false := by
  decide +kernel

/-- recorded finding `C06-or-intro-incomplete` — `C06_or_intro` is FALSE of the code: `{1} <: {1} or {2}` is rejected -/
theorem C06_witness_or_intro :
    subOf genTable Fx.code id (tNat (.eq 1)) (.or (.cons (tNat (.eq 1)) (.cons (tNat (.eq 2)) .nil))) = false := by
  decide +kernel

/-- recorded finding `C06-and-elim-incomplete` — `C06_and_elim` is FALSE of the code: `Int and {5} <: {5}` is rejected -/
theorem C06_witness_and_elim :
    subOf genTable Fx.code id (.and (.cons tInt (.cons (tNat (.eq 5)) .nil))) (tNat (.eq 5)) = false := by
  decide +kernel

/-- recorded finding `C06-trans-incomplete` — transitivity is FALSE of the code on structured types:
    `{1..1} <: Bool`, `Bool <: (List(Int, 3) or Bool)`, not `{1..1} <: (List(Int, 3) or Bool)`; the repaired variant accepts it -/
theorem C06_witness_trans_structured :
    let a : Ty := .refine genTable.iInt (.and (.ge 1) (.le 1))
    let b : Ty := .mono genTable.iBool
    let c : Ty := .or (.cons (.list tInt 3) (.cons (.mono genTable.iBool) .nil))
    subOf genTable Fx.code id a b = true ∧ subOf genTable Fx.code id b c = true ∧ subOf genTable Fx.code id a c = false ∧
    subOf genTable Fx.repaired id a c = true := by
  decide +kernel

/-! ### non-vacuity -/

example : subOf genTable Fx.code id (tNat (.or (PredList.ofList [.eq 1, .eq 2, .eq 3]))) (.mono genTable.iNat) = true := by decide +kernel
example : subOf genTable Fx.code id (tNat (.or (PredList.ofList [.eq 0, .eq 1]))) (.mono genTable.iBool) = true := by decide +kernel
example : subOf genTable Fx.code id (.refine genTable.iInt (.and (.ge 1) (.le 20))) (.refine genTable.iInt (.and (.ge 0) (.le 59))) = true := by
  decide +kernel
example : subOf genTable Fx.code id (.list (tNat (.eq 1)) 3) (.list tInt 2) = true := by decide +kernel
example : subOf genTable Fx.code id (.tuple (.cons tInt (.cons tStr .nil))) (.tuple (.cons tInt .nil)) = true := by decide +kernel
example : monoRel genTable genTable.iInt genTable.iNat = true ∧ genTable.iInt ≠ genTable.iNat ∧ genTable.iInt ≠ genTable.iBool := by
  decide +kernel
example : den genTable (.list tInt 2) (.list (.cons (.int 1) (.cons (.int (-2)) (.cons (.int 3) .nil)))) = true := by decide +kernel
example : Fx.repaired.distribute = true := rfl
example : OrdOK id := fun _ _ => Iff.rfl

end ErgVerif.C06
