import ErgVerif.C06.Proofs
/-!
C06 — the `decide +kernel` obligations over the class table generated from the real builtin context (kept in a module of their
own so that they are re-elaborated exactly when the generated table, the model or the closed form changes). `Props.lean` restates
them under their `C06_…` names.
-/
namespace ErgVerif.C06
open ErgVerif

/-! ### the generated lattice (`decide` over the table dumped from the real builtin context, re-checked on every run) -/

def nRows : Nat := genTable.rows.length

/-- reflexivity on the table (also a consequence of `C06_refl`; kept as a check of the closed form) -/
theorem lat_refl_mono : (List.range nRows).all (fun k => monoRel genTable k k) = true := by decide +kernel

/-- bottom and top on the table -/
theorem lat_bot_top_mono :
    (List.range nRows).all (fun k => monoRel genTable k genTable.iNever && monoRel genTable genTable.iObj k) = true := by
  decide +kernel

/-- `Never` has no proper subtype and `Obj` no proper supertype among the value classes -/
theorem lat_bot_top_strict :
    (List.range nRows).all (fun k => (genTable.row k).mvc == false || k == genTable.iNever || !monoRel genTable genTable.iNever k) = true ∧
    (List.range nRows).all (fun k => (genTable.row k).mvc == false || k == genTable.iObj || !monoRel genTable k genTable.iObj) = true := by
  decide +kernel

/-- the numeric tower `Bool <: Nat <: Int <: Ratio <: Float <: Complex` (every one of the 15 pairs), and no arrow back -/
theorem lat_tower :
    let t := [genTable.iBool, genTable.iNat, genTable.iInt, genTable.iRatio, genTable.iFloat, genTable.iComplex]
    (List.range 6).all (fun i => (List.range 6).all (fun j =>
      monoRel genTable (t.getD j 0) (t.getD i 0) == decide (i ≤ j))) = true := by decide +kernel

/-- the rows of the generated table really are the named classes the model's special indices point to -/
theorem lat_special_rows :
    (genTable.row genTable.iObj).name = "Obj" ∧ (genTable.row genTable.iNever).name = "Never" ∧
    (genTable.row genTable.iBool).name = "Bool" ∧ (genTable.row genTable.iNat).name = "Nat" ∧
    (genTable.row genTable.iInt).name = "Int" ∧ (genTable.row genTable.iRatio).name = "Ratio" ∧
    (genTable.row genTable.iFloat).name = "Float" ∧ (genTable.row genTable.iComplex).name = "Complex" ∧
    (genTable.row genTable.iStr).name = "Str" ∧ (genTable.row genTable.iType).name = "Type" ∧
    (genTable.row genTable.iClassType).name = "ClassType" ∧ (genTable.row genTable.iTraitType).name = "TraitType" := by
  decide +kernel

/-- TRANSITIVITY on the monomorphic classes and traits — FULL STATEMENT IS FALSE of the code (`C06_witness_lattice`).
    Partial: for every triple whose bottom is not one of the recorded rows (`badBottomName`: `Ratio`, the mutable classes `…!`,
    `Quantified{Func,Proc}MetaType`), `c <: b` and `b <: a` give `c <: a`. -/
theorem lat_trans_mono_partial :
    (List.range nRows).all (fun c => genTable.badBottom c ||
      (List.range nRows).all (fun b => !monoRel genTable b c ||
        (List.range nRows).all (fun a => !monoRel genTable a b || monoRel genTable a c))) = true := by
  decide +kernel

/-- recorded finding `C06-lattice-not-transitive`: `Ratio <: Float`, `Float <: ToBool`, not `Ratio <: ToBool` -/
theorem lat_witness_lattice :
    ∃ k, (genTable.row k).name = "ToBool" ∧
      monoRel genTable genTable.iFloat genTable.iRatio = true ∧ monoRel genTable k genTable.iFloat = true ∧
      monoRel genTable k genTable.iRatio = false := by
  refine ⟨(genTable.rows.findIdx? (fun r => r.name == "ToBool")).getD 0, ?_⟩
  decide +kernel


end ErgVerif.C06
