import ErgVerif.Shared.Pred
import ErgVerif.Gen.C06Classes
/-!
C06 model — subtyping on the grammar G.

Transcribes (erg, crates/erg_compiler/context/compare.rs unless noted):
  * `Context::supertype_of`                 → `sup … .full`
  * `Context::cheap_supertype_of`           → `cheap` (the arms a type of G can reach, in source order)
  * `Context::structural_supertype_of`      → `sup … .struc` (the arms G reaches, in source order: meta type vs `List`/`Tuple`,
      `(Refinement, Refinement)` with the base test, the `possible_tps` early return and `is_super_pred_of` (= `isSuperPred` of
      ErgVerif.Shared.Pred, C03), `(Nat|Bool, Refinement)` / `(Refinement, Nat|Bool)` through `into_refinement`,
      `(l, Refinement)`, `(Refinement, Or)`, `(Refinement, r)` with `can_be_false`, `(Or, Or)`, `(Or, rhs)`, `(lhs, Or)`,
      `(And, And)` with its rotation matching, `(And, rhs)`, `(lhs, And)`, `(Poly, Poly)` for `List` (element covariance and the
      length rule `try_cmp(llen, rlen).canbe_eq() || canbe_lt()`) and for `Tuple` (`poly_supertype_of` → `supertype_of_tp` on
      `TyParam::List`: prefix rule, covariant), else `false`)
  * `Context::nominal_supertype_of`, `classes_supertype_of`, `traits_supertype_of`, `_nominal_supertype_of`  → `sup … .nominal`
      over the class table REGENERATED from the real builtin context (ErgVerif.Gen.C06Classes, T-gen)
  * `Context::is_class`, `is_trait` (context/inquire.rs), `get_nominal_type_ctx` restricted to G → `isClass`, `isTrait`, `ctxRow`
  * `Type::eq` (ty/mod.rs `impl PartialEq for Type`, `Set::linear_eq`) → `tyEq`
  * `Type::into_refinement`, `derefine`, `is_mono_value_class` (ty/mod.rs), `Predicate::can_be_false`, `possible_tps`,
    `mentions` (ty/predicate.rs) → `intoRefPred`, `derefine`, `Row.mvc` (generated flag), `canBeFalse`, `hasPossibleTps`, `mentionsVar`

Representation:
  * a monomorphic class/trait is its row number in the generated table; the named variants of `Type` (`Obj`, `Int`, …) are rows too
  * `Or(Set<Type>)` is a list without order significance (all uses are `any`/`all`), `And(Vec<Type>)` a list in order
  * string literals are abstracted to integer codes (strings only meet `==`; `{"a"} :> {1}` is excluded by the base-type test)
  * every recursion of the Rust code (no recursion limit is reached on G) is by fuel; `Ty.fuel` is ample
  * `possible_tps` early return: `substitute` replaces the *constant* of an atom by the candidate value (it does not evaluate the
    atom), so `bool_eval_pred` yields `true` only for predicates built from `Value(true)`; modelled by `evalTrue`
Outside the model: free variables, quantified/subroutine/record types, `not` types, patches, mutable containers, user classes.
-/
namespace ErgVerif.C06
open ErgVerif

mutual
inductive Ty where
  | mono (k : Nat)
  | refine (base : Nat) (p : Pred)
  | or (ts : TyList)
  | and (ts : TyList)
  | list (t : Ty) (n : Nat)
  | tuple (ts : TyList)
  deriving DecidableEq
inductive TyList where
  | nil | cons (t : Ty) (ts : TyList)
  deriving DecidableEq
end

instance : Inhabited Ty := ⟨.mono 0⟩

def TyList.toList : TyList → List Ty
  | .nil => [] | .cons t ts => t :: ts.toList

def TyList.ofList : List Ty → TyList
  | [] => .nil | t :: ts => .cons t (TyList.ofList ts)

mutual
def Ty.size : Ty → Nat
  | .mono _ => 1
  | .refine _ _ => 2
  | .or ts => 1 + ts.size
  | .and ts => 1 + ts.size
  | .list t _ => 1 + t.size
  | .tuple ts => 1 + ts.size
def TyList.size : TyList → Nat
  | .nil => 1
  | .cons t ts => 1 + t.size + ts.size
end

/-! ### the class table -/

structure Row where
  name : String
  /-- 0 = class, 1 = trait, 2 = neither -/
  kind : Nat
  mvc : Bool
  supC : List Nat
  supT : List Nat
  deriving Repr

structure Table where
  rows : List Row
  listRow : Row
  tupleRow : Row
  orRow : Row
  iObj : Nat
  iNever : Nat
  iBool : Nat
  iNat : Nat
  iInt : Nat
  iRatio : Nat
  iFloat : Nat
  iComplex : Nat
  iStr : Nat
  iType : Nat
  iClassType : Nat
  iTraitType : Nat
  iGenericList : Nat
  iSubroutine : Nat
  /-- `GenericFunc`, `GenericProc`, `GenericFuncMethod`, `GenericProcMethod` (those that exist) -/
  genericSubrs : List Nat

def mkRow (r : String × Nat × Bool × List Nat × List Nat) : Row :=
  { name := r.1, kind := r.2.1, mvc := r.2.2.1, supC := r.2.2.2.1, supT := r.2.2.2.2 }

open ErgVerif.Gen.C06Classes in
/-- the table dumped from the real builtin context on this run -/
def genTable : Table :=
  { rows := rows.map mkRow, listRow := mkRow listRow, tupleRow := mkRow tupleRow, orRow := mkRow orRow,
    iObj := iObj, iNever := iNever, iBool := iBool, iNat := iNat, iInt := iInt, iRatio := iRatio, iFloat := iFloat,
    iComplex := iComplex, iStr := iStr, iType := iType, iClassType := iClassType, iTraitType := iTraitType,
    iGenericList := iGenericList, iSubroutine := iSubroutine, genericSubrs := genericSubrs }

def emptyRow : Row := { name := "", kind := 2, mvc := false, supC := [], supT := [] }

def Table.row (T : Table) (k : Nat) : Row := (T.rows[k]?).getD emptyRow

/-- `Type::is_mono_value_class` -/
def Table.mvc (T : Table) : Ty → Bool
  | .mono k => (T.row k).mvc
  | _ => false

/-! ### `PartialEq for Type` -/

/-- type equality; `Or` compares as a set (`linear_eq`: equal length and every left member occurs right), `And` likewise -/
def tyEq : Nat → Ty → Ty → Bool
  | 0, _, _ => false
  | fuel+1, a, b =>
    match a, b with
    | .mono x, .mono y => x == y
    | .refine bx p, .refine by_ q => bx == by_ && decide (p = q)
    | .or xs, .or ys =>
      xs.toList.length == ys.toList.length && xs.toList.all (fun x => ys.toList.any (fun y => tyEq fuel x y))
    | .and xs, .and ys =>
      xs.toList.length == ys.toList.length && xs.toList.all (fun x => ys.toList.any (fun y => tyEq fuel x y))
    | .list x n, .list y m => n == m && tyEq fuel x y
    | .tuple xs, .tuple ys =>
      xs.toList.length == ys.toList.length && (xs.toList.zip ys.toList).all (fun xy => tyEq fuel xy.1 xy.2)
    | _, _ => false

/-! ### helpers on predicates -/

/-- `Predicate::can_be_false` (always `Some` on the fragment) -/
def canBeFalse : Pred → Bool
  | .val b => !b
  | .or ps => canBeFalseL ps
  | .and p q => canBeFalse p && canBeFalse q
  | .not p => !canBeFalse p
  | _ => true
where canBeFalseL : PredList → Bool
  | .nil => false
  | .cons p ps => canBeFalse p || canBeFalseL ps

/-- `Predicate::mentions(var)` on the fragment: some atom over the subject occurs -/
def mentionsVar : Pred → Bool
  | .val _ => false
  | .or ps => mentionsL ps
  | .and p q => mentionsVar p || mentionsVar q
  | .not p => mentionsVar p
  | _ => true
where mentionsL : PredList → Bool
  | .nil => false
  | .cons p ps => mentionsVar p || mentionsL ps

/-- `!possible_tps().is_empty()` : an `Equal` atom at the top or among the members of nested `Or`s -/
def hasPossibleTps : Pred → Bool
  | .eq _ => true
  | .or ps => hasL ps
  | _ => false
where hasL : PredList → Bool
  | .nil => false
  | .cons p ps => hasPossibleTps p || hasL ps

/-- does `bool_eval_pred(pred.substitute(var, tp))` answer `true`? Atoms stay atoms under `substitute`/`eval_pred`, `Or` is
    rebuilt as a bare `Or`, `And` goes through `Predicate::and`, `Not` through `invert`. -/
def evalTrue : Pred → Bool
  | .val b => b
  | .and p q => evalTrue p && evalTrue q
  | .not p => evalFalse p
  | _ => false
where evalFalse : Pred → Bool
  | .val b => !b
  | .and p q => evalFalse p || evalFalse q
  | .not p => evalTrue p
  | _ => false

/-! ### `into_refinement`, `derefine` -/

/-- `Type::into_refinement` of a monomorphic type: (base, predicate).
    `Nat` ↦ `{I: Int | I >= 0}`, `Bool` ↦ `{I: Int | I <= True and I >= False}` (`True`/`False` compare as 1/0),
    any other `T` ↦ `{_: T | True}` -/
def intoRefinement (T : Table) (k : Nat) : Nat × Pred :=
  if k = T.iNat then (T.iInt, .ge 0)
  else if k = T.iBool then (T.iInt, .and (.le 1) (.ge 0))
  else (k, .val true)

def dedupTy : List Ty → List Ty
  | [] => []
  | t :: ts => if ts.contains t then dedupTy ts else t :: dedupTy ts

mutual
/-- `Type::derefine` (`checked_or`/`checked_and` unwrap a single member; the `Or` set collapses equal members) -/
def derefine : Ty → Ty
  | .mono k => .mono k
  | .refine b _ => .mono b
  | .or ts => let ds := dedupTy (derefineL ts); match ds with | [t] => t | _ => .or (TyList.ofList ds)
  | .and ts => match derefineL ts with | [t] => t | ds => .and (TyList.ofList ds)
  | .list t n => .list (derefine t) n
  | .tuple ts => .tuple (TyList.ofList (derefineL ts))
def derefineL : TyList → List Ty
  | .nil => []
  | .cons t ts => derefine t :: derefineL ts
end

/-! ### `is_class`, `is_trait`, `get_nominal_type_ctx` -/

mutual
def isClass (T : Table) : Ty → Bool
  | .mono k => k == T.iNever || (T.row k).kind == 0
  | .refine b _ => b == T.iNever || (T.row b).kind == 0
  | .or ts => allClass T ts
  | .and _ => false
  | .list _ _ => T.listRow.kind == 0
  | .tuple _ => T.tupleRow.kind == 0
def allClass (T : Table) : TyList → Bool
  | .nil => true
  | .cons t ts => isClass T t && allClass T ts
end

mutual
def isTrait (T : Table) : Ty → Bool
  | .mono k => k != T.iNever && (T.row k).kind == 1
  | .refine b _ => b != T.iNever && (T.row b).kind == 1
  | .or ts => allTrait T ts
  | .and ts => anyTrait T ts
  | .list _ _ => T.listRow.kind == 1
  | .tuple _ => T.tupleRow.kind == 1
def allTrait (T : Table) : TyList → Bool
  | .nil => true
  | .cons t ts => isTrait T t && allTrait T ts
def anyTrait (T : Table) : TyList → Bool
  | .nil => false
  | .cons t ts => isTrait T t || anyTrait T ts
end

/-- the row `get_nominal_type_ctx(rhs)` finds (`And`: none) -/
def ctxRow (T : Table) : Ty → Option Row
  | .mono k => T.rows[k]?
  | .refine b _ => T.rows[b]?
  | .or _ => some T.orRow
  | .and _ => none
  | .list _ _ => some T.listRow
  | .tuple _ => some T.tupleRow

/-! ### `cheap_supertype_of` -/

def isTower (T : Table) (k : Nat) : Option Nat :=
  if k = T.iBool then some 0 else if k = T.iNat then some 1 else if k = T.iInt then some 2
  else if k = T.iRatio then some 3 else if k = T.iFloat then some 4 else if k = T.iComplex then some 5 else none

/-- `cheap_supertype_of` on two DIFFERENT monomorphic types -/
def cheapMM (T : Table) (l r : Nat) : Bool × Bool :=
  if l = T.iObj || r = T.iNever then (true, true)
  else if r = T.iObj && (T.row l).mvc then (true, false)
  else if l = T.iNever && (T.row r).mvc then (true, false)
  else match isTower T l, isTower T r with
    | some a, some b => if b ≤ a then (true, true) else (true, false)
    | _, _ =>
      if l = T.iType && (r = T.iClassType || r = T.iTraitType) then (true, true)
      else if l = T.iSubroutine && T.genericSubrs.contains r then (true, true)
      else if (T.row l).mvc && (T.row r).mvc then (true, false)
      else (false, false)

/-- (credibility is `Absolutely`, judgement) -/
def cheap (T : Table) (fuel : Nat) (lhs rhs : Ty) : Bool × Bool :=
  if tyEq fuel lhs rhs then (true, true) else
  match lhs, rhs with
  | .mono l, .mono r => cheapMM T l r
  | .mono l, .list _ _ => if l = T.iObj || l = T.iGenericList then (true, true) else (false, false)
  | .mono l, _ => if l = T.iObj then (true, true) else (false, false)
  | _, .mono r => if r = T.iNever then (true, true) else (false, false)
  | _, _ => (false, false)

/-! ### `supertype_of` -/

inductive Mode where | full | struc | nominal
  deriving DecidableEq

def isMeta (T : Table) (k : Nat) : Bool := k == T.iType || k == T.iClassType || k == T.iTraitType

/-- rotations of a list, `n` of them starting with the list itself (`r.rotate_left(1)` in the `(And, And)` arm) -/
def rotations : Nat → List Ty → List (List Ty)
  | 0, _ => []
  | n+1, l => l :: rotations n (l.drop 1 ++ l.take 1)

/-- the current code of `is_super_pred_of` with the hash-iteration order a parameter -/
def predSuper (ord : List Pred → List Pred) (p q : Pred) : Bool := isSuperPred (Cfg.current ord) p q

/-- variants of the transcribed code.
    `derefine`: the step `l.derefine() :> r.t ⇒ true` of the `(l, Refinement(r))` arm is present (it is in the code; it is unsound:
      `{2} <: {1} or Str` is accepted because `Nat or Str :> Nat`).
    `distribute`: NOT in the code — `supertype_of` additionally tries `(Or ls, rhs) ⇒ any`, `(And ls, rhs) ⇒ all`,
      `(lhs, And rs) ⇒ any`, `(lhs, Or rs) ⇒ all` before the structural arms. Used only to delimit the classes of the recorded incompleteness findings (`T <: T or U` and `T and U <: T`
      fail in the code when an earlier arm intercepts the pair) and to state what remains true. -/
structure Fx where
  derefine : Bool
  distribute : Bool
  deriving DecidableEq

/-- the code as it is -/
def Fx.code : Fx := { derefine := true, distribute := false }
/-- without the unsound step, with the two distribution rules -/
def Fx.repaired : Fx := { derefine := false, distribute := true }

def sup (T : Table) (fx : Fx) (ord : List Pred → List Pred) : Nat → Mode → Ty → Ty → Bool
  | 0, _, _, _ => false
  | fuel+1, .full, lhs, rhs =>
    match cheap T fuel lhs rhs with
    | (true, j) => j
    | (false, j) =>
      j || (fx.distribute &&
              ((match lhs with
                | .or ls => ls.toList.any (fun l => sup T fx ord fuel .full l rhs)
                | .and ls => !ls.toList.isEmpty && ls.toList.all (fun l => sup T fx ord fuel .full l rhs)
                | _ => false) ||
               (match rhs with
                | .and rs => rs.toList.any (fun r => sup T fx ord fuel .full lhs r)
                | .or rs => !rs.toList.isEmpty && rs.toList.all (fun r => sup T fx ord fuel .full lhs r)
                | _ => false)))
        || sup T fx ord fuel .struc lhs rhs || sup T fx ord fuel .nominal lhs rhs
  | fuel+1, .nominal, lhs, rhs =>
    match ctxRow T rhs with
    | none => false
    | some row =>
      let loop (supers : List Nat) : Bool :=
        supers.any (fun s =>
          match cheap T fuel lhs (.mono s) with
          | (true, j) => j
          | (false, _) => sup T fx ord fuel .struc lhs (.mono s))
      (isClass T lhs && isClass T rhs && loop row.supC) || (isTrait T lhs && (loop row.supT || loop row.supC))
  | fuel+1, .struc, lhs, rhs =>
    let full := sup T fx ord fuel .full
    let struc := sup T fx ord fuel .struc
    match lhs, rhs with
    -- (Type | ClassType | TraitType, Poly) if rhs.is_list() / is_tuple()
    | .mono k, .list e _ => isMeta T k && full lhs e
    | .mono k, .tuple es => isMeta T k && es.toList.all (fun e => full lhs e)
    -- (Refinement, Refinement)
    | .refine lb lp, .refine rb rp =>
      if !(full (.mono lb) (.mono rb)) && !(full (.mono (intoRefinement T lb).1) (.mono rb)) then false
      else if hasPossibleTps rp && evalTrue lp then true
      else predSuper ord lp rp
    -- (Nat | Bool, Refinement), then (l, Refinement) for a monomorphic l
    | .mono k, .refine rb _ =>
      if k = T.iNat || k = T.iBool then
        let r := intoRefinement T k
        struc (.refine r.1 r.2) rhs
      else
        -- `l :> r.t`, else `false` (`l.derefine()` is `l`, and `{_: l | True} :> r` fails its base test)
        full lhs (.mono rb)
    -- (Refinement, Nat | Bool), then (Refinement, r)
    | .refine lb lp, .mono k =>
      if k = T.iNat || k = T.iBool then
        let r := intoRefinement T k
        struc lhs (.refine r.1 r.2)
      else
        if mentionsVar lp && canBeFalse lp then false else full (.mono lb) rhs
    -- (l, Refinement) for l an Or / And / List / Tuple
    | l, .refine rb _ =>
      if full l (.mono rb) then true
      else if full (.mono rb) l then false
      else fx.derefine && full (derefine l) (.mono rb)
    -- (Refinement, Or)
    | .refine _ _, .or ts => ts.toList.all (fun t => full lhs t)
    -- (Refinement, r)
    | .refine lb lp, r =>
      if mentionsVar lp && canBeFalse lp then false else full (.mono lb) r
    -- (Or, Or), (Or, rhs), (lhs, Or)
    | .or ls, .or rs => rs.toList.all (fun r => ls.toList.any (fun l => full l r))
    | .or ls, r => ls.toList.any (fun l => full l r)
    | l, .or rs => rs.toList.all (fun r => full l r)
    -- (And, And), (And, rhs), (lhs, And)
    | .and ls, .and rs =>
      if rs.toList.any (fun r => ls.toList.all (fun l => full l r)) then true
      else if ls.toList.length == rs.toList.length then
        (rotations rs.toList.length rs.toList).any (fun rot => (ls.toList.zip rot).all (fun lr => full lr.1 lr.2))
      else false
    | .and ls, r => ls.toList.all (fun l => full l r)
    | l, .and rs => rs.toList.any (fun r => full l r)
    -- (Poly, Poly)
    | .list le ln, .list re rn => full le re && decide (ln ≤ rn)
    | .tuple ls, .tuple rs =>
      -- `supertype_of_tp(List, List, Covariant)`: equal parameters, else the prefix rule
      tyEq fuel lhs rhs ||
        (decide (ls.toList.length ≤ rs.toList.length) &&
          (ls.toList.zip rs.toList).all (fun lr => tyEq fuel lr.1 lr.2 || full lr.1 lr.2))
    | _, _ => false

mutual
/-- an ample amount of fuel for `sup` (every recursive call strictly decreases a lexicographic measure bounded by this) -/
def Ty.fuel : Ty → Nat
  | .mono _ => 4
  | .refine _ _ => 8
  | .or ts => 4 + ts.fuel
  | .and ts => 4 + ts.fuel
  | .list t _ => 4 + t.fuel
  | .tuple ts => 4 + ts.fuel
def TyList.fuel : TyList → Nat
  | .nil => 0
  | .cons t ts => t.fuel + ts.fuel
end

/-- `Context::supertype_of(lhs, rhs)` -/
def superOf (T : Table) (fx : Fx) (ord : List Pred → List Pred) (lhs rhs : Ty) : Bool :=
  sup T fx ord (3 * (lhs.fuel + rhs.fuel) + 8) .full lhs rhs

/-- `Context::subtype_of(s, t)` -/
def subOf (T : Table) (fx : Fx) (ord : List Pred → List Pred) (s t : Ty) : Bool := superOf T fx ord t s

end ErgVerif.C06
