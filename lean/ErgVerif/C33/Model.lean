import ErgVerif.C06.Spec
/-!
C33 model — acceptance and run-time behaviour of `match` on the grammar G of C06.

Transcribes:
  * crates/erg_compiler/context/inquire.rs `Context::get_match_call_t`: the pattern types of the arms are folded with
    `Context::union` starting from `Never` (`unionAll`), then `sub_unify(scrutinee type, union)`, which on G is
    `supertype_of(union, scrutinee type)` (`accepted`; C06's `superOf`, the code variant)
  * crates/erg_compiler/context/compare.rs `Context::union`, `union_refinement`, `union_pred`, `union_add`, `simple_union`
    restricted to G (`unionT`, `unionPred`)
  * crates/erg_compiler/codegen.rs `PyCodeGenerator::emit_match_instr` / `emit_match_pattern`: arms are tried in order, each guarded by
    `contains_operator(pattern type, value)`; the guard result of the LAST arm is discarded (`if is_last_arm { emit_pop_top }`), so the
    last arm is taken unconditionally; a wildcard arm has no guard (`armTaken`)
  * crates/erg_compiler/lib/core/_erg_contains_operator.py `contains_operator` on the pattern types of G (`contains`: a class is
    `_isinstance` or `try_new`, an interval is `Range.__contains__`, a literal enum is set membership, a union is `any`); the table
    is validated against the real Python function on every run (rows `(contains P v)`)
A wildcard arm `_` has the pattern type `Obj` (`rhs.link(&Obj)`).
-/
namespace ErgVerif.C33
open ErgVerif ErgVerif.C06

/-- `Context::union_pred` -/
def unionPred (ord : List Pred → List Pred) (l r : Pred) : Pred :=
  match isSuperPred (Cfg.current ord) l r, isSuperPred (Cfg.current ord) r l with
  | true, _ => l
  | false, true => r
  | false, false => Pred.mkOr l r

/-- `Context::union` on G (`simple_union` decides by `supertype_of`/`subtype_of`) -/
def unionT (T : Table) (ord : List Pred → List Pred) (lhs rhs : Ty) : Ty :=
  let sup := fun a b => superOf T Fx.code ord a b
  let simple := fun (a b : Ty) =>
    match sup a b, sup b a with
    | true, _ => a
    | false, true => b
    | false, false => Ty.or (.cons a (.cons b .nil))
  if tyEq (lhs.size + 1) lhs rhs then lhs else
  match lhs, rhs with
  | .refine lb lp, .refine rb rp =>
    -- union_refinement: union of the bases (`simple_union` on two classes), `union_pred` on the predicates
    let b := match simple (.mono lb) (.mono rb) with
      | .mono k => k
      | _ => lb
    .refine b (unionPred ord lp rp)
  | .refine b _, .mono k => if b = k then .mono k else simple lhs rhs
  | .mono k, .refine b _ => if b = k then .mono k else simple lhs rhs
  | .or ls, other =>
    -- union_add: absorbed by a member above it, else inserted
    if ls.toList.any (fun l => sup l other) then lhs else .or (TyList.ofList (ls.toList ++ [other]))
  | other, .or rs =>
    if rs.toList.any (fun r => sup r other) then rhs else .or (TyList.ofList (rs.toList ++ [other]))
  | t, .mono k => if k = T.iNever then t else simple lhs rhs
  | .mono k, t => if k = T.iNever then t else simple lhs rhs
  | _, _ => simple lhs rhs

/-- the fold of `get_match_call_t` -/
def unionAll (T : Table) (ord : List Pred → List Pred) (arms : List Ty) : Ty :=
  arms.foldl (unionT T ord) (.mono T.iNever)

/-- acceptance of `match x: arms…` for a scrutinee of type `s` -/
def accepted (T : Table) (ord : List Pred → List Pred) (s : Ty) (arms : List Ty) : Bool :=
  superOf T Fx.code ord (unionAll T ord arms) s

/-- `contains_operator(pattern type, value)` on the pattern types of G -/
def contains (T : Table) : Ty → Val → Bool
  | .mono k, v =>
    -- a class: `_isinstance(elem, y)` or `y.try_new(elem)` succeeds; `Obj` contains everything
    if k = T.iObj then true
    else match v with
      | .int i => if k = T.iInt then true else if k = T.iNat then decide (0 ≤ i) else false
      | .str _ => k == T.iStr
      | _ => false
  | .refine b p, v =>
    -- an interval (`Range.__contains__`) or a literal enum (set membership): the value satisfies the predicate; a string is never
    -- in an integer range/set and vice versa
    match v with
    | .int i => (b == T.iInt || b == T.iNat) && p.sat i
    | .str c => b == T.iStr && p.sat c
    | _ => false
  | .or ts, v => containsAny T ts v
  | _, _ => false
where containsAny (T : Table) : TyList → Val → Bool
  | .nil, _ => false
  | .cons t ts, v => contains T t v || containsAny T ts v

/-- the arm the emitted code takes: the first arm (other than the last) whose guard holds, else the last one -/
def armTaken (T : Table) : List Ty → Val → Nat
  | [], _ => 0
  | [_], _ => 0
  | p :: q :: ps, v => if contains T p v then 0 else armTaken T (q :: ps) v + 1

/-- DEFECT (recorded finding C33-arm-test-type-error): the guard itself raises `TypeError` for a string value when the pattern is
    the class `Nat` (`Nat.try_new` evaluates `i >= 0` before looking at the type of `i`) or an interval (`Range.__contains__`
    evaluates `start <= item <= end`); a union evaluates all its members (`any([... for t in y.__args__])`). Literal enums (set
    membership), `Int`, `Str`, `Obj` never raise. -/
def crashes (T : Table) : Ty → Val → Bool
  | .mono k, v => (match v with | .str _ => k == T.iNat | _ => false)
  | .refine b p, v =>
    (match v with
     | .str _ => (b == T.iInt || b == T.iNat) && (match p with | .and _ _ => true | .ge _ => true | .le _ => true | _ => false)
     | _ => false)
  | .or ts, v => crashesAny T ts v
  | _, _ => false
where crashesAny (T : Table) : TyList → Val → Bool
  | .nil, _ => false
  | .cons t ts, v => crashes T t v || crashesAny T ts v

/-- the same for an arm as written: a NON-NEGATIVE INTEGER LITERAL arm (`0 -> …`, `10 -> …`; flag `true`, pattern type `{k}` over
    `Nat`) additionally wraps the scrutinee in `Nat(…)` before comparing: `Nat.__init__` raises `ValueError` for a NEGATIVE integer
    ("Nat can't be negative") and for a string (`int('s1')`). The enum arm `(e: {10})` of the same type does not (observed on the
    emitted code: `f(x: Int) = match x: 0 -> 0; _ -> 1; f(-1)` dies, with `(e: {0})` it prints 1). Negative literal arms are not
    modelled (not observed): the driver answers out-of-model for them. -/
def crashesArm (T : Table) (arm : Ty × Bool) (v : Val) : Bool :=
  crashes T arm.1 v ||
    (arm.2 && (match arm.1, v with
      | .refine b _, .str _ => b == T.iNat
      | .refine b _, .int i => b == T.iNat && decide (i < 0)
      | _, _ => false))

/-- what the emitted code does with the defect in: `none` = the test of some arm raised before an arm was taken.
    Arms carry the flag "written as an integer literal". -/
def armOutcome (T : Table) : List (Ty × Bool) → Val → Option Nat
  | [], _ => some 0
  | [a], v => if crashesArm T a v then none else some 0
  | a :: b :: rest, v =>
    if crashesArm T a v then none
    else if contains T a.1 v then some 0
    else (armOutcome T (b :: rest) v).map (· + 1)

/-- pattern types whose run-time test is exact: `Int`, `Nat`, `Str`, `Obj`, refinements of `Int`/`Nat`/`Str` whose values lie in
    the base class (well-formed literal enums and intervals), unions of these -/
def goodPat (T : Table) : Ty → Bool
  | .mono k => k == T.iInt || k == T.iNat || k == T.iStr || k == T.iObj
  | .refine b p => b == T.iInt || b == T.iStr || (b == T.iNat && isSuperPred (Cfg.current id) (.ge 0) p)
  | .or ts => goodAll T ts
  | _ => false
where goodAll (T : Table) : TyList → Bool
  | .nil => true
  | .cons t ts => goodPat T t && goodAll T ts

/-- scalar values a match over `Int`/`Nat`/`Str` types can receive -/
def scalarVal : Val → Bool
  | .int _ => true
  | .str _ => true
  | _ => false

end ErgVerif.C33
