import ErgVerif.C33.Model
import ErgVerif.C06.Proofs
/-!
C33 — an accepted match always has an arm that matches.
The property is the composition  accepted ⇒ (the arm patterns cover the scrutinee type) ⇒ (the arm taken contains the value).
The second implication is proved here in full (`C33_taken_matches` + `C33_contains_correct`); the first is C06's soundness plus the
exactness of `union`, of which the refinement part is proved (`C33_union_pred_exact`) and the rest is exercised differentially.
-/
namespace ErgVerif.C33
open ErgVerif ErgVerif.C06

/-- RUN TIME, full strength: if some arm's guard holds for `v`, the arm the emitted code takes (arms in order, the last arm
    unconditionally) is one whose guard holds — in particular the unconditional last arm only ever receives values it contains,
    and "no arm matched" cannot happen -/
theorem C33_taken_matches (T : Table) : ∀ (arms : List Ty) (v : Val), (∃ p ∈ arms, contains T p v = true) →
    ∃ p, arms[armTaken T arms v]? = some p ∧ contains T p v = true
  | [], v, h => by simp at h
  | [p], v, h => by simpa [armTaken] using h
  | p :: q :: ps, v, h => by
    by_cases hp : contains T p v = true
    · exact ⟨p, by simp [armTaken, hp], hp⟩
    · have h' : ∃ r ∈ q :: ps, contains T r v = true := by
        obtain ⟨r, hr, hc⟩ := h
        rcases List.mem_cons.mp hr with rfl | hr
        · exact absurd hc hp
        · exact ⟨r, hr, hc⟩
      obtain ⟨r, hr, hc⟩ := C33_taken_matches T (q :: ps) v h'
      exact ⟨r, by simpa [armTaken, hp] using hr, hc⟩

/-- the converse reading: when NO arm contains the value the last arm is taken anyway (this is how an accepted non-exhaustive match
    misbehaves: silently, not with an error) -/
theorem C33_last_arm_unconditional (T : Table) : ∀ (arms : List Ty) (v : Val), arms ≠ [] →
    (∀ p ∈ arms, contains T p v = false) → armTaken T arms v = arms.length - 1
  | [], _, h, _ => absurd rfl h
  | [p], v, _, _ => by simp [armTaken]
  | p :: q :: ps, v, _, hall => by
    have hp : contains T p v = false := hall p (by simp)
    have := C33_last_arm_unconditional T (q :: ps) v (by simp) (fun r hr => hall r (by simp [hr]))
    simp [armTaken, hp, this]

/-- when no arm test raises (the recorded defect `C33-arm-test-type-error` does not strike), the emitted code takes `armTaken` -/
theorem C33_outcome_of_no_crash (T : Table) : ∀ (arms : List (Ty × Bool)) (v : Val), (∀ a ∈ arms, crashesArm T a v = false) →
    armOutcome T arms v = some (armTaken T (arms.map (·.1)) v)
  | [], _, _ => by simp [armOutcome, armTaken]
  | [a], v, h => by simp [armOutcome, armTaken, h a (by simp)]
  | a :: b :: rest, v, h => by
    have ha := h a (by simp)
    have ih := C33_outcome_of_no_crash T (b :: rest) v (fun r hr => h r (by simp [hr]))
    by_cases hc : contains T a.1 v = true <;> simp_all [armOutcome, armTaken]

/-- recorded finding `C33-arm-test-type-error` — the property is FALSE of the code: `f(x: Nat or Str) = match x: (n: Nat) -> 0; _ -> 1`
    is accepted, `"s0"` is a value of the scrutinee type, and the guard of the first arm raises before any arm is taken -/
theorem C33_witness_arm_test_crash :
    let s : Ty := .or (.cons (.mono genTable.iNat) (.cons (.mono genTable.iStr) .nil))
    accepted genTable id s [.mono genTable.iNat, .mono genTable.iObj] = true ∧ den genTable s (.str 0) = true ∧
    armOutcome genTable [(.mono genTable.iNat, false), (.mono genTable.iObj, false)] (.str 0) = none ∧
    -- the integer literal arm `10` raises as well, the enum arm `(e: {10})` of the same type does not
    armOutcome genTable [(.refine genTable.iNat (.eq 10), true), (.mono genTable.iObj, false)] (.str 0) = none ∧
    armOutcome genTable [(.refine genTable.iNat (.eq 10), false), (.mono genTable.iObj, false)] (.str 0) = some 1 ∧
    -- and without any string: `f(x: Int) = match x: 0 -> 0; _ -> 1` is accepted, -1 is an `Int`, the literal arm raises for it
    accepted genTable id (.mono genTable.iInt) [.refine genTable.iNat (.eq 0), .mono genTable.iObj] = true ∧
    armOutcome genTable [(.refine genTable.iNat (.eq 0), true), (.mono genTable.iObj, false)] (.int (-1)) = none ∧
    armOutcome genTable [(.refine genTable.iNat (.eq 0), false), (.mono genTable.iObj, false)] (.int (-1)) = some 1 := by
  decide +kernel

/-- recorded finding `C33-nonexhaustive-accepted` — the property is FALSE of the code: `f(x: 0..3) = match x: (s: Str) -> 0; (i: 0..2) -> 1`
    is accepted (C06's unsound `derefine` step), 3 is a value of the scrutinee type, no arm contains it, and the emitted code takes the
    last arm; the repaired variant of C06 rejects the match -/
theorem C33_witness_nonexhaustive_accepted :
    let s : Ty := .refine genTable.iInt (.and (.ge 0) (.le 3))
    let arms : List Ty := [.mono genTable.iStr, .refine genTable.iInt (.and (.ge 0) (.le 2))]
    accepted genTable id s arms = true ∧ den genTable s (.int 3) = true ∧
    (∀ p ∈ arms, contains genTable p (.int 3) = false) ∧ armTaken genTable arms (.int 3) = 1 ∧
    superOf genTable Fx.repaired id (unionAll genTable id arms) s = false := by
  decide +kernel

/-- the facts about the class table the run-time test relies on (who is an instance of `Int`, `Nat`, `Str`, `Obj`) -/
structure TableFacts (T : Table) : Prop where
  intBool : monoSup T T.iInt T.iBool = true
  intNat : monoSup T T.iInt T.iNat = true
  intInt : monoSup T T.iInt T.iInt = true
  natBool : monoSup T T.iNat T.iBool = true
  natNat : monoSup T T.iNat T.iNat = true
  natInt : monoSup T T.iNat T.iInt = false
  strStr : monoSup T T.iStr T.iStr = true
  strBool : monoSup T T.iStr T.iBool = false
  strNat : monoSup T T.iStr T.iNat = false
  strInt : monoSup T T.iStr T.iInt = false
  intStr : monoSup T T.iInt T.iStr = false
  natStr : monoSup T T.iNat T.iStr = false
  objBool : monoSup T T.iObj T.iBool = true
  objNat : monoSup T T.iObj T.iNat = true
  objInt : monoSup T T.iObj T.iInt = true
  objStr : monoSup T T.iObj T.iStr = true
  distinct : T.iInt ≠ T.iNat ∧ T.iInt ≠ T.iStr ∧ T.iInt ≠ T.iObj ∧ T.iNat ≠ T.iStr ∧ T.iNat ≠ T.iObj ∧ T.iStr ≠ T.iObj

/-- the table generated from the real builtin context on this run has them -/
theorem C33_table_facts : TableFacts genTable := by
  constructor <;> decide +kernel

/-- `denMono` of the four classes on integers and strings -/
theorem denMono_int (T : Table) (F : TableFacts T) (i : Int) :
    denMono T T.iInt (.int i) = true ∧ denMono T T.iNat (.int i) = decide (0 ≤ i) ∧ denMono T T.iStr (.int i) = false ∧
    denMono T T.iObj (.int i) = true := by
  simp only [denMono, clsOfInt]
  by_cases h1 : i = 0 ∨ i = 1
  · simp [h1, F.intBool, F.natBool, F.strBool, F.objBool]; omega
  · by_cases h2 : 0 ≤ i
    · simp [h1, h2, F.intNat, F.natNat, F.strNat, F.objNat]
    · simp [h1, h2, F.intInt, F.natInt, F.strInt, F.objInt]

theorem denMono_str (T : Table) (F : TableFacts T) (c : Int) :
    denMono T T.iInt (.str c) = false ∧ denMono T T.iNat (.str c) = false ∧ denMono T T.iStr (.str c) = true ∧
    denMono T T.iObj (.str c) = true := by
  simp [denMono, F.intStr, F.natStr, F.strStr, F.objStr]

set_option linter.unusedSimpArgs false in
/-- the class arms: `contains_operator(C, v)` is membership in ⟦C⟧ for `C ∈ {Int, Nat, Str, Obj}` on integers and strings -/
theorem C33_contains_correct_class (T : Table) (F : TableFacts T) (k : Nat)
    (hk : k = T.iInt ∨ k = T.iNat ∨ k = T.iStr ∨ k = T.iObj) (v : Val) (hv : scalarVal v = true) :
    contains T (.mono k) v = den T (.mono k) v := by
  obtain ⟨d1, d2, d3, d4, d5, d6⟩ := F.distinct
  cases v with
  | int i =>
    have h := denMono_int T F i
    rcases hk with rfl | rfl | rfl | rfl <;> simp [contains, den, h, d1, d2, d3, d4, d5, d6, Ne.symm d1, Ne.symm d2, Ne.symm d3, Ne.symm d4, Ne.symm d5, Ne.symm d6]
  | str c =>
    have h := denMono_str T F c
    rcases hk with rfl | rfl | rfl | rfl <;> simp [contains, den, h, d1, d2, d3, d4, d5, d6, Ne.symm d1, Ne.symm d2, Ne.symm d3, Ne.symm d4, Ne.symm d5, Ne.symm d6]
  | obj _ => simp [scalarVal] at hv
  | list _ => simp [scalarVal] at hv
  | tuple _ => simp [scalarVal] at hv

set_option linter.unusedSimpArgs false in
/-- interval and literal-enum arms: `Range.__contains__` / set membership is membership in ⟦{I: B | P}⟧ for `B ∈ {Int, Str}`, and for
    `B = Nat` when the predicate only admits non-negative integers (a well-formed `Nat` enum/interval: `I >= 0 :> P`, C03) -/
theorem C33_contains_correct_refine (T : Table) (F : TableFacts T) (b : Nat) (p : Pred) (v : Val) (hv : scalarVal v = true)
    (hb : b = T.iInt ∨ b = T.iStr ∨ (b = T.iNat ∧ isSuperPred (Cfg.current id) (.ge 0) p = true)) :
    contains T (.refine b p) v = den T (.refine b p) v := by
  obtain ⟨d1, d2, d3, d4, d5, d6⟩ := F.distinct
  cases v with
  | int i =>
    have h := denMono_int T F i
    rcases hb with rfl | rfl | ⟨rfl, hp⟩
    · simp [contains, den, h]
    · simp [contains, den, h, Ne.symm d2, Ne.symm d4]
    · have hs := isSuper_sound (Cfg.current id) (by simp [Cfg.current]) rfl (fun _ _ => Iff.rfl) _ (.ge 0) p hp i
      simp only [contains, den, h, beq_self_eq_true, Bool.or_true, Bool.true_and]
      cases hq : p.sat i
      · simp
      · have := hs hq; simp [Pred.sat] at this; simp [this]
  | str c =>
    have h := denMono_str T F c
    rcases hb with rfl | rfl | ⟨rfl, _⟩
    · simp [contains, den, h, d2]
    · simp [contains, den, h]
    · simp [contains, den, h, d4]
  | obj _ => simp [scalarVal] at hv
  | list _ => simp [scalarVal] at hv
  | tuple _ => simp [scalarVal] at hv
/-- `Context::union_pred` is EXACT: the union of two refinement predicates denotes the union of the sets, whatever branch is taken
    (absorption uses C03's soundness; the `or` smart constructor is C32's) -/
theorem C33_union_pred_exact (ord : List Pred → List Pred) (hord : OrdOK ord) (l r : Pred) (i : Int) :
    (unionPred ord l r).sat i = (l.sat i || r.sat i) := by
  have hs : ∀ p q, isSuperPred (Cfg.current ord) p q = true → ∀ j : Int, q.sat j = true → p.sat j = true :=
    fun p q h => isSuper_sound (Cfg.current ord) (by simp [Cfg.current]) rfl hord (p.weight + q.weight + 1) p q h
  cases h1 : isSuperPred (Cfg.current ord) l r <;> cases h2 : isSuperPred (Cfg.current ord) r l <;>
    simp only [unionPred, h1, h2]
  · exact sat_mkOr l r i
  · have := hs r l h2 i
    cases hl : l.sat i <;> cases hr : r.sat i <;> simp_all
  · have := hs l r h1 i
    cases hl : l.sat i <;> cases hr : r.sat i <;> simp_all
  · have := hs l r h1 i
    cases hl : l.sat i <;> cases hr : r.sat i <;> simp_all

/-- `{1} or {3}` stays `{1, 3}`: it does not become the interval `1..3` (2 is not a member) -/
theorem C33_union_not_widened :
    unionT genTable id (.refine genTable.iNat (.eq 1)) (.refine genTable.iNat (.eq 3)) =
      .refine genTable.iNat (.or (PredList.ofList [.eq 1, .eq 3])) ∧
    den genTable (unionT genTable id (.refine genTable.iNat (.eq 1)) (.refine genTable.iNat (.eq 3))) (.int 2) = false := by
  decide +kernel

/-- finding #24 of the design (`f(x: {I: Int | I >= 5 and I >= 6}) = match x: (i: 0..10) -> "in"`, accepted before the fix
    2ac572f9 of C03's `(And, And)` arm) is rejected by the transcription of the current code -/
theorem C33_finding24_rejected :
    accepted genTable id (.refine genTable.iInt (.and (.ge 5) (.ge 6))) [.refine genTable.iInt (.and (.ge 0) (.le 10))] = false := by
  decide +kernel

/-! ### non-vacuity -/
example : accepted genTable id (.mono genTable.iInt) [.refine genTable.iNat (.eq 0), .mono genTable.iNat, .mono genTable.iObj] = true := by
  decide +kernel
example : armTaken genTable [.refine genTable.iNat (.eq 0), .mono genTable.iNat, .mono genTable.iObj] (.int (-1)) = 2 := by decide +kernel
example : armTaken genTable [.refine genTable.iNat (.eq 0), .mono genTable.iNat, .mono genTable.iObj] (.int 7) = 1 := by decide +kernel

end ErgVerif.C33
