import ErgVerif.C18.Model
/-! Helper lemmas for C18: the JSON parser reads back what the layout-parametrised printer writes. -/
namespace ErgVerif.C18
open Json

/-! ### white space -/

def WsOnly (w : List Char) : Prop := ∀ c ∈ w, isWs c = true

theorem skipWs_append_ws (w r : List Char) (h : WsOnly w) : skipWs (w ++ r) = skipWs r := by
  induction w with
  | nil => rfl
  | cons c w ih =>
    have hc : isWs c = true := h c (by simp)
    have hw : WsOnly w := fun d hd => h d (by simp [hd])
    simp [skipWs, hc, ih hw]

theorem skipWs_cons_of_not_ws (c : Char) (r : List Char) (h : isWs c = false) : skipWs (c :: r) = c :: r := by
  simp [skipWs, h]

/-! ### strings -/

theorem hexVal_hexDigit : ∀ n, n < 16 → hexVal (hexDigit n) = some n := by decide

theorem parseStrAux_escJ (s : List Char) : ∀ (acc rest : List Char),
    parseStrAux .norm none acc (escJ s ++ '"' :: rest) = some (acc.reverse ++ s, rest) := by
  induction s with
  | nil => intro acc rest; simp [escJ, parseStrAux]
  | cons c s ih =>
    intro acc rest
    unfold escJ
    split
    · next h => subst h; simp [parseStrAux, simpleEsc, ih]
    split
    · next h => subst h; simp [parseStrAux, simpleEsc, ih]
    split
    · next h => subst h; simp [parseStrAux, simpleEsc, ih]
    split
    · next h => subst h; simp [parseStrAux, simpleEsc, ih]
    split
    · next h => subst h; simp [parseStrAux, simpleEsc, ih]
    split
    · next h1 h2 h3 h4 h5 h =>
      have hd1 : c.toNat / 16 < 16 := by omega
      have hd2 : c.toNat % 16 < 16 := by omega
      have e0 : hexVal '0' = some 0 := by decide
      simp only [List.cons_append, parseStrAux, if_neg (by decide : ¬ ('\\' : Char) = '"'), if_true, e0,
        hexVal_hexDigit _ hd1, hexVal_hexDigit _ hd2]
      simp
      have e : c.toNat / 16 * 16 + c.toNat % 16 = c.toNat := by omega
      rw [e, if_neg (by omega), if_neg (by omega), ih]
      simp [Char.ofNat_toNat]
    · next h1 h2 h3 h4 h5 h =>
      simp [parseStrAux, h1, h2, ih]
      omega

/-! ### numbers -/

/-- the text after a number does not continue it -/
def NoNumHead (rest : List Char) : Prop := ∀ c r, rest = c :: r → isNumChar c = false

theorem spanNum_append (t rest : List Char) (ht : ∀ c ∈ t, isNumChar c = true) (hr : NoNumHead rest) :
    spanNum (t ++ rest) = (t, rest) := by
  induction t with
  | nil =>
    cases rest with
    | nil => rfl
    | cons c r => simp [spanNum, hr c r rfl]
  | cons c t ih =>
    have hc := ht c (by simp)
    have := ih (fun d hd => ht d (by simp [hd]))
    simp [spanNum, hc, this]

theorem takeWhile_all {p : Char → Bool} (l : List Char) (h : ∀ c ∈ l, p c = true) : l.takeWhile p = l := by
  induction l with
  | nil => rfl
  | cons c l ih => simp [List.takeWhile, h c (by simp), ih (fun d hd => h d (by simp [hd]))]

theorem dropWhile_all {p : Char → Bool} (l : List Char) (h : ∀ c ∈ l, p c = true) : l.dropWhile p = [] := by
  induction l with
  | nil => rfl
  | cons c l ih => simp [List.dropWhile, h c (by simp), ih (fun d hd => h d (by simp [hd]))]

theorem natText_digits (n : Nat) : ∀ c ∈ natText n, c.isDigit = true :=
  fun _ hc => Nat.isDigit_of_mem_toDigits (by decide) (by decide) hc

theorem digitChar_ne_zero : ∀ n, n < 10 → 0 < n → Nat.digitChar n ≠ '0' := by decide

theorem natText_head (n : Nat) (hn : 0 < n) : ∃ c r, natText n = c :: r ∧ c ≠ '0' := by
  induction n using Nat.strongRecOn with
  | _ n ih =>
    unfold natText
    rw [Nat.toDigits_eq_if (by decide)]
    split
    · next h => exact ⟨_, [], rfl, digitChar_ne_zero n h hn⟩
    · next h =>
      obtain ⟨c, r, e, hc⟩ := ih (n / 10) (by omega) (by omega)
      unfold natText at e
      exact ⟨c, r ++ [Nat.digitChar (n % 10)], by rw [e]; rfl, hc⟩

theorem validIntPart_natText (n : Nat) : validIntPart (natText n) = true := by
  cases n with
  | zero => decide
  | succ m =>
    obtain ⟨c, r, e, hc⟩ := natText_head (m + 1) (by omega)
    have hd : c.isDigit = true := natText_digits (m + 1) c (by rw [e]; simp)
    rw [e]
    cases r with
    | nil => simp [validIntPart, hd]
    | cons d r => simp [validIntPart, hc]

theorem natText_ne_minus (n : Nat) : ∀ r, natText n ≠ '-' :: r := by
  intro r e
  have := natText_digits n '-' (by rw [e]; simp)
  exact absurd this (by decide)

theorem isNumChar_of_digit (c : Char) (h : c.isDigit = true) : isNumChar c = true := by simp [isNumChar, h]

theorem numOfText_natText (n : Nat) : numOfText (natText n) = some (.int n) := by
  have hd := natText_digits n
  have hs : stripMinus (natText n) = natText n := by
    unfold stripMinus
    split
    · next r e => exact absurd e (natText_ne_minus n r)
    · rfl
  have hi : intOfText (natText n) = n := by
    unfold intOfText
    split
    · next r e => exact absurd e (natText_ne_minus n r)
    · simp [natText]
  simp [numOfText, validNum, isIntForm, hs, takeWhile_all _ hd, dropWhile_all _ hd, validIntPart_natText, validFracExp, hi]
  exact hd

theorem numOfText_neg_natText (n : Nat) : numOfText ('-' :: natText n) = some (.int (-(n : Int))) := by
  have hd := natText_digits n
  have hi : intOfText ('-' :: natText n) = -(n : Int) := by simp [intOfText, natText]
  simp [numOfText, validNum, isIntForm, stripMinus, takeWhile_all _ hd, dropWhile_all _ hd, validIntPart_natText, validFracExp, hi]
  exact hd

theorem numOfText_intText (i : Int) : numOfText (intText i) = some (.int i) := by
  unfold intText
  split
  · next h => rw [numOfText_neg_natText]; congr 2; omega
  · next h => rw [numOfText_natText]; congr 2; omega

theorem intText_numChars (i : Int) : ∀ c ∈ intText i, isNumChar c = true := by
  intro c hc
  unfold intText at hc
  split at hc
  · cases hc with
    | head => decide
    | tail _ h => exact isNumChar_of_digit c (natText_digits _ c h)
  · exact isNumChar_of_digit c (natText_digits _ c hc)

theorem intText_head (i : Int) : ∃ c r, intText i = c :: r ∧ (c = '-' ∨ c.isDigit = true) := by
  unfold intText
  split
  · exact ⟨'-', _, rfl, Or.inl rfl⟩
  · cases e : natText i.toNat with
    | nil => exact absurd e (by unfold natText; exact Nat.toDigits_ne_nil)
    | cons c r => exact ⟨c, r, rfl, Or.inr (natText_digits _ c (by rw [e]; simp))⟩

theorem parseNum_intText (i : Int) (rest : List Char) (hr : NoNumHead rest) :
    parseNum (intText i ++ rest) = some (.int i, rest) := by
  simp [parseNum, spanNum_append _ _ (intText_numChars i) hr, numOfText_intText]

theorem parseNum_dec (t rest : List Char) (h : decOk t = true) (hr : NoNumHead rest) :
    parseNum (t ++ rest) = some (.dec t, rest) := by
  simp only [decOk, Bool.and_eq_true, Bool.not_eq_true', List.all_eq_true] at h
  obtain ⟨⟨⟨h1, h2⟩, h3⟩, _⟩ := h
  simp [parseNum, spanNum_append _ _ h3 hr, numOfText, h1, h2]

/-! ### values -/

mutual
  def wfV : JVal → Bool
    | .dec t => decOk t
    | .arr xs => wfL xs
    | .obj ms => wfM ms
    | _ => true
  def wfL : JList → Bool
    | .nil => true
    | .cons x xs => wfV x && wfL xs
  def wfM : JMems → Bool
    | .nil => true
    | .cons _ v ms => wfV v && wfM ms
end

mutual
  def sizeV : JVal → Nat
    | .arr (.cons x xs) => 1 + sizeV x + sizeE xs
    | .obj (.cons _ v ms) => 1 + sizeV v + sizeM ms
    | _ => 1
  def sizeE : JList → Nat
    | .nil => 1
    | .cons x xs => 1 + sizeV x + sizeE xs
  def sizeM : JMems → Nat
    | .nil => 1
    | .cons _ v ms => 1 + sizeV v + sizeM ms
end

structure LayWs (l : Lay) : Prop where
  opn : WsOnly l.opn
  sep : WsOnly l.sep
  col : WsOnly l.col
  cls : WsOnly l.cls

theorem pv_null (f : Nat) (rest : List Char) : parseVal (f + 1) ('n' :: 'u' :: 'l' :: 'l' :: rest) = some (.null, rest) := by
  simp [parseVal, skipWs, isWs]

theorem pv_true (f : Nat) (rest : List Char) : parseVal (f + 1) ('t' :: 'r' :: 'u' :: 'e' :: rest) = some (.bool true, rest) := by
  simp [parseVal, skipWs, isWs]

theorem pv_false (f : Nat) (rest : List Char) : parseVal (f + 1) ('f' :: 'a' :: 'l' :: 's' :: 'e' :: rest) = some (.bool false, rest) := by
  simp [parseVal, skipWs, isWs]

theorem pv_str (f : Nat) (s rest : List Char) : parseVal (f + 1) (quoteJ s ++ rest) = some (.str s, rest) := by
  simp [parseVal, quoteJ, skipWs, isWs, parseStr, parseStrAux_escJ]

theorem digit_toNat (c : Char) (h : c.isDigit = true) : 48 ≤ c.toNat ∧ c.toNat ≤ 57 := by
  simp only [Char.isDigit, Bool.and_eq_true, decide_eq_true_eq] at h
  obtain ⟨h1, h2⟩ := h
  have a1 := UInt32.le_iff_toNat_le.mp h1
  have a2 := UInt32.le_iff_toNat_le.mp h2
  simp only [Char.toNat]
  exact ⟨a1, a2⟩

theorem numHead_ne (c : Char) (h : c = '-' ∨ c.isDigit = true) (d : Char) (hd : d.toNat < 45 ∨ 57 < d.toNat) : c ≠ d := by
  intro e
  subst e
  rcases h with h | h
  · subst h; revert hd; decide
  · have := digit_toNat c h; omega

theorem pv_num (f : Nat) (c : Char) (r : List Char) (h : c = '-' ∨ c.isDigit = true) :
    parseVal (f + 1) (c :: r) = parseNum (c :: r) := by
  have n1 := numHead_ne c h ' ' (by decide)
  have n2 := numHead_ne c h '\n' (by decide)
  have n3 := numHead_ne c h '\r' (by decide)
  have n4 := numHead_ne c h '\t' (by decide)
  have n5 := numHead_ne c h '{' (by decide)
  have n6 := numHead_ne c h '[' (by decide)
  have n7 := numHead_ne c h '"' (by decide)
  have n8 := numHead_ne c h 't' (by decide)
  have n9 := numHead_ne c h 'f' (by decide)
  have n10 := numHead_ne c h 'n' (by decide)
  have hws : isWs c = false := by simp [isWs, n1, n2, n3, n4]
  unfold parseVal
  simp only [skipWs, hws]
  split <;> simp_all
  intro a b
  rcases h with h | h
  · exact absurd h a
  · rw [h] at b; exact absurd b (by decide)

/-! unfolding lemmas for the container arms -/

theorem pv_arr_nil (f : Nat) (cs r' : List Char) (h : skipWs cs = ']' :: r') :
    parseVal (f + 1) ('[' :: cs) = some (.arr .nil, r') := by
  unfold parseVal
  simp [skipWs, isWs, h]

theorem pv_arr_cons (f : Nat) (cs : List Char) (c : Char) (r1 r2 r3 : List Char) (v : JVal) (xs : JList)
    (h : skipWs cs = c :: r1) (hc : c ≠ ']') (hv : parseVal f (c :: r1) = some (v, r2))
    (he : parseElemTail f r2 = some (xs, r3)) :
    parseVal (f + 1) ('[' :: cs) = some (.arr (.cons v xs), r3) := by
  unfold parseVal
  have e : skipWs ('[' :: cs) = '[' :: cs := by simp [skipWs, isWs]
  rw [e]
  simp only [h]
  split
  · next heq => simp at heq; exact absurd heq.1 hc
  · simp [hv, he]

theorem pv_obj_nil (f : Nat) (cs r' : List Char) (h : skipWs cs = '}' :: r') :
    parseVal (f + 1) ('{' :: cs) = some (.obj .nil, r') := by
  unfold parseVal
  simp [skipWs, isWs, h]

theorem pv_obj_cons (f : Nat) (cs r' r2 r3 r4 r5 k : List Char) (v : JVal) (ms : JMems)
    (h : skipWs cs = '"' :: r') (hk : parseStr r' = some (k, r2)) (hcol : skipWs r2 = ':' :: r3)
    (hv : parseVal f r3 = some (v, r4)) (hm : parseMemTail f r4 = some (ms, r5)) :
    parseVal (f + 1) ('{' :: cs) = some (.obj (.cons k v ms), r5) := by
  unfold parseVal
  simp [skipWs, isWs, h, hk, hcol, hv, hm]

theorem pe_nil (f : Nat) (cs r : List Char) (h : skipWs cs = ']' :: r) : parseElemTail (f + 1) cs = some (.nil, r) := by
  unfold parseElemTail
  simp [h]

theorem pe_cons (f : Nat) (cs r r2 r3 : List Char) (v : JVal) (xs : JList) (h : skipWs cs = ',' :: r)
    (hv : parseVal f r = some (v, r2)) (he : parseElemTail f r2 = some (xs, r3)) :
    parseElemTail (f + 1) cs = some (.cons v xs, r3) := by
  unfold parseElemTail
  simp [h, hv, he]

theorem pm_nil (f : Nat) (cs r : List Char) (h : skipWs cs = '}' :: r) : parseMemTail (f + 1) cs = some (.nil, r) := by
  unfold parseMemTail
  simp [h]

theorem pm_cons (f : Nat) (cs r r' r2 r3 r4 r5 k : List Char) (v : JVal) (ms : JMems) (h : skipWs cs = ',' :: r)
    (hq : skipWs r = '"' :: r') (hk : parseStr r' = some (k, r2)) (hcol : skipWs r2 = ':' :: r3)
    (hv : parseVal f r3 = some (v, r4)) (hm : parseMemTail f r4 = some (ms, r5)) :
    parseMemTail (f + 1) cs = some (.cons k v ms, r5) := by
  unfold parseMemTail
  simp [h, hq, hk, hcol, hv, hm]

/-! heads of printed values -/

theorem isWs_not_num (c : Char) (h : isWs c = true) : isNumChar c = false := by
  simp only [isWs, Bool.or_eq_true, decide_eq_true_eq] at h
  rcases h with ((h | h) | h) | h <;> subst h <;> decide

theorem noNumHead_nil : NoNumHead [] := by intro c r e; cases e

theorem noNumHead_cons (c : Char) (r : List Char) (h : isNumChar c = false) : NoNumHead (c :: r) := by
  intro c' r' e; cases e; exact h

theorem noNumHead_ws_append (w : List Char) (c : Char) (r : List Char) (hw : WsOnly w) (hc : isNumChar c = false) :
    NoNumHead (w ++ c :: r) := by
  cases w with
  | nil => exact noNumHead_cons c r hc
  | cons d w => exact noNumHead_cons d _ (isWs_not_num d (hw d (by simp)))

theorem numHead_props (c : Char) (h : c = '-' ∨ c.isDigit = true) : isWs c = false ∧ c ≠ ']' ∧ c ≠ '}' := by
  have n1 := numHead_ne c h ' ' (by decide)
  have n2 := numHead_ne c h '\n' (by decide)
  have n3 := numHead_ne c h '\r' (by decide)
  have n4 := numHead_ne c h '\t' (by decide)
  exact ⟨by simp [isWs, n1, n2, n3, n4], numHead_ne c h ']' (by decide), numHead_ne c h '}' (by decide)⟩

theorem printVal_head (L : Nat → Lay) (d : Nat) (v : JVal) (hv : wfV v = true) :
    ∃ c r, printVal L d v = c :: r ∧ isWs c = false ∧ c ≠ ']' ∧ c ≠ '}' := by
  cases v with
  | null => exact ⟨'n', _, rfl, by decide, by decide, by decide⟩
  | bool b => cases b <;> exact ⟨_, _, rfl, by decide, by decide, by decide⟩
  | int i =>
    obtain ⟨c, r, e, h⟩ := intText_head i
    exact ⟨c, r, by simp [printVal, e], numHead_props c h⟩
  | dec t =>
    simp only [wfV, decOk, Bool.and_eq_true] at hv
    obtain ⟨_, h4⟩ := hv
    cases t with
    | nil => simp at h4
    | cons c r =>
      simp only [Bool.or_eq_true, decide_eq_true_eq] at h4
      exact ⟨c, r, by simp [printVal], numHead_props c h4⟩
  | str s => exact ⟨'"', _, rfl, by decide, by decide, by decide⟩
  | arr xs => cases xs <;> exact ⟨'[', _, rfl, by decide, by decide, by decide⟩
  | obj ms => cases ms <;> exact ⟨'{', _, rfl, by decide, by decide, by decide⟩

theorem parseVal_ws (f : Nat) (w cs : List Char) (hw : WsOnly w) : parseVal f (w ++ cs) = parseVal f cs := by
  cases f with
  | zero => simp [parseVal]
  | succ f => unfold parseVal; rw [skipWs_append_ws _ _ hw]

theorem parseStr_quoteJ (k R : List Char) : parseStr (escJ k ++ '"' :: R) = some (k, R) := by
  simp [parseStr, parseStrAux_escJ]

theorem skipWs_ws_then (w : List Char) (c : Char) (r : List Char) (hw : WsOnly w) (hc : isWs c = false) :
    skipWs (w ++ c :: r) = c :: r := by
  rw [skipWs_append_ws _ _ hw]; simp [skipWs, hc]

theorem noNum_elemTail (L : Nat → Lay) (hL : ∀ d, LayWs (L d)) (d : Nat) (xs : JList) (rest : List Char) :
    NoNumHead (printElemTail L d xs ++ ((L d).cls ++ ']' :: rest)) := by
  cases xs with
  | nil => simp only [printElemTail, List.nil_append]; exact noNumHead_ws_append _ _ _ (hL d).cls (by decide)
  | cons x xs => simp only [printElemTail, List.cons_append]; exact noNumHead_cons _ _ (by decide)

theorem noNum_memTail (L : Nat → Lay) (hL : ∀ d, LayWs (L d)) (d : Nat) (ms : JMems) (rest : List Char) :
    NoNumHead (printMemTail L d ms ++ ((L d).cls ++ '}' :: rest)) := by
  cases ms with
  | nil => simp only [printMemTail, List.nil_append]; exact noNumHead_ws_append _ _ _ (hL d).cls (by decide)
  | cons k v ms => simp only [printMemTail, List.cons_append]; exact noNumHead_cons _ _ (by decide)

mutual
  theorem pv_print (L : Nat → Lay) (hL : ∀ d, LayWs (L d)) :
      ∀ (v : JVal) (d f : Nat) (rest : List Char), wfV v = true → sizeV v ≤ f → NoNumHead rest →
        parseVal f (printVal L d v ++ rest) = some (v, rest)
    | .null, d, f, rest, _, hf, _ => by
      obtain ⟨f', rfl⟩ : ∃ f', f = f' + 1 := ⟨f - 1, by simp only [sizeV] at hf; omega⟩
      exact pv_null f' rest
    | .bool true, d, f, rest, _, hf, _ => by
      obtain ⟨f', rfl⟩ : ∃ f', f = f' + 1 := ⟨f - 1, by simp only [sizeV] at hf; omega⟩
      exact pv_true f' rest
    | .bool false, d, f, rest, _, hf, _ => by
      obtain ⟨f', rfl⟩ : ∃ f', f = f' + 1 := ⟨f - 1, by simp only [sizeV] at hf; omega⟩
      exact pv_false f' rest
    | .int i, d, f, rest, _, hf, hr => by
      obtain ⟨f', rfl⟩ : ∃ f', f = f' + 1 := ⟨f - 1, by simp only [sizeV] at hf; omega⟩
      obtain ⟨c, r, e, h⟩ := intText_head i
      simp only [printVal]
      have := parseNum_intText i rest hr
      rw [e] at this ⊢
      rw [List.cons_append, pv_num f' c _ h]
      exact this
    | .dec t, d, f, rest, hw, hf, hr => by
      obtain ⟨f', rfl⟩ : ∃ f', f = f' + 1 := ⟨f - 1, by simp only [sizeV] at hf; omega⟩
      simp only [wfV] at hw
      have hp := parseNum_dec t rest hw hr
      simp only [decOk, Bool.and_eq_true] at hw
      obtain ⟨_, h4⟩ := hw
      simp only [printVal]
      cases t with
      | nil => simp at h4
      | cons c r =>
        simp only [Bool.or_eq_true, decide_eq_true_eq] at h4
        rw [List.cons_append, pv_num f' c _ h4]
        exact hp
    | .str s, d, f, rest, _, hf, _ => by
      obtain ⟨f', rfl⟩ : ∃ f', f = f' + 1 := ⟨f - 1, by simp only [sizeV] at hf; omega⟩
      exact pv_str f' s rest
    | .arr .nil, d, f, rest, _, hf, _ => by
      obtain ⟨f', rfl⟩ : ∃ f', f = f' + 1 := ⟨f - 1, by simp only [sizeV] at hf; omega⟩
      simp only [printVal, List.cons_append, List.append_assoc, List.nil_append]
      exact pv_arr_nil f' _ rest (by rw [skipWs_append_ws _ _ (hL d).opn]; exact skipWs_ws_then _ _ _ (hL d).cls (by decide))
    | .arr (.cons x xs), d, f, rest, hw, hf, hr => by
      obtain ⟨f', rfl⟩ : ∃ f', f = f' + 1 := ⟨f - 1, by simp only [sizeV] at hf; omega⟩
      simp only [sizeV] at hf
      simp only [wfV, wfL, Bool.and_eq_true] at hw
      have ihx := pv_print L hL x (d + 1) f' (printElemTail L d xs ++ ((L d).cls ++ ']' :: rest)) hw.1 (by omega)
        (noNum_elemTail L hL d xs rest)
      have ihe := pe_print L hL xs d f' rest hw.2 (by omega)
      obtain ⟨c, r, e, hws, hne, _⟩ := printVal_head L (d + 1) x hw.1
      simp only [printVal, List.cons_append, List.append_assoc, List.nil_append]
      rw [e] at ihx ⊢
      exact pv_arr_cons f' _ c _ _ _ x xs (by rw [List.cons_append]; exact skipWs_ws_then _ _ _ (hL d).opn hws) hne
        (by rw [← List.cons_append]; exact ihx) ihe
    | .obj .nil, d, f, rest, _, hf, _ => by
      obtain ⟨f', rfl⟩ : ∃ f', f = f' + 1 := ⟨f - 1, by simp only [sizeV] at hf; omega⟩
      simp only [printVal, List.cons_append, List.append_assoc, List.nil_append]
      exact pv_obj_nil f' _ rest (by rw [skipWs_append_ws _ _ (hL d).opn]; exact skipWs_ws_then _ _ _ (hL d).cls (by decide))
    | .obj (.cons k v ms), d, f, rest, hw, hf, hr => by
      obtain ⟨f', rfl⟩ : ∃ f', f = f' + 1 := ⟨f - 1, by simp only [sizeV] at hf; omega⟩
      simp only [sizeV] at hf
      simp only [wfV, wfM, Bool.and_eq_true] at hw
      have ihv := pv_print L hL v (d + 1) f' (printMemTail L d ms ++ ((L d).cls ++ '}' :: rest)) hw.1 (by omega)
        (noNum_memTail L hL d ms rest)
      have ihm := pm_print L hL ms d f' rest hw.2 (by omega)
      simp only [printVal, quoteJ, List.cons_append, List.append_assoc, List.nil_append]
      exact pv_obj_cons f' _ _ (':' :: ((L d).col ++ (printVal L (d + 1) v ++ (printMemTail L d ms ++ ((L d).cls ++ '}' :: rest)))))
        ((L d).col ++ (printVal L (d + 1) v ++ (printMemTail L d ms ++ ((L d).cls ++ '}' :: rest))))
        (printMemTail L d ms ++ ((L d).cls ++ '}' :: rest)) rest k v ms
        (skipWs_ws_then _ _ _ (hL d).opn (by decide)) (parseStr_quoteJ k _)
        (by simp [skipWs, isWs]) (by rw [parseVal_ws _ _ _ (hL d).col]; exact ihv) ihm
  theorem pe_print (L : Nat → Lay) (hL : ∀ d, LayWs (L d)) :
      ∀ (xs : JList) (d f : Nat) (rest : List Char), wfL xs = true → sizeE xs ≤ f →
        parseElemTail f (printElemTail L d xs ++ ((L d).cls ++ ']' :: rest)) = some (xs, rest)
    | .nil, d, f, rest, _, hf => by
      obtain ⟨f', rfl⟩ : ∃ f', f = f' + 1 := ⟨f - 1, by simp only [sizeE] at hf; omega⟩
      simp only [printElemTail, List.nil_append]
      exact pe_nil f' _ rest (skipWs_ws_then _ _ _ (hL d).cls (by decide))
    | .cons x xs, d, f, rest, hw, hf => by
      obtain ⟨f', rfl⟩ : ∃ f', f = f' + 1 := ⟨f - 1, by simp only [sizeE] at hf; omega⟩
      simp only [sizeE] at hf
      simp only [wfL, Bool.and_eq_true] at hw
      have ihx := pv_print L hL x (d + 1) f' (printElemTail L d xs ++ ((L d).cls ++ ']' :: rest)) hw.1 (by omega)
        (noNum_elemTail L hL d xs rest)
      have ihe := pe_print L hL xs d f' rest hw.2 (by omega)
      simp only [printElemTail, List.cons_append, List.append_assoc]
      exact pe_cons f' _ ((L d).sep ++ (printVal L (d + 1) x ++ (printElemTail L d xs ++ ((L d).cls ++ ']' :: rest))))
        (printElemTail L d xs ++ ((L d).cls ++ ']' :: rest)) rest x xs
        (by simp [skipWs, isWs]) (by rw [parseVal_ws _ _ _ (hL d).sep]; exact ihx) ihe
  theorem pm_print (L : Nat → Lay) (hL : ∀ d, LayWs (L d)) :
      ∀ (ms : JMems) (d f : Nat) (rest : List Char), wfM ms = true → sizeM ms ≤ f →
        parseMemTail f (printMemTail L d ms ++ ((L d).cls ++ '}' :: rest)) = some (ms, rest)
    | .nil, d, f, rest, _, hf => by
      obtain ⟨f', rfl⟩ : ∃ f', f = f' + 1 := ⟨f - 1, by simp only [sizeM] at hf; omega⟩
      simp only [printMemTail, List.nil_append]
      exact pm_nil f' _ rest (skipWs_ws_then _ _ _ (hL d).cls (by decide))
    | .cons k v ms, d, f, rest, hw, hf => by
      obtain ⟨f', rfl⟩ : ∃ f', f = f' + 1 := ⟨f - 1, by simp only [sizeM] at hf; omega⟩
      simp only [sizeM] at hf
      simp only [wfM, Bool.and_eq_true] at hw
      have ihv := pv_print L hL v (d + 1) f' (printMemTail L d ms ++ ((L d).cls ++ '}' :: rest)) hw.1 (by omega)
        (noNum_memTail L hL d ms rest)
      have ihm := pm_print L hL ms d f' rest hw.2 (by omega)
      simp only [printMemTail, quoteJ, List.cons_append, List.append_assoc, List.nil_append]
      exact pm_cons f' _
        ((L d).sep ++ '"' :: (escJ k ++ '"' :: ':' :: ((L d).col ++ (printVal L (d + 1) v ++ (printMemTail L d ms ++ ((L d).cls ++ '}' :: rest))))))
        (escJ k ++ '"' :: ':' :: ((L d).col ++ (printVal L (d + 1) v ++ (printMemTail L d ms ++ ((L d).cls ++ '}' :: rest)))))
        (':' :: ((L d).col ++ (printVal L (d + 1) v ++ (printMemTail L d ms ++ ((L d).cls ++ '}' :: rest)))))
        ((L d).col ++ (printVal L (d + 1) v ++ (printMemTail L d ms ++ ((L d).cls ++ '}' :: rest))))
        (printMemTail L d ms ++ ((L d).cls ++ '}' :: rest)) rest k v ms
        (by simp [skipWs, isWs]) (skipWs_ws_then _ _ _ (hL d).sep (by decide))
        (parseStr_quoteJ k _) (by simp [skipWs, isWs]) (by rw [parseVal_ws _ _ _ (hL d).col]; exact ihv) ihm
end

/-! ### the fuel of `parse` suffices -/

mutual
  theorem sizeV_le (L : Nat → Lay) : ∀ (v : JVal) (d : Nat), wfV v = true → sizeV v ≤ 2 * (printVal L d v).length
    | .null, d, _ => by simp [sizeV, printVal]
    | .bool true, d, _ => by simp [sizeV, printVal]
    | .bool false, d, _ => by simp [sizeV, printVal]
    | .int i, d, _ => by
      obtain ⟨c, r, e, _⟩ := intText_head i
      simp [sizeV, printVal, e]; omega
    | .dec t, d, hw => by
      obtain ⟨c, r, e, _⟩ := printVal_head L d (.dec t) hw
      simp [sizeV, e]; omega
    | .str s, d, _ => by simp [sizeV, printVal, quoteJ]; omega
    | .arr .nil, d, _ => by simp [sizeV, printVal]; omega
    | .arr (.cons x xs), d, hw => by
      simp only [wfV, wfL, Bool.and_eq_true] at hw
      have h1 := sizeV_le L x (d + 1) hw.1
      have h2 := sizeE_le L xs d hw.2
      simp only [sizeV, printVal, List.length_cons, List.length_append, List.length_nil]
      omega
    | .obj .nil, d, _ => by simp [sizeV, printVal]; omega
    | .obj (.cons k v ms), d, hw => by
      simp only [wfV, wfM, Bool.and_eq_true] at hw
      have h1 := sizeV_le L v (d + 1) hw.1
      have h2 := sizeM_le L ms d hw.2
      simp only [sizeV, printVal, List.length_cons, List.length_append, List.length_nil]
      omega
  theorem sizeE_le (L : Nat → Lay) : ∀ (xs : JList) (d : Nat), wfL xs = true → sizeE xs ≤ 2 * (printElemTail L d xs).length + 1
    | .nil, d, _ => by simp [sizeE, printElemTail]
    | .cons x xs, d, hw => by
      simp only [wfL, Bool.and_eq_true] at hw
      have h1 := sizeV_le L x (d + 1) hw.1
      have h2 := sizeE_le L xs d hw.2
      simp only [sizeE, printElemTail, List.length_cons, List.length_append]
      omega
  theorem sizeM_le (L : Nat → Lay) : ∀ (ms : JMems) (d : Nat), wfM ms = true → sizeM ms ≤ 2 * (printMemTail L d ms).length + 1
    | .nil, d, _ => by simp [sizeM, printMemTail]
    | .cons k v ms, d, hw => by
      simp only [wfM, Bool.and_eq_true] at hw
      have h1 := sizeV_le L v (d + 1) hw.1
      have h2 := sizeM_le L ms d hw.2
      simp only [sizeM, printMemTail, List.length_cons, List.length_append]
      omega
end

/-- the parser reads back every printed well-formed value, whatever the (white-space) layout -/
theorem parse_printVal (L : Nat → Lay) (hL : ∀ d, LayWs (L d)) (d : Nat) (v : JVal) (hw : wfV v = true) :
    parse (printVal L d v) = some v := by
  have h := pv_print L hL v d (2 * (printVal L d v).length + 2) [] hw (by have := sizeV_le L v d hw; omega) noNumHead_nil
  simp only [List.append_nil] at h
  simp [parse, h, skipWs]

/-! ### the generator prints the denotation -/

/-- the layout of `JsonGenerator`: members of the module object on their own lines, nested containers on one line -/
def ergLay : Nat → Lay
  | 0 => ⟨['\n'], ['\n'], [' '], ['\n']⟩
  | _ + 1 => ⟨[], [' '], [' '], []⟩

theorem ergLay_ws : ∀ d, LayWs (ergLay d)
  | 0 => ⟨by intro c h; simp [ergLay] at h; subst h; decide, by intro c h; simp [ergLay] at h; subst h; decide,
          by intro c h; simp [ergLay] at h; subst h; decide, by intro c h; simp [ergLay] at h; subst h; decide⟩
  | _ + 1 => ⟨by intro c h; simp [ergLay] at h, by intro c h; simp [ergLay] at h; subst h; decide,
          by intro c h; simp [ergLay] at h; subst h; decide, by intro c h; simp [ergLay] at h⟩

def joinTail (sep : List Char) : List (List Char) → List Char
  | [] => []
  | x :: xs => sep ++ (x ++ joinTail sep xs)

theorem joinWith_cons (sep x : List Char) (xs : List (List Char)) : joinWith sep (x :: xs) = x ++ joinTail sep xs := by
  induction xs generalizing x with
  | nil => simp [joinWith, joinTail]
  | cons y ys ih => simp [joinWith, joinTail, ih]

theorem intText_ofNat (n : Nat) : intText (n : Int) = natText n := by
  simp [intText]

theorem finite_of_decOk (r : List Char) (h : decOk r = true) : isFiniteRepr r = true := by
  cases hf : isFiniteRepr r with
  | true => rfl
  | false =>
    simp only [isFiniteRepr, Bool.and_eq_false_iff, bne_eq_false_iff_eq] at hf
    rcases hf with (hf | hf) | hf <;> subst hf <;> revert h <;> decide

theorem gen_lit (b : Binds) (d : Nat) (k : LitKind) (tok : List Char) (v : Val)
    (h : isConst (.lit k tok v) = true) :
    genExpr b (.lit k tok v) = (printVal ergLay d (denote (.lit k tok v)), 0) ∧ wfV (denote (.lit k tok v)) = true := by
  simp only [isConst, Bool.and_eq_true] at h
  obtain ⟨_, hl⟩ := h
  cases k with
  | nat =>
    simp only [litOk, readLit, beq_iff_eq] at hl
    cases hl
    simp [genExpr, valueOrErr, valueIntoJson, denote, readLit, denoteScalar, printVal, intText_ofNat, wfV]
  | int =>
    simp only [litOk, readLit] at hl
    split at hl
    · next r =>
      simp only [beq_iff_eq] at hl
      cases hl
      simp [genExpr, valueOrErr, valueIntoJson, denote, readLit, denoteScalar, printVal, wfV]
    · simp at hl
  | ratio =>
    simp only [litOk] at hl
    split at hl
    · next r =>
      simp [genExpr, valueOrErr, valueIntoJson, denote, readLit, denoteScalar, printVal, wfV, hl, finite_of_decOk r hl]
    · simp at hl
  | str =>
    simp only [litOk, readLit, beq_iff_eq] at hl
    cases hl
    simp [genExpr, valueOrErr, valueIntoJson, denote, readLit, denoteScalar, printVal, jsonStr, wfV]
  | bool =>
    simp only [litOk, readLit] at hl
    split at hl
    · next ht =>
      simp only [beq_iff_eq] at hl
      cases hl
      simp [genExpr, valueOrErr, valueIntoJson, denote, readLit, denoteScalar, printVal, wfV, ht]
    · split at hl
      · next hf ht =>
        simp only [beq_iff_eq] at hl
        cases hl
        simp [genExpr, valueOrErr, valueIntoJson, denote, readLit, denoteScalar, printVal, wfV, ht]
      · simp at hl
  | none =>
    simp only [litOk, readLit, beq_iff_eq] at hl
    cases hl
    simp [genExpr, valueOrErr, valueIntoJson, denote, readLit, denoteScalar, printVal, wfV]
  | other => simp at *

mutual
  theorem gen_const : ∀ (e : Expr) (b : Binds) (d : Nat), isConst e = true →
      genExpr b e = (printVal ergLay (d + 1) (denote e), 0) ∧ wfV (denote e) = true
    | .lit k tok v, b, d, h => gen_lit b (d + 1) k tok v h
    | .list .nil, b, d, _ => by simp [genExpr, genExprs, denote, denoteList, printVal, joinWith, ergLay, wfV, wfL]
    | .list (.cons e es), b, d, h => by
      simp only [isConst, isConstList, Bool.and_eq_true] at h
      have h1 := gen_const e b (d + 1) h.1
      have h2 := gen_const_list es b d h.2
      simp [genExpr, genExprs, denote, denoteList, printVal, joinWith_cons, ergLay, wfV, wfL, h1, h2]
    | .tuple .nil, b, d, _ => by simp [genExpr, genExprs, denote, denoteList, printVal, joinWith, ergLay, wfV, wfL]
    | .tuple (.cons e es), b, d, h => by
      simp only [isConst, isConstList, Bool.and_eq_true] at h
      have h1 := gen_const e b (d + 1) h.1
      have h2 := gen_const_list es b d h.2
      simp [genExpr, genExprs, denote, denoteList, printVal, joinWith_cons, ergLay, wfV, wfL, h1, h2]
    | .record .nil, b, d, _ => by simp [genExpr, genFields, denote, denoteFields, printVal, joinWith, ergLay, wfV, wfM]
    | .record (.cons n e fs), b, d, h => by
      simp only [isConst, isConstFields, Bool.and_eq_true] at h
      have h1 := gen_const e b (d + 1) h.1
      have h2 := gen_const_fields fs b d h.2
      simp [genExpr, genFields, denote, denoteFields, printVal, joinWith_cons, ergLay, wfV, wfM, h1, h2, jsonStr]
    | .dict .nil, b, d, _ => by simp [genExpr, genKVs, denote, denoteKVs, printVal, joinWith, ergLay, wfV, wfM]
    | .dict (.cons k e kvs), b, d, h => by
      have h2 := gen_const_kvs (.cons k e kvs) b d (by simpa [isConst] using h)
      cases k with
      | lit kk tok v =>
        cases kk <;> simp [isConst, isConstKVs] at h
        obtain ⟨⟨hl, he⟩, hk⟩ := h
        simp only [litOk, readLit, beq_iff_eq] at hl
        cases hl
        have h1 := gen_const e b (d + 1) he
        have h3 := gen_const_kvs kvs b d hk
        simp [genExpr, genKVs, denote, denoteKVs, printVal, joinWith_cons, ergLay, wfV, wfM, h1, h3, jsonStr, keyOrErr, exprIntoValue]
      | _ => simp [isConst, isConstKVs] at h
    | .acc _, _, _, h => by simp [isConst] at h
    | .fold _, _, _, h => by simp [isConst] at h
    | .nonconst, _, _, h => by simp [isConst] at h
  theorem gen_const_list : ∀ (es : Exprs) (b : Binds) (d : Nat), isConstList es = true →
      (genExprs b es).2 = 0 ∧ joinTail [',', ' '] (genExprs b es).1 = printElemTail ergLay (d + 1) (denoteList es)
        ∧ wfL (denoteList es) = true
    | .nil, b, d, _ => by simp [genExprs, joinTail, denoteList, printElemTail, wfL]
    | .cons e es, b, d, h => by
      simp only [isConstList, Bool.and_eq_true] at h
      have h1 := gen_const e b (d + 1) h.1
      have h2 := gen_const_list es b d h.2
      simp [genExprs, joinTail, denoteList, printElemTail, wfL, h1, h2, ergLay]
  theorem gen_const_fields : ∀ (fs : Fields) (b : Binds) (d : Nat), isConstFields fs = true →
      (genFields b fs).2 = 0 ∧ joinTail [',', ' '] (genFields b fs).1 = printMemTail ergLay (d + 1) (denoteFields fs)
        ∧ wfM (denoteFields fs) = true
    | .nil, b, d, _ => by simp [genFields, joinTail, denoteFields, printMemTail, wfM]
    | .cons n e fs, b, d, h => by
      simp only [isConstFields, Bool.and_eq_true] at h
      have h1 := gen_const e b (d + 1) h.1
      have h2 := gen_const_fields fs b d h.2
      simp [genFields, joinTail, denoteFields, printMemTail, wfM, h1, h2, ergLay, jsonStr]
  theorem gen_const_kvs : ∀ (kvs : KVs) (b : Binds) (d : Nat), isConstKVs kvs = true →
      (genKVs b kvs).2 = 0 ∧ joinTail [',', ' '] (genKVs b kvs).1 = printMemTail ergLay (d + 1) (denoteKVs kvs)
        ∧ wfM (denoteKVs kvs) = true
    | .nil, b, d, _ => by simp [genKVs, joinTail, denoteKVs, printMemTail, wfM]
    | .cons k e kvs, b, d, h => by
      cases k with
      | lit kk tok v =>
        cases kk <;> simp [isConstKVs] at h
        obtain ⟨⟨hl, he⟩, hk⟩ := h
        simp only [litOk, readLit, beq_iff_eq] at hl
        cases hl
        have h1 := gen_const e b (d + 1) he
        have h3 := gen_const_kvs kvs b d hk
        simp [genKVs, joinTail, denoteKVs, printMemTail, wfM, h1, h3, ergLay, jsonStr, keyOrErr, exprIntoValue]
      | _ => simp [isConstKVs] at h
end

/-! ### the module loop -/

theorem genDefs_const : ∀ (m : Module) (b : Binds), isConstModule m = true →
    (genDefs b m).2 = 0 ∧ wfM (denoteDefs m) = true ∧
      joinTail [',', '\n'] (genDefs b m).1 = printMemTail ergLay 0 (denoteDefs m) ∧
      ((genDefs b m).1 = [] → denoteDefs m = .nil)
  | [], b, _ => by simp [genDefs, denoteDefs, joinTail, printMemTail, wfM]
  | d :: ds, b, h => by
    simp only [isConstModule, List.all_cons, Bool.and_eq_true] at h
    have ih := genDefs_const ds (registerDef b d) (by simpa [isConstModule] using h.2)
    have h1 := gen_const d.body (registerDef b d) 0 h.1
    cases hp : d.pub with
    | true => simp [genDefs, denoteDefs, hp, joinTail, printMemTail, wfM, h1, ih, ergLay, jsonStr]
    | false => simpa [genDefs, denoteDefs, hp] using ih

theorem joinWith_eq (sep : List Char) (xs : List (List Char)) :
    joinWith sep xs = match xs with | [] => [] | x :: r => x ++ joinTail sep r := by
  cases xs with
  | nil => rfl
  | cons x r => exact joinWith_cons sep x r

/-- on a module of constant bindings the generator succeeds and prints the denoted object in the layout `ergLay` -/
theorem jsonGen_const (m : Module) (h : isConstModule m = true) :
    jsonGen m = .ok (printVal ergLay 0 (denoteModule m)) ∧ wfV (denoteModule m) = true := by
  obtain ⟨h0, hw, ht, hn⟩ := genDefs_const m [] h
  refine ⟨?_, by simpa [denoteModule, wfV] using hw⟩
  simp only [jsonGen, h0, if_true, denoteModule]
  cases hd : denoteDefs m with
  | nil =>
    rw [hd] at ht
    cases hg : (genDefs [] m).1 with
    | nil => simp [joinWith, printVal, ergLay]
    | cons x r => rw [hg] at ht; simp [joinTail, printMemTail] at ht
  | cons k v ms =>
    cases hg : (genDefs [] m).1 with
    | nil => rw [hn hg] at hd; cases hd
    | cons x r =>
      rw [hg, hd] at ht
      simp only [joinTail, printMemTail, ergLay, List.cons_append, List.nil_append, List.cons.injEq, true_and] at ht
      simp only [joinWith_cons, printVal, ergLay, List.cons_append, List.nil_append, List.append_assoc]
      rw [← List.append_assoc, ht]
      simp

theorem compact_ws : LayWs Lay.compact :=
  ⟨(by intro c hc; cases hc), (by intro c hc; cases hc), (by intro c hc; cases hc), (by intro c hc; cases hc)⟩
