import ErgVerif.C18.Proofs
/-!
# C18 — The JSON transpile target emits valid JSON with the bound values

Property theorems only. Spec: `Json.parse` (RFC 8259 parser, `ErgVerif/C18/Model.lean`), `denoteModule` (the object that
maps every public binding to the value its initialiser spells; literals are read from their *tokens*). Model: `jsonGen`,
the transcription of `JsonGenerator` after the `fix:` commits; `legacyJsonGen` is the generator of the pinned commit.
`isConstModule m`: every binding of `m` (public or private, in any order) has a constant initialiser — integer, float,
string over arbitrary characters, boolean, None, list, tuple, record, string-keyed dict, nested to any depth — and every
literal's value is what its token spells (`litOk`, checked on every case of the tie; for floats: the value's shortest
round-trip text is a JSON number that is not an integer form).
-/
namespace ErgVerif.C18
open Json

/-- Sanity of the specification: the parser reads back every value from its compact print. -/
theorem C18_parse_print (j : JVal) (h : wfV j = true) : parse (print j) = some j :=
  parse_printVal _ (fun _ => compact_ws) 0 j h

/-- … and from every print that puts white space where the grammar allows it (after `[ { , :` and before `] }`). -/
theorem C18_parse_print_layout (L : Nat → Lay) (hL : ∀ d, LayWs (L d)) (d : Nat) (j : JVal) (h : wfV j = true) :
    parse (printVal L d j) = some j :=
  parse_printVal L hL d j h

/-- Every string — any characters: quotes, backslashes, controls, NUL, non-BMP — survives `json_str` and the parser. -/
theorem C18_string_roundtrip (s : List Char) : parse (jsonStr s) = some (.str s) := by
  have := C18_parse_print (.str s) rfl
  simpa [print, printVal, jsonStr] using this

/-- Every integer is emitted as a JSON number that reads back as that integer. -/
theorem C18_int_roundtrip (i : Int) : valueIntoJson (.int i) = some (intText i) ∧ parse (intText i) = some (.int i) := by
  refine ⟨rfl, ?_⟩
  have := C18_parse_print (.int i) rfl
  simpa [print, printVal] using this

/-- **C18**: for every module of constant bindings the generator succeeds and its output parses as JSON to exactly the
    object that maps each public binding, in order, to the value of its initialiser. Nesting depth, string contents,
    integer sizes, the number of bindings and the position of private bindings are unbounded. -/
theorem C18_full (m : Module) (h : isConstModule m = true) :
    ∃ t, jsonGen m = .ok t ∧ parse t = some (denoteModule m) := by
  obtain ⟨h1, h2⟩ := jsonGen_const m h
  exact ⟨_, h1, parse_printVal ergLay ergLay_ws 0 _ h2⟩

/-- The generator never declines a module of constant bindings. -/
theorem C18_no_decline (m : Module) (h : isConstModule m = true) : ∀ n, jsonGen m ≠ .err n := by
  intro n e
  obtain ⟨t, ht, _⟩ := C18_full m h
  rw [ht] at e
  cases e

/-! ### witnesses: the generator of the pinned commit, and the recorded finding -/

def wBool : Module := [⟨true, ['a'], ['l'], .lit .bool ['T', 'r', 'u', 'e'] (.bool true)⟩]
def wQuote : Module := [⟨true, ['b'], ['l'], .lit .str ['"', 'q', '"', 'x', '"'] (.str ['q', '"', 'x'])⟩]
def wNumber : Module := [⟨true, ['a'], ['l'], .lit .nat ['1', '_', '0', '0', '0'] (.nat 1000)⟩]
def wTrailing : Module := [⟨true, ['a'], ['l'], .lit .nat ['1'] (.nat 1)⟩, ⟨false, ['b'], ['m'], .lit .nat ['2'] (.nat 2)⟩]

/-- pinned commit: `.a = True` was emitted as `"a": True`, which is not JSON; the fixed generator emits `true`. -/
theorem C18_legacy_bool_witness :
    isConstModule wBool = true ∧ parse (legacyJsonGen wBool) = none
      ∧ jsonGen wBool = .ok "{\n\"a\": true\n}".toList := by decide

/-- pinned commit: `.b = "q\"x"` was emitted with the quote unescaped. -/
theorem C18_legacy_quote_witness :
    isConstModule wQuote = true ∧ parse (legacyJsonGen wQuote) = none
      ∧ jsonGen wQuote = .ok "{\n\"b\": \"q\\\"x\"\n}".toList := by decide

/-- pinned commit: `.a = 1_000` was emitted with the token's spelling. -/
theorem C18_legacy_number_witness :
    isConstModule wNumber = true ∧ parse (legacyJsonGen wNumber) = none
      ∧ jsonGen wNumber = .ok "{\n\"a\": 1000\n}".toList := by decide

/-- pinned commit: a private definition after the last public one left a dangling comma. -/
theorem C18_legacy_separator_witness :
    isConstModule wTrailing = true ∧ legacyJsonGen wTrailing = "{\n\"a\": 1,\n\n}".toList ∧ parse (legacyJsonGen wTrailing) = none
      ∧ jsonGen wTrailing = .ok "{\n\"a\": 1\n}".toList := by decide

/-- the token and value the front end produces for `.a = "\"\"Z\"\""` (finding `C18-str-quote-trim`) -/
def wTrim : Module := [⟨true, ['a'], ['l'], .lit .str ['"', '"', '"', 'Z', '"', '"', '"'] (.str ['Z'])⟩]

/-- Recorded finding: `ValueObj::from_str` gives the literal `"\"\"Z\"\""` the value `Z`; the hypothesis `litOk` of
    `C18_full` fails exactly there, the class predicate holds, and the emitted JSON is valid but binds the wrong value. -/
theorem C18_quote_trim_witness :
    isConstModule wTrim = false ∧ quoteTrimClass ['"', '"', '"', 'Z', '"', '"', '"'] = true
      ∧ (∃ t, jsonGen wTrim = .ok t ∧ parse t = some (.obj (.cons ['a'] (.str ['Z']) .nil)))
      ∧ denoteModule wTrim = .obj (.cons ['a'] (.str ['"', '"', 'Z', '"', '"']) .nil) := by
  refine ⟨by decide, by decide, ⟨_, rfl, by decide⟩, by decide⟩

/-! ### non-vacuity -/

/-- a module with a private binding in the middle, nesting three deep, a string of awkward characters, a negative integer -/
def exModule : Module :=
  [⟨true, ['a'], ['1'], .dict (.cons (.lit .str ['"', 'k', '"'] (.str ['k']))
      (.list (.cons (.tuple (.cons (.lit .int ['-', '7'] (.int (-7))) (.cons (.lit .none ['N', 'o', 'n', 'e'] .none) .nil))) .nil)) .nil)⟩,
   ⟨false, ['p'], ['2'], .lit .nat ['0', 'x', '1', '0'] (.nat 16)⟩,
   ⟨true, ['s'], ['3'], .record (.cons ['x'] (.lit .str ['"', '"', '\\', '\n', Char.ofNat 0, '"'] (.str ['"', '\\', '\n', Char.ofNat 0])) .nil)⟩]

example : isConstModule exModule = true := by decide

example : jsonGen exModule = .ok "{\n\"a\": {\"k\": [[-7, null]]},\n\"s\": {\"x\": \"\\\"\\\\\\n\\u0000\"}\n}".toList := by decide

example : ∃ t, jsonGen exModule = .ok t ∧ parse t = some (denoteModule exModule) := C18_full exModule (by decide)

end ErgVerif.C18
