import ErgVerif.C18.Model
/-!
# C18 — The JSON transpile target emits valid JSON with the bound values
-/
namespace ErgVerif.C18

/-- non-vacuity: a two-binding module -/
example : jsonGen [⟨true, ['a'], ['l'], .lit .nat ['1'] (.nat 1)⟩, ⟨true, ['b'], ['m'], .lit .bool ['T','r','u','e'] (.bool true)⟩]
    = .ok "{\n\"a\": 1,\n\"b\": true\n}".toList := by decide

end ErgVerif.C18
