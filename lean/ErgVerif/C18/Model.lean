/-
C18 — the JSON transpile target.

Spec (`namespace Json`): JSON values, an RFC 8259 parser `Json.parse : List Char → Option JVal` (fuelled recursive descent;
strings through a character-level state machine with all escapes and surrogate pairs; numbers by the RFC grammar) and a
layout-parametrised printer `Json.printVal` (any amount of insignificant white space in the four places the grammar allows it).

Model: transcription of `JsonGenerator` in /repo/crates/erg_compiler/transpile.rs *after* the `fix:` commits
(`transpile`, `json_str`, `value_into_json`, `members_into_json`, `value_into_json_or_err`, `expr_into_value`, `transpile_def`,
`register_def`, `transpile_expr`) on a projection of the HIR (literals with token content and value, accessors with the
definition location they resolve to, lists, tuples, records, string-keyed dicts, folded binary operations, non-constant
expressions). `legacyGen…` is the generator as it was at the pinned commit for the literal/container/separator part
(literals copied from the token, `len`-of-the-previous-chunk separator logic); it is kept for the witness theorems.
Import-free: the driver links as a `lean_exe`.
-/
namespace ErgVerif.C18

/-! ## JSON values -/

mutual
  inductive JVal where
    | null
    | bool (b : Bool)
    | int (i : Int)               -- a number written without fraction and exponent
    | dec (text : List Char)      -- any other number, by its (grammatical) text
    | str (s : List Char)
    | arr (xs : JList)
    | obj (ms : JMems)
  inductive JList where
    | nil
    | cons (x : JVal) (xs : JList)
  inductive JMems where
    | nil
    | cons (k : List Char) (v : JVal) (ms : JMems)
end

deriving instance DecidableEq for JVal
deriving instance DecidableEq for JList
deriving instance DecidableEq for JMems

namespace Json

def isWs (c : Char) : Bool := c = ' ' || c = '\n' || c = '\r' || c = '\t'

def skipWs : List Char → List Char
  | [] => []
  | c :: cs => if isWs c then skipWs cs else c :: cs

/-! ### strings -/

def hexVal (c : Char) : Option Nat :=
  if '0' ≤ c ∧ c ≤ '9' then some (c.toNat - 48)
  else if 'a' ≤ c ∧ c ≤ 'f' then some (c.toNat - 87)
  else if 'A' ≤ c ∧ c ≤ 'F' then some (c.toNat - 55)
  else none

def simpleEsc (c : Char) : Option Char :=
  if c = '"' then some '"'
  else if c = '\\' then some '\\'
  else if c = '/' then some '/'
  else if c = 'b' then some (Char.ofNat 8)
  else if c = 'f' then some (Char.ofNat 12)
  else if c = 'n' then some '\n'
  else if c = 'r' then some '\r'
  else if c = 't' then some '\t'
  else none

inductive SState where
  | norm                       -- between characters
  | esc                        -- after a backslash
  | hex (k : Nat) (v : Nat)    -- inside `\u`, `k` digits still to read, value so far `v`

/-- the inside of a string after the opening quote: returns the decoded characters and the input after the closing quote.
    `hi` is a pending high surrogate (which must be followed at once by a `\u` low surrogate). -/
def parseStrAux (st : SState) (hi : Option Nat) (acc : List Char) : List Char → Option (List Char × List Char)
  | [] => none
  | c :: r =>
    match st with
    | .norm =>
      if c = '"' then (if hi.isSome then none else some (acc.reverse, r))
      else if c = '\\' then parseStrAux .esc hi acc r
      else if c.toNat < 32 then none
      else if hi.isSome then none
      else parseStrAux .norm none (c :: acc) r
    | .esc =>
      if c = 'u' then parseStrAux (.hex 4 0) hi acc r
      else if hi.isSome then none
      else match simpleEsc c with
        | some d => parseStrAux .norm none (d :: acc) r
        | none => none
    | .hex k v =>
      match hexVal c with
      | none => none
      | some d =>
        let u := v * 16 + d
        if k ≤ 1 then
          match hi with
          | some h =>
            if 0xDC00 ≤ u ∧ u < 0xE000 then
              parseStrAux .norm none (Char.ofNat (0x10000 + (h - 0xD800) * 0x400 + (u - 0xDC00)) :: acc) r
            else none
          | none =>
            if 0xD800 ≤ u ∧ u < 0xDC00 then parseStrAux .norm (some u) acc r
            else if 0xDC00 ≤ u ∧ u < 0xE000 then none
            else parseStrAux .norm none (Char.ofNat u :: acc) r
        else parseStrAux (.hex (k - 1) u) hi acc r

def parseStr (cs : List Char) : Option (List Char × List Char) := parseStrAux .norm none [] cs

/-! ### numbers -/

def isNumChar (c : Char) : Bool := c.isDigit || c = '-' || c = '+' || c = '.' || c = 'e' || c = 'E'

def spanNum : List Char → List Char × List Char
  | [] => ([], [])
  | c :: cs => if isNumChar c then ((spanNum cs).1.cons c, (spanNum cs).2) else ([], c :: cs)

def stripMinus : List Char → List Char
  | '-' :: r => r
  | t => t

def validIntPart : List Char → Bool
  | [] => false
  | [c] => c.isDigit
  | c :: _ => c != '0'

def stripSign : List Char → List Char
  | '+' :: r => r
  | '-' :: r => r
  | t => t

def validExp : List Char → Bool
  | [] => true
  | c :: r => (c = 'e' || c = 'E') && (stripSign r != [] && (stripSign r).all Char.isDigit)

def validFracExp : List Char → Bool
  | [] => true
  | '.' :: r => (r.takeWhile Char.isDigit != []) && validExp (r.dropWhile Char.isDigit)
  | r => validExp r

/-- RFC 8259 section 6: `[ minus ] int [ frac ] [ exp ]` -/
def validNum (t : List Char) : Bool :=
  validIntPart ((stripMinus t).takeWhile Char.isDigit) && validFracExp ((stripMinus t).dropWhile Char.isDigit)

def isIntForm (t : List Char) : Bool := (stripMinus t).all Char.isDigit

/-- a number text that is not an integer form (has a fraction or an exponent) -/
def decOk (t : List Char) : Bool :=
  validNum t && !isIntForm t && t.all isNumChar &&
    (match t with
     | c :: _ => c = '-' || c.isDigit
     | [] => false)

def intOfText (t : List Char) : Int :=
  match t with
  | '-' :: r => - (Nat.ofDigitChars 10 r 0 : Nat)
  | _ => (Nat.ofDigitChars 10 t 0 : Nat)

def numOfText (t : List Char) : Option JVal :=
  if validNum t then (if isIntForm t then some (.int (intOfText t)) else some (.dec t)) else none

def parseNum (cs : List Char) : Option (JVal × List Char) :=
  match numOfText (spanNum cs).1 with
  | some v => some (v, (spanNum cs).2)
  | none => none

/-! ### values -/

mutual
  def parseVal : Nat → List Char → Option (JVal × List Char)
    | 0, _ => none
    | f + 1, cs =>
      match skipWs cs with
      | [] => none
      | '{' :: r =>
        (match skipWs r with
         | '}' :: r' => some (.obj .nil, r')
         | '"' :: r' =>
           (match parseStr r' with
            | none => none
            | some (k, r2) =>
              match skipWs r2 with
              | ':' :: r3 =>
                (match parseVal f r3 with
                 | none => none
                 | some (v, r4) =>
                   match parseMemTail f r4 with
                   | none => none
                   | some (ms, r5) => some (.obj (.cons k v ms), r5))
              | _ => none)
         | _ => none)
      | '[' :: r =>
        (match skipWs r with
         | ']' :: r' => some (.arr .nil, r')
         | r' =>
           match parseVal f r' with
           | none => none
           | some (v, r2) =>
             match parseElemTail f r2 with
             | none => none
             | some (xs, r3) => some (.arr (.cons v xs), r3))
      | '"' :: r =>
        (match parseStr r with
         | none => none
         | some (s, r') => some (.str s, r'))
      | 't' :: 'r' :: 'u' :: 'e' :: r => some (.bool true, r)
      | 'f' :: 'a' :: 'l' :: 's' :: 'e' :: r => some (.bool false, r)
      | 'n' :: 'u' :: 'l' :: 'l' :: r => some (.null, r)
      | c :: r => if c = '-' ∨ c.isDigit then parseNum (c :: r) else none
  /-- after an element of an array: `ws ]` or `ws , value …` -/
  def parseElemTail : Nat → List Char → Option (JList × List Char)
    | 0, _ => none
    | f + 1, cs =>
      match skipWs cs with
      | ']' :: r => some (.nil, r)
      | ',' :: r =>
        (match parseVal f r with
         | none => none
         | some (v, r2) =>
           match parseElemTail f r2 with
           | none => none
           | some (xs, r3) => some (.cons v xs, r3))
      | _ => none
  /-- after a member of an object: `ws }` or `ws , ws string ws : value …` -/
  def parseMemTail : Nat → List Char → Option (JMems × List Char)
    | 0, _ => none
    | f + 1, cs =>
      match skipWs cs with
      | '}' :: r => some (.nil, r)
      | ',' :: r =>
        (match skipWs r with
         | '"' :: r' =>
           (match parseStr r' with
            | none => none
            | some (k, r2) =>
              match skipWs r2 with
              | ':' :: r3 =>
                (match parseVal f r3 with
                 | none => none
                 | some (v, r4) =>
                   match parseMemTail f r4 with
                   | none => none
                   | some (ms, r5) => some (.cons k v ms, r5))
              | _ => none)
         | _ => none)
      | _ => none
end

/-- a JSON text: one value surrounded by white space. The fuel is never the reason for a rejection of a text produced by
    `printVal` (theorem `parse_print`). -/
def parse (cs : List Char) : Option JVal :=
  match parseVal (2 * cs.length + 2) cs with
  | some (v, r) => if skipWs r = [] then some v else none
  | none => none

/-! ### printing -/

def hexDigit (n : Nat) : Char := if n < 10 then Char.ofNat (48 + n) else Char.ofNat (87 + n)

/-- the inside of a JSON string: `"` and `\` escaped, control characters as `\n \r \t` or `\u00XX`, everything else as is -/
def escJ : List Char → List Char
  | [] => []
  | c :: cs =>
    if c = '"' then '\\' :: '"' :: escJ cs
    else if c = '\\' then '\\' :: '\\' :: escJ cs
    else if c = '\n' then '\\' :: 'n' :: escJ cs
    else if c = '\r' then '\\' :: 'r' :: escJ cs
    else if c = '\t' then '\\' :: 't' :: escJ cs
    else if c.toNat < 32 then '\\' :: 'u' :: '0' :: '0' :: hexDigit (c.toNat / 16) :: hexDigit (c.toNat % 16) :: escJ cs
    else c :: escJ cs

def quoteJ (s : List Char) : List Char := '"' :: (escJ s ++ ['"'])

def natText (n : Nat) : List Char := Nat.toDigits 10 n

def intText (i : Int) : List Char := if i < 0 then '-' :: natText i.natAbs else natText i.toNat

/-- insignificant white space: after an opening bracket, after a comma, after a colon, before a closing bracket -/
structure Lay where
  opn : List Char
  sep : List Char
  col : List Char
  cls : List Char

def Lay.compact : Lay := ⟨[], [], [], []⟩

mutual
  /-- `L d` is the layout used by a container at nesting depth `d` -/
  def printVal (L : Nat → Lay) (d : Nat) : JVal → List Char
    | .null => ['n', 'u', 'l', 'l']
    | .bool true => ['t', 'r', 'u', 'e']
    | .bool false => ['f', 'a', 'l', 's', 'e']
    | .int i => intText i
    | .dec t => t
    | .str s => quoteJ s
    | .arr .nil => '[' :: ((L d).opn ++ (L d).cls ++ [']'])
    | .arr (.cons x xs) => '[' :: ((L d).opn ++ (printVal L (d + 1) x ++ (printElemTail L d xs ++ ((L d).cls ++ [']']))))
    | .obj .nil => '{' :: ((L d).opn ++ (L d).cls ++ ['}'])
    | .obj (.cons k v ms) =>
      '{' :: ((L d).opn ++ (quoteJ k ++ (':' :: ((L d).col ++ (printVal L (d + 1) v ++ (printMemTail L d ms ++ ((L d).cls ++ ['}'])))))))
  def printElemTail (L : Nat → Lay) (d : Nat) : JList → List Char
    | .nil => []
    | .cons x xs => ',' :: ((L d).sep ++ (printVal L (d + 1) x ++ printElemTail L d xs))
  def printMemTail (L : Nat → Lay) (d : Nat) : JMems → List Char
    | .nil => []
    | .cons k v ms => ',' :: ((L d).sep ++ (quoteJ k ++ (':' :: ((L d).col ++ (printVal L (d + 1) v ++ printMemTail L d ms)))))
end

def print (j : JVal) : List Char := printVal (fun _ => Lay.compact) 0 j

end Json

/-! ## The projected HIR -/

mutual
  /-- `ValueObj`, as far as the generator distinguishes it -/
  inductive Val where
    | nat (n : Nat)
    | int (i : Int)
    | float (repr : List Char)     -- Rust's `{:?}` of the `f64` (shortest round-trip text); `inf`, `-inf`, `NaN` when not finite
    | str (s : List Char)
    | bool (b : Bool)
    | none
    | other                        -- Type, Subr, Set, Inf, Ellipsis, …: no JSON representation
    | list (vs : Vals)
    | tuple (vs : Vals)
    | dict (kvs : VKVs)
    | record (fs : VFields)
  inductive Vals where
    | nil
    | cons (v : Val) (vs : Vals)
  inductive VKVs where
    | nil
    | cons (k : Val) (v : Val) (r : VKVs)
  inductive VFields where
    | nil
    | cons (name : List Char) (v : Val) (r : VFields)
end

deriving instance DecidableEq for Val
deriving instance DecidableEq for Vals
deriving instance DecidableEq for VKVs
deriving instance DecidableEq for VFields

inductive LitKind where
  | nat | int | ratio | str | bool | none | other
  deriving DecidableEq

mutual
  inductive Expr where
    | lit (kind : LitKind) (token : List Char) (value : Val)
    | acc (loc : List Char)                    -- `acc.var_info().def_loc`
    | list (es : Exprs)
    | tuple (es : Exprs)
    | record (fs : Fields)
    | dict (kvs : KVs)
    | fold (v : Option Val)                    -- `BinOp` of two literals; `v` is `lhs.try_binary(rhs, op)` (value arithmetic: C04)
    | nonconst                                 -- an expression `expr_into_value` maps to `None` (Call, Lambda, Set, …)
  inductive Exprs where
    | nil
    | cons (e : Expr) (es : Exprs)
  inductive Fields where
    | nil
    | cons (name : List Char) (e : Expr) (r : Fields)
  inductive KVs where
    | nil
    | cons (k : Expr) (v : Expr) (r : KVs)
end

structure Def where
  pub : Bool
  name : List Char
  loc : List Char          -- `def.sig.ident().vi.def_loc`
  body : Expr              -- the first (and, in the model, only) expression of the body

abbrev Module := List Def

abbrev Binds := List (List Char × Val)

def Binds.get (b : Binds) (loc : List Char) : Option Val :=
  match b with
  | [] => none
  | (l, v) :: r => if l = loc then some v else Binds.get r loc

/-! ## Model of the generator (fixed code) -/

/-- `JsonGenerator::json_str` -/
def jsonStr (s : List Char) : List Char := Json.quoteJ s

def joinWith (sep : List Char) : List (List Char) → List Char
  | [] => []
  | [x] => x
  | x :: xs => x ++ (sep ++ joinWith sep xs)

/-- `str::cmp`: lexicographic on bytes = lexicographic on code points -/
def strLe : List Char → List Char → Bool
  | [], _ => true
  | _ :: _, [] => false
  | a :: as, b :: bs => if a.toNat < b.toNat then true else if b.toNat < a.toNat then false else strLe as bs

def isFiniteRepr (r : List Char) : Bool :=
  r != ['i', 'n', 'f'] && r != ['-', 'i', 'n', 'f'] && r != ['N', 'a', 'N']

/-- `members_into_json` -/
def membersIntoJson (ms : List (List Char × List Char)) : List Char :=
  let sorted := ms.mergeSort (fun a b => strLe a.1 b.1)
  '{' :: (joinWith [',', ' '] (sorted.map (fun m => jsonStr m.1 ++ (':' :: ' ' :: m.2))) ++ ['}'])

mutual
  /-- `value_into_json` -/
  def valueIntoJson : Val → Option (List Char)
    | .nat n => some (Json.natText n)
    | .int i => some (Json.intText i)
    | .float r => if isFiniteRepr r then some r else none
    | .str s => some (jsonStr s)
    | .bool b => some (if b then ['t', 'r', 'u', 'e'] else ['f', 'a', 'l', 's', 'e'])
    | .none => some ['n', 'u', 'l', 'l']
    | .other => none
    | .list vs => (valsIntoJson vs).map (fun xs => '[' :: (joinWith [',', ' '] xs ++ [']']))
    | .tuple vs => (valsIntoJson vs).map (fun xs => '[' :: (joinWith [',', ' '] xs ++ [']']))
    | .dict kvs => (kvsIntoJson kvs).map membersIntoJson
    | .record fs => (fieldsIntoJson fs).map membersIntoJson
  def valsIntoJson : Vals → Option (List (List Char))
    | .nil => some []
    | .cons v vs =>
      match valueIntoJson v, valsIntoJson vs with
      | some x, some xs => some (x :: xs)
      | _, _ => none
  def kvsIntoJson : VKVs → Option (List (List Char × List Char))
    | .nil => some []
    | .cons (.str k) v r =>
      (match valueIntoJson v, kvsIntoJson r with
       | some x, some xs => some ((k, x) :: xs)
       | _, _ => none)
    | .cons _ _ _ => none
  def fieldsIntoJson : VFields → Option (List (List Char × List Char))
    | .nil => some []
    | .cons n v r =>
      match valueIntoJson v, fieldsIntoJson r with
      | some x, some xs => some ((n, x) :: xs)
      | _, _ => none
end

/-- `Dict::insert` on the association-list model (the position of a key is irrelevant: members are sorted on output) -/
def VKVs.insert (k v : Val) : VKVs → VKVs
  | .nil => .cons k v .nil
  | .cons k' v' r => if k' = k then .cons k v r else .cons k' v' (VKVs.insert k v r)

def VFields.insert (n : List Char) (v : Val) : VFields → VFields
  | .nil => .cons n v .nil
  | .cons n' v' r => if n' = n then .cons n v r else .cons n' v' (VFields.insert n v r)

mutual
  /-- `expr_into_value` -/
  def exprIntoValue (b : Binds) : Expr → Option Val
    | .lit _ _ v => some v
    | .acc loc => b.get loc
    | .list es => (exprsIntoValues b es).map Val.list
    | .tuple es => (exprsIntoValues b es).map Val.tuple
    | .record fs => (fieldsIntoValue b fs .nil).map Val.record
    | .dict kvs => (kvsIntoValue b kvs .nil).map Val.dict
    | .fold v => v
    | .nonconst => none
  def exprsIntoValues (b : Binds) : Exprs → Option Vals
    | .nil => some .nil
    | .cons e es =>
      match exprIntoValue b e, exprsIntoValues b es with
      | some v, some vs => some (.cons v vs)
      | _, _ => none
  def fieldsIntoValue (b : Binds) : Fields → VFields → Option VFields
    | .nil, acc => some acc
    | .cons n e r, acc =>
      match exprIntoValue b e with
      | some v => fieldsIntoValue b r (acc.insert n v)
      | none => none
  def kvsIntoValue (b : Binds) : KVs → VKVs → Option VKVs
    | .nil, acc => some acc
    | .cons k v r, acc =>
      match exprIntoValue b k, exprIntoValue b v with
      | some kv, some vv => kvsIntoValue b r (acc.insert kv vv)
      | _, _ => none
end

/-- `value_into_json_or_err`: the text and the number of `not_const_expr` errors pushed -/
def valueOrErr (v : Option Val) : List Char × Nat :=
  match v.bind valueIntoJson with
  | some t => (t, 0)
  | none => ([], 1)

def keyOrErr (v : Option Val) : List Char × Nat :=
  match v with
  | some (.str s) => (jsonStr s, 0)
  | _ => ([], 1)

mutual
  /-- `transpile_expr` (text, number of errors) -/
  def genExpr (b : Binds) : Expr → List Char × Nat
    | .lit _ _ v => valueOrErr (some v)
    | .acc loc => valueOrErr (b.get loc)
    | .list es => let r := genExprs b es; ('[' :: (joinWith [',', ' '] r.1 ++ [']']), r.2)
    | .tuple es => let r := genExprs b es; ('[' :: (joinWith [',', ' '] r.1 ++ [']']), r.2)
    | .record fs => let r := genFields b fs; ('{' :: (joinWith [',', ' '] r.1 ++ ['}']), r.2)
    | .dict kvs => let r := genKVs b kvs; ('{' :: (joinWith [',', ' '] r.1 ++ ['}']), r.2)
    | .fold v => valueOrErr v
    | .nonconst => valueOrErr none
  def genExprs (b : Binds) : Exprs → List (List Char) × Nat
    | .nil => ([], 0)
    | .cons e es => let x := genExpr b e; let r := genExprs b es; (x.1 :: r.1, x.2 + r.2)
  def genFields (b : Binds) : Fields → List (List Char) × Nat
    | .nil => ([], 0)
    | .cons n e fs =>
      let x := genExpr b e; let r := genFields b fs
      ((jsonStr n ++ (':' :: ' ' :: x.1)) :: r.1, x.2 + r.2)
  def genKVs (b : Binds) : KVs → List (List Char) × Nat
    | .nil => ([], 0)
    | .cons k v kvs =>
      let kk := keyOrErr (exprIntoValue b k); let x := genExpr b v; let r := genKVs b kvs
      ((kk.1 ++ (':' :: ' ' :: x.1)) :: r.1, kk.2 + x.2 + r.2)
end

/-- `register_def` -/
def registerDef (b : Binds) (d : Def) : Binds :=
  match exprIntoValue b d.body with
  | some v => (d.loc, v) :: b
  | none => b

/-- the loop of `transpile`: the non-empty chunks and the number of errors -/
def genDefs (b : Binds) : Module → List (List Char) × Nat
  | [] => ([], 0)
  | d :: ds =>
    let b' := registerDef b d
    if d.pub then
      let x := genExpr b' d.body
      let r := genDefs b' ds
      ((jsonStr d.name ++ (':' :: ' ' :: x.1)) :: r.1, x.2 + r.2)
    else genDefs b' ds

inductive Outcome where
  | ok (text : List Char)
  | err (n : Nat)
  deriving DecidableEq

/-- `JsonGenerator::transpile` -/
def jsonGen (m : Module) : Outcome :=
  let r := genDefs [] m
  if r.2 = 0 then .ok ('{' :: '\n' :: (joinWith [',', '\n'] r.1 ++ ['\n', '}'])) else .err r.2

/-! ## The generator at the pinned commit (literals, containers and the separator logic) -/

mutual
  /-- pinned `transpile_expr`: literals are `lit.token.content` verbatim -/
  def legacyGenExpr : Expr → List Char
    | .lit _ tok _ => tok
    | .list es => '[' :: (joinWith [',', ' '] (legacyGenExprs es) ++ [']'])
    | .tuple es => '[' :: (joinWith [',', ' '] (legacyGenExprs es) ++ [']'])
    | .record fs => '{' :: (joinWith [',', ' '] (legacyGenFields fs) ++ ['}'])
    | .dict kvs => '{' :: (joinWith [',', ' '] (legacyGenKVs kvs) ++ ['}'])
    | _ => []
  def legacyGenExprs : Exprs → List (List Char)
    | .nil => []
    | .cons e es => legacyGenExpr e :: legacyGenExprs es
  def legacyGenFields : Fields → List (List Char)
    | .nil => []
    | .cons n e fs => ('"' :: (n ++ ('"' :: ':' :: ' ' :: legacyGenExpr e))) :: legacyGenFields fs
  def legacyGenKVs : KVs → List (List Char)
    | .nil => []
    | .cons k v kvs => (legacyGenExpr k ++ (':' :: ' ' :: legacyGenExpr v)) :: legacyGenKVs kvs
end

/-- pinned loop: `if i > 0 && len > 0 { code += ",\n" }` with `len` the length of the previous chunk -/
def legacyLoop : Module → Bool → Nat → List Char
  | [], _, _ => []
  | d :: ds, first, len =>
    let chunk := if d.pub then '"' :: (d.name ++ ('"' :: ':' :: ' ' :: legacyGenExpr d.body)) else []
    (if !first && len > 0 then [',', '\n'] else []) ++ (chunk ++ legacyLoop ds false chunk.length)

def legacyJsonGen (m : Module) : List Char := '{' :: '\n' :: (legacyLoop m true 0 ++ ['\n', '}'])

/-! ## Specification: the value a module of constant bindings denotes -/

/-- digits of a literal without the `_` separators -/
def stripUnderscore (t : List Char) : List Char := t.filter (fun c => c != '_')

def digitVal (c : Char) : Nat :=
  if c.isDigit then c.toNat - 48 else if 'a' ≤ c ∧ c ≤ 'f' then c.toNat - 87 else if 'A' ≤ c ∧ c ≤ 'F' then c.toNat - 55 else 0

def readBase (b : Nat) (ds : List Char) : Nat := ds.foldl (fun acc c => b * acc + digitVal c) 0

/-- the number a `NatLit`/`BinLit`/`OctLit`/`HexLit` token spells -/
def readNat (t : List Char) : Nat :=
  match stripUnderscore t with
  | '0' :: 'x' :: r => readBase 16 r
  | '0' :: 'X' :: r => readBase 16 r
  | '0' :: 'o' :: r => readBase 8 r
  | '0' :: 'O' :: r => readBase 8 r
  | '0' :: 'b' :: r => readBase 2 r
  | '0' :: 'B' :: r => readBase 2 r
  | r => readBase 10 r

/-- the content of a single-line string literal token: the characters between the two quotes (already unescaped by the lexer) -/
def readStr (t : List Char) : List Char := (t.drop 1).dropLast

/-- the value a literal token spells (`none` for floats, which are only executed, and for other kinds) -/
def readLit (kind : LitKind) (tok : List Char) : Option Val :=
  match kind with
  | .nat => some (.nat (readNat tok))
  | .int => (match tok with
             | '-' :: r => some (.int (- (readNat r : Nat)))
             | _ => none)
  | .str => some (.str (readStr tok))
  | .bool => if tok = ['T', 'r', 'u', 'e'] then some (.bool true) else if tok = ['F', 'a', 'l', 's', 'e'] then some (.bool false) else none
  | .none => some .none
  | _ => none

/-- the front end evaluated the literal as its token reads (for floats: the value's text is a JSON number that is not an
    integer form; what number it is, is executed, not proved) -/
def litOk (kind : LitKind) (tok : List Char) (v : Val) : Bool :=
  match kind with
  | .ratio => (match v with
               | .float r => Json.decOk r
               | _ => false)
  | _ => readLit kind tok == some v

def denoteScalar : Val → JVal
  | .nat n => .int n
  | .int i => .int i
  | .float r => .dec r
  | .str s => .str s
  | .bool b => .bool b
  | _ => .null

mutual
  /-- value of a constant initialiser: literals by what their *token* spells -/
  def denote : Expr → JVal
    | .lit kind tok v => (match readLit kind tok with
                          | some w => denoteScalar w
                          | none => denoteScalar v)
    | .list es => .arr (denoteList es)
    | .tuple es => .arr (denoteList es)
    | .record fs => .obj (denoteFields fs)
    | .dict kvs => .obj (denoteKVs kvs)
    | _ => .null
  def denoteList : Exprs → JList
    | .nil => .nil
    | .cons e es => .cons (denote e) (denoteList es)
  def denoteFields : Fields → JMems
    | .nil => .nil
    | .cons n e fs => .cons n (denote e) (denoteFields fs)
  def denoteKVs : KVs → JMems
    | .nil => .nil
    | .cons (.lit .str tok _) v kvs => .cons (readStr tok) (denote v) (denoteKVs kvs)
    | .cons _ v kvs => .cons [] (denote v) (denoteKVs kvs)
end

mutual
  /-- constant initialisers of the property: numbers, strings, booleans, None, lists, tuples, records, string-keyed dicts,
      nested to any depth, every literal evaluated as its token reads -/
  def isConst : Expr → Bool
    | .lit kind tok v => (kind = .nat || kind = .int || kind = .ratio || kind = .str || kind = .bool || kind = .none) && litOk kind tok v
    | .list es => isConstList es
    | .tuple es => isConstList es
    | .record fs => isConstFields fs
    | .dict kvs => isConstKVs kvs
    | _ => false
  def isConstList : Exprs → Bool
    | .nil => true
    | .cons e es => isConst e && isConstList es
  def isConstFields : Fields → Bool
    | .nil => true
    | .cons _ e fs => isConst e && isConstFields fs
  def isConstKVs : KVs → Bool
    | .nil => true
    | .cons (.lit .str tok v) e kvs => litOk .str tok v && isConst e && isConstKVs kvs
    | .cons _ _ _ => false
end

/-- members of the JSON object a module denotes: the public bindings in order -/
def denoteDefs : Module → JMems
  | [] => .nil
  | d :: ds => if d.pub then .cons d.name (denote d.body) (denoteDefs ds) else denoteDefs ds

def denoteModule (m : Module) : JVal := .obj (denoteDefs m)

/-- `ConstModules`: every binding (public or private) has a constant initialiser -/
def isConstModule (m : Module) : Bool := m.all (fun d => isConst d.body)

/-- class of the recorded finding `C18-str-quote-trim`: `ValueObj::from_str` strips `"""` from either end of the token of a
    *single-line* literal whose content starts or ends with two quotes (or is one quote) -/
def quoteTrimClass (tok : List Char) : Bool :=
  let x := readStr tok
  x = ['"'] || x.take 2 = ['"', '"'] || (x.reverse.take 2 = ['"', '"'])

end ErgVerif.C18
