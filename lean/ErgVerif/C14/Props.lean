import ErgVerif.C14.Proofs
/-!
C14 — property theorems about the validator `Bytecode.validate1` (ErgVerif/Shared/Bytecode.lean). They hold for every opcode table
(so regenerated tables need no re-proof), every code object and every proposed depth assignment: the worklist that proposes the
assignment is not trusted, a wrong proposal can only make the validator answer `false`.
-/
namespace ErgVerif.C14
open ErgVerif.Marshal ErgVerif.Bytecode

/-- **Stack clause, all paths.** If the validator accepts the stack clause of a code object, then every state (code unit, depth) reachable
from the entry at depth 0 (and, for 3.11, from every exception handler at its recorded depth) along fall-through and jump edges, applying
the table's per-edge stack effects, has a depth in `[0, co_stacksize]` and sits inside the code. -/
theorem C14_sound (t : VerTable) (c : CodeView) (nlines : Nat) (instrs : List Instr) (roots : List (Nat × Nat))
    (hd : decode t c.code = some instrs) (hr : rootsOf t c = some roots) (h : (validate1 t c nlines).stack = true)
    (s : Nat × Int) (hs : Reach (edgeFn t (c.code.length / 2) instrs) roots s) :
    ∃ k : Nat, s.2 = k ∧ k ≤ c.stacksize ∧ s.1 < c.code.length / 2 := by
  simp only [validate1, hd, hr] at h
  obtain ⟨k, _, h2, h3, h4⟩ := checkAssign_sound _ _ _ _ _ h s hs
  exact ⟨k, h2, h3, h4⟩

/-- the certificate check itself, for any edge function, roots and proposed assignment (the statement `C14_sound` instantiates) -/
theorem C14_certificate (edges : Nat → Option (List (Nat × Int))) (roots : List (Nat × Nat)) (n : Nat) (d : List (Option Nat)) (maxS : Nat)
    (hc : checkAssign edges roots n d maxS = true) (s : Nat × Int) (hr : Reach edges roots s) :
    ∃ k : Nat, d[s.1]? = some (some k) ∧ s.2 = k ∧ k ≤ maxS ∧ s.1 < n :=
  checkAssign_sound edges roots n d maxS hc s hr

/-- **Jump clause.** If accepted, every edge of every instruction is well-formed (defined effect, target inside the code) and lands on the
first code unit of an instruction (never on a cache entry, an argument byte or the middle of an EXTENDED_ARG sequence). -/
theorem C14_jumps (t : VerTable) (c : CodeView) (nlines : Nat) (instrs : List Instr) (roots : List (Nat × Nat))
    (hd : decode t c.code = some instrs) (hr : rootsOf t c = some roots) (h : (validate1 t c nlines).jumps = true) :
    ∀ ins ∈ instrs, ∃ es, edgesOf t (c.code.length / 2) ins = some es ∧ ∀ e ∈ es, ∃ j ∈ instrs, j.start = e.1 := by
  simp only [validate1, hd, hr, List.all_eq_true, Bool.and_eq_true] at h
  intro ins hin
  obtain ⟨h1, h2⟩ := h ins hin
  cases hes : edgesOf t (c.code.length / 2) ins with
  | none => simp [hes] at h1
  | some es =>
    refine ⟨es, rfl, ?_⟩
    simp only [hes, List.all_eq_true, List.any_eq_true, decide_eq_true_eq] at h2
    intro e he
    exact h2 e he

/-- **Index clause.** If accepted, every constant / name / local / cell-or-free index of every instruction is in range. -/
theorem C14_indices (t : VerTable) (c : CodeView) (nlines : Nat) (instrs : List Instr) (roots : List (Nat × Nat))
    (hd : decode t c.code = some instrs) (hr : rootsOf t c = some roots) (h : (validate1 t c nlines).indices = true) :
    ∀ ins ∈ instrs, idxOk t c ins = true := by
  simp only [validate1, hd, hr, List.all_eq_true] at h
  exact h

/-- **Line clause.** If accepted, every instruction (except the prologue opcodes the table marks as line-exempt) maps to a line in
`[1, nlines]` under the target version's own line-table format. -/
theorem C14_lines (t : VerTable) (c : CodeView) (nlines : Nat) (instrs : List Instr) (roots : List (Nat × Nat))
    (hd : decode t c.code = some instrs) (hr : rootsOf t c = some roots) (h : (validate1 t c nlines).lines = true) :
    ∀ ins ∈ instrs, (t.info ins.op).lineExempt = true ∨ ∃ l : Int, lineOf t.minor c ins.at_ = some l ∧ 1 ≤ l ∧ l ≤ (nlines : Int) := by
  simp only [validate1, hd, hr, List.all_eq_true] at h
  intro ins hin
  have := h ins hin
  simp only [lineOk, Bool.or_eq_true] at this
  rcases this with h1 | h2
  · exact Or.inl h1
  · right
    cases hl : lineOf t.minor c ins.at_ with
    | none => simp [hl] at h2
    | some l =>
      simp only [hl, Bool.and_eq_true, decide_eq_true_eq] at h2
      exact ⟨l, rfl, h2.1, h2.2⟩

/-! ### non-vacuity and witnesses on a two-opcode table (LOAD_CONST = 100, RETURN_VALUE = 83, POP_JUMP_IF_FALSE = 114 as in 3.9) -/

def miniOps : Array OpInfo :=
  ((Array.replicate 256 ({} : OpInfo)).set! 100 { valid := true, hasArg := true, effNo := .lin 1 0, effJump := .lin 1 0, idx := 1 }
    |>.set! 83 { valid := true, nofall := true, effNo := .lin (-1) 0, effJump := .lin (-1) 0 }
    |>.set! 114 { valid := true, hasArg := true, jabs := true, effNo := .lin (-1) 0, effJump := .lin (-1) 0 })
def mini : VerTable := { minor := 9, ops := miniOps }
def miniCode (code : Bytes) (stack : Nat) (lnotab : Bytes) : CodeView :=
  { stacksize := stack, firstlineno := 1, code, nconsts := 1, nnames := 0, nlocals := 0, nfree := 0, linetable := lnotab, exctable := [], consts := [] }

/-- `LOAD_CONST 0; POP_JUMP_IF_FALSE 6; LOAD_CONST 0; RETURN_VALUE; …` with stack size 1 is accepted -/
example : (validate1 mini (miniCode [100, 0, 114, 8, 100, 0, 83, 0, 100, 0, 83, 0] 1 [4, 1]) 2).ok = true := by decide +kernel
/-- the same code with declared stack size 0 is rejected (stack clause) -/
example : (validate1 mini (miniCode [100, 0, 114, 8, 100, 0, 83, 0, 100, 0, 83, 0] 0 [4, 1]) 2).stack = false := by decide +kernel
/-- a jump to an odd byte offset (the shape of the JUMP_FORWARD defect of `emit_if_instr`) is rejected (jump clause) -/
example : (validate1 mini (miniCode [100, 0, 114, 9, 100, 0, 83, 0, 100, 0, 83, 0] 1 [4, 1]) 2).jumps = false := by decide +kernel
/-- a constant index out of range is rejected (index clause) -/
example : (validate1 mini (miniCode [100, 1, 83, 0] 1 []) 2).indices = false := by decide +kernel
/-- an unsigned line increment of 200 in `co_lnotab` reads as -56 (finding C14-lnotab-large-delta): rejected (line clause) -/
example : (validate1 mini (miniCode [100, 0, 83, 0] 1 [2, 200]) 300).lines = false := by decide +kernel
/-- paths that join with different depths are rejected: the entry is reached with depth 0 and, through the backward jump, with depth 1 -/
example : (validate1 mini (miniCode [100, 0, 100, 0, 114, 0, 83, 0] 3 []) 2).stack = false := by decide +kernel

end ErgVerif.C14
