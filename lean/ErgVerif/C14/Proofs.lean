import ErgVerif.C14.Model
/-! C14 — soundness of the certificate check: whatever proposed the assignment, if `checkAssign` accepts it then every state
reachable from the roots along the edges has exactly the assigned depth, within `[0, maxS]`, at a position the assignment covers. -/
namespace ErgVerif.C14
open ErgVerif.Bytecode

/-- abstract execution over the edge function: states are (code unit, operand-stack depth) -/
inductive Reach (edges : Nat → Option (List (Nat × Int))) (roots : List (Nat × Nat)) : Nat × Int → Prop
  | root {pc k} : (pc, k) ∈ roots → Reach edges roots (pc, (k : Int))
  | step {pc depth es t e} : Reach edges roots (pc, depth) → edges pc = some es → (t, e) ∈ es → Reach edges roots (t, depth + e)

theorem edgeOk_sound {d : List (Option Nat)} {maxS k : Nat} {e : Nat × Int} (h : edgeOk d maxS k e = true) :
    ∃ kj, d[e.1]? = some (some kj) ∧ (k : Int) + e.2 = kj ∧ kj ≤ maxS := by
  unfold edgeOk at h
  cases hj : d[e.1]? with
  | none => simp [hj] at h
  | some o =>
    cases o with
    | none => simp [hj] at h
    | some kj => simp [hj] at h; exact ⟨kj, rfl, h.1, h.2⟩

theorem lt_of_getElem? {α} {l : List α} {j : Nat} {x : α} (h : l[j]? = some x) : j < l.length := by
  obtain ⟨hlt, _⟩ := List.getElem?_eq_some_iff.mp h; exact hlt

theorem checkAssign_sound (edges : Nat → Option (List (Nat × Int))) (roots : List (Nat × Nat)) (n : Nat) (d : List (Option Nat)) (maxS : Nat)
    (hc : checkAssign edges roots n d maxS = true) (s : Nat × Int) (hr : Reach edges roots s) :
    ∃ k : Nat, d[s.1]? = some (some k) ∧ s.2 = k ∧ k ≤ maxS ∧ s.1 < n := by
  simp only [checkAssign, Bool.and_eq_true, decide_eq_true_eq, List.all_eq_true, List.mem_range] at hc
  obtain ⟨⟨hlen, hroots⟩, hall⟩ := hc
  induction hr with
  | root hmem =>
    rename_i pc k
    have := hroots (pc, k) hmem
    simp only [rootOk, Bool.and_eq_true, decide_eq_true_eq] at this
    exact ⟨k, this.1, rfl, this.2, by have := lt_of_getElem? this.1; omega⟩
  | step hra hed hmem ih =>
    rename_i pc depth es t e
    obtain ⟨k, hk, hdep, _, hlt⟩ := ih
    have hat := hall pc hlt
    simp only [checkAt, hk, hed, List.all_eq_true] at hat
    obtain ⟨kj, hj, heq, hle⟩ := edgeOk_sound (hat (t, e) hmem)
    refine ⟨kj, hj, ?_, hle, ?_⟩
    · simp only at hdep hj heq ⊢; omega
    · have := lt_of_getElem? hj; simp only at this; omega

end ErgVerif.C14
