import ErgVerif.Shared.Bytecode
/-!
C14 — model. Nothing of erg is transcribed here: C14 is decided by a validator run on what the compiler emits (T-val). The
validator (`Bytecode.validate1`: decoder, successor relation, generated stack-effect tables, line-table decoders, untrusted worklist +
verified certificate check) lives in ErgVerif/Shared/Bytecode.lean; the per-version opcode tables are GENERATED from the installed
interpreters into ErgVerif/Gen/C14Tables.lean on every run. This file adds the whole-file entry point and the class of the recorded finding.
-/
namespace ErgVerif.C14
open ErgVerif.Marshal ErgVerif.Bytecode

/-- validate a marshalled code object and every code object nested in its constants; `none` = not a well-formed code object -/
def validateBytes (t : VerTable) (nlines : Nat) (bs : Bytes) : Option (List Report) :=
  match pyRead t.minor bs with
  | some (v, []) =>
    let cs := allCodes t.minor 64 v
    if cs.isEmpty then none
    else cs.foldr (fun c acc => match c, acc with
      | some c, some rs => some (validate1 t c nlines :: rs)
      | _, _ => none) (some [])
  | _ => none

/-- class of finding `C14-linetable-310plus`: the line-table clause for targets ≥ 3.10 (`push_lnotab` writes the ≤ 3.9 `co_lnotab`
    format for every target) -/
def K_linetable (minor : Nat) : Bool := decide (minor ≥ 10)

/-- the clauses the finding does not cover -/
def Report.okButLines (r : Report) : Bool := r.decoded && r.stack && r.jumps && r.indices

end ErgVerif.C14
