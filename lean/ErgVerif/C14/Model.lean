import ErgVerif.Shared.Bytecode
/-!
C14 — model. Nothing of erg is transcribed here: C14 is decided by a validator run on what the compiler emits (T-val). The
validator (`Bytecode.validate1`: decoder, successor relation, generated stack-effect tables, line-table decoders, untrusted worklist +
verified certificate check) lives in ErgVerif/Shared/Bytecode.lean; the per-version opcode tables are GENERATED from the installed
interpreters into ErgVerif/Gen/C14Tables.lean on every run. This file adds the whole-file entry point and the class of the recorded finding.
-/
namespace ErgVerif.C14
open ErgVerif.Marshal ErgVerif.Bytecode

/-- validate a marshalled code object and every code object nested in its constants; `none` = not a well-formed code object -/
def validateBytes (t : VerTable) (nlines : Nat) (bs : Bytes) : Option (List (CodeView × Report)) :=
  match pyRead t.minor bs with
  | some (v, []) =>
    let cs := allCodes t.minor 64 v
    if cs.isEmpty then none
    else cs.foldr (fun c acc => match c, acc with
      | some c, some rs => some ((c, validate1 t c nlines) :: rs)
      | _, _ => none) (some [])
  | _ => none

/-- class of finding `C14-linetable-310plus`: the line-table clause for targets ≥ 3.10 (`push_lnotab` writes the ≤ 3.9 `co_lnotab`
    format for every target) -/
def K_linetable (minor : Nat) : Bool := decide (minor ≥ 10)

/-- class of finding `C14-lnotab-large-delta`: a `co_lnotab` (targets ≤ 3.9) in which `push_lnotab` had to split a delta: a `(255, 0)`
    or `(0, 127)` chunk, or a line increment byte ≥ 128 (read as negative since 3.6) -/
def lnotabChunked : Bytes → Bool
  | a :: l :: rest => decide (a = 255) || decide (l ≥ 127) || lnotabChunked rest
  | _ => false
def K_lnotabLarge (minor : Nat) (c : CodeView) : Bool := decide (minor ≤ 9) && lnotabChunked c.linetable

/-- class of finding `C14-with-exit-unbalanced`: a code object for a target ≤ 3.10 that contains SETUP_WITH (opcode 143): the handler
    path of `with!` (exception suppressed by `__exit__`) reaches the join with three values more than the normal path -/
def K_with (t : VerTable) (c : CodeView) : Bool :=
  decide (t.minor ≤ 10) && (match decode t c.code with | some is => is.any (fun i => i.op = 143) | none => false)

/-- which failing clauses of a report are explained by a recorded finding -/
def explained (t : VerTable) (c : CodeView) (r : Report) : Option String :=
  if !r.decoded || !r.indices then none
  else
    let linesK : Option String := if r.lines then some "" else if K_linetable t.minor then some "C14-linetable-310plus"
      else if K_lnotabLarge t.minor c then some "C14-lnotab-large-delta" else none
    let stackK : Option String := if r.stack && r.jumps then some "" else if r.jumps && K_with t c then some "C14-with-exit-unbalanced" else none
    match linesK, stackK with
    | some a, some b => some (if b ≠ "" then b else a)
    | _, _ => none

/-- the clauses the finding does not cover -/
def Report.okButLines (r : Report) : Bool := r.decoded && r.stack && r.jumps && r.indices

end ErgVerif.C14
