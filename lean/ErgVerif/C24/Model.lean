import ErgVerif.Shared.Lex
/-!
# C24 model: the location calculus and the renderer arithmetic of crates/erg_common/error.rs
Transcribed: `Location` (enum), `ln_begin/ln_end/col_begin/col_end`, `Location::concat`, `Location::left_main_concat`,
`Location::stream`, `SubMessage::format_code_and_pointer` (dispatch on the location kind), `format_context` (the `usize`
arithmetic: `ln_end - ln_begin`, `" ".repeat(col_begin)`, `mark.repeat(max(1, col_end ⊖ col_begin))`, `code.len()` in BYTES),
`Input::reread_lines` for `InputKind::Str` (crates/erg_common/io.rs: `power_assert!(ln_begin >= 1)`, `ln_end - 1`).
`usize` underflow = `crash` (debug profile, overflow-checks on). Colours/gutters are not modelled: the model answers whether the
renderer returns and, per rendered line, how many spaces and marks it prints.
Token locations come from `Shared.Lex` (`Token::loc`).
-/
namespace ErgVerif.C24
open ErgVerif.Lex

inductive Loc where
  | range (lb cb le ce : Nat)
  | lineRange (lb le : Nat)
  | line (l : Nat)
  | unknown
  deriving DecidableEq, Repr, Inhabited

def Loc.lnBegin : Loc → Option Nat
  | .range lb _ _ _ => some lb | .lineRange lb _ => some lb | .line l => some l | .unknown => none
def Loc.lnEnd : Loc → Option Nat
  | .range _ _ le _ => some le | .lineRange _ le => some le | .line l => some l | .unknown => none
def Loc.colBegin : Loc → Option Nat
  | .range _ cb _ _ => some cb | _ => none
def Loc.colEnd : Loc → Option Nat
  | .range _ _ _ ce => some ce | _ => none

/-- `Location::concat` -/
def concat (l r : Loc) : Loc :=
  match l.lnBegin, l.colBegin, r.lnEnd, r.colEnd with
  | some lb, some cb, some le, some ce => .range lb cb le ce
  | some lb, _, some le, _ => .lineRange lb le
  | some l, _, _, _ => .line l
  | _, _, some l, _ => .line l
  | _, _, _, _ => .unknown

/-- `Location::left_main_concat` -/
def leftMainConcat (l r : Loc) : Loc :=
  match l.lnBegin, l.colBegin, r.lnEnd, r.colEnd with
  | some lb, some cb, some le, some ce => .range lb cb le ce
  | some _, _, none, none => l
  | some lb, _, some le, _ => .lineRange lb le
  | some l, _, _, _ => .line l
  | _, _, some l, _ => .line l
  | _, _, _, _ => .unknown

/-- `Location::stream` -/
def stream (ls : List Loc) : Loc :=
  match ls.head?, ls.getLast? with
  | some f, some l => concat f l
  | _, _ => .unknown

/-- `Token::loc` -/
def tokenLoc (t : Token) : Loc :=
  if t.line = 0 then .unknown else .range t.line t.col t.line (t.col + t.content.length)

/-- Spec.Inside: the lines exist, the columns lie within their lines (in characters), begin ≤ end -/
def inside (lines : List (List Char)) : Loc → Bool
  | .range lb cb le ce =>
    1 ≤ lb && lb ≤ le && le ≤ lines.length && cb ≤ (lines.getD (lb - 1) []).length && ce ≤ (lines.getD (le - 1) []).length
      && (lb < le || cb ≤ ce)
  | .lineRange lb le => 1 ≤ lb && lb ≤ le && le ≤ lines.length
  | .line l => 1 ≤ l && l ≤ lines.length
  | .unknown => false

def splitLines : List Char → List Char → List (List Char)
  | acc, [] => [acc.reverse]
  | acc, c :: cs => if c = '\n' then acc.reverse :: splitLines [] cs else splitLines (c :: acc) cs

/-- the lines of a source text as the renderer sees them (`s.split('\n')`, after newline normalisation) -/
def linesOf (src : List Char) : List (List Char) := splitLines [] (normalizeNewline src)

def byteLen (l : List Char) : Nat := (l.map Char.utf8Size).sum

inductive Rendered where
  | ok (marks : List (Nat × Nat))      -- per rendered line: spaces, marks
  | crash (site : String)
  deriving Repr, DecidableEq, Inhabited

/-- `Input::reread_lines` for a string input: `None` = panic -/
def rereadLines (lines : List (List Char)) (lb le : Nat) : Option (List (List Char)) :=
  if lb = 0 then none                      -- power_assert!(ln_begin >= 1) / ln_begin - 1
  else if le = 0 then none                 -- ln_end - 1 on usize
  else if le < lb then some []             -- `.get(a..=b)` of an inverted range is None → unwrap_or_default
  else if le ≤ lines.length then some ((lines.drop (lb - 1)).take (le - lb + 1)) else some []

def markLines (codes : List (List Char)) (n cb ce : Nat) : List (Nat × Nat) :=
  (List.range n).map fun i =>
    let code := byteLen (codes.getD i ['?', '?', '?'])
    let final := n - 1
    if i = 0 ∧ i = final then (cb, max 1 (ce - cb))
    else if i = 0 then (cb, max 1 (code - cb))
    else if i = final then (0, ce)
    else (0, max 1 code)

/-- `format_context` (arithmetic only) -/
def formatContext (lines : List (List Char)) (lb le cb ce : Nat) : Rendered :=
  match rereadLines lines lb le with
  | none => .crash "reread_lines"
  | some codes =>
    if le < lb then .crash "format_context: ln_end - ln_begin"
    else .ok (markLines codes (le - lb + 1) cb ce)

/-- `SubMessage::format_code_and_pointer` -/
def render (lines : List (List Char)) : Loc → Rendered
  | .range lb cb le ce => formatContext lines lb le cb ce
  | .lineRange lb le =>
    match rereadLines lines lb le with
    | none => .crash "reread_lines"
    | some _ => .ok []
  | .line l =>
    match rereadLines lines l l with
    | none => .crash "reread_lines"
    | some _ => .ok []
  | .unknown => .ok []

def Rendered.isOk : Rendered → Bool
  | .ok _ => true | .crash _ => false

/-- begin of `l` is not after the end of `r` (the order under which `concat l r` is a well-formed range) -/
def ordered (l r : Loc) : Bool :=
  match l, r with
  | .range lb cb _ _, .range _ _ le ce => lb < le || (lb = le && cb ≤ ce)
  | _, _ => false

/-- order hypothesis for arbitrary (known) locations: `l` begins no later than `r` ends — on lines, and on columns too when both
    are ranges on that one line -/
def orderedAny (l r : Loc) : Bool :=
  match l, r with
  | .range .., .range .. => ordered l r
  | _, _ => match l.lnBegin, r.lnEnd with
    | some a, some b => a ≤ b
    | _, _ => false

end ErgVerif.C24
