import ErgVerif.C24.Model
import ErgVerif.C08.Model
/-!
# C24 — diagnostics point inside the source; rendering never crashes: property theorems
-/
namespace ErgVerif.C24
open ErgVerif.Lex

/-- C24_concat_inside: joining two ranges that lie inside the source, the left one beginning no later than the right one ends,
    gives a range inside the source that begins where the left begins and ends where the right ends (so it covers both). -/
theorem C24_concat_inside (lines : List (List Char)) (lb cb le ce lb' cb' le' ce' : Nat)
    (hl : inside lines (.range lb cb le ce) = true) (hr : inside lines (.range lb' cb' le' ce') = true)
    (ho : ordered (.range lb cb le ce) (.range lb' cb' le' ce') = true) :
    concat (.range lb cb le ce) (.range lb' cb' le' ce') = .range lb cb le' ce' ∧
      inside lines (.range lb cb le' ce') = true := by
  refine ⟨rfl, ?_⟩
  simp only [inside, ordered, Bool.and_eq_true, Bool.or_eq_true, decide_eq_true_eq] at *
  omega

/-- the same for `left_main_concat` and `stream` (which are `concat` on ranges) -/
theorem C24_stream_inside (lines : List (List Char)) (l r : Loc) (lb cb le ce lb' cb' le' ce' : Nat)
    (el : l = .range lb cb le ce) (er : r = .range lb' cb' le' ce')
    (hl : inside lines l = true) (hr : inside lines r = true) (ho : ordered l r = true) :
    stream [l, r] = concat l r ∧ leftMainConcat l r = concat l r ∧ inside lines (concat l r) = true := by
  subst el er
  exact ⟨rfl, rfl, (C24_concat_inside lines _ _ _ _ _ _ _ _ hl hr ho).2⟩

/-- the same for every pair of known locations (Line / LineRange / Range in any combination): ordered on lines, the join is inside -/
theorem C24_concat_inside_any (lines : List (List Char)) (l r : Loc)
    (hl : inside lines l = true) (hr : inside lines r = true) (ho : orderedAny l r = true) : inside lines (concat l r) = true := by
  cases l <;> cases r <;>
    simp only [inside, orderedAny, ordered, concat, Loc.lnBegin, Loc.lnEnd, Loc.colBegin, Loc.colEnd, Bool.and_eq_true, Bool.or_eq_true,
      decide_eq_true_eq] at * <;>
    first | omega | (simp at *) | (simp only [inside, Bool.and_eq_true, Bool.or_eq_true, decide_eq_true_eq]; omega)

example : inside (linesOf "x = 1\ny = 2".toList) (.range 1 0 1 1) = true ∧ inside (linesOf "x = 1\ny = 2".toList) (.range 2 4 2 5) = true
    ∧ ordered (.range 1 0 1 1) (.range 2 4 2 5) = true := by decide

/-- C24_render_total: a location inside the source is rendered without a crash (no `usize` underflow, no failed assertion). -/
theorem C24_render_total (lines : List (List Char)) (loc : Loc) (h : inside lines loc = true) : (render lines loc).isOk = true := by
  cases loc with
  | range lb cb le ce =>
    simp only [inside, Bool.and_eq_true, Bool.or_eq_true, decide_eq_true_eq] at h
    have h1 : lb ≠ 0 := by omega
    have h2 : le ≠ 0 := by omega
    have h3 : ¬ le < lb := by omega
    have h4 : le ≤ lines.length := by omega
    simp [render, formatContext, rereadLines, h1, h2, h3, h4, Rendered.isOk]
  | lineRange lb le =>
    simp only [inside, Bool.and_eq_true, decide_eq_true_eq] at h
    have h1 : lb ≠ 0 := by omega
    have h2 : le ≠ 0 := by omega
    have h3 : ¬ le < lb := by omega
    have h4 : le ≤ lines.length := by omega
    simp [render, rereadLines, h1, h2, h3, h4, Rendered.isOk]
  | line l =>
    simp only [inside, Bool.and_eq_true, decide_eq_true_eq] at h
    have h1 : l ≠ 0 := by omega
    have h4 : l ≤ lines.length := by omega
    simp [render, rereadLines, h1, h4, Rendered.isOk]
  | unknown => simp [inside] at h

/-- what happens without the order hypothesis: `concat` of a later and an earlier range is an inverted range, whose rendering
    panics (`ln_end - ln_begin` on usize) — `C24_concat_inside` needs `ordered` -/
theorem C24_unordered_witness :
    concat (.range 2 0 2 1) (.range 1 0 1 1) = .range 2 0 1 1 ∧
      (render (linesOf "a\nb".toList) (concat (.range 2 0 2 1) (.range 1 0 1 1))).isOk = false := by decide

/-- line 0 (a token whose line was lost) is not rendered: `power_assert!(ln_begin >= 1)` -/
theorem C24_line0_witness : (render (linesOf "a".toList) (.range 0 0 0 1)).isOk = false := by decide

/-- C24_token_loc (corollary shape of C08's position statement): a token whose recorded position is the true position of an
    offset `off` such that the `content.length` characters from `off` on contain no line break and lie in the text, has a location
    inside the source. Stated on the spec functions `lineBack`/`colBack` of C08. -/
theorem C24_token_span (chars : Array Char) (off : Nat) : ∀ k, (∀ j, j < k → chars[off + j]? ≠ some '\n') →
    (∀ j, j < k → (chars[off + j]?).isSome) → colBack chars (off + k) = colBack chars off + k := by
  intro k
  induction k with
  | zero => intro _ _; rfl
  | succ k ih =>
    intro h1 h2
    have e : off + (k + 1) = (off + k) + 1 := by omega
    rw [e, colBack]
    have hk := h1 k (by omega)
    have hs := h2 k (by omega)
    cases hx : chars[off + k]? with
    | none => simp [hx] at hs
    | some ch =>
      have hne : ch ≠ '\n' := by intro e2; apply hk; rw [hx, e2]
      simp only [hne, if_false]
      rw [ih (fun j hj => h1 j (by omega)) (fun j hj => h2 j (by omega))]
      omega

/-- the legacy witness of finding #8 as seen by diagnostics: before the lexer fix the location of the name after `"a\tb\n"` did not
    select the name; after it, it does (evaluated on the lexer model) -/
def nameTokenLoc (lg : Bool) (src name : List Char) : Option Loc :=
  ((okTokens (lexAll lg src).items).find? (fun t => t.content = name)).map tokenLoc

def sliceOf (lines : List (List Char)) : Loc → List Char
  | .range lb cb _ ce => ((lines.getD (lb - 1) []).drop cb).take (ce - cb)
  | _ => []

theorem C24_token_loc_legacy_witness :
    (nameTokenLoc true "print! \"a\\tb\\n\", zq".toList "zq".toList).map (sliceOf (linesOf "print! \"a\\tb\\n\", zq".toList)) ≠ some "zq".toList := by
  decide +kernel

theorem C24_token_loc_fixed_witness :
    (nameTokenLoc false "print! \"a\\tb\\n\", zq".toList "zq".toList).map (sliceOf (linesOf "print! \"a\\tb\\n\", zq".toList)) = some "zq".toList := by
  decide +kernel

/-- recorded finding C24-multiline-token-line: a list element that is a multi-line string with an `\n` escape is located on the
    previous line, outside that line's columns -/
theorem C24_multiline_witness :
    ((okTokens (lexAll false "x = 1\ny = [\"\"\"m\\n\"\"\"]".toList).items).find? (fun t => t.kind = .StrLit)).map
      (fun t => inside (linesOf "x = 1\ny = [\"\"\"m\\n\"\"\"]".toList) (tokenLoc t)) = some false := by
  decide +kernel

end ErgVerif.C24
