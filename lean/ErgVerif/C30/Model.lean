/-
C30 — a scoped mini-language for rename: binders are variable definitions, function definitions, parameters (with default
arguments evaluated in the ENCLOSING scope) and lambda parameters; closures see the enclosing scopes; a definition in a nested
block shadows an outer one of the same name.

What is modelled of crates/els/rename.rs `Server::rename`: the edit set is `commit_change(def_loc)` plus `commit_change(referrer)`
for every referrer of the definition in the reference index (`ModuleIndex::get_refs`) — here: the binder's name token plus every
occurrence token that `resolve`s to the binder — each edit replacing the token's range (`loc_to_range` of the token's REPORTED
location, columns as the lexer counts them) by the new name. The resolver itself (the reference index filled by the lowerer) is
not transcribed; it is specified by `res*` below and compared with the real index on every rename request.
Import-free: the driver links as a `lean_exe`.
-/
namespace ErgVerif.C30

/-- a name token: `idx` identifies the token in the source (the driver keeps its positions in a table) -/
structure Tok where
  idx : Nat
  name : String
  deriving DecidableEq, Repr

mutual
  inductive Tm where
    | var (t : Tok)                                              -- occurrence of a name
    | lit                                                        -- literals (numbers, strings): no names inside
    | app (a b : Tm)                                             -- operators, call `f(args)`, sequencing of expression statements
    | lam (ps : Ps) (body : Tm)                                  -- `(a, b := d) -> body`
    | letv (id : Nat) (t : Tok) (rhs : Tm) (rest : Tm)           -- `x = rhs` followed by the rest of the block
    | letf (id : Nat) (t : Tok) (ps : Ps) (body : Tm) (rest : Tm) -- `f(ps) = body` followed by the rest of the block
  inductive Ps where
    | nil
    | cons (id : Nat) (t : Tok) (dflt : Tm) (rest : Ps)          -- parameter with default (`lit` when absent)
end

/-- scope stack, innermost first: (name, binder id) -/
abbrev Env := List (String × Nat)

def lookup : Env → String → Option Nat
  | [], _ => none
  | (m, i) :: rest, n => if m = n then some i else lookup rest n

/-- parameters enter the scope left to right (a later one shadows an earlier one of the same name) -/
def bindPs : Ps → Env → Env
  | .nil, e => e
  | .cons id t _ rest, e => bindPs rest ((t.name, id) :: e)

mutual
  /-- every name token with the binder it denotes (binder tokens denote themselves), in traversal order -/
  def resT (env : Env) : Tm → List (Tok × Option Nat)
    | .var t => [(t, lookup env t.name)]
    | .lit => []
    | .app a b => resT env a ++ resT env b
    | .lam ps body => resPs env ps ++ resT (bindPs ps env) body
    | .letv id t rhs rest => (t, some id) :: (resT env rhs ++ resT ((t.name, id) :: env) rest)
    | .letf id t ps body rest =>
      (t, some id) :: (resPs env ps ++ resT (bindPs ps ((t.name, id) :: env)) body ++ resT ((t.name, id) :: env) rest)
  /-- parameter tokens, and the defaults resolved in the enclosing scope `env` -/
  def resPs (env : Env) : Ps → List (Tok × Option Nat)
    | .nil => []
    | .cons id t d rest => (t, some id) :: (resT env d ++ resPs env rest)
end

/-- the binding structure: token index ↦ binder, names forgotten -/
def shape (l : List (Tok × Option Nat)) : List (Nat × Option Nat) := l.map (fun p => (p.1.idx, p.2))

/-- `Model.renameEdits`: the tokens to edit when renaming binder `b` -/
def renameSites (b : Nat) (env : Env) (p : Tm) : List Nat :=
  ((resT env p).filter (fun x => x.2 == some b)).map (fun x => x.1.idx)

def Tok.rename (t : Tok) (new : String) : Tok := { t with name := new }

mutual
  /-- α-renaming of binder `b` to `new`: the binder token(s) with id `b` and the occurrences that resolve to `b`.
      `env` is the scope in ORIGINAL names. -/
  def renT (b : Nat) (new : String) (env : Env) : Tm → Tm
    | .var t => if lookup env t.name = some b then .var (t.rename new) else .var t
    | .lit => .lit
    | .app x y => .app (renT b new env x) (renT b new env y)
    | .lam ps body => .lam (renPs b new env ps) (renT b new (bindPs ps env) body)
    | .letv id t rhs rest =>
      .letv id (if id = b then t.rename new else t) (renT b new env rhs) (renT b new ((t.name, id) :: env) rest)
    | .letf id t ps body rest =>
      .letf id (if id = b then t.rename new else t) (renPs b new env ps)
        (renT b new (bindPs ps ((t.name, id) :: env)) body) (renT b new ((t.name, id) :: env) rest)
  def renPs (b : Nat) (new : String) (env : Env) : Ps → Ps
    | .nil => .nil
    | .cons id t d rest => .cons id (if id = b then t.rename new else t) (renT b new env d) (renPs b new env rest)
end

/-- the scope after renaming -/
def renEnv (b : Nat) (new : String) (env : Env) : Env := env.map (fun p => if p.2 = b then (new, p.2) else p)

mutual
  def namesT : Tm → List String
    | .var t => [t.name]
    | .lit => []
    | .app a b => namesT a ++ namesT b
    | .lam ps body => namesPs ps ++ namesT body
    | .letv _ t rhs rest => t.name :: (namesT rhs ++ namesT rest)
    | .letf _ t ps body rest => t.name :: (namesPs ps ++ namesT body ++ namesT rest)
  def namesPs : Ps → List String
    | .nil => []
    | .cons _ t d rest => t.name :: (namesT d ++ namesPs rest)
end

/-- `new` is a fresh, unused identifier -/
def Fresh (new : String) (env : Env) (p : Tm) : Prop := new ∉ env.map (·.1) ∧ new ∉ namesT p

/-- apply "replace the name by `new`" at exactly the tokens whose index is in `sites` -/
def editTok (sites : List Nat) (new : String) (t : Tok) : Tok := if t.idx ∈ sites then t.rename new else t

mutual
  def editT (sites : List Nat) (new : String) : Tm → Tm
    | .var t => .var (editTok sites new t)
    | .lit => .lit
    | .app a b => .app (editT sites new a) (editT sites new b)
    | .lam ps body => .lam (editPs sites new ps) (editT sites new body)
    | .letv id t rhs rest => .letv id (editTok sites new t) (editT sites new rhs) (editT sites new rest)
    | .letf id t ps body rest => .letf id (editTok sites new t) (editPs sites new ps) (editT sites new body) (editT sites new rest)
  def editPs (sites : List Nat) (new : String) : Ps → Ps
    | .nil => .nil
    | .cons id t d rest => .cons id (editTok sites new t) (editT sites new d) (editPs sites new rest)
end

/-! ### lambda parameters (class of a recorded finding) -/

mutual
  /-- (binder id, name token) of every LAMBDA parameter -/
  def lamParamsT : Tm → List (Nat × Nat)
    | .var _ => []
    | .lit => []
    | .app a b => lamParamsT a ++ lamParamsT b
    | .lam ps body => psToks ps ++ lamParamsPs ps ++ lamParamsT body
    | .letv _ _ rhs rest => lamParamsT rhs ++ lamParamsT rest
    | .letf _ _ ps body rest => lamParamsPs ps ++ lamParamsT body ++ lamParamsT rest
  /-- lambda parameters inside the defaults of a parameter list -/
  def lamParamsPs : Ps → List (Nat × Nat)
    | .nil => []
    | .cons _ _ d rest => lamParamsT d ++ lamParamsPs rest
  def psToks : Ps → List (Nat × Nat)
    | .nil => []
    | .cons id t _ rest => (id, t.idx) :: psToks rest
end

/-! ### text edits -/

/-- where a name token is: its line, its TRUE column, the column the lexer REPORTS for it, its length -/
structure TokPos where
  line : Nat
  col : Nat
  rcol : Nat
  len : Nat
  deriving DecidableEq, Repr

/-- `util::loc_to_range(token.loc)`: one-line range (line, start column, end column); the server uses the reported column -/
def editRange (reported : Bool) (p : TokPos) : Nat × Nat × Nat :=
  let c := if reported then p.rcol else p.col
  (p.line, c, c + p.len)

/-- the `TextEdit` ranges of `Server::rename` for the given sites -/
def renameEdits (tab : Nat → Option TokPos) (reported : Bool) (sites : List Nat) : List (Nat × Nat × Nat) :=
  sites.filterMap (fun i => (tab i).map (editRange reported))

end ErgVerif.C30
