import ErgVerif.C30.Proofs
/-!
C30 — property theorems for the scoped mini-language of `Model.lean` (definitions, parameters, default arguments evaluated in the
enclosing scope, lambdas/closures, shadowing in nested blocks).
-/
namespace ErgVerif.C30

/-- α-renaming. If `new` is fresh (not a name of the scope or of the program) and name tokens are distinct tokens, then
    (1) replacing the name at EXACTLY the tokens `renameSites b` (the binder's token and the occurrences that resolve to it — the edit set
        of `Server::rename`) yields the α-renamed program, and
    (2) the renamed program has the same binding structure: every token denotes the same binder as before (so typing and behaviour,
        which depend on names only through the binding structure, are unchanged). -/
theorem C30_alpha (b : Nat) (new : String) (env : Env) (p : Tm) (hfresh : Fresh new env p)
    (hdistinct : ((resT env p).map (·.1.idx)).Nodup) :
    editT (renameSites b env p) new p = renT b new env p ∧
    shape (resT (renEnv b new env) (renT b new env p)) = shape (resT env p) :=
  ⟨edit_T b new p env _ (exact_renameSites b env p hdistinct), alpha_T b new p env hfresh.1 hfresh.2⟩

/-- no residue: in the renamed program every token that denotes `b` is spelled `new` (nothing spelled with the old name refers to the
    renamed binding any more). No freshness needed. -/
theorem C30_no_residue (b : Nat) (new : String) (env : Env) (p : Tm) :
    ∀ x ∈ resT (renEnv b new env) (renT b new env p), x.2 = some b → x.1.name = new :=
  residue_T b new p env

/-- edit ranges: when the lexer's reported columns are the true columns, the server's ranges are the true ranges of the sites -/
theorem C30_edit_ranges (tab : Nat → Option TokPos) (sites : List Nat) (h : ∀ i p, tab i = some p → p.rcol = p.col) :
    renameEdits tab true sites = renameEdits tab false sites := by
  unfold renameEdits
  congr 1; funext i
  cases hp : tab i with
  | none => rfl
  | some p => simp [editRange, h i p hp]

/-- … and not otherwise: until the lexer fix 92d1c2c3 (C08) the lexer reported a shifted column after an escaped string literal on the same
    line; `x` of `print! "t\tq", x` is at column 15 but was reported at 17, and the rename edit overwrote columns 17–18. Replayed through
    `request_rename` before the fix: corpus/C30 `w:C30-range-drift-after-escape`. -/
theorem C30_edit_ranges_witness_drift :
    let tab : Nat → Option TokPos := fun i => if i = 0 then some ⟨0, 0, 0, 1⟩ else if i = 1 then some ⟨5, 15, 17, 1⟩ else none
    renameEdits tab true [0, 1] = [(0, 0, 1), (5, 17, 18)] ∧ renameEdits tab false [0, 1] = [(0, 0, 1), (5, 15, 16)] := by decide

/-! #### the probed program: `x = 1 ; f(a, b := x) = (x = a + b ; g() = x + a ; g()) ; print! …, x, f(2)` -/

def demo : Tm :=
  .letv 0 ⟨0, "x"⟩ .lit <|
  .letf 1 ⟨1, "f"⟩ (.cons 2 ⟨2, "a"⟩ .lit (.cons 3 ⟨3, "b"⟩ (.var ⟨4, "x"⟩) .nil))
    (.letv 4 ⟨5, "x"⟩ (.app (.var ⟨6, "a"⟩) (.var ⟨7, "b"⟩)) <|
     .letf 5 ⟨8, "g"⟩ .nil (.app (.var ⟨9, "x"⟩) (.var ⟨10, "a"⟩)) <|
     .var ⟨11, "g"⟩) <|
  .app (.var ⟨12, "x"⟩) (.var ⟨13, "f"⟩)

/-- shadowing, closure and default argument: the outer `x` is edited at its definition, in the default argument and at the last line;
    the inner `x` at its definition and inside the closure `g` -/
example : renameSites 0 [] demo = [0, 4, 12] ∧ renameSites 4 [] demo = [5, 9] ∧ renameSites 2 [] demo = [2, 6, 10] := by decide

/-- the hypotheses of `C30_alpha` are satisfiable on it -/
example : Fresh "zz" [] demo ∧ ((resT [] demo).map (·.1.idx)).Nodup := by
  constructor
  · constructor <;> decide
  · decide

/-- freshness is necessary: renaming the inner `x` to `a` (a parameter name of `f`) changes what `a` in the body of the closure `g`
    denotes — capture. The full statement without `Fresh` is false. -/
theorem C30_capture_witness :
    shape (resT (renEnv 4 "a" []) (renT 4 "a" [] demo)) ≠ shape (resT [] demo) := by decide

end ErgVerif.C30
