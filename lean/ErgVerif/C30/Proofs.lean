import ErgVerif.C30.Model
/-! helper lemmas and the mutual inductions for C30 (core Lean only) -/
namespace ErgVerif.C30

variable (b : Nat) (new : String)

/-- how one scope entry is renamed -/
def renEntry (p : String × Nat) : String × Nat := if p.2 = b then (new, p.2) else p

theorem renEnv_cons (x : String × Nat) (e : Env) : renEnv b new (x :: e) = renEntry b new x :: renEnv b new e := by
  simp [renEnv, renEntry]

theorem renEntry_name (id : Nat) (t : Tok) :
    renEntry b new (t.name, id) = ((if id = b then t.rename new else t).name, id) := by
  unfold renEntry; by_cases h : id = b <;> simp [h, Tok.rename]

/-- looking the (possibly renamed) name up in the renamed scope finds the same binder -/
theorem lookup_ren : ∀ (env : Env) (n : String), new ∉ env.map (·.1) → n ≠ new →
    lookup (renEnv b new env) (if lookup env n = some b then new else n) = lookup env n
  | [], n, _, _ => by simp [renEnv, lookup]
  | (m, i) :: rest, n, hf, hn => by
    have hm : m ≠ new := by intro h; apply hf; simp [h]
    have hf' : new ∉ rest.map (·.1) := by intro h; apply hf; simp [h]
    have ih := lookup_ren rest n hf' hn
    rw [renEnv_cons]
    by_cases hmn : m = n
    · subst hmn
      by_cases hib : i = b
      · subst hib; simp [lookup, renEntry]
      · simp [lookup, renEntry, hib, hm]
    · by_cases hib : i = b
      · subst hib
        by_cases hl : lookup rest n = some i
        · simp [lookup, renEntry, hmn, hl]
        · have hnn : new ≠ n := fun h => hn h.symm
          simp [lookup, renEntry, hmn, hl, hnn]
          simpa [hl] using ih
      · by_cases hl : lookup rest n = some b
        · simp [lookup, renEntry, hmn, hl, hib, hm]
          simpa [hl] using ih
        · simp [lookup, renEntry, hmn, hl, hib]
          simpa [hl] using ih

/-- in the renamed scope only `new` resolves to `b` -/
theorem lookup_renEnv_b : ∀ (env : Env) (n : String), lookup (renEnv b new env) n = some b → n = new
  | [], n, h => by simp [renEnv, lookup] at h
  | (m, i) :: rest, n, h => by
    have ih := lookup_renEnv_b rest n
    rw [renEnv_cons] at h
    by_cases hib : i = b
    · simp only [renEntry, hib, if_true, lookup] at h
      by_cases hnn : new = n
      · exact hnn.symm
      · simp [hnn] at h; exact ih h
    · simp only [renEntry, hib, if_false, lookup] at h
      by_cases hmn : m = n
      · simp [hmn] at h; exact absurd h hib
      · simp [hmn] at h; exact ih h

theorem bindPs_ren : ∀ (ps : Ps) (env0 e : Env),
    bindPs (renPs b new env0 ps) (renEnv b new e) = renEnv b new (bindPs ps e)
  | .nil, _, _ => by simp [renPs, bindPs]
  | .cons id t d rest, env0, e => by
    simp only [renPs, bindPs]
    rw [← renEntry_name, ← renEnv_cons]
    exact bindPs_ren rest env0 ((t.name, id) :: e)

theorem bindPs_names : ∀ (ps : Ps) (e : Env), new ∉ e.map (·.1) → new ∉ namesPs ps → new ∉ (bindPs ps e).map (·.1)
  | .nil, e, he, _ => by simpa [bindPs] using he
  | .cons id t d rest, e, he, hp => by
    simp only [bindPs]
    apply bindPs_names rest
    · intro h; simp at h; rcases h with h | h
      · apply hp; simp [namesPs, h]
      · apply he; simpa using h
    · intro h; apply hp; simp [namesPs, h]

theorem shape_append (a c : List (Tok × Option Nat)) : shape (a ++ c) = shape a ++ shape c := by simp [shape]

theorem shape_cons (t : Tok) (r : Option Nat) (l : List (Tok × Option Nat)) : shape ((t, r) :: l) = (t.idx, r) :: shape l := by
  simp [shape]

theorem idx_ren (id : Nat) (t : Tok) : (if id = b then t.rename new else t).idx = t.idx := by
  by_cases h : id = b <;> simp [h, Tok.rename]

mutual
  theorem alpha_T : ∀ (p : Tm) (env : Env), new ∉ env.map (·.1) → new ∉ namesT p →
      shape (resT (renEnv b new env) (renT b new env p)) = shape (resT env p)
    | .var t, env, he, hp => by
      have hn : t.name ≠ new := by intro h; apply hp; simp [namesT, h]
      have := lookup_ren b new env t.name he hn
      simp only [renT]
      by_cases hl : lookup env t.name = some b
      · simp [hl, resT, shape, Tok.rename] at this ⊢; exact this
      · simp [hl, resT, shape] at this ⊢; exact this
    | .lit, _, _, _ => by simp [renT, resT]
    | .app x y, env, he, hp => by
      have hx : new ∉ namesT x := by intro h; apply hp; simp [namesT, h]
      have hy : new ∉ namesT y := by intro h; apply hp; simp [namesT, h]
      simp only [renT, resT, shape_append, alpha_T x env he hx, alpha_T y env he hy]
    | .lam ps body, env, he, hp => by
      have h1 : new ∉ namesPs ps := by intro h; apply hp; simp [namesT, h]
      have h2 : new ∉ namesT body := by intro h; apply hp; simp [namesT, h]
      simp only [renT, resT, shape_append, bindPs_ren, alpha_Ps ps env he h1,
        alpha_T body (bindPs ps env) (bindPs_names new ps env he h1) h2]
    | .letv id t rhs rest, env, he, hp => by
      have h0 : t.name ≠ new := by intro h; apply hp; simp [namesT, h]
      have h1 : new ∉ namesT rhs := by intro h; apply hp; simp [namesT, h]
      have h2 : new ∉ namesT rest := by intro h; apply hp; simp [namesT, h]
      have he' : new ∉ ((t.name, id) :: env).map (·.1) := by
        intro h; simp at h; rcases h with h | h
        · exact h0 h.symm
        · apply he; simpa using h
      have ih2 := alpha_T rest ((t.name, id) :: env) he' h2
      rw [renEnv_cons, renEntry_name] at ih2
      simp only [renT, resT, shape_cons, shape_append, alpha_T rhs env he h1, ih2, idx_ren]
    | .letf id t ps body rest, env, he, hp => by
      have h0 : t.name ≠ new := by intro h; apply hp; simp [namesT, h]
      have h1 : new ∉ namesPs ps := by intro h; apply hp; simp [namesT, h]
      have h2 : new ∉ namesT body := by intro h; apply hp; simp [namesT, h]
      have h3 : new ∉ namesT rest := by intro h; apply hp; simp [namesT, h]
      have he' : new ∉ ((t.name, id) :: env).map (·.1) := by
        intro h; simp at h; rcases h with h | h
        · exact h0 h.symm
        · apply he; simpa using h
      have ih2 := alpha_T body (bindPs ps ((t.name, id) :: env)) (bindPs_names new ps _ he' h1) h2
      rw [← bindPs_ren b new ps env, renEnv_cons, renEntry_name] at ih2
      have ih3 := alpha_T rest ((t.name, id) :: env) he' h3
      rw [renEnv_cons, renEntry_name] at ih3
      simp only [renT, resT, shape_cons, shape_append, alpha_Ps ps env he h1, ih2, ih3, idx_ren]
  theorem alpha_Ps : ∀ (ps : Ps) (env : Env), new ∉ env.map (·.1) → new ∉ namesPs ps →
      shape (resPs (renEnv b new env) (renPs b new env ps)) = shape (resPs env ps)
    | .nil, _, _, _ => by simp [renPs, resPs]
    | .cons id t d rest, env, he, hp => by
      have h1 : new ∉ namesT d := by intro h; apply hp; simp [namesPs, h]
      have h2 : new ∉ namesPs rest := by intro h; apply hp; simp [namesPs, h]
      simp only [renPs, resPs, shape_cons, shape_append, alpha_T d env he h1, alpha_Ps rest env he h2, idx_ren]
end

/-! #### no residue: in the renamed program whatever resolves to `b` is spelled `new` -/

def AllNew (l : List (Tok × Option Nat)) : Prop := ∀ x ∈ l, x.2 = some b → x.1.name = new

theorem allNew_append {l1 l2 : List (Tok × Option Nat)} (h1 : AllNew b new l1) (h2 : AllNew b new l2) : AllNew b new (l1 ++ l2) := by
  intro x hx; rcases List.mem_append.1 hx with h | h
  · exact h1 x h
  · exact h2 x h

theorem allNew_cons_binder (id : Nat) (t : Tok) {l : List (Tok × Option Nat)} (h : AllNew b new l) :
    AllNew b new (((if id = b then t.rename new else t), some id) :: l) := by
  intro x hx; rcases List.mem_cons.1 hx with h1 | h1
  · subst h1; intro hb
    have : id = b := by simpa using hb
    simp [this, Tok.rename]
  · exact h x h1

mutual
  theorem residue_T : ∀ (p : Tm) (env : Env), AllNew b new (resT (renEnv b new env) (renT b new env p))
    | .var t, env => by
      simp only [renT]
      by_cases hl : lookup env t.name = some b
      · simp only [hl, if_true, resT]; intro x hx hb; simp at hx; subst hx; simp [Tok.rename]
      · simp only [hl, if_false, resT]; intro x hx hb; simp at hx; subst hx
        exact lookup_renEnv_b b new env t.name hb
    | .lit, _ => by simp [renT, resT, AllNew]
    | .app x y, env => by
      simp only [renT, resT]; exact allNew_append b new (residue_T x env) (residue_T y env)
    | .lam ps body, env => by
      simp only [renT, resT, bindPs_ren]
      exact allNew_append b new (residue_Ps ps env) (residue_T body (bindPs ps env))
    | .letv id t rhs rest, env => by
      have ih2 := residue_T rest ((t.name, id) :: env)
      rw [renEnv_cons, renEntry_name] at ih2
      simp only [renT, resT]
      exact allNew_cons_binder b new id t (allNew_append b new (residue_T rhs env) ih2)
    | .letf id t ps body rest, env => by
      have ih2 := residue_T body (bindPs ps ((t.name, id) :: env))
      rw [← bindPs_ren b new ps env, renEnv_cons, renEntry_name] at ih2
      have ih3 := residue_T rest ((t.name, id) :: env)
      rw [renEnv_cons, renEntry_name] at ih3
      simp only [renT, resT]
      exact allNew_cons_binder b new id t (allNew_append b new (allNew_append b new (residue_Ps ps env) ih2) ih3)
  theorem residue_Ps : ∀ (ps : Ps) (env : Env), AllNew b new (resPs (renEnv b new env) (renPs b new env ps))
    | .nil, _ => by simp [renPs, resPs, AllNew]
    | .cons id t d rest, env => by
      simp only [renPs, resPs]
      exact allNew_cons_binder b new id t (allNew_append b new (residue_T d env) (residue_Ps rest env))
end

/-! #### editing exactly at the sites is the α-renaming -/

/-- `sites` selects exactly the tokens of `l` that denote `b` -/
def Exact (sites : List Nat) (l : List (Tok × Option Nat)) : Prop := ∀ x ∈ l, (x.1.idx ∈ sites ↔ x.2 = some b)

theorem exact_left {s : List Nat} {l1 l2 : List (Tok × Option Nat)} (h : Exact b s (l1 ++ l2)) : Exact b s l1 :=
  fun x hx => h x (List.mem_append.2 (Or.inl hx))
theorem exact_right {s : List Nat} {l1 l2 : List (Tok × Option Nat)} (h : Exact b s (l1 ++ l2)) : Exact b s l2 :=
  fun x hx => h x (List.mem_append.2 (Or.inr hx))
theorem exact_tail {s : List Nat} {x : Tok × Option Nat} {l : List (Tok × Option Nat)} (h : Exact b s (x :: l)) : Exact b s l :=
  fun y hy => h y (List.mem_cons.2 (Or.inr hy))

theorem edit_binder {s : List Nat} {id : Nat} {t : Tok} {l : List (Tok × Option Nat)} (h : Exact b s ((t, some id) :: l)) :
    editTok s new t = (if id = b then t.rename new else t) := by
  have := h (t, some id) (by simp)
  simp only [Option.some.injEq] at this
  unfold editTok
  by_cases hb : id = b
  · simp [hb, this.2 hb]
  · have : t.idx ∉ s := fun hm => hb (this.1 hm)
    simp [hb, this]

mutual
  theorem edit_T : ∀ (p : Tm) (env : Env) (s : List Nat), Exact b s (resT env p) → editT s new p = renT b new env p
    | .var t, env, s, h => by
      have := h (t, lookup env t.name) (by simp [resT])
      simp only [editT, renT, editTok]
      by_cases hl : lookup env t.name = some b
      · simp [hl, this.2 hl]
      · have : t.idx ∉ s := fun hm => hl (this.1 hm)
        simp [hl, this]
    | .lit, _, _, _ => by simp [editT, renT]
    | .app x y, env, s, h => by
      simp only [resT] at h
      simp only [editT, renT, edit_T x env s (exact_left b h), edit_T y env s (exact_right b h)]
    | .lam ps body, env, s, h => by
      simp only [resT] at h
      simp only [editT, renT, edit_Ps ps env s (exact_left b h), edit_T body _ s (exact_right b h)]
    | .letv id t rhs rest, env, s, h => by
      simp only [resT] at h
      have ht := exact_tail b h
      simp only [editT, renT, edit_binder b new h, edit_T rhs env s (exact_left b ht), edit_T rest _ s (exact_right b ht)]
    | .letf id t ps body rest, env, s, h => by
      simp only [resT] at h
      have ht := exact_tail b h
      simp only [editT, renT, edit_binder b new h, edit_Ps ps env s (exact_left b (exact_left b ht)),
        edit_T body _ s (exact_right b (exact_left b ht)), edit_T rest _ s (exact_right b ht)]
  theorem edit_Ps : ∀ (ps : Ps) (env : Env) (s : List Nat), Exact b s (resPs env ps) → editPs s new ps = renPs b new env ps
    | .nil, _, _, _ => by simp [editPs, renPs]
    | .cons id t d rest, env, s, h => by
      simp only [resPs] at h
      have ht := exact_tail b h
      simp only [editPs, renPs, edit_binder b new h, edit_T d env s (exact_left b ht), edit_Ps rest env s (exact_right b ht)]
end

/-- two entries of a list whose keys are pairwise distinct and that have the same key are the same entry -/
theorem eq_of_nodup_map {α β : Type} (f : α → β) : ∀ (l : List α), (l.map f).Nodup → ∀ x ∈ l, ∀ y ∈ l, f x = f y → x = y
  | [], _, x, hx, _, _, _ => by simp at hx
  | a :: l, hn, x, hx, y, hy, hxy => by
    simp only [List.map_cons, List.nodup_cons] at hn
    rcases List.mem_cons.1 hx with h1 | h1 <;> rcases List.mem_cons.1 hy with h2 | h2
    · rw [h1, h2]
    · subst h1; exfalso; apply hn.1; rw [hxy]; exact List.mem_map_of_mem h2
    · subst h2; exfalso; apply hn.1; rw [← hxy]; exact List.mem_map_of_mem h1
    · exact eq_of_nodup_map f l hn.2 x h1 y h2 hxy

theorem exact_renameSites (env : Env) (p : Tm) (hd : ((resT env p).map (·.1.idx)).Nodup) :
    Exact b (renameSites b env p) (resT env p) := by
  intro x hx
  simp only [renameSites, List.mem_map, List.mem_filter, beq_iff_eq]
  constructor
  · rintro ⟨y, ⟨hy, hyb⟩, hidx⟩
    have := eq_of_nodup_map (fun (z : Tok × Option Nat) => z.1.idx) _ hd y hy x hx hidx
    rw [← this]; exact hyb
  · intro hb; exact ⟨x, ⟨hx, hb⟩, rfl⟩

end ErgVerif.C30
