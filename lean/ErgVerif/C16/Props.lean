import ErgVerif.C16.Proofs
import ErgVerif.Gen.C16
import ErgVerif.Gen.C16Written
/-!
# C16 — Opcode and magic-number tables match each CPython version

Property theorems only. All tables named `Gen.C16.*` / `Gen.C16Written.*` are regenerated on every run (`checks/c16.py`)
from the working tree of the repository and from the installed interpreters; a changed table re-elaborates these
theorems. Every `decide +kernel` below evaluates a linear-time Bool checker of `Proofs.lean` whose soundness lemma turns
it into the quantified statement.
-/
namespace ErgVerif.C16

/-! ## what the compiler writes (`Gen.C16Written`: the triples passed to `write_instr` per target, recorded by the hook) -/

/-- Full statement (kept visible; false of the current code, see `C16_written_witness`):
    every `(enum, variant, byte)` the code generator writes while compiling for target 3.`v` is, by name, that opcode number in
    CPython 3.`v`. The name is read through `Gen.C16.verAliases v`: for 3.11 the generator deliberately writes
    `Opcode310::POP_JUMP_IF_FALSE/TRUE` where it means 3.11's `POP_JUMP_FORWARD_IF_FALSE/TRUE` (same numbers; the source says so). -/
def WrittenGood : Prop :=
  ∀ v ∈ targets, ∀ r ∈ Gen.C16Written.written v, (canonName (Gen.C16.verAliases v) r.2.1, r.2.2) ∈ Gen.C16.py v

/-- Outside the recorded class `K` = "the variant is `NOT_IMPLEMENTED`" (finding `C16-not-implemented-opcode`) the statement holds. -/
theorem C16_written_partial :
    ∀ v ∈ targets, ∀ r ∈ Gen.C16Written.written v, r.2.1 ≠ Gen.C16.notImplemented →
      (canonName (Gen.C16.verAliases v) r.2.1, r.2.2) ∈ Gen.C16.py v := by
  have h : (targets.all fun v => (writtenRest Gen.C16.notImplemented (Gen.C16.verAliases v) (Gen.C16Written.written v)
      (Gen.C16.py v)).isEmpty) = true := by decide +kernel
  intro v hv
  exact written_sound (List.all_eq_true.mp h v hv)

/-- Witness of the finding: compiling `print! 7 << 1` (corpus/C16/snippets/shift_not_implemented.er) for 3.11 writes
    `Opcode311::NOT_IMPLEMENTED` = 255, and 255 is the number of no opcode of CPython 3.11 (the interpreter crashes on it). -/
theorem C16_written_witness :
    (∃ r ∈ Gen.C16Written.written 11, r.2.1 = Gen.C16.notImplemented ∧ r.2.2 = 255) ∧
    ((Gen.C16.py 11).all fun p => p.2 != 255) = true := by decide +kernel

/-- hence the full statement is false -/
theorem C16_written_full_is_false : ¬ WrittenGood := by
  intro h
  obtain ⟨⟨r, hr, _, hb⟩, hall⟩ := C16_written_witness
  have hm := h 11 (by decide) r hr
  have := List.all_eq_true.mp hall _ hm
  simp [hb] at this

/-- Writes whose enum type is erased (`select_load_instr`/`select_store_instr` return a `u8`): the byte is an opcode of
    CPython 3.`v`, and under the name 3.`v` gives it some erg opcode enum defines it with that number. -/
theorem C16_written_raw :
    ∀ v ∈ targets, ∀ p ∈ Gen.C16Written.writtenRaw v,
      p ∈ Gen.C16.py v ∧ ∃ r ∈ Gen.C16.erg, (r.2.1, r.2.2) = p := by
  have h : (targets.all fun v => rawOk (Gen.C16Written.writtenRaw v) (Gen.C16.py v)
      (Gen.C16.erg.map fun r => (r.2.1, r.2.2))) = true := by decide +kernel
  intro v hv
  exact raw_sound (List.all_eq_true.mp h v hv)

/-- `CommonOpcode::is_jump_op` (one version-independent list) classifies every opcode written for 3.`v` exactly as
    `dis.hasjrel ∪ dis.hasjabs` of 3.`v` does — named and bare writes alike. -/
theorem C16_jumps :
    ∀ v ∈ targets,
      (∀ r ∈ Gen.C16Written.written v, isJumpOp r.2.2 = pyIsJump (Gen.C16.hasjrel v) (Gen.C16.hasjabs v) r.2.2) ∧
      (∀ p ∈ Gen.C16Written.writtenRaw v, isJumpOp p.2 = pyIsJump (Gen.C16.hasjrel v) (Gen.C16.hasjabs v) p.2) := by
  have h : (targets.all fun v =>
      jumpsOk isJumpOp (Gen.C16.hasjrel v) (Gen.C16.hasjabs v) (Gen.C16Written.written v) &&
      jumpsOkRaw isJumpOp (Gen.C16.hasjrel v) (Gen.C16.hasjabs v) (Gen.C16Written.writtenRaw v)) = true := by decide +kernel
  intro v hv
  have hv' := List.all_eq_true.mp h v hv
  simp only [Bool.and_eq_true] at hv'
  exact ⟨jumps_sound hv'.1, jumpsRaw_sound hv'.2⟩

/-- non-vacuity: the instrumented compile really produced writes for every target, jumps among them -/
example : (targets.all fun v => decide ((Gen.C16Written.written v).length ≥ 40) &&
    (Gen.C16Written.written v).any (fun r => isJumpOp r.2.2)) = true := by decide +kernel

/-! ## static tables -/

/-- No row of an opcode enum is a number typo: every `(enum, variant, byte)` (outside `ERG_*`/`NOT_IMPLEMENTED`) is, by name,
    that number in at least one CPython the generator targets. -/
theorem C16_static :
    ∀ r ∈ Gen.C16.erg, Gen.C16.excludedFrom ≤ r.2.1 ∨
      ∃ py ∈ targets.map Gen.C16.py, (canonName Gen.C16.aliases r.2.1, r.2.2) ∈ py :=
  static_sound (by decide +kernel)

/-- Every arm of `jump_abs_addr(v, ·)` (every opcode byte on which it returns) computes the address formula of the jump kind
    that CPython 3.`v` gives this opcode number (relative / absolute / backward relative, ×1 or ×2). -/
theorem C16_jumparms :
    ∀ v ∈ targets, ∀ a ∈ Gen.C16.jumpArms v,
      specKind v (Gen.C16.hasjrel v) (Gen.C16.hasjabs v) (Gen.C16.backward v) a.1 = some a.2 := by
  have h : (targets.all fun v => armsOk v (Gen.C16.hasjrel v) (Gen.C16.hasjabs v) (Gen.C16.backward v) (Gen.C16.jumpArms v)) = true := by
    decide +kernel
  intro v hv
  exact arms_sound (List.all_eq_true.mp h v hv)

/-- `specKind` names the formula `dis` uses: for every jump opcode the arm formula equals `dis`'s target, at every offset and
    argument (this is what makes `C16_jumparms` a statement about addresses). -/
theorem C16_kind_is_target (v : Nat) (rel abs back : List Nat) (b k : Nat) (idx arg : Int)
    (h : specKind v rel abs back b = some k) :
    disTarget v rel abs back b idx arg = some (armAddr k idx arg) := by
  unfold specKind at h; unfold disTarget
  by_cases ha : memN abs b = true
  · simp only [ha, if_true, Option.some.injEq] at h ⊢
    by_cases hv : v ≤ 9 <;> simp only [hv, if_true, if_false] at h ⊢ <;> subst h <;> simp [armAddr]
  · simp only [ha, if_false, Bool.false_eq_true] at h ⊢
    by_cases hr : memN rel b = true
    · simp only [hr, if_true, Option.some.injEq] at h ⊢
      by_cases hv : v ≤ 9
      · simp only [hv, if_true] at h ⊢; subst h; simp [armAddr]; omega
      · simp only [hv, if_false] at h ⊢
        by_cases hb : memN back b = true
        · simp only [hb, if_true] at h ⊢; subst h; simp [armAddr]; omega
        · simp only [hb, if_false, Bool.false_eq_true] at h ⊢; subst h; simp [armAddr]; omega
    · simp only [hr, Bool.false_eq_true, if_false] at h; cases h

/-- The arm repaired by the `fix:` commit: at the pinned commit `jump_abs_addr_311` gave `JUMP_BACKWARD` (140) the forward
    formula (kind 2); CPython 3.11 jumps backwards (kind 4), and the two differ at every non-zero argument. -/
theorem C16_legacy_jump_backward_witness :
    specKind 11 (Gen.C16.hasjrel 11) (Gen.C16.hasjabs 11) (Gen.C16.backward 11) 140 = some 4
    ∧ armAddr 2 100 10 ≠ armAddr 4 100 10 := by decide +kernel

/-! ## magic numbers -/

/-- The magic number of every installed interpreter 3.7–3.12 is mapped to that interpreter's version
    (`get_ver_from_magic_num`, as dumped from the working tree; a panic is a missing row). -/
theorem C16_magic :
    ∀ p ∈ Gen.C16.pyMagic, p.1 ≤ 12 →
      Gen.C16.verFromMagic.lookup (magicNumFromBytes p.2) = some (300 + p.1) := by decide +kernel

/-- For the magic number of every installed interpreter 3.7–3.12, `get_magic_num_bytes` returns exactly that interpreter's
    `importlib.util.MAGIC_NUMBER`. -/
theorem C16_magic_bytes :
    ∀ p ∈ Gen.C16.pyMagic, p.1 ≤ 12 → magicNumBytes (magicNumFromBytes p.2) = p.2 := by decide +kernel

/-- General form on the transcription: for every 16-bit magic number the four bytes are the little-endian number followed by
    `0D 0A`, and `get_magic_num_from_bytes` inverts `get_magic_num_bytes`. -/
theorem C16_magic_roundtrip (m : Nat) (h : m < 65536) :
    magicNumBytes m = [m % 256, m / 256, 13, 10] ∧ magicNumFromBytes (magicNumBytes m) = m := by
  have e : (0xA0D0000 ||| m) = 2 ^ 16 * 2573 + m := by
    rw [show (0xA0D0000 : Nat) = 2 ^ 16 * 2573 from rfl]
    exact (Nat.two_pow_add_eq_or_of_lt (i := 16) (b := m) (by omega) 2573).symm
  simp only [magicNumBytes, magicNumFromBytes, e]
  refine ⟨?_, ?_⟩
  · simp only [List.cons.injEq, and_true]; omega
  · omega

/-! ## ties of the transcriptions to the dumped behaviour of the working tree -/

/-- `isJumpOp` is `CommonOpcode::is_jump_op` on every byte -/
theorem C16_tie_is_jump_op : (List.range 256).filter isJumpOp = Gen.C16.isJumpOp := by decide +kernel

/-- `magicNumBytes`/`magicNumFromBytes` are `get_magic_num_bytes`/`get_magic_num_from_bytes` on 3000..3699 -/
theorem C16_tie_magic_bytes :
    ∀ r ∈ Gen.C16.magicBytes, magicNumBytes r.1 = r.2.1 ∧ magicNumFromBytes r.2.1 = r.2.2 := by decide +kernel

/-- `verFromMagicNum` is `get_ver_from_magic_num` on 3000..3699 (same rows, same panics) -/
theorem C16_tie_ver_from_magic : verTable 3000 700 = Gen.C16.verFromMagic := by decide +kernel

/-! ## non-vacuity -/
example : Gen.C16.erg.length ≥ 400 ∧ (Gen.C16.py 7).length ≥ 100 ∧ (Gen.C16.py 11).length ≥ 100 := by decide +kernel
example : (rowPairs Gen.C16.excludedFrom Gen.C16.aliases Gen.C16.erg).length ≥ 300 := by decide +kernel
example : (Gen.C16.jumpArms 9).length ≥ 5 ∧ (Gen.C16.jumpArms 11).length ≥ 5 ∧ Gen.C16.pyMagic.length ≥ 6
    ∧ Gen.C16.magicBytes.length = 700 := by decide +kernel

end ErgVerif.C16
