import ErgVerif.C16.Proofs
import ErgVerif.Gen.C16
/-!
# C16 — Opcode and magic-number tables match each CPython version

Property theorems only. All tables named `Gen.C16.*` / `Gen.C16Written.*` are regenerated on every run (`checks/c16.py`)
from the working tree of the repository and from the installed interpreters; a changed table re-elaborates these
theorems. Every `decide +kernel` below evaluates a linear-time Bool checker of `Proofs.lean` whose soundness lemma turns
it into the quantified statement.
-/
namespace ErgVerif.C16

/-! ## static tables -/

/-- No row of an opcode enum is a number typo: every `(enum, variant, byte)` (outside `ERG_*`/`NOT_IMPLEMENTED`) is, by name,
    that number in at least one CPython the generator targets. -/
theorem C16_static :
    ∀ r ∈ Gen.C16.erg, Gen.C16.excludedFrom ≤ r.2.1 ∨
      ∃ py ∈ targets.map Gen.C16.py, (canonName Gen.C16.aliases r.2.1, r.2.2) ∈ py :=
  static_sound (by decide +kernel)

/-- Every arm of `jump_abs_addr(v, ·)` (every opcode byte on which it returns) computes the address formula of the jump kind
    that CPython 3.`v` gives this opcode number (relative / absolute / backward relative, ×1 or ×2). -/
theorem C16_jumparms :
    ∀ v ∈ targets, ∀ a ∈ Gen.C16.jumpArms v,
      specKind v (Gen.C16.hasjrel v) (Gen.C16.hasjabs v) (Gen.C16.backward v) a.1 = some a.2 := by
  have h : (targets.all fun v => armsOk v (Gen.C16.hasjrel v) (Gen.C16.hasjabs v) (Gen.C16.backward v) (Gen.C16.jumpArms v)) = true := by
    decide +kernel
  intro v hv
  exact arms_sound (List.all_eq_true.mp h v hv)

/-- `specKind` names the formula `dis` uses: for every jump opcode the arm formula equals `dis`'s target, at every offset and
    argument (this is what makes `C16_jumparms` a statement about addresses). -/
theorem C16_kind_is_target (v : Nat) (rel abs back : List Nat) (b k : Nat) (idx arg : Int)
    (h : specKind v rel abs back b = some k) :
    disTarget v rel abs back b idx arg = some (armAddr k idx arg) := by
  unfold specKind at h; unfold disTarget
  by_cases ha : memN abs b = true
  · simp only [ha, if_true, Option.some.injEq] at h ⊢
    by_cases hv : v ≤ 9 <;> simp only [hv, if_true, if_false] at h ⊢ <;> subst h <;> simp [armAddr]
  · simp only [ha, if_false, Bool.false_eq_true] at h ⊢
    by_cases hr : memN rel b = true
    · simp only [hr, if_true, Option.some.injEq] at h ⊢
      by_cases hv : v ≤ 9
      · simp only [hv, if_true] at h ⊢; subst h; simp [armAddr]; omega
      · simp only [hv, if_false] at h ⊢
        by_cases hb : memN back b = true
        · simp only [hb, if_true] at h ⊢; subst h; simp [armAddr]; omega
        · simp only [hb, if_false, Bool.false_eq_true] at h ⊢; subst h; simp [armAddr]; omega
    · simp only [hr, Bool.false_eq_true, if_false] at h; cases h

/-- The arm repaired by the `fix:` commit: at the pinned commit `jump_abs_addr_311` gave `JUMP_BACKWARD` (140) the forward
    formula (kind 2); CPython 3.11 jumps backwards (kind 4), and the two differ at every non-zero argument. -/
theorem C16_legacy_jump_backward_witness :
    specKind 11 (Gen.C16.hasjrel 11) (Gen.C16.hasjabs 11) (Gen.C16.backward 11) 140 = some 4
    ∧ armAddr 2 100 10 ≠ armAddr 4 100 10 := by decide +kernel

/-! ## magic numbers -/

/-- The magic number of every installed interpreter 3.7–3.12 is mapped to that interpreter's version
    (`get_ver_from_magic_num`, as dumped from the working tree; a panic is a missing row). -/
theorem C16_magic :
    ∀ p ∈ Gen.C16.pyMagic, p.1 ≤ 12 →
      Gen.C16.verFromMagic.lookup (magicNumFromBytes p.2) = some (300 + p.1) := by decide +kernel

/-- For the magic number of every installed interpreter 3.7–3.12, `get_magic_num_bytes` returns exactly that interpreter's
    `importlib.util.MAGIC_NUMBER`. -/
theorem C16_magic_bytes :
    ∀ p ∈ Gen.C16.pyMagic, p.1 ≤ 12 → magicNumBytes (magicNumFromBytes p.2) = p.2 := by decide +kernel

/-- General form on the transcription: for every 16-bit magic number the four bytes are the little-endian number followed by
    `0D 0A`, and `get_magic_num_from_bytes` inverts `get_magic_num_bytes`. -/
theorem C16_magic_roundtrip (m : Nat) (h : m < 65536) :
    magicNumBytes m = [m % 256, m / 256, 13, 10] ∧ magicNumFromBytes (magicNumBytes m) = m := by
  have e : (0xA0D0000 ||| m) = 2 ^ 16 * 2573 + m := by
    rw [show (0xA0D0000 : Nat) = 2 ^ 16 * 2573 from rfl]
    exact (Nat.two_pow_add_eq_or_of_lt (i := 16) (b := m) (by omega) 2573).symm
  simp only [magicNumBytes, magicNumFromBytes, e]
  refine ⟨?_, ?_⟩
  · simp only [List.cons.injEq, and_true]; omega
  · omega

/-! ## ties of the transcriptions to the dumped behaviour of the working tree -/

/-- `isJumpOp` is `CommonOpcode::is_jump_op` on every byte -/
theorem C16_tie_is_jump_op : (List.range 256).filter isJumpOp = Gen.C16.isJumpOp := by decide +kernel

/-- `magicNumBytes`/`magicNumFromBytes` are `get_magic_num_bytes`/`get_magic_num_from_bytes` on 3000..3699 -/
theorem C16_tie_magic_bytes :
    ∀ r ∈ Gen.C16.magicBytes, magicNumBytes r.1 = r.2.1 ∧ magicNumFromBytes r.2.1 = r.2.2 := by decide +kernel

/-- `verFromMagicNum` is `get_ver_from_magic_num` on 3000..3699 (same rows, same panics) -/
theorem C16_tie_ver_from_magic : verTable 3000 700 = Gen.C16.verFromMagic := by decide +kernel

/-! ## non-vacuity -/
example : Gen.C16.erg.length ≥ 400 ∧ (Gen.C16.py 7).length ≥ 100 ∧ (Gen.C16.py 11).length ≥ 100 := by decide +kernel
example : (rowPairs Gen.C16.excludedFrom Gen.C16.aliases Gen.C16.erg).length ≥ 300 := by decide +kernel
example : (Gen.C16.jumpArms 9).length ≥ 5 ∧ (Gen.C16.jumpArms 11).length ≥ 5 ∧ Gen.C16.pyMagic.length ≥ 6
    ∧ Gen.C16.magicBytes.length = 700 := by decide +kernel

end ErgVerif.C16
