/-!
# C16 — model and specification vocabulary (import-free)

Transcribed from the working tree (each definition is tied to the code on every run by a regenerated table, see
`Props.lean`, theorems `C16_tie_*`):

* `crates/erg_common/opcode.rs`    `CommonOpcode::is_jump_op`            → `isJumpOp`
* `crates/erg_common/serialize.rs` `get_magic_num_bytes`                 → `magicNumBytes`
* `crates/erg_common/serialize.rs` `get_magic_num_from_bytes`            → `magicNumFromBytes`
* `crates/erg_common/serialize.rs` `get_ver_from_magic_num` (panic = `none`) → `verFromMagicNum`
* `crates/erg_compiler/ty/codeobj.rs` `jump_abs_addr_309/310/311`: the five address formulas → `armAddr`

The opcode enums themselves are not transcribed: they are dumped (`Enum::try_from(b)`, b = 0..255) into
`ErgVerif.Gen.C16.erg`, and the set of `(enum, variant, byte)` triples the code generator really passes to
`write_instr` for each target is recorded into `ErgVerif.Gen.C16Written`.

Specification side: CPython's `dis.opmap`, `dis.hasjrel`, `dis.hasjabs`, `importlib.util.MAGIC_NUMBER` per
interpreter (regenerated), and the rule `dis` uses to turn a jump argument into a target (`disTarget`).
Names are interned `Nat` ids (the intern table is printed in the generated file).
-/
namespace ErgVerif.C16

/-- targets of erg's code generator (minor versions of Python 3) -/
def targets : List Nat := [7, 8, 9, 10, 11]

/-! ## transcriptions -/

/-- membership in a short list of numbers, by `Nat.beq` (fast in the kernel) -/
def memN : List Nat → Nat → Bool
  | [], _ => false
  | k :: t, n => Nat.beq k n || memN t n

theorem memN_iff (l : List Nat) (n : Nat) : memN l n = true ↔ n ∈ l := by
  induction l with
  | nil => simp [memN]
  | cons k t ih =>
    simp only [memN, Bool.or_eq_true, ih, List.mem_cons]
    constructor
    · rintro (h | h)
      · exact Or.inl (Nat.eq_of_beq_eq_true h).symm
      · exact Or.inr h
    · rintro (h | h)
      · exact Or.inl (by subst h; exact Nat.beq_refl _)
      · exact Or.inr h


/-- `CommonOpcode::is_jump_op`: one version-independent list. -/
def isJumpOp (b : Nat) : Bool := memN [93, 110, 111, 112, 113, 114, 115, 140, 143, 175, 176] b

/-- `get_magic_num_bytes(python_ver: u32) = (0xA0D0000 | python_ver).to_le_bytes()` -/
def magicNumBytes (m : Nat) : List Nat :=
  let x := (0xA0D0000 ||| m) % 4294967296
  [x % 256, x / 256 % 256, x / 65536 % 256, x / 16777216 % 256]

/-- `get_magic_num_from_bytes(bytes) = u32::from_le_bytes([bytes[0], bytes[1], 0, 0])` -/
def magicNumFromBytes : List Nat → Nat
  | b0 :: b1 :: _ => b0 + 256 * b1
  | _ => 0

/-- `get_ver_from_magic_num`; result encoded `100*major + minor`; `none` = the `panic!` arm. -/
def verFromMagicNum (m : Nat) : Option Nat :=
  if 3360 ≤ m ∧ m ≤ 3379 then some 306
  else if 3390 ≤ m ∧ m ≤ 3394 then some 307
  else if 3400 ≤ m ∧ m ≤ 3413 then some 308
  else if 3420 ≤ m ∧ m ≤ 3425 then some 309
  else if 3430 ≤ m ∧ m ≤ 3439 then some 310
  else if m = 3495 then some 311
  else if m = 3531 then some 312
  else none

/-- the address formulas appearing in `jump_abs_addr_30x`, by kind id
    (0 `idx+arg+2`, 1 `arg`, 2 `idx+arg*2+2`, 3 `arg*2`, 4 `idx+2-arg*2`). `Int`, so that a backward jump past the
    start is visible instead of truncated. -/
def armAddr (kind : Nat) (idx arg : Int) : Int :=
  match kind with
  | 0 => idx + arg + 2
  | 1 => arg
  | 2 => idx + arg * 2 + 2
  | 3 => arg * 2
  | 4 => idx + 2 - arg * 2
  | _ => -1

/-! ## specification (CPython `dis`) -/

/-- erg's spelling of a CPython opcode name ↦ CPython's spelling -/
def canonName : List (Nat × Nat) → Nat → Nat
  | [], n => n
  | (a, c) :: t, n => if Nat.beq a n then c else canonName t n

/-- does version `v` treat opcode number `b` as a jump? (`b ∈ hasjrel ∪ hasjabs`) -/
def pyIsJump (hasjrel hasjabs : List Nat) (b : Nat) : Bool := memN hasjrel b || memN hasjabs b

/-- How `dis` of 3.`v` computes the target of a jump at offset `idx` with argument `arg`
    (`Lib/dis.py` `_get_instructions_bytes`): absolute jumps `arg` (≤ 3.9) / `arg*2` (3.10); relative jumps
    `offset + 2 + arg` (≤ 3.9) / `offset + 2 + arg*2` (3.10) / `offset + 2 + signed_arg*2` with `signed_arg = -arg` for
    opcodes whose name contains `JUMP_BACKWARD`… (3.11). `none` for a non-jump. -/
def disTarget (v : Nat) (hasjrel hasjabs backward : List Nat) (b : Nat) (idx arg : Int) : Option Int :=
  if memN hasjabs b then some (if v ≤ 9 then arg else arg * 2)
  else if memN hasjrel b then
    some (if v ≤ 9 then idx + 2 + arg else if memN backward b then idx + 2 + (-arg) * 2 else idx + 2 + arg * 2)
  else none

/-- the formula kind (`armAddr` id) the interpreter's rule amounts to -/
def specKind (v : Nat) (hasjrel hasjabs backward : List Nat) (b : Nat) : Option Nat :=
  if memN hasjabs b then some (if v ≤ 9 then 1 else 3)
  else if memN hasjrel b then some (if v ≤ 9 then 0 else if memN backward b then 4 else 2)
  else none

end ErgVerif.C16
