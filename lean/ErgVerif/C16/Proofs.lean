import ErgVerif.C16.Model
import ErgVerif.Shared.Merge
/-!
# C16 — helper lemmas: Bool checkers evaluated by the kernel over the generated tables, and their soundness
(the theorems of `Props.lean` are these lemmas applied to `by decide +kernel` evaluations)
-/
namespace ErgVerif.C16
open ErgVerif.Merge

/-- `(CPython spelling of the name, byte)` of the rows outside the excluded id range -/
def rowPairs (excludedFrom : Nat) (aliases : List (Nat × Nat)) (rows : List (Nat × Nat × Nat)) : List (Nat × Nat) :=
  rows.filterMap fun r => if Nat.ble excludedFrom r.2.1 then none else some (canonName aliases r.2.1, r.2.2)

/-- one merge pass per interpreter table; what is left has no interpreter giving that name that number -/
def staticRest (excludedFrom : Nat) (aliases : List (Nat × Nat)) (rows : List (Nat × Nat × Nat))
    (pys : List (List (Nat × Nat))) : List (Nat × Nat) :=
  diffAll pairEq pairLt (rowPairs excludedFrom aliases rows) pys

theorem static_sound {excludedFrom : Nat} {aliases : List (Nat × Nat)} {rows : List (Nat × Nat × Nat)}
    {pys : List (List (Nat × Nat))} (h : (staticRest excludedFrom aliases rows pys).isEmpty = true) :
    ∀ r ∈ rows, excludedFrom ≤ r.2.1 ∨ ∃ py ∈ pys, (canonName aliases r.2.1, r.2.2) ∈ py := by
  intro r hr
  by_cases e : Nat.ble excludedFrom r.2.1 = true
  · exact Or.inl (Nat.le_of_ble_eq_true e)
  · refine Or.inr (diffAll_sound pairEq_sound h _ ?_)
    unfold rowPairs
    rw [List.mem_filterMap]
    exact ⟨r, hr, by simp [e]⟩

/-- rows written for one target, outside the recorded class `K` (variant `NOT_IMPLEMENTED`, id `ni`): `(CPython-3.v spelling of
    the variant, byte)` -/
def writtenPairs (ni : Nat) (aliases : List (Nat × Nat)) (rows : List (Nat × Nat × Nat)) : List (Nat × Nat) :=
  rows.filterMap fun r => if Nat.beq r.2.1 ni then none else some (canonName aliases r.2.1, r.2.2)

def writtenRest (ni : Nat) (aliases : List (Nat × Nat)) (rows : List (Nat × Nat × Nat)) (py : List (Nat × Nat)) : List (Nat × Nat) :=
  diff pairEq pairLt (writtenPairs ni aliases rows) py

theorem written_sound {ni : Nat} {aliases : List (Nat × Nat)} {rows : List (Nat × Nat × Nat)} {py : List (Nat × Nat)}
    (h : (writtenRest ni aliases rows py).isEmpty = true) :
    ∀ r ∈ rows, r.2.1 ≠ ni → (canonName aliases r.2.1, r.2.2) ∈ py := by
  intro r hr hne
  have h' : subset pairEq pairLt (writtenPairs ni aliases rows) py = true := h
  refine subset_sound pairEq_sound h' _ ?_
  unfold writtenPairs
  rw [List.mem_filterMap]
  refine ⟨r, hr, ?_⟩
  have : Nat.beq r.2.1 ni = false := by
    cases hb : Nat.beq r.2.1 ni with
    | false => rfl
    | true => exact absurd (Nat.eq_of_beq_eq_true hb) hne
  simp [this]

/-- `is_jump_op` classifies every written byte as the interpreter does -/
def jumpsOk (isJump : Nat → Bool) (rel abs : List Nat) (rows : List (Nat × Nat × Nat)) : Bool :=
  rows.all fun r => isJump r.2.2 == pyIsJump rel abs r.2.2

theorem jumps_sound {isJump : Nat → Bool} {rel abs : List Nat} {rows : List (Nat × Nat × Nat)}
    (h : jumpsOk isJump rel abs rows = true) : ∀ r ∈ rows, isJump r.2.2 = pyIsJump rel abs r.2.2 := by
  intro r hr
  have := List.all_eq_true.mp h r hr
  simpa using this

/-- the same for a list of bare bytes -/
def jumpsOkRaw (isJump : Nat → Bool) (rel abs : List Nat) (rows : List (Nat × Nat)) : Bool :=
  rows.all fun r => isJump r.2 == pyIsJump rel abs r.2

theorem jumpsRaw_sound {isJump : Nat → Bool} {rel abs : List Nat} {rows : List (Nat × Nat)}
    (h : jumpsOkRaw isJump rel abs rows = true) : ∀ r ∈ rows, isJump r.2 = pyIsJump rel abs r.2 := by
  intro r hr
  have := List.all_eq_true.mp h r hr
  simpa using this

/-- bare-byte writes: the `(CPython name of the byte, byte)` pair is a row of the interpreter's opmap and of some erg enum -/
def rawOk (raw py ergPairs : List (Nat × Nat)) : Bool :=
  subset pairEq pairLt raw py && subset pairEq pairLt raw ergPairs

theorem raw_sound {raw py : List (Nat × Nat)} {erg : List (Nat × Nat × Nat)}
    (h : rawOk raw py (erg.map fun r => (r.2.1, r.2.2)) = true) :
    ∀ p ∈ raw, p ∈ py ∧ ∃ r ∈ erg, (r.2.1, r.2.2) = p := by
  intro p hp
  simp only [rawOk, Bool.and_eq_true] at h
  refine ⟨subset_sound pairEq_sound h.1 p hp, ?_⟩
  have := subset_sound pairEq_sound h.2 p hp
  obtain ⟨r, hr, e⟩ := List.mem_map.mp this
  exact ⟨r, hr, e⟩

/-- every arm has the interpreter's kind -/
def armsOk (v : Nat) (rel abs back : List Nat) (arms : List (Nat × Nat)) : Bool :=
  arms.all fun a => match specKind v rel abs back a.1 with
    | some k => Nat.beq k a.2
    | none => false

theorem arms_sound {v : Nat} {rel abs back : List Nat} {arms : List (Nat × Nat)}
    (h : armsOk v rel abs back arms = true) : ∀ a ∈ arms, specKind v rel abs back a.1 = some a.2 := by
  intro a ha
  have := List.all_eq_true.mp h a ha
  split at this
  · next k hk => rw [hk, Nat.eq_of_beq_eq_true this]
  · cases this

/-- the model of `get_ver_from_magic_num` tabulated over `lo .. lo+n-1` (rows where it returns) -/
def verTable (lo n : Nat) : List (Nat × Nat) :=
  (List.range n).filterMap fun k => (verFromMagicNum (lo + k)).map fun v => (lo + k, v)

theorem verTable_complete (lo n m ver : Nat) (h1 : lo ≤ m) (h2 : m < lo + n) (h : verFromMagicNum m = some ver) :
    (m, ver) ∈ verTable lo n := by
  unfold verTable
  rw [List.mem_filterMap]
  refine ⟨m - lo, List.mem_range.mpr (by omega), ?_⟩
  have : lo + (m - lo) = m := by omega
  simp [this, h]

theorem verTable_sound (lo n m ver : Nat) (h : (m, ver) ∈ verTable lo n) : verFromMagicNum m = some ver := by
  unfold verTable at h
  rw [List.mem_filterMap] at h
  obtain ⟨k, _, hk⟩ := h
  cases hv : verFromMagicNum (lo + k) with
  | none => simp [hv] at hk
  | some w => simp [hv] at hk; obtain ⟨rfl, rfl⟩ := hk; exact hv

end ErgVerif.C16
