import ErgVerif.C15.Proofs
/-!
C15 — property theorems. `Val.write` / `Code.write` transcribe erg's writer, `pyRd` specifies CPython's `r_object`,
`ergConst` / `ergCode` / `ergPyc` transcribe erg's reader (all in ErgVerif/Shared/Marshal.lean).
-/
namespace ErgVerif.C15
open ErgVerif.Marshal

/-- **Round trip through the interpreter's unmarshaller, all values.** For every target version, every well-formed value (any i32, any
Nat below 2^64, any float bit pattern, any string of Unicode scalar values, booleans, None, tuples/lists and code objects nested to any
depth, sizes within marshal's limits) the bytes the writer produces are read by `r_object` as exactly the corresponding Python value,
consuming exactly those bytes, for any sufficient fuel. -/
theorem C15_py_roundtrip (minor : Nat) (v : Val) (rest : Bytes) (fuel : Nat) (hwf : v.wf) (hf : v.size ≤ fuel) :
    pyRd minor fuel (v.write minor ++ rest) = some (v.toPy minor, rest) :=
  py_rt minor v fuel rest hwf hf

/-- the same for the constant tuple of a code object (what `consts_into_bytes` writes) -/
theorem C15_py_roundtrip_consts (minor : Nat) (vs : ValList) (rest : Bytes) (fuel : Nat) (hwf : vs.wf) (hf : vs.size ≤ fuel) :
    pyRdList minor fuel vs.length (vs.write minor ++ rest) = some (vs.toPy minor, rest) :=
  py_rt_list minor vs fuel rest hwf hf

/-- a small function code object without cells, and the same with a cell variable -/
def plainCode : Code :=
  .mk { argcount := 1, posonly := 0, kwonly := 0, nlocals := 1, stacksize := 2, flags := 3, code := [124, 0, 83, 0],
        names := [[97]], varnames := [[120]], freevars := [], cellvars := [], filename := [97, 46, 101, 114], name := [102], qualname := [102],
        firstlineno := 1, lnotab := [2, 1], exctable := [] } (.cons (.nat 7) (.cons (.str [233]) (.cons (.tuple (.cons (.bool true) .nil)) .nil)))
def cellCode : Code :=
  .mk { argcount := 1, posonly := 0, kwonly := 0, nlocals := 1, stacksize := 2, flags := 3, code := [124, 0, 83, 0],
        names := [], varnames := [[120]], freevars := [], cellvars := [[120]], filename := [97], name := [102], qualname := [102],
        firstlineno := 1, lnotab := [], exctable := [] } .nil

/-- non-vacuity: a nested value with a Nat above 2^63, a non-ASCII string, -0.0 and a code object with a closure cell is well-formed -/
def sample : Val :=
  .tuple (.cons (.nat 18446744073709551615) (.cons (.str [233, 12354, 128512]) (.cons (.float 9223372036854775808)
    (.cons (.code cellCode) (.cons (.code plainCode) .nil)))))

example : sample.wf := wf_of_wfb sample (by decide)
example : pyRd 11 sample.size (sample.write 11) = some (sample.toPy 11, []) := by
  have := C15_py_roundtrip 11 sample [] sample.size (wf_of_wfb sample (by decide)) (Nat.le_refl _)
  simpa using this

/-- Strings: the UTF-8 the writer emits decodes (strictly, and with CPython's `surrogatepass`) to the same scalar values. -/
theorem C15_utf8_roundtrip (sp : Bool) (s : List Nat) (h : ∀ c ∈ s, isScalar c = true) : utf8Dec sp (utf8Enc s) = some s :=
  utf8Dec_enc sp s h

/-- Nat constants: every u64 is read back as the same integer (int32 form below 2^31, marshal's long form with 15-bit digits above). -/
theorem C15_nat_roundtrip (minor fuel n : Nat) (h : n < 18446744073709551616) (rest : Bytes) :
    pyRd minor (fuel + 1) (natBytes n ++ rest) = some (.int n, rest) :=
  pyRd_nat minor fuel n h rest

/-- Finding #13 (fixed in /repo 5ebf59f5): the previous writer `(n as i32)` under code `i` — 2^31 was read back as -2^31. -/
theorem C15_legacy_witness_nat : pyRd 11 1 (legacyNatBytes 2147483648) = some (.int (-2147483648), []) := by decide

/-- and the previous writer agrees with the present one exactly on the values that fit in an int32 -/
theorem C15_legacy_agrees_small (n : Nat) (h : n ≤ 2147483647) : legacyNatBytes n = natBytes n := by
  simp [legacyNatBytes, natBytes, h]

/-! ### erg's own reader -/

/-- the reader returns the normal form of what was written (no Nat/Int, List/Tuple distinction; fields a version does not store
    are defaulted): witnesses for 3.7, 3.10 and 3.11 -/
example : (match ergCode 7 (plainCode.write 7) with | .ok c [] => decide (Val.code c = Val.code (plainCode.norm 7)) | _ => false) = true := by decide
example : (match ergCode 10 (plainCode.write 10) with | .ok c [] => decide (Val.code c = Val.code (plainCode.norm 10)) | _ => false) = true := by decide
example : (match ergCode 11 (plainCode.write 11) with | .ok c [] => decide (Val.code c = Val.code (plainCode.norm 11)) | _ => false) = true := by decide

/-- **Finding `C15-reader-311-closure-kind`**: a 3.11 code object with a cell variable, exactly as the writer emits it (kind byte
    0x60 = Local+Cell), makes the reader hit `unreachable!()`; for 3.10 the same object is read back. -/
theorem C15_witness_closure311 : (ergCode 11 (cellCode.write 11)).isCrash = true := by decide
example : (ergCode 10 (cellCode.write 10)).isCrash = false := by decide
example : K_closure311 11 (.code cellCode) = true := by decide

/-- **Finding `C15-reader-crash-on-malformed`**: the full statement `∀ bs, ¬ (ergCode v bs).isCrash` is false — the empty file, a
    one-byte file and a truncated valid file panic (`remove(0)` on an empty vector, `drain(..4)` past the end, `assert_eq!`). -/
theorem C15_reader_total_fails_empty : (ergCode 10 []).isCrash = true := by decide
theorem C15_reader_total_fails_short : (ergCode 10 [227, 1, 0]).isCrash = true := by decide
theorem C15_reader_total_fails_notcode : (ergCode 10 [105, 1, 0, 0, 0]).isCrash = true := by decide
theorem C15_reader_total_fails_truncated : (ergCode 10 ((plainCode.write 10).take 40)).isCrash = true := by decide
theorem C15_pyc_unknown_magic : (ergPyc [1, 2, 13, 10, 0, 0, 0, 0, 0, 0, 0, 0, 0, 0, 0, 0, 227]).isCrash = true := by decide
/-- those inputs are in the class of the finding (not encodings any interpreter accepts) -/
example : K_malformed 10 [] = true ∧ K_malformed 10 [227, 1, 0] = true ∧ K_malformed 10 ((plainCode.write 10).take 40) = true := by decide
/-- and what the writer produced is outside it -/
example : K_malformed 10 (plainCode.write 10) = false ∧ K_malformed 11 (cellCode.write 11) = false := by decide

/-! ### the two full-strength statements about the reader, kept visible, and their refutation at the witnesses -/

/-- the reader reads back every file the writer writes (up to the documented normal form) -/
def ErgRoundtripStatement : Prop :=
  ∀ (minor : Nat) (c : Code), c.wf → ergCode minor (c.write minor) = .ok (c.norm minor) []

/-- the reader never crashes, whatever the bytes -/
def ReaderTotalStatement : Prop := ∀ (minor : Nat) (bs : Bytes), (ergCode minor bs).isCrash = false

/-- `ErgRoundtripStatement` is false of the code: the 3.11 encoding of a code object with a cell variable (finding
    C15-reader-311-closure-kind). What remains true is exercised differentially on every run (every `w`/`p` case outside the class). -/
theorem C15_erg_roundtrip_fails : ¬ ErgRoundtripStatement := by
  intro h
  have h1 := h 11 cellCode (wfc_of_wfb cellCode (by decide))
  have h2 : (ergCode 11 (cellCode.write 11)).isCrash = true := by decide
  rw [h1] at h2
  simp [R.isCrash] at h2

/-- `ReaderTotalStatement` is false of the code: the empty file (finding C15-reader-crash-on-malformed) -/
theorem C15_reader_total_fails : ¬ ReaderTotalStatement := by
  intro h
  have h1 := h 10 []
  have h2 : (ergCode 10 []).isCrash = true := by decide
  rw [h1] at h2
  exact Bool.false_ne_true h2

/-- the reader does report (rather than crash on) type codes it does not know and invalid UTF-8 -/
example : (match ergConst 10 8 [120, 0] with | .err _ => true | _ => false) = true := by decide
example : (match ergConst 10 8 [117, 1, 0, 0, 0, 255] with | .err _ => true | _ => false) = true := by decide

end ErgVerif.C15
