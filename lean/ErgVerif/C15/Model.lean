import ErgVerif.Shared.Marshal
/-!
C15 — model. The transcription of the writer (`ValueObj::into_bytes`, `CodeObj::into_bytes`, `dump_locals`, `str_into_bytes`,
`raw_string_into_bytes`, `strs_into_bytes`, `into_bytecode`), of erg's reader (`Deserializer::*`, `CodeObj::from_bytes`,
`CodeObj::from_pyc`) and the specification of CPython's unmarshaller live in `ErgVerif/Shared/Marshal.lean` (shared with C14).
This file adds what is specific to the property: the classes of the recorded findings and the shape check used to say which
byte sequences are files of the target interpreter at all.
-/
namespace ErgVerif.C15
open ErgVerif.Marshal

/-- are all elements strings? -/
def allStr : PyList → Bool
  | .nil => true
  | .cons (.str _) vs => allStr vs
  | .cons _ _ => false

def PyList.len : PyList → Nat
  | .nil => 0
  | .cons _ vs => PyList.len vs + 1

def isStrTuple : PyVal → Bool
  | .tuple vs => allStr vs
  | _ => false

mutual
/-- the structural conditions every supported interpreter's code constructor checks on what `r_object` parsed
    (field types; for 3.11 `len(localsplusnames) = len(localspluskinds)`), recursively through constants -/
def shapeOk (minor : Nat) : PyVal → Bool
  | .tuple vs => shapeOkList minor vs
  | .code ints objs =>
    ints.all (fun i => decide (0 ≤ i)) &&
    (if minor ≥ 11 then
      match objs with
      | .cons (.bytes _) (.cons (.tuple consts) (.cons names (.cons (.tuple lpn) (.cons (.bytes kinds) (.cons (.str _) (.cons (.str _)
          (.cons (.str _) (.cons (.bytes _) (.cons (.bytes _) .nil))))))))) =>
        isStrTuple names && allStr lpn && decide (PyList.len lpn = kinds.length) && shapeOkList minor consts
      | _ => false
    else
      match objs with
      | .cons (.bytes _) (.cons (.tuple consts) (.cons names (.cons vn (.cons fv (.cons cv (.cons (.str _) (.cons (.str _)
          (.cons (.bytes _) .nil)))))))) =>
        isStrTuple names && isStrTuple vn && isStrTuple fv && isStrTuple cv && shapeOkList minor consts
      | _ => false)
  | _ => true
def shapeOkList (minor : Nat) : PyList → Bool
  | .nil => true
  | .cons v vs => shapeOk minor v && shapeOkList minor vs
end

/-- a byte sequence is a complete marshal encoding the target interpreter would take for a constant / code object -/
def wellFormed (minor : Nat) (bs : Bytes) : Bool :=
  match pyRead minor bs with
  | some (v, []) => shapeOk minor v
  | _ => false

/-- a whole .pyc file: known magic number, 12 more header bytes, a well-formed code object -/
def wellFormedPyc (bs : Bytes) : Bool :=
  match bs with
  | m0 :: m1 :: _ :: _ :: rest =>
    match verOfMagic (m0 + 256 * m1) with
    | some minor => decide (rest.length ≥ 12) && wellFormed minor (rest.drop 12)
    | none => false
  | _ => false

mutual
/-- does a code object (recursively) declare cell variables? `dump_locals` writes their kind as 0x60 for 3.11 -/
def hasCell : Val → Bool
  | .list vs => hasCellList vs
  | .tuple vs => hasCellList vs
  | .code c => hasCellCode c
  | _ => false
def hasCellList : ValList → Bool
  | .nil => false
  | .cons v vs => hasCell v || hasCellList vs
def hasCellCode : Code → Bool
  | .mk m consts => !m.cellvars.isEmpty || hasCellList consts
end

/-- class of finding `C15-reader-311-closure-kind`: a 3.11 file the compiler itself wrote for a code object with cell variables -/
def K_closure311 (minor : Nat) (v : Val) : Bool := decide (minor ≥ 11) && hasCell v

/-- class of finding `C15-reader-crash-on-malformed`: the bytes are not a complete encoding of the target interpreter -/
def K_malformed (minor : Nat) (bs : Bytes) : Bool := !wellFormed minor bs
def K_malformedPyc (bs : Bytes) : Bool := !wellFormedPyc bs

mutual
/-- a 3.11 code object (recursively) whose `localspluskinds` has a byte other than Local/Cell/Free alone (e.g. 0x60 = Local+Cell) -/
def hasOddKind : PyVal → Bool
  | .tuple vs => hasOddKindList vs
  | .code _ objs =>
    (match objs with
     | .cons _ (.cons _ (.cons _ (.cons _ (.cons (.bytes kinds) _)))) => kinds.any (fun k => !(k = 32 || k = 64 || k = 128))
     | _ => false) || hasOddKindList objs
  | _ => false
def hasOddKindList : PyList → Bool
  | .nil => false
  | .cons v vs => hasOddKind v || hasOddKindList vs
end

/-- class of `C15-reader-311-closure-kind` on raw bytes: a well-formed 3.11 encoding with such a kind byte -/
def K_closureBytes (minor : Nat) (bs : Bytes) : Bool :=
  decide (minor ≥ 11) && wellFormed minor bs &&
  (match pyRead minor bs with
   | some (v, _) => hasOddKind v
   | none => false)

end ErgVerif.C15
