import ErgVerif.C15.Model
/-! C15 — helper lemmas for the round-trip theorems. -/
namespace ErgVerif.C15
open ErgVerif.Marshal

theorem digits32 (u : Nat) (h : u < 4294967296) :
    u % 256 + 256 * (u / 256 % 256) + 65536 * (u / 65536 % 256) + 16777216 * (u / 16777216 % 256) = u := by
  omega

theorem rdU32_le32 (u : Nat) (h : u < 4294967296) (rest : Bytes) : rdU32 (le32 u ++ rest) = some (u, rest) := by
  simp only [le32, List.cons_append, List.nil_append, rdU32, rd32u, digits32 u h]

theorem rdLen_le32 (u : Nat) (h : u < 2147483648) (rest : Bytes) : rdLen (le32 u ++ rest) = some (u, rest) := by
  simp [rdLen, rdU32_le32 u (by omega) rest, h]

theorem takeN_append (b rest : Bytes) : takeN b.length (b ++ rest) = some (b, rest) := by
  simp [takeN]

theorem toI32_nat (u : Nat) (h : u < 2147483648) : toI32 u = (u : Int) := by
  simp [toI32, h]

theorem toI32_i32ToU (i : Int) (h1 : -2147483648 ≤ i) (h2 : i ≤ 2147483647) : toI32 (i32ToU i) = i := by
  unfold toI32 i32ToU
  have hnn : 0 ≤ i % 4294967296 := Int.emod_nonneg _ (by decide)
  have hlt : i % 4294967296 < 4294967296 := Int.emod_lt_of_pos _ (by decide)
  have hcast : ((i % 4294967296).toNat : Int) = i % 4294967296 := Int.toNat_of_nonneg hnn
  split <;> omega

theorem i32ToU_lt (i : Int) : i32ToU i < 4294967296 := by
  unfold i32ToU
  have hnn : 0 ≤ i % 4294967296 := Int.emod_nonneg _ (by decide)
  have hlt : i % 4294967296 < 4294967296 := Int.emod_lt_of_pos _ (by decide)
  omega

/-! ### UTF-8 -/

theorem utf8Dec_enc1 (sp : Bool) (c : Nat) (hc : isScalar c = true) (rest : Bytes) :
    utf8Dec sp (utf8Enc1 c ++ rest) = (utf8Dec sp rest).map (c :: ·) := by
  unfold utf8Enc1
  have hs := hc
  simp only [isScalar, Bool.or_eq_true, Bool.and_eq_true, decide_eq_true_eq] at hs
  split
  · rename_i h
    simp only [List.cons_append, List.nil_append]
    rw [utf8Dec.eq_def]
    simp [h]
  · split
    · rename_i h1 h2
      have e : (192 + c / 64 - 192) * 64 + (128 + c % 64 - 128) = c := by omega
      simp only [List.cons_append, List.nil_append]
      rw [utf8Dec]
      have a1 : ¬ (192 + c / 64 < 128) := by omega
      have a2 : ¬ (192 + c / 64 < 194) := by omega
      have a3 : (192 + c / 64 < 224) := by omega
      have a4 : isCont (128 + c % 64) = true := by simp [isCont]; omega
      simp only [a1, a2, a3, a4, if_true, if_false, e]
    · split
      · rename_i h1 h2 h3
        have e : (224 + c / 4096 - 224) * 4096 + (128 + c / 64 % 64 - 128) * 64 + (128 + c % 64 - 128) = c := by omega
        simp only [List.cons_append, List.nil_append]
        rw [utf8Dec]
        have a1 : ¬ (224 + c / 4096 < 128) := by omega
        have a2 : ¬ (224 + c / 4096 < 194) := by omega
        have a3 : ¬ (224 + c / 4096 < 224) := by omega
        have a3' : (224 + c / 4096 < 240) := by omega
        have a4 : isCont (128 + c % 64) = true := by simp [isCont]; omega
        have a5 : isCont (128 + c / 64 % 64) = true := by simp [isCont]; omega
        have a7 : 2048 ≤ c := by omega
        simp only [a1, a2, a3, a3', a4, a5, hc, a7, if_true, if_false, e, Bool.and_self, Bool.or_true, decide_true]
      · rename_i h1 h2 h3
        have e : (240 + c / 262144 - 240) * 262144 + (128 + c / 4096 % 64 - 128) * 4096 + (128 + c / 64 % 64 - 128) * 64
            + (128 + c % 64 - 128) = c := by omega
        simp only [List.cons_append, List.nil_append]
        rw [utf8Dec]
        have a1 : ¬ (240 + c / 262144 < 128) := by omega
        have a2 : ¬ (240 + c / 262144 < 194) := by omega
        have a3 : ¬ (240 + c / 262144 < 224) := by omega
        have a3' : ¬ (240 + c / 262144 < 240) := by omega
        have a3'' : (240 + c / 262144 < 245) := by omega
        have a4 : isCont (128 + c % 64) = true := by simp [isCont]; omega
        have a5 : isCont (128 + c / 64 % 64) = true := by simp [isCont]; omega
        have a6 : isCont (128 + c / 4096 % 64) = true := by simp [isCont]; omega
        have a7 : 65536 ≤ c := by omega
        have a8 : c < 1114112 := by omega
        simp only [a1, a2, a3, a3', a3'', a4, a5, a6, a7, a8, if_true, if_false, e, Bool.and_self, decide_true]

theorem utf8Dec_enc (sp : Bool) : ∀ (s : List Nat), (∀ c ∈ s, isScalar c = true) → utf8Dec sp (utf8Enc s) = some s
  | [], _ => by simp [utf8Enc, utf8Dec]
  | c :: cs, h => by
    have h1 : isScalar c = true := h c (by simp)
    have h2 := utf8Dec_enc sp cs (fun x hx => h x (by simp [hx]))
    simp [utf8Enc, utf8Dec_enc1 sp c h1, h2]

theorem utf8Enc_ascii : ∀ (s : List Nat), s.all (· < 128) = true → utf8Enc s = s
  | [], _ => rfl
  | c :: cs, h => by
    simp at h
    have h2 : cs.all (· < 128) = true := by simp; exact h.2
    simp [utf8Enc, utf8Enc1, h.1, utf8Enc_ascii cs h2]

/-! ### leaves under `pyRd` -/

theorem pyRd_z (minor fuel : Nat) (b rest : Bytes) : pyRd minor (fuel + 1) (250 :: b.length :: (b ++ rest)) = some (.str b, rest) := by
  simp [pyRd, takeN_append]
theorem pyRd_Z (minor fuel : Nat) (b rest : Bytes) : pyRd minor (fuel + 1) (218 :: b.length :: (b ++ rest)) = some (.str b, rest) := by
  simp [pyRd, takeN_append]
theorem pyRd_u (minor fuel : Nat) (s : List Nat) (hs : strOk s) (rest : Bytes) :
    pyRd minor (fuel + 1) (117 :: (le32 (utf8Enc s).length ++ (utf8Enc s ++ rest))) = some (.str s, rest) := by
  simp [pyRd, rdLen_le32 _ hs.2, takeN_append, utf8Dec_enc true s hs.1]

theorem pyRd_strBytes (minor fuel : Nat) (s : List Nat) (i : Bool) (hs : strOk s) (rest : Bytes) :
    pyRd minor (fuel + 1) (strBytes s i ++ rest) = some (.str s, rest) := by
  by_cases h : (s.all (· < 128) && decide ((utf8Enc s).length ≤ 255)) = true
  · have h' := h
    simp only [Bool.and_eq_true] at h'
    have e := utf8Enc_ascii s h'.1
    cases i
    · simp only [strBytes, h, if_true, List.cons_append, Bool.false_eq_true, if_false]
      rw [e]; exact pyRd_z minor fuel s rest
    · simp only [strBytes, h, if_true, List.cons_append]
      rw [e]; exact pyRd_Z minor fuel s rest
  · simp only [strBytes, h, if_false, List.cons_append, List.append_assoc, Bool.false_eq_true]
    exact pyRd_u minor fuel s hs rest

theorem pyRd_rawBytes (minor fuel : Nat) (b : Bytes) (hb : lenOk b.length) (rest : Bytes) :
    pyRd minor (fuel + 1) (rawBytes b ++ rest) = some (.bytes b, rest) := by
  simp [rawBytes, pyRd, rdLen_le32 _ hb, takeN_append]

theorem pyRdList_strsBody (minor : Nat) : ∀ (ss : List (List Nat)) (fuel : Nat) (rest : Bytes), (∀ s ∈ ss, strOk s) → ss.length + 1 ≤ fuel →
    pyRdList minor fuel ss.length (strsBody ss ++ rest) = some (pyStrs ss, rest)
  | [], fuel, rest, _, hf => by
    cases fuel with
    | zero => simp at hf
    | succ f => simp [strsBody, pyRdList, pyStrs]
  | s :: ss, fuel, rest, h, hf => by
    cases fuel with
    | zero => simp at hf
    | succ f =>
      cases f with
      | zero => simp at hf
      | succ f =>
        have h1 := pyRd_strBytes minor f s true (h s (by simp)) (strsBody ss ++ rest)
        have h2 := pyRdList_strsBody minor ss (f + 1) rest (fun x hx => h x (by simp [hx])) (by simp at hf; omega)
        simp [strsBody, pyRdList, pyStrs, List.append_assoc, h1, h2]

theorem pyRd_tupleHdr (minor fuel n : Nat) (hn : lenOk n) (rest : Bytes) (vs : PyList) (rest' : Bytes)
    (h : pyRdList minor fuel n rest = some (vs, rest')) :
    pyRd minor (fuel + 1) (tupleHdr n ++ rest) = some (.tuple vs, rest') := by
  unfold tupleHdr
  split
  · simp [pyRd, rdLen_le32 _ hn, h]
  · simp [pyRd, h]

theorem pyRd_strsBytes (minor fuel : Nat) (ss : List (List Nat)) (h : strsOk ss) (hf : ss.length + 1 ≤ fuel) (rest : Bytes) :
    pyRd minor (fuel + 1) (strsBytes ss ++ rest) = some (.tuple (pyStrs ss), rest) := by
  unfold strsBytes
  rw [List.append_assoc]
  exact pyRd_tupleHdr minor fuel _ h.2 _ _ _ (pyRdList_strsBody minor ss fuel rest h.1 hf)

/-! ### numbers -/

theorem pyRd_int (minor fuel : Nat) (i : Int) (h1 : -2147483648 ≤ i) (h2 : i ≤ 2147483647) (rest : Bytes) :
    pyRd minor (fuel + 1) (105 :: le32 (i32ToU i) ++ rest) = some (.int i, rest) := by
  simp [pyRd, rdU32_le32 _ (i32ToU_lt i), toI32_i32ToU i h1 h2]

theorem pyRd_smallnat (minor fuel : Nat) (n : Nat) (h : n ≤ 2147483647) (rest : Bytes) :
    pyRd minor (fuel + 1) (105 :: le32 n ++ rest) = some (.int n, rest) := by
  simp [pyRd, rdU32_le32 n (by omega), toI32_nat n (by omega)]

theorem fromDigits_digits15 : ∀ (f n : Nat), n < 32768 ^ f → fromDigits (digits15 f n) = n
  | 0, n, h => by simp at h; simp [digits15, fromDigits, h]
  | f + 1, n, h => by
    unfold digits15
    split
    · rename_i h0; simp [fromDigits, h0]
    · have : n / 32768 < 32768 ^ f := by
        rw [Nat.pow_succ] at h
        exact Nat.div_lt_of_lt_mul (by rw [Nat.mul_comm]; exact h)
      simp only [fromDigits, fromDigits_digits15 f (n / 32768) this]
      omega

theorem digits15_lt : ∀ (f n : Nat), ∀ d ∈ digits15 f n, d < 32768
  | 0, _, d, h => by simp [digits15] at h
  | f + 1, n, d, h => by
    unfold digits15 at h
    split at h
    · simp at h
    · simp only [List.mem_cons] at h
      rcases h with h | h
      · omega
      · exact digits15_lt f _ d h

theorem digits15_last : ∀ (f n : Nat), n < 32768 ^ f → (digits15 f n).getLast? ≠ some 0
  | 0, _, _ => by simp [digits15]
  | f + 1, n, h => by
    unfold digits15
    split
    · simp
    · rename_i h0
      have hlt : n / 32768 < 32768 ^ f := by
        rw [Nat.pow_succ] at h
        exact Nat.div_lt_of_lt_mul (by rw [Nat.mul_comm]; exact h)
      have ih := digits15_last f (n / 32768) hlt
      cases hd : digits15 f (n / 32768) with
      | nil =>
        have e := fromDigits_digits15 f (n / 32768) hlt
        rw [hd] at e
        simp only [fromDigits] at e
        simp [List.getLast?]
        omega
      | cons d ds =>
        rw [hd] at ih
        simpa [List.getLast?_cons_cons] using ih

theorem digits15_len : ∀ (f n : Nat), (digits15 f n).length ≤ f
  | 0, _ => by simp [digits15]
  | f + 1, n => by
    unfold digits15
    split
    · simp
    · have := digits15_len f (n / 32768); simp; omega

theorem rdDigits_body : ∀ (ds : List Nat) (rest : Bytes), (∀ d ∈ ds, d < 32768) →
    rdDigits ds.length (digitsBody ds ++ rest) = some (ds, rest)
  | [], rest, _ => by simp [rdDigits, digitsBody]
  | d :: ds, rest, h => by
    have hd : d < 32768 := h d (by simp)
    have ih := rdDigits_body ds rest (fun x hx => h x (by simp [hx]))
    have e : d % 256 + 256 * (d / 256 % 256) = d := by omega
    simp [rdDigits, digitsBody, le16, e, hd, ih]

theorem pyRd_nat (minor fuel : Nat) (n : Nat) (h : n < 18446744073709551616) (rest : Bytes) :
    pyRd minor (fuel + 1) (natBytes n ++ rest) = some (.int n, rest) := by
  unfold natBytes
  split
  · rename_i hs; exact pyRd_smallnat minor fuel n hs rest
  · rename_i hs
    have hp : n < 32768 ^ 5 := by
      have : (32768 : Nat) ^ 5 = 37778931862957161709568 := by decide
      omega
    have hlen := digits15_len 5 n
    have hlast := digits15_last 5 n hp
    have hval := fromDigits_digits15 5 n hp
    have hrd := rdDigits_body (digits15 5 n) rest (digits15_lt 5 n)
    have hi : toI32 (digits15 5 n).length = ((digits15 5 n).length : Int) := toI32_nat _ (by omega)
    simp [pyRd, rdU32_le32 _ (show (digits15 5 n).length < 4294967296 by omega), hi, hrd, hlast, hval]
    omega

theorem le64_val (b : Nat) (h : b < 18446744073709551616) :
    rd32u (b % 4294967296 % 256) (b % 4294967296 / 256 % 256) (b % 4294967296 / 65536 % 256) (b % 4294967296 / 16777216 % 256)
    + 4294967296 * rd32u (b / 4294967296 % 4294967296 % 256) (b / 4294967296 % 4294967296 / 256 % 256)
        (b / 4294967296 % 4294967296 / 65536 % 256) (b / 4294967296 % 4294967296 / 16777216 % 256) = b := by
  unfold rd32u
  omega

theorem pyRd_float (minor fuel : Nat) (b : Nat) (h : b < 18446744073709551616) (rest : Bytes) :
    pyRd minor (fuel + 1) (103 :: le64 b ++ rest) = some (.float b, rest) := by
  have hl : (le64 b).length = 8 := by simp [le64, le32]
  have ht := takeN_append (le64 b) rest
  rw [hl] at ht
  simp only [List.cons_append, pyRd]
  simp only [show (103 % 128 = 78) = False by decide, show (103 % 128 = 70) = False by decide, show (103 % 128 = 84) = False by decide,
    show (103 % 128 = 105) = False by decide, show (103 % 128 = 108) = False by decide, show (103 % 128 = 103) = True by decide,
    if_true, if_false, ht]
  simp [le64, le32, rd32u]
  omega

/-! ### code objects -/

theorem rdInts_le32 (n u : Nat) (hu : u < 2147483648) (rest : Bytes) (is : List Int) (rest' : Bytes)
    (h : rdInts n rest = some (is, rest')) : rdInts (n + 1) (le32 u ++ rest) = some ((u : Int) :: is, rest') := by
  simp [rdInts, rdU32_le32 u (by omega), toI32_nat u hu, h]

theorem pyRdList_cons (minor fuel n : Nat) (bs : Bytes) (v : PyVal) (r1 : Bytes) (vs : PyList) (r2 : Bytes)
    (h1 : pyRd minor fuel bs = some (v, r1)) (h2 : pyRdList minor fuel n r1 = some (vs, r2)) :
    pyRdList minor (fuel + 1) (n + 1) bs = some (.cons v vs, r2) := by
  simp [pyRdList, h1, h2]

theorem pyRdList_nil (minor fuel : Nat) (bs : Bytes) : pyRdList minor (fuel + 1) 0 bs = some (.nil, bs) := by
  simp [pyRdList]

theorem pyRd_codeArm (minor fuel : Nat) (bs : Bytes) (is1 : List Int) (r1 : Bytes) (os1 : PyList) (r2 : Bytes) (is2 : List Int) (r3 : Bytes)
    (os2 : PyList) (r4 : Bytes) (h1 : rdInts (codeInts minor) bs = some (is1, r1)) (h2 : pyRdList minor fuel 8 r1 = some (os1, r2))
    (h3 : rdInts 1 r2 = some (is2, r3)) (h4 : pyRdList minor fuel (codeObjs2 minor) r3 = some (os2, r4)) :
    pyRd minor (fuel + 1) (227 :: bs) = some (.code (is1 ++ is2) (os1.append os2), r4) := by
  simp [pyRd, h1, h2, h3, h4]

theorem filter_length_le {α : Type} (p : α → Bool) (l : List α) : (l.filter p).length ≤ l.length := List.length_filter_le p l

theorem strsOk_locals (m : CodeMeta) (hv : strsOk m.varnames) (hf : strsOk m.freevars) (hc : strsOk m.cellvars)
    (hl : lenOk (m.varnames.length + m.freevars.length + m.cellvars.length)) :
    strsOk (m.varnames.filter (fun n => !(m.freevars.contains n) && !(m.cellvars.contains n)) ++ m.freevars ++ m.cellvars) := by
  constructor
  · intro s hs
    simp only [List.mem_append, List.mem_filter] at hs
    rcases hs with (⟨h, _⟩ | h) | h
    · exact hv.1 s h
    · exact hf.1 s h
    · exact hc.1 s h
  · have := filter_length_le (fun n => !(m.freevars.contains n) && !(m.cellvars.contains n)) m.varnames
    unfold lenOk at *
    simp only [List.length_append]
    omega

theorem kindBytes_length (a b c : Nat) : (kindBytes a b c).length = a + b + c := by
  simp [kindBytes]; omega

/-! ### the round trip through the specification of CPython's unmarshaller -/

theorem py_rt_code_aux (minor : Nat) (m : CodeMeta) (consts : ValList) (f : Nat) (rest : Bytes) (hm : metaOk m) (hl : lenOk consts.length)
    (hf : m.names.length + m.varnames.length + m.freevars.length + m.cellvars.length + 3 ≤ f)
    (ih : ∀ rest', pyRdList minor (f + 10) consts.length (consts.write minor ++ rest') = some (consts.toPy minor, rest')) :
    pyRd minor (f + 14) ((Code.mk m consts).write minor ++ rest) = some ((Code.mk m consts).toPy minor, rest) := by
  obtain ⟨h1, h2, h3, h4, h5, h6, h7, h8, h9, h10, h11, h12, h13, h14, h15, h16, h17, h18⟩ := hm
  have hconsts : ∀ rest', pyRd minor (f + 11) (tupleHdr consts.length ++ (consts.write minor ++ rest')) = some (.tuple (consts.toPy minor), rest') :=
    fun rest' => pyRd_tupleHdr minor (f + 10) _ hl _ _ _ (ih rest')
  by_cases c11 : minor ≥ 11
  · have hloc := strsOk_locals m h12 h13 h14 h18
    have hk : lenOk (kindBytes (m.varnames.filter (fun n => !(m.freevars.contains n) && !(m.cellvars.contains n))).length m.freevars.length
        m.cellvars.length).length := by
      rw [kindBytes_length]; have := hloc.2; simp only [List.length_append] at this; exact this
    have hll : (m.varnames.filter (fun n => !(m.freevars.contains n) && !(m.cellvars.contains n)) ++ m.freevars ++ m.cellvars).length + 1 ≤ f + 8 := by
      have := filter_length_le (fun n => !(m.freevars.contains n) && !(m.cellvars.contains n)) m.varnames
      simp only [List.length_append]; omega
    have c8 : minor ≥ 8 := by omega
    have nlt : ¬ minor < 11 := by omega
    simp only [Code.write, codeHead, codeTail, dumpLocals, c11, c8, nlt, if_true, if_false, List.append_assoc, List.cons_append, List.nil_append]
    have hints : ∀ tail, rdInts (codeInts minor) (le32 m.argcount ++ (le32 m.posonly ++ (le32 m.kwonly ++ (le32 m.stacksize ++ (le32 m.flags ++ tail))))) =
        some ([(m.argcount : Int), (m.posonly : Int), (m.kwonly : Int), (m.stacksize : Int), (m.flags : Int)], tail) := by
      intro tail
      simp only [codeInts, c11, if_true]
      exact rdInts_le32 4 _ h1 _ _ _ (rdInts_le32 3 _ h2 _ _ _ (rdInts_le32 2 _ h3 _ _ _ (rdInts_le32 1 _ h5 _ _ _ (rdInts_le32 0 _ h6 _ _ _ rfl))))
    have hobjs : ∀ tail, pyRdList minor (f + 13) 8 (rawBytes m.code ++ (tupleHdr consts.length ++ (consts.write minor ++ (strsBytes m.names ++
        (strsBytes (m.varnames.filter (fun n => !(m.freevars.contains n) && !(m.cellvars.contains n)) ++ (m.freevars ++ m.cellvars)) ++
        (rawBytes (kindBytes (m.varnames.filter (fun n => !(m.freevars.contains n) && !(m.cellvars.contains n))).length m.freevars.length
          m.cellvars.length) ++ (strBytes m.filename false ++ (strBytes m.name true ++ (strBytes m.qualname true ++ tail))))))))) =
        some (.cons (.bytes m.code) (.cons (.tuple (consts.toPy minor)) (.cons (.tuple (pyStrs m.names))
          (.cons (.tuple (pyStrs (m.varnames.filter (fun n => !(m.freevars.contains n) && !(m.cellvars.contains n)) ++ m.freevars ++ m.cellvars)))
          (.cons (.bytes (kindBytes (m.varnames.filter (fun n => !(m.freevars.contains n) && !(m.cellvars.contains n))).length m.freevars.length
            m.cellvars.length)) (.cons (.str m.filename) (.cons (.str m.name) (.cons (.str m.qualname) .nil))))))), tail) := by
      intro tail
      rw [← List.append_assoc (m.varnames.filter _) m.freevars m.cellvars]
      exact pyRdList_cons minor (f + 12) 7 _ _ _ _ _ (pyRd_rawBytes minor (f + 11) _ h8 _)
        (pyRdList_cons minor (f + 11) 6 _ _ _ _ _ (hconsts _)
        (pyRdList_cons minor (f + 10) 5 _ _ _ _ _ (pyRd_strsBytes minor (f + 9) _ h11 (by omega) _)
        (pyRdList_cons minor (f + 9) 4 _ _ _ _ _ (pyRd_strsBytes minor (f + 8) _ hloc hll _)
        (pyRdList_cons minor (f + 8) 3 _ _ _ _ _ (pyRd_rawBytes minor (f + 7) _ hk _)
        (pyRdList_cons minor (f + 7) 2 _ _ _ _ _ (pyRd_strBytes minor (f + 6) _ false h15 _)
        (pyRdList_cons minor (f + 6) 1 _ _ _ _ _ (pyRd_strBytes minor (f + 5) _ true h16 _)
        (pyRdList_cons minor (f + 5) 0 _ _ _ _ _ (pyRd_strBytes minor (f + 4) _ true h17 _)
        (pyRdList_nil minor (f + 4) _))))))))
    have hint1 : ∀ tail, rdInts 1 (le32 m.firstlineno ++ tail) = some ([(m.firstlineno : Int)], tail) :=
      fun tail => rdInts_le32 0 _ h7 _ _ _ rfl
    have hobjs2 : ∀ tail, pyRdList minor (f + 13) (codeObjs2 minor) (rawBytes m.lnotab ++ (rawBytes m.exctable ++ tail)) =
        some (.cons (.bytes m.lnotab) (.cons (.bytes m.exctable) .nil), tail) := by
      intro tail
      simp only [codeObjs2, c11, if_true]
      exact pyRdList_cons minor (f + 12) 1 _ _ _ _ _ (pyRd_rawBytes minor (f + 11) _ h9 _)
        (pyRdList_cons minor (f + 11) 0 _ _ _ _ _ (pyRd_rawBytes minor (f + 10) _ h10 _) (pyRdList_nil minor (f + 11) _))
    rw [pyRd_codeArm minor (f + 13) _ _ _ _ _ _ _ _ _ (hints _) (hobjs _) (hint1 _) (hobjs2 _)]
    simp [Code.toPy, c11, PyList.append]
  · have nlt : minor < 11 := by omega
    have hobjs : ∀ tail, pyRdList minor (f + 13) 8 (rawBytes m.code ++ (tupleHdr consts.length ++ (consts.write minor ++ (strsBytes m.names ++
        (strsBytes m.varnames ++ (strsBytes m.freevars ++ (strsBytes m.cellvars ++ (strBytes m.filename false ++ (strBytes m.name true ++ tail))))))))) =
        some (.cons (.bytes m.code) (.cons (.tuple (consts.toPy minor)) (.cons (.tuple (pyStrs m.names)) (.cons (.tuple (pyStrs m.varnames))
          (.cons (.tuple (pyStrs m.freevars)) (.cons (.tuple (pyStrs m.cellvars)) (.cons (.str m.filename) (.cons (.str m.name) .nil))))))), tail) :=
      fun tail => pyRdList_cons minor (f + 12) 7 _ _ _ _ _ (pyRd_rawBytes minor (f + 11) _ h8 _)
        (pyRdList_cons minor (f + 11) 6 _ _ _ _ _ (hconsts _)
        (pyRdList_cons minor (f + 10) 5 _ _ _ _ _ (pyRd_strsBytes minor (f + 9) _ h11 (by omega) _)
        (pyRdList_cons minor (f + 9) 4 _ _ _ _ _ (pyRd_strsBytes minor (f + 8) _ h12 (by omega) _)
        (pyRdList_cons minor (f + 8) 3 _ _ _ _ _ (pyRd_strsBytes minor (f + 7) _ h13 (by omega) _)
        (pyRdList_cons minor (f + 7) 2 _ _ _ _ _ (pyRd_strsBytes minor (f + 6) _ h14 (by omega) _)
        (pyRdList_cons minor (f + 6) 1 _ _ _ _ _ (pyRd_strBytes minor (f + 5) _ false h15 _)
        (pyRdList_cons minor (f + 5) 0 _ _ _ _ _ (pyRd_strBytes minor (f + 4) _ true h16 _)
        (pyRdList_nil minor (f + 4) _))))))))
    have hint1 : ∀ tail, rdInts 1 (le32 m.firstlineno ++ tail) = some ([(m.firstlineno : Int)], tail) :=
      fun tail => rdInts_le32 0 _ h7 _ _ _ rfl
    have hobjs2 : ∀ tail, pyRdList minor (f + 13) (codeObjs2 minor) (rawBytes m.lnotab ++ tail) = some (.cons (.bytes m.lnotab) .nil, tail) := by
      intro tail
      simp only [codeObjs2, c11, if_false]
      exact pyRdList_cons minor (f + 12) 0 _ _ _ _ _ (pyRd_rawBytes minor (f + 11) _ h9 _) (pyRdList_nil minor (f + 12) _)
    by_cases c8 : minor ≥ 8
    · simp only [Code.write, codeHead, codeTail, dumpLocals, c11, c8, nlt, if_true, if_false, List.append_assoc, List.cons_append, List.nil_append,
        List.append_nil]
      have hints : ∀ tail, rdInts (codeInts minor) (le32 m.argcount ++ (le32 m.posonly ++ (le32 m.kwonly ++ (le32 m.nlocals ++ (le32 m.stacksize ++
          (le32 m.flags ++ tail)))))) =
          some ([(m.argcount : Int), (m.posonly : Int), (m.kwonly : Int), (m.nlocals : Int), (m.stacksize : Int), (m.flags : Int)], tail) := by
        intro tail
        simp only [codeInts, c11, c8, if_true, if_false]
        exact rdInts_le32 5 _ h1 _ _ _ (rdInts_le32 4 _ h2 _ _ _ (rdInts_le32 3 _ h3 _ _ _ (rdInts_le32 2 _ h4 _ _ _ (rdInts_le32 1 _ h5 _ _ _
          (rdInts_le32 0 _ h6 _ _ _ rfl)))))
      rw [pyRd_codeArm minor (f + 13) _ _ _ _ _ _ _ _ _ (hints _) (hobjs _) (hint1 _) (hobjs2 _)]
      simp [Code.toPy, c11, c8, PyList.append]
    · simp only [Code.write, codeHead, codeTail, dumpLocals, c11, c8, nlt, if_true, if_false, List.append_assoc, List.cons_append, List.nil_append,
        List.append_nil]
      have hints : ∀ tail, rdInts (codeInts minor) (le32 m.argcount ++ (le32 m.kwonly ++ (le32 m.nlocals ++ (le32 m.stacksize ++
          (le32 m.flags ++ tail))))) =
          some ([(m.argcount : Int), (m.kwonly : Int), (m.nlocals : Int), (m.stacksize : Int), (m.flags : Int)], tail) := by
        intro tail
        simp only [codeInts, c11, c8, if_true, if_false]
        exact rdInts_le32 4 _ h1 _ _ _ (rdInts_le32 3 _ h3 _ _ _ (rdInts_le32 2 _ h4 _ _ _ (rdInts_le32 1 _ h5 _ _ _
          (rdInts_le32 0 _ h6 _ _ _ rfl))))
      rw [pyRd_codeArm minor (f + 13) _ _ _ _ _ _ _ _ _ (hints _) (hobjs _) (hint1 _) (hobjs2 _)]
      simp [Code.toPy, c11, c8, PyList.append]

mutual
theorem py_rt (minor : Nat) : ∀ (v : Val) (fuel : Nat) (rest : Bytes), v.wf → v.size ≤ fuel →
    pyRd minor fuel (v.write minor ++ rest) = some (v.toPy minor, rest)
  | .int i, fuel, rest, hwf, hf => by
    cases fuel with
    | zero => simp [Val.size] at hf
    | succ fuel => exact pyRd_int minor fuel i hwf.1 hwf.2 rest
  | .nat n, fuel, rest, hwf, hf => by
    cases fuel with
    | zero => simp [Val.size] at hf
    | succ fuel => exact pyRd_nat minor fuel n hwf rest
  | .float b, fuel, rest, hwf, hf => by
    cases fuel with
    | zero => simp [Val.size] at hf
    | succ fuel => exact pyRd_float minor fuel b hwf rest
  | .str s, fuel, rest, hwf, hf => by
    cases fuel with
    | zero => simp [Val.size] at hf
    | succ fuel => exact pyRd_strBytes minor fuel s false hwf rest
  | .bool true, fuel, rest, _, hf => by cases fuel <;> simp_all [Val.size, Val.write, Val.toPy, pyRd]
  | .bool false, fuel, rest, _, hf => by cases fuel <;> simp_all [Val.size, Val.write, Val.toPy, pyRd]
  | .none, fuel, rest, _, hf => by cases fuel <;> simp_all [Val.size, Val.write, Val.toPy, pyRd]
  | .unsupported, _, _, hwf, _ => by simp [Val.wf] at hwf
  | .list vs, fuel, rest, hwf, hf => by
    cases fuel with
    | zero => simp [Val.size] at hf
    | succ fuel =>
      simp only [Val.size] at hf
      simp only [Val.write, Val.toPy, List.append_assoc]
      exact pyRd_tupleHdr minor fuel _ hwf.1 _ _ _ (py_rt_list minor vs fuel rest hwf.2 (by omega))
  | .tuple vs, fuel, rest, hwf, hf => by
    cases fuel with
    | zero => simp [Val.size] at hf
    | succ fuel =>
      simp only [Val.size] at hf
      simp only [Val.write, Val.toPy, List.append_assoc]
      exact pyRd_tupleHdr minor fuel _ hwf.1 _ _ _ (py_rt_list minor vs fuel rest hwf.2 (by omega))
  | .code (.mk m consts), fuel, rest, hwf, hf => by
    simp only [Val.size, Code.size] at hf
    obtain ⟨f, rfl⟩ : ∃ f, fuel = f + 14 := ⟨fuel - 14, by omega⟩
    simp only [Val.write, Val.toPy]
    exact py_rt_code_aux minor m consts f rest hwf.1 hwf.2.1 (by omega)
      (fun rest' => py_rt_list minor consts (f + 10) rest' hwf.2.2 (by omega))
theorem py_rt_list (minor : Nat) : ∀ (vs : ValList) (fuel : Nat) (rest : Bytes), vs.wf → vs.size ≤ fuel →
    pyRdList minor fuel vs.length (vs.write minor ++ rest) = some (vs.toPy minor, rest)
  | .nil, fuel, rest, _, hf => by cases fuel <;> simp_all [ValList.size, ValList.write, ValList.length, ValList.toPy, pyRdList]
  | .cons v vs, fuel, rest, hwf, hf => by
    cases fuel with
    | zero => simp [ValList.size] at hf
    | succ fuel =>
      simp only [ValList.size] at hf
      simp only [ValList.write, ValList.length, ValList.toPy, List.append_assoc]
      exact pyRdList_cons minor fuel _ _ _ _ _ _ (py_rt minor v fuel _ hwf.1 (by omega)) (py_rt_list minor vs fuel rest hwf.2 (by omega))
end

mutual
theorem wf_of_wfb : ∀ v : Val, v.wfb = true → v.wf
  | .int _, h => by simpa [Val.wfb, Val.wf] using h
  | .nat _, h => by simpa [Val.wfb, Val.wf] using h
  | .float _, h => by simpa [Val.wfb, Val.wf] using h
  | .str _, h => by simpa [Val.wfb, Val.wf] using h
  | .bool _, _ => by simp [Val.wf]
  | .none, _ => by simp [Val.wf]
  | .unsupported, h => by simp [Val.wfb] at h
  | .list vs, h => by
    simp only [Val.wfb, Bool.and_eq_true, decide_eq_true_eq] at h
    exact ⟨h.1, wfl_of_wfb vs h.2⟩
  | .tuple vs, h => by
    simp only [Val.wfb, Bool.and_eq_true, decide_eq_true_eq] at h
    exact ⟨h.1, wfl_of_wfb vs h.2⟩
  | .code c, h => by
    simp only [Val.wfb] at h
    exact wfc_of_wfb c h
theorem wfl_of_wfb : ∀ vs : ValList, vs.wfb = true → vs.wf
  | .nil, _ => by simp [ValList.wf]
  | .cons v vs, h => by
    simp only [ValList.wfb, Bool.and_eq_true] at h
    exact ⟨wf_of_wfb v h.1, wfl_of_wfb vs h.2⟩
theorem wfc_of_wfb : ∀ c : Code, c.wfb = true → c.wf
  | .mk m consts, h => by
    simp only [Code.wfb, Bool.and_eq_true, decide_eq_true_eq] at h
    exact ⟨h.1.1, h.1.2, wfl_of_wfb consts h.2⟩
end

end ErgVerif.C15
