import ErgVerif.Util.Sexp
