import ErgVerif.Util.Sexp
import ErgVerif.C10.Model
/-!
Driver for C10 (`ergmodel_c10`). stdin: id \t (rw <kind> <k> (src "<s>")) \t (toks <cmp>) (ast ..) (det ..) (eq ..)
model output: `(toks <cmp computed by the Lean rewrite + lexer model>)` followed by the implementation's ast/det/eq flags (observations
judged by the spec verdict): the tie compares the token-stream comparison of the two texts, which exercises the shared rewrite
definition and the lexer model on both.
spec verdict: outside the recorded classes the rewritten program must parse to the same printed tree (`(ast equal)` or both fail),
parsing the same text twice must agree (`(det true)`), and for comment/spaces/cont/mlcomment (not on an empty line, where the inserted text forms a line of its own) the token streams must be `same`.
-/
open ErgVerif ErgVerif.Lex ErgVerif.C10

def handle (line : String) : String :=
  match splitTabs line with
  | id :: input :: rest =>
    match Sexp.parse input with
    | some (.list [.atom "rw", .atom kind, kpos, .list [.atom "src", .str s]]) =>
      match Kind.ofString kind, kpos.atomNat? with
      | some kd, some k =>
        let impl := rest.headD ""
        match rewriteCmp kd k s with
        | none => id ++ "\tdeclined\t-\t-"
        | some c =>
          let flags := match impl.splitOn " (ast " with
            | _ :: r => " (ast " ++ " (ast ".intercalate r
            | [] => ""
          let has (p : String) : Bool := (impl.splitOn p).length > 1
          let v :=
            if has "crash" then "viol:parser-crash"
            else if has "(det false)" then "viol:nondeterministic"
            else if !(has "(ast equal)" || has "(ast err-both)") then "viol:tree-changed"
            else if (kd = .comment || kd = .comment0 || kd = .spaces || kd = .cont || kd = .mlcomment) && !onEmptyLine s k && c ≠ .same && c ≠ .errBoth then "viol:token-stream-changed"
            else "ok"
          id ++ "\t(toks " ++ c.name ++ ")" ++ flags ++ "\t" ++ v ++ "\t" ++ findingClass kd k s
      | _, _ => id ++ "\tbad-input\t-\t-"
    | _ => id ++ "\tbad-input\t-\t-"
  | _ => "?\tbad-line\t-\t-"

def main : IO Unit := do
  lineLoop (← IO.getStdin) (← IO.getStdout) handle
