import ErgVerif.Util.Sexp
import ErgVerif.C26.Model
import ErgVerif.Gen.C26Runtime
import ErgVerif.Gen.C26Declared
/-!
Driver for C26 (`ergmodel_c26`). stdin lines:  id \t input \t <impl output of py/c26_runtime_oracle.py>
  input ::= (bin <op> (<cls> <inner> <int>) (<cls> <inner> <int>)) | (un <uop> (<cls> <inner> <int>)) | anything else
stdout lines: id \t <model output> \t <spec verdict on the impl's answer> \t <inK>
The model output is `Model.binop Gen.C26.runtime …` (the REGENERATED method tables) followed by `(builtin <Python int
semantics on the unwrapped operands>)`, textually comparable with the oracle's line; rows outside the int/bool family
(`xbin`, `xun`, `meth`, float results) answer `out-of-model(...)` — they are checked by the orchestrator against the
builtins' answers only.
-/
open ErgVerif ErgVerif.C26

def clsOfName : String → Option Cls
  | "int" => some .pyint | "bool" => some .pybool | "Int" => some .Int | "Nat" => some .Nat | "Bool" => some .Bool
  | "IntMut" => some .IntMut | "NatMut" => some .NatMut | "BoolMut" => some .BoolMut
  | _ => none

def opOfName (s : String) : Option Op := Op.all.find? (fun o => o.name = s)
def uopOfName : String → Option UOp
  | "neg" => some .neg | "pos" => some .pos | _ => none

def operandOf : Sexp → Option Val
  | .list [.atom c, .atom i, v] =>
    match clsOfName c, clsOfName i, Sexp.atomInt? v with
    | some c, some i, some v => some { shape := ⟨c, i⟩, v := v }
    | _, _, _ => none
  | _ => none

def showOutcome : Outcome → String
  | .ok c i v => "(ok " ++ c.name ++ " " ++ i.name ++ " " ++ toString v ++ ")"
  | .valueError => "ValueError"
  | .zeroDiv => "ZeroDivisionError"
  | .typeError => "TypeError"
  | .notModelled why => "out-of-model(" ++ why ++ ")"

/-- Python's own answer on the unwrapped operands (`bool` when the oracle unwraps to a `bool`) -/
def builtinBin (op : Op) (x y : Val) : Outcome :=
  if (op = .floordiv ∨ op = .mod) ∧ y.v = 0 then .zeroDiv
  else if op = .pow ∧ y.v < 0 then .notModelled "float result of int.__pow__"
  else
    let c := if op.isCmp then Cls.pybool else Cls.pyint
    .ok c c (pyBin op x.v y.v)

def builtinUn (op : UOp) (x : Val) : Outcome :=
  .ok .pyint .pyint (match op with | .neg => -x.v | .pos => x.v)

/-- parse the implementation's result (first top-level expression of the impl column) -/
def implOutcome (impl : String) : Option Outcome :=
  match Sexp.parseAll impl.toList with
  | some (.list [.atom "ok", .atom c, .atom i, v] :: _) =>
    match clsOfName c, clsOfName i, Sexp.atomInt? v with
    | some c, some i, some v => some (.ok c i v)
    | _, _, _ => none
  | some (.atom "ValueError" :: _) => some .valueError
  | some (.atom "TypeError" :: _) => some .typeError
  | some (.atom "ZeroDivisionError" :: _) => some .zeroDiv
  | _ => none


/-- known-finding class of the row: the static class of the operand triple (Model.knownOf), reported only when the
    verdict is one the finding explains — a different violation on the same operands is never masked -/
def knownClass (op : Op) (x y : Val) (d : Option ECls) (v : Verdict) : String :=
  match d with
  | some d =>
    match knownOf op x.shape y.shape d with
    | some k => if k.explains v then k.id else "-"
    | none => "-"
  | none => "-"

def handle (line : String) : String :=
  match splitTabs line with
  | id :: input :: rest =>
    let impl := rest.headD ""
    match Sexp.parse input with
    | some (.list [.atom "bin", .atom opn, xa, ya]) =>
      match opOfName opn, operandOf xa, operandOf ya with
      | some op, some x, some y =>
        let m := binop Gen.C26.runtime op x y
        let bi := builtinBin op x y
        match m, bi with
        | .notModelled why, _ => id ++ "\tout-of-model(" ++ why ++ ")\t-\t-"
        | _, .notModelled why => id ++ "\tout-of-model(" ++ why ++ ")\t-\t-"
        | _, _ =>
          let d := declaredFor Gen.C26.declared op x.shape y.shape
          let out := showOutcome m ++ " (builtin " ++ showOutcome bi ++ ")"
          match implOutcome impl with
          | some io =>
            let v := judge op x.v y.v d io
            id ++ "\t" ++ out ++ "\t" ++ v.name ++ "\t" ++ knownClass op x y d v
          | none => id ++ "\t" ++ out ++ "\t" ++ (if rest.isEmpty then "-" else "viol:unexpected-result") ++ "\t-"
      | _, _, _ => id ++ "\tout-of-model(operator or operand outside the family)\t-\t-"
    | some (.list [.atom "un", .atom opn, xa]) =>
      match uopOfName opn, operandOf xa with
      | some op, some x =>
        let m := unop Gen.C26.runtime op x
        match m with
        | .notModelled why => id ++ "\tout-of-model(" ++ why ++ ")\t-\t-"
        | _ =>
          let d := match ergClass x.shape.cls with
            | some e => declaredUIn Gen.C26.declaredU op e
            | none => none
          let out := showOutcome m ++ " (builtin " ++ showOutcome (builtinUn op x) ++ ")"
          match implOutcome impl with
          | some io => id ++ "\t" ++ out ++ "\t" ++ (judgeU op x.v d io).name ++ "\t-"
          | none => id ++ "\t" ++ out ++ "\t" ++ (if rest.isEmpty then "-" else "viol:unexpected-result") ++ "\t-"
      | _, _ => id ++ "\tout-of-model(operator or operand outside the family)\t-\t-"
    | some _ => id ++ "\tout-of-model(executed only)\t-\t-"
    | none => id ++ "\tbad-input\t-\t-"
  | _ => "?\tbad-line\t-\t-"

def main : IO Unit := do
  lineLoop (← IO.getStdin) (← IO.getStdout) handle
