import ErgVerif.Util.Sexp
import ErgVerif.C18.Model
/-!
Driver for C18 (`ergmodel_c18`). stdin lines:  id \t (src "<erg>") (mod <chunk>…) \t <impl output>
stdout lines: id \t <model output> \t <spec verdict> \t <inK>

model output : `(ok "<json text>")` / `(err <n>)` — `jsonGen` on the projected HIR (must equal the implementation's column).
spec verdict: the implementation's text is parsed with `Json.parse` (the specification) and, for modules of constant
initialisers, compared with `denoteModule` (literals read from their *tokens*); `ok "<compact print of the parsed value>"`
or `viol:<what>`. The compact print is re-computed by Python's `json.loads` in checks/c18.py (cross-check of `Json.parse`).
-/
open ErgVerif ErgVerif.C18

def litKindOf (s : String) : LitKind :=
  if s = "NatLit" || s = "BinLit" || s = "OctLit" || s = "HexLit" then .nat
  else if s = "IntLit" then .int
  else if s = "RatioLit" then .ratio
  else if s = "StrLit" then .str
  else if s = "BoolLit" then .bool
  else if s = "NoneLit" then .none
  else .other

def valOf : Sexp → Val
  | .list [.atom "nat", n] => match Sexp.atomNat? n with | some k => .nat k | none => .other
  | .list [.atom "int", i] => match Sexp.atomInt? i with | some k => .int k | none => .other
  | .list [.atom "float", .str r, _] => .float r
  | .list [.atom "str", .str s] => .str s
  | .list [.atom "bool", .atom b] => .bool (b = "true")
  | .list [.atom "none"] => .none
  | _ => .other

/-- `none` = a construct outside the model (reported as out-of-model, never defaulted) -/
partial def exprOf : Sexp → Except String Expr
  | .list [.atom "lit", .atom k, .str tok, v] => .ok (.lit (litKindOf k) tok (valOf v))
  | .list [.atom "acc", _, _, .str loc] => .ok (.acc loc)
  | .list (.atom "list" :: es) => do
      let xs ← es.mapM exprOf
      .ok (.list (xs.foldr Exprs.cons .nil))
  | .list (.atom "tuple" :: es) => do
      let xs ← es.mapM exprOf
      .ok (.tuple (xs.foldr Exprs.cons .nil))
  | .list (.atom "record" :: fs) => do
      let xs ← fs.mapM (fun f => match f with
        | .list [.str n, .atom "1", e] => do let x ← exprOf e; .ok (n, x)
        | _ => .error "record-attr-block")
      .ok (.record (xs.foldr (fun p r => Fields.cons p.1 p.2 r) .nil))
  | .list (.atom "dict" :: kvs) => do
      let xs ← kvs.mapM (fun f => match f with
        | .list [k, v] => do let a ← exprOf k; let b ← exprOf v; .ok (a, b)
        | _ => .error "dict-kv")
      .ok (.dict (xs.foldr (fun p r => KVs.cons p.1 p.2 r) .nil))
  | .list [.atom "fold", _, .list [.atom "nofold"]] => .ok (.fold none)
  | .list [.atom "fold", _, v] => .ok (.fold (some (valOf v)))
  | .list [.atom "nonconst", _] => .ok .nonconst
  | .list (.atom "todo" :: _) => .error "todo"
  | .list (.atom "def" :: _) => .error "nested-def"
  | .list [.atom "other", .str w] => .error (String.ofList w)
  | _ => .error "unknown-expr"

def defOf : Sexp → Except String Def
  | .list [.atom "def", .atom vis, .atom "var", .str name, .str loc, .atom "1", e] => do
      let x ← exprOf e
      .ok ⟨vis = "pub", name, loc, x⟩
  | .list (.atom "def" :: _) => .error "def-shape"
  | _ => .error "non-def-chunk"

def moduleOf : Sexp → Except String Module
  | .list (.atom "mod" :: cs) => cs.mapM defOf
  | _ => .error "bad-mod"

def outcomeStr : Outcome → String
  | .ok t => "(ok " ++ Sexp.quote t ++ ")"
  | .err n => "(err " ++ toString n ++ ")"

mutual
  /-- string literals of the six kinds whose value differs from what the token reads -/
  partial def badLits : Expr → List (LitKind × List Char)
    | .lit k tok v => if (k = .nat || k = .int || k = .ratio || k = .str || k = .bool || k = .none) && !litOk k tok v then [(k, tok)] else []
    | .list es => badLitsL es
    | .tuple es => badLitsL es
    | .record fs => badLitsF fs
    | .dict kvs => badLitsK kvs
    | _ => []
  partial def badLitsL : Exprs → List (LitKind × List Char)
    | .nil => []
    | .cons e es => badLits e ++ badLitsL es
  partial def badLitsF : Fields → List (LitKind × List Char)
    | .nil => []
    | .cons _ e fs => badLits e ++ badLitsF fs
  partial def badLitsK : KVs → List (LitKind × List Char)
    | .nil => []
    | .cons k v kvs => badLits k ++ badLits v ++ badLitsK kvs
end

def implText (impl : String) : Option (Except String (List Char)) :=
  match Sexp.parseAll impl.toList with
  | some [.list [.atom "ok", .str t]] => some (.ok t)
  | some [.list [.atom "err", _]] => some (.error "err")
  | _ => none

/-- (verdict, inK) -/
def specVerdict (m : Module) (impl : String) : String × String :=
  let bad := m.foldl (fun acc d => acc ++ badLits d.body) []
  let inK := if !bad.isEmpty && bad.all (fun p => p.1 = .str && quoteTrimClass p.2) then "C18-str-quote-trim" else "0"
  match implText impl with
  | none => ("viol:crash-or-malformed-output", "0")
  | some (.error _) =>
    if isConstModule m then ("viol:constant-module-declined", "0")
    else if !bad.isEmpty then ("viol:literal-value-differs-from-token", inK)
    else ("ok declined", "0")
  | some (.ok t) =>
    match Json.parse t with
    | none => ("viol:not-json", "0")
    | some j =>
      if !bad.isEmpty then ("viol:literal-value-differs-from-token " ++ Sexp.quote (Json.print j), inK)
      else if isConstModule m then
        (if j = denoteModule m then ("ok " ++ Sexp.quote (Json.print j), "0")
         else ("viol:wrong-value expected " ++ Sexp.quote (Json.print (denoteModule m)) ++ " got " ++ Sexp.quote (Json.print j), "0"))
      else ("ok " ++ Sexp.quote (Json.print j), "0")

def handle (line : String) : String :=
  match splitTabs line with
  | id :: input :: rest =>
    match Sexp.parseAll input.toList with
    | some [_, .list [.atom "rejected"]] => id ++ "\tout-of-model(rejected-by-front-end)\t-\t-"
    | some [_, ms] =>
      (match moduleOf ms with
       | .error why => id ++ "\tout-of-model(" ++ why ++ ")\t-\t-"
       | .ok m =>
         let out := outcomeStr (jsonGen m)
         let (v, k) := if rest.isEmpty then ("-", "0") else specVerdict m (rest.headD "")
         id ++ "\t" ++ out ++ "\t" ++ v ++ "\t" ++ k)
    | _ => id ++ "\tbad-input\t-\t-"
  | _ => "?\tbad-line\t-\t-"

def main : IO Unit := do
  lineLoop (← IO.getStdin) (← IO.getStdout) handle
