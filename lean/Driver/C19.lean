import ErgVerif.Util.Sexp
import ErgVerif.C19.Model
/-!
Driver for C19 (`ergmodel_c19`). stdin lines:
  id \t (proj …) \t (inl (<inlined> <inliner>)…) (deps (<m> <d>…)…) (runs (run <kind> <seed> (st <s>) (pyc <hash|->) (diag <d>…) (sched (spawn <m>)|(end <m>)…))…)
    deps  = for every analysis thread m the threads it joins (computed by checks/c19.py from the dumped graph/inlines/asts)
    sched = the `spawn` and `thread-end` observer events of that run in real-time order (empty for the sequential build)
stdout lines: id \t <model column> \t <spec verdict> \t <inK>
* model column: the implementation column with each `(sched …)` replaced by `(sched-rejected <index>)` when the protocol machine
  of `ErgVerif/C19/Model.lean` (`Cfg.run` with the dumped deps and the run's own spawn order) does NOT accept the observed
  schedule as a completed run — so a real execution outside the model's schedule set is a model/implementation disagreement.
* spec verdict: every run (perturbed parallel runs and the sequential build) has the same status, the same bytes 16.. of the
  `.pyc` (hash) and the same SORTED diagnostics. A difference that consists only of AttributeErrors about a module inlined
  elsewhere (finding C19-inlined-import-race = C20-inlined-import-race) carries that id in the inK column.
-/
open ErgVerif ErgVerif.C19

def natsOf (xs : List Sexp) : List Nat := xs.filterMap Sexp.atomNat?

def findList (key : String) : List Sexp → Option (List Sexp)
  | [] => none
  | .list (.atom k :: rest) :: more => if k = key then some rest else findList key more
  | _ :: more => findList key more

def stepsOf : List Sexp → List Step
  | [] => []
  | .list [.atom "spawn", m] :: more => (match Sexp.atomNat? m with | some n => [Step.spawn n] | none => []) ++ stepsOf more
  | .list [.atom "end", m] :: more => (match Sexp.atomNat? m with | some n => [Step.finish n] | none => []) ++ stepsOf more
  | _ :: more => stepsOf more

def depsFn (ds : List Sexp) (m : Nat) : List Nat :=
  match ds.find? (fun d => match d with | .list (x :: _) => Sexp.atomNat? x == some m | _ => false) with
  | some (.list (_ :: rest)) => natsOf rest
  | _ => []

/-- index of the first step the machine refuses, or none when the schedule is accepted and complete -/
def firstRejected (cf : Cfg) : State → List Step → Nat → Option Nat
  | s, [], i => if s.done then none else some i
  | s, a :: as, i => if cf.enabled s a then firstRejected cf (cf.step s a) as (i + 1) else some i

def checkSched (ds : List Sexp) (sched : List Sexp) : Option Nat :=
  let steps := stepsOf sched
  let order := steps.filterMap (fun s => match s with | .spawn m => some m | _ => none)
  let cf : Cfg := ⟨depsFn ds, order, fun m _ => (m, [])⟩
  firstRejected cf cf.init steps 0

structure RunObs where
  kind : String
  st : String
  pyc : String
  diags : List String
  text : String      -- the run re-printed with its schedule judged

def runObs (ds : List Sexp) : Sexp → Option RunObs
  | .list (.atom "run" :: .atom kind :: .atom seed :: fields) =>
    let st := match findList "st" fields with | some (.atom s :: _) => s | _ => "?"
    let pyc := match findList "pyc" fields with | some (.atom s :: _) => s | _ => "?"
    let dg := ((findList "diag" fields).getD []).map toString
    let sched := (findList "sched" fields).getD []
    let schedTxt := if kind = "seq" || sched.isEmpty then toString (Sexp.list (.atom "sched" :: sched))
      else match checkSched ds sched with
        | none => toString (Sexp.list (.atom "sched" :: sched))
        | some i => "(sched-rejected " ++ toString i ++ ")"
    some ⟨kind, st, pyc, dg,
      "(run " ++ kind ++ " " ++ seed ++ " (st " ++ st ++ ") (pyc " ++ pyc ++ ") " ++ toString (Sexp.list (.atom "diag" :: (findList "diag" fields).getD [])) ++ " " ++ schedTxt ++ ")"⟩
  | _ => none

def isSub (needle hay : String) : Bool := (hay.splitOn needle).length > 1

/-- modules inlined somewhere and used (uv/uf) by a module that is not their inliner -/
def raceMods (items : List Sexp) (inl : List Sexp) : List Nat :=
  let inlined : List (Nat × Nat) := inl.filterMap (fun x => match x with
    | .list [a, b] => match Sexp.atomNat? a, Sexp.atomNat? b with | some i, some j => some (i, j) | _, _ => none
    | _ => none)
  items.flatMap (fun it => match it with
    | .list (.atom "m" :: .atom k :: _ :: _ :: fs) =>
      let uses := natsOf ((findList "uv" fs).getD []) ++ natsOf ((findList "uf" fs).getD [])
      uses.filter (fun i => inlined.any (fun (x, a) => x == i && toString a != k))
    | _ => [])

def handle (line : String) : String :=
  match splitTabs line with
  | id :: input :: impl :: _ =>
    match Sexp.parse input, Sexp.parseAll impl.toList with
    | some (.list (.atom "proj" :: items)), some parts =>
      let inl := (findList "inl" parts).getD []
      let ds := (findList "deps" parts).getD []
      let runs := ((findList "runs" parts).getD []).filterMap (runObs ds)
      let model := toString (Sexp.list (.atom "inl" :: inl)) ++ " " ++ toString (Sexp.list (.atom "deps" :: ds)) ++ " (runs" ++
        String.join (runs.map (fun r => " " ++ r.text)) ++ ")"
      match runs with
      | [] => id ++ "\t" ++ model ++ "\tviol:no-runs\t-"
      | r0 :: rest =>
        let same := rest.all (fun r => r.st == r0.st && r.pyc == r0.pyc && r.diags == r0.diags)
        if same then id ++ "\t" ++ model ++ "\tok\t0"
        else
          let rm := raceMods items inl
          let explained (d : String) : Bool := isSub "AttributeError" d && rm.any (fun i => isSub ("Module(\\\"m" ++ toString i ++ ".er\\\") object has no attribute") d)
          let strip (r : RunObs) : List String := r.diags.filter (fun d => !explained d)
          let which := (rest.find? (fun r => !(r.st == r0.st && r.pyc == r0.pyc && r.diags == r0.diags))).map (·.kind)
          if !rm.isEmpty && rest.all (fun r => strip r == strip r0) then
            id ++ "\t" ++ model ++ "\tviol:runs-differ-by-attribute-errors-on-an-inlined-module\tC19-inlined-import-race"
          else id ++ "\t" ++ model ++ "\tviol:runs-differ (first differing run kind: " ++ which.getD "?" ++ ")\t-"
    | _, _ => id ++ "\tbad-input\t-\t-"
  | _ => "?\tbad-line\t-\t-"

def main : IO Unit := do
  lineLoop (← IO.getStdin) (← IO.getStdout) handle
