import ErgVerif.Util.Sexp
import ErgVerif.Shared.MiniHir
import ErgVerif.C12.Model
/-!
Driver for C12 (`ergmodel_c12`). stdin lines:  id \t (src "<erg>") (module <mini-HIR with referrer counts>) \t <impl output>
stdout: id \t (o0 D…) (o1 D…) (o2 D…) (o3 D…) \t <spec verdict> \t <inK>
D = `(<line> <col> "<name>")` for every definition of the program that is absent after `optimize n` (sorted as text).
Spec verdict: `ok` iff for every level the effect trace of the optimised program equals the trace of the program
(`viol:trace-changed(oN …)` otherwise), evaluated on the model's result, which the tie forces to equal the implementation's.
`ergmodel_c12 legacy` = the pinned commit's `is_impure`.
-/
open ErgVerif ErgVerif.MiniHir ErgVerif.C12

def defStr (d : Loc × Name) : String := "(" ++ locStr d.1 ++ " " ++ Sexp.quote d.2 ++ ")"

/-- multiset difference, keeping the order of `before` -/
def removeOne (x : String) : List String → Option (List String)
  | [] => none
  | y :: ys => if x == y then some ys else (removeOne x ys).map (y :: ·)

def diffDefs : List String → List String → List String
  | [], _ => []
  | d :: ds, after => match removeOne d after with
    | some a => diffDefs ds a
    | none => d :: diffDefs ds after

def levelOut (v : Variant) (p : ExprList) (n : Nat) : String :=
  if n > 0 && crashesL p then "(o" ++ toString n ++ " crash)"
  else
    let before := sortBy (fun a b => a < b) ((defsL p).map defStr)
    let after := sortBy (fun a b => a < b) ((defsL (optimize v n p)).map defStr)
    let d := diffDefs before after
    "(o" ++ toString n ++ String.join (d.map (" " ++ ·)) ++ ")"

def locsStr (ls : List Loc) : String := "(" ++ " ".intercalate (ls.map (fun l => "(" ++ locStr l ++ ")")) ++ ")"

def handle (v : Variant) (line : String) : String :=
  match splitTabs line with
  | id :: input :: rest =>
    let impl := rest.headD ""
    if impl.startsWith "(lower-error" then id ++ "\tout-of-model(lower-error)\t-\t-"
    else if impl.startsWith "out-of-fragment" || impl.startsWith "out-of-model" then id ++ "\tout-of-model(" ++ impl ++ ")\t-\t-"
    else
    match Sexp.parseAll input.toList with
    | none => id ++ "\tbad-input\t-\t-"
    | some xs =>
      match (findModule xs).bind (readModule (input.length + 1)) with
      | none => id ++ "\tbad-input(no module)\t-\t-"
      | some p =>
        let model := " ".intercalate ([0, 1, 2, 3].map (levelOut v p))
        -- the implementation's own answer replayed: remove the definitions it reports, compare the traces
        let implBad : List String := match Sexp.parseAll impl.toList with
          | some lv => lv.filterMap (fun s => match s with
            | .list (.atom o :: ds) =>
              let locs := ds.filterMap (fun d => match d with
                | .list [.atom l, .atom c, _] => match l.toNat?, c.toNat? with
                  | some l, some c => some (⟨l, c⟩ : Loc)
                  | _, _ => none
                | _ => none)
              if traceL (dropL locs p) != traceL p then some o else none
            | _ => none)
          | none => []
        let t0 := traceL p
        let bad := [1, 2, 3].filter (fun n => traceL (optimize v n p) != t0)
        let verdict :=
          if !(okL p) then "viol:effect-in-default-value"
          else if !implBad.isEmpty then
            "viol:impl-drops-effect(" ++ (implBad.headD "") ++ " before=" ++ locsStr (traceL p) ++ ")"
          else if bad.isEmpty then "ok"
          else "viol:trace-changed(o" ++ toString (bad.headD 0) ++ " before=" ++ locsStr t0 ++ " after=" ++ locsStr (traceL (optimize v (bad.headD 0) p)) ++ ")"
        let ink := if !bad.isEmpty && traceL (optimize fixed 1 p) == t0 then "C12-legacy-is-impure" else "0"
        id ++ "\t" ++ model ++ "\t" ++ verdict ++ "\t" ++ ink
  | _ => "?\tbad-line\t-\t-"

def main (args : List String) : IO Unit := do
  let v := if args.contains "legacy" then legacy else fixed
  lineLoop (← IO.getStdin) (← IO.getStdout) (handle v)
