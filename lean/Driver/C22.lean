import ErgVerif.Util.Sexp
import ErgVerif.Shared.MiniHir
import ErgVerif.C22.Model
/-!
Driver for C22 (`ergmodel_c22`). stdin lines:  id \t (src "<erg>") (module <mini-HIR>) \t <impl output>
stdout lines: id \t <model output> \t <spec verdict on the impl output> \t <inK>
model output = sorted `(errs (<kind> <line> <col>)…)` of the transcribed walker on the projection; the spec verdict
compares the implementation's list with `specModule` (every sub-expression visited, one bit of context).
`ergmodel_c22 legacy` runs the walker as it was before the `fix:` commits (used once, against the pinned commit).
-/
open ErgVerif ErgVerif.MiniHir ErgVerif.C22

def kindStr : EK → String
  | .effect => "effect" | .procAssign => "procassign" | .touchMut => "touchmut" | .crash => "crash"

def kindRank : EK → Nat
  | .crash => 0 | .effect => 1 | .procAssign => 2 | .touchMut => 3

def errLt (a b : Err) : Bool :=
  kindRank a.kind < kindRank b.kind ||
  (kindRank a.kind == kindRank b.kind && (a.loc.line < b.loc.line || (a.loc.line == b.loc.line && a.loc.col < b.loc.col)))

def errsOut (es : List Err) : String :=
  if es.any (fun e => e.kind == .crash) then "crash"
  else "(errs" ++ String.join ((sortBy errLt es).map (fun e => " (" ++ kindStr e.kind ++ " " ++ locStr e.loc ++ ")")) ++ ")"

def handle (v : Variant) (line : String) : String :=
  match splitTabs line with
  | id :: input :: rest =>
    let impl := rest.headD ""
    if impl.startsWith "(lower-error" then id ++ "\tout-of-model(lower-error)\t-\t-"
    else if impl.startsWith "out-of-fragment" || impl.startsWith "out-of-model" then id ++ "\tout-of-model(" ++ impl ++ ")\t-\t-"
    else
    match Sexp.parseAll input.toList with
    | none => id ++ "\tbad-input\t-\t-"
    | some xs =>
      match (findModule xs).bind (readModule (input.length + 1)) with
      | none => id ++ "\tbad-input(no module)\t-\t-"
      | some p =>
        let model := errsOut (checkModule v p)
        let spec := errsOut (specModule p)
        let implC := if impl.startsWith "crash(" then "crash" else impl
        let verdict := if rest.isEmpty then "-" else if implC == spec then "ok" else "viol:spec=" ++ spec
        let ink := if model != spec then "C22-legacy-walker" else "0"
        id ++ "\t" ++ (if implC == "crash" && model == "crash" then impl else model) ++ "\t" ++ verdict ++ "\t" ++ ink
  | _ => "?\tbad-line\t-\t-"

def main (args : List String) : IO Unit := do
  let v := if args.contains "legacy" then legacy else fixed
  lineLoop (← IO.getStdin) (← IO.getStdout) (handle v)
