import ErgVerif.Util.Sexp
import ErgVerif.Util.PredIO
import ErgVerif.C32.Model
/-!
Driver for C32 (`ergmodel_c32`). stdin lines:  id \t <construction expression> \t <impl: printed Predicate>
stdout lines: id \t <model: printed Pred built by the transcribed constructors> \t <spec verdict> \t -
Spec verdict: the implementation's printed structure is read back as a predicate and compared *semantically* with the
naive Boolean reading of the expression by the exact oracle `equivPred` (theorem `C32_oracle_exact`); on a difference the
refuting integer is printed.
-/
open ErgVerif ErgVerif.PredIO

def specVerdict (e : PExpr) (impl : String) : String :=
  match Sexp.parse impl with
  | none => "viol:impl-output-unparsable"
  | some sx =>
    match predOfSexp sx with
    | none => "viol:impl-output-not-a-predicate"
    | some p =>
      let n := e.naive
      match refute p n, refute n p with
      | none, none => "ok"
      | some i, _ => "viol:at-i=" ++ toString i ++ " expression-holds impl-structure-fails"
      | _, some i => "viol:at-i=" ++ toString i ++ " impl-structure-holds expression-fails"

def handle (line : String) : String :=
  match splitTabs line with
  | id :: input :: rest =>
    match (Sexp.parse input).bind exprOfSexp with
    | some e =>
      if !(exprConsts e).all constInModel then id ++ "\tout-of-model(constant)\t-\t-"
      else
        let impl := rest.headD ""
        id ++ "\t" ++ showPred e.build ++ "\t" ++ (if rest.isEmpty then "-" else specVerdict e impl) ++ "\t-"
    | none => id ++ "\tbad-input\t-\t-"
  | _ => "?\tbad-line\t-\t-"

def main : IO Unit := do
  lineLoop (← IO.getStdin) (← IO.getStdout) handle
