import ErgVerif.Util.Sexp
import ErgVerif.C24.Model
import ErgVerif.C08.Model
/-!
Driver for C24 (`ergmodel_c24`).
  (locs <l> <r> (src "<s>"))        → (concat ..) (lmc ..) (stream ..) (render-l ok|crash) (render-c ok|crash)
  (prog (src "<s>") (name "<n>"))   → (nameerr <loc of the first token with content n, from the LEXER MODEL's positions>) <flags echoed from the implementation column>
spec verdict: locs: `inside l ∧ inside r ∧ ordered l r` must give a concat that is inside and renders; a location inside must render;
prog (read from the implementation's column): every error inside, the name error's slice equal to the name, rendering ok.
inK: `C24-multiline-token-line` when the source contains a multi-line string delimiter.
-/
open ErgVerif ErgVerif.Lex ErgVerif.C24

def locSexp : Loc → String
  | .range a b c d => s!"(r {a} {b} {c} {d})"
  | .lineRange a b => s!"(lr {a} {b})"
  | .line a => s!"(l {a})"
  | .unknown => "unknown"

def parseLoc : Sexp → Option Loc
  | .atom "unknown" => some .unknown
  | .list [.atom "r", a, b, c, d] => do some (.range (← a.atomNat?) (← b.atomNat?) (← c.atomNat?) (← d.atomNat?))
  | .list [.atom "lr", a, b] => do some (.lineRange (← a.atomNat?) (← b.atomNat?))
  | .list [.atom "l", a] => do some (.line (← a.atomNat?))
  | _ => none

def okStr (r : Rendered) : String := if r.isOk then "ok" else "crash"

/-- the implementation's `(concat <loc>)` answer, if it can be read -/
def implConcat (impl : String) : Option Loc :=
  match Sexp.parseAll impl.toList with
  | some (.list [.atom "concat", x] :: _) => parseLoc x
  | _ => none

def handleLocs (l r : Loc) (src : List Char) (impl : String) : String × String :=
  let lines := linesOf src
  let c := concat l r
  let out := s!"(concat {locSexp c}) (lmc {locSexp (leftMainConcat l r)}) (stream {locSexp (stream [l, r])}) (render-l {okStr (render lines l)}) (render-c {okStr (render lines c)})"
  let v :=
    if inside lines l && !(render lines l).isOk then "viol:inside-location-crashes-renderer"
    else if inside lines l && inside lines r && orderedAny l r && !(inside lines c && (render lines c).isOk) then "viol:concat-not-inside"
    else
      -- the same demand on the implementation's own answer
      let has (p : String) : Bool := (impl.splitOn p).length > 1
      match implConcat impl with
      | some ci =>
        if inside lines l && inside lines r && orderedAny l r && !(inside lines ci) then "viol:concat-not-inside(impl)"
        else if inside lines l && has "(render-l crash)" then "viol:inside-location-crashes-renderer(impl)"
        else if inside lines ci && has "(render-c crash)" then "viol:inside-location-crashes-renderer(impl)"
        else "ok"
      | none => if impl.isEmpty then "ok" else "viol:impl-output-unparsable"
  (out, v)

def handleProg (src name : List Char) (impl : String) : String × String × String :=
  let ts := okTokens (lexAll false src).items
  let nl := match ts.find? (fun t => t.content = name) with
    | some t => locSexp (tokenLoc t)
    | none => "none"
  -- the flags `(n ..) (inside ..) (slice ..) (render ..)` are observations on the implementation judged by the spec verdict below;
  -- the model predicts the location of the name error (from its own lexer positions) and echoes the flags
  let flags := match impl.splitOn " (n " with
    | _ :: rest => " (n " ++ " (n ".intercalate rest
    | [] => ""
  let out := s!"(nameerr {nl})" ++ flags
  let has (p : String) : Bool := (impl.splitOn p).length > 1
  let v := if has "crash" then "viol:render-or-compile-crash"
    else if has "(inside false)" then "viol:location-outside-source"
    else if has "(slice false)" then "viol:slice-is-not-the-name"
    else if has "(nameerr none)" then "viol:no-name-error"
    else "ok"
  let k := if ErgVerif.C08.hasInfix ['"', '"', '"'] src || ErgVerif.C08.hasInfix ['\'', '\'', '\''] src then "C24-multiline-token-line" else "-"
  (out, v, k)

def handle (line : String) : String :=
  match splitTabs line with
  | id :: input :: rest =>
    match Sexp.parse input with
    | some (.list [.atom "locs", l, r, .list [.atom "src", .str s]]) =>
      match parseLoc l, parseLoc r with
      | some l, some r => let (o, v) := handleLocs l r s (rest.headD ""); id ++ "\t" ++ o ++ "\t" ++ v ++ "\t-"
      | _, _ => id ++ "\tbad-input\t-\t-"
    | some (.list [.atom "prog", .list [.atom "src", .str s], .list [.atom "name", .str n]]) =>
      let (o, v, k) := handleProg s n (rest.headD "")
      id ++ "\t" ++ o ++ "\t" ++ v ++ "\t" ++ k
    | _ => id ++ "\tbad-input\t-\t-"
  | _ => "?\tbad-line\t-\t-"

def main : IO Unit := do
  lineLoop (← IO.getStdin) (← IO.getStdout) handle
