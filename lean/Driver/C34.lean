import ErgVerif.Util.Sexp
import ErgVerif.C34.Model
import ErgVerif.Gen.C34ListSig
/-!
Driver for C34 (`ergmodel_c34`), T-val: the verified membership checker `mem` applied to what the real checker reported and
what the compiled program held at run time.

stdin : id \t (bind "<name>" "<reported type text>" <value> (env ("<name>" <value>) …) (feat "<f>" …) [(shape <lshape>)]) \t <impl>
        value  ::= (i <int>) | (b true|false) | (s "<str>") | (f <mantissa> <exp10>) | (none) | (l value…) | (t value…)
        lshape ::= (lit n) | (push s) | (concat a b) | (add a b) | (rep s k) | (rev s) | (map s)
stdout: id \t <model> \t <spec> \t <inK>
        model = `(ty-understood)` when the reported text tokenizes, parses to a type of the grammar and prints back to the same
                token stream (the orchestrator puts the same constant in the impl column, so a misparse is a disagreement);
                `out-of-model(…)` for text outside the grammar or a value outside the value language (counted, never defaulted)
        spec  = `ok` | `viol:value-not-in-reported-type …` (with the declared length when a shape is given)
        inK   = id of the recorded finding whose class the case falls in, else 0
-/
open ErgVerif ErgVerif.C34

partial def valueOfSexp : Sexp → Option Value
  | .list [.atom "i", a] => (Sexp.atomInt? a).map Value.int
  | .list [.atom "b", .atom "true"] => some (.bool true)
  | .list [.atom "b", .atom "false"] => some (.bool false)
  | .list [.atom "s", .str s] => some (.str s)
  | .list [.atom "f", m, e] => match Sexp.atomInt? m, Sexp.atomInt? e with
    | some m, some e => some (.float (Dec.norm m e))
    | _, _ => none
  | .list [.atom "none"] => some .none
  | .list (.atom "l" :: xs) => (xs.mapM valueOfSexp).map (fun vs => Value.list (ValueList.ofList vs))
  | .list (.atom "t" :: xs) => (xs.mapM valueOfSexp).map (fun vs => Value.tuple (ValueList.ofList vs))
  | _ => none

partial def shapeOfSexp : Sexp → Option LShape
  | .list [.atom "lit", n] => (Sexp.atomNat? n).map LShape.lit
  | .list [.atom "push", s] => (shapeOfSexp s).map LShape.push
  | .list [.atom "concat", a, b] => match shapeOfSexp a, shapeOfSexp b with
    | some a, some b => some (.concat a b)
    | _, _ => none
  | .list [.atom "add", a, b] => match shapeOfSexp a, shapeOfSexp b with
    | some a, some b => some (.add a b)
    | _, _ => none
  | .list [.atom "rep", s, k] => match shapeOfSexp s, Sexp.atomNat? k with
    | some s, some k => some (.rep s k)
    | _, _ => none
  | .list [.atom "rev", s] => (shapeOfSexp s).map LShape.rev
  | .list [.atom "map", s] => (shapeOfSexp s).map LShape.map
  | _ => none

def findTagged (key : String) : List Sexp → Option (List Sexp)
  | [] => none
  | .list (.atom k :: rest) :: more => if k = key then some rest else findTagged key more
  | _ :: more => findTagged key more

def envOf (xs : List Sexp) : Option Env :=
  xs.mapM (fun x => match x with
    | .list [.str n, v] => (valueOfSexp v).map (fun w => (String.ofList n, w))
    | _ => none)

def strsOf (xs : List Sexp) : List String :=
  xs.filterMap (fun x => match x with
    | .str s => some (String.ofList s)
    | _ => none)

def reportedLen : Ty → Option Nat
  | .list _ n => some n
  | _ => none

def handle (line : String) : String :=
  match splitTabs line with
  | id :: input :: _ =>
    match Sexp.parse input with
    | some (.list (.atom "bind" :: .str _name :: .str tyText :: vsx :: rest)) =>
      match valueOfSexp vsx, envOf ((findTagged "env" rest).getD []) with
      | some v, some ρ =>
        let feats := strsOf ((findTagged "feat" rest).getD [])
        match Ty.parse tyText with
        | .ok t =>
          let declared : Option Int := match findTagged "shape" rest with
            | some [sx] => (shapeOfSexp sx).bind (fun s => s.len Gen.C34.declared)
            | _ => none
          let ok := mem ρ t v
          let extra := match declared, reportedLen t with
            | some d, some n => " declared-length=" ++ toString d ++ " reported-length=" ++ toString n
            | _, _ => ""
          let spec := if ok then "ok" else "viol:value-not-in-reported-type" ++ extra
          let ink := if ok then "0"
            else if inK19 feats t v then "C34-concat-after-push-length"
            else if inKEnumMinus feats t v then "C34-enum-minus-inferred-nat"
            else if inKNot feats t v then "C34-not-keeps-operand-type"
            else if inKIndexNever feats t v then "C34-index-binding-retyped-never"
            else if inKInterp feats t v then "C34-interp-str-singleton-quotes"
            else if inKIndexVar feats t v then "C34-index-result-type-variable"
            else if inKGuardBase feats t v then "C34-guard-base-from-right-operand"
            else if inKEnumElem feats t v then "C34-enum-element-union-dropped"
            else "0"
          id ++ "\t(ty-understood)\t" ++ spec ++ "\t" ++ ink
        | .untokenizable => id ++ "\tout-of-model(grammar: untokenizable)\t-\t-"
        | .outOfGrammar w => id ++ "\tout-of-model(grammar: at " ++ w ++ ")\t-\t-"
        | .roundTripFailed => id ++ "\t(ty-misparsed)\t-\t-"
      | _, _ => id ++ "\tout-of-model(value)\t-\t-"
    | _ => id ++ "\tbad-input\t-\t-"
  | _ => "?\tbad-line\t-\t-"

def main : IO Unit := do
  lineLoop (← IO.getStdin) (← IO.getStdout) handle
