import ErgVerif.Util.Sexp
import ErgVerif.C04.Model
import ErgVerif.C04.Spec
/-!
Driver for C04 (`ergmodel_c04`). stdin lines:  id \t <input> \t <impl output>
  input ::= (core <e>) | (fold <e>) | (accept <e> <leaf>)      (grammar in harness/src/bin/c04.rs)
stdout lines: id \t <model output> \t <spec verdict on the impl output> \t <inK>
  spec verdict: `ok <python value>` / `viol:<what> expected <python value>` (Lean specification `pyEval`), `-` when the
  specification demands nothing that Lean can state (float-valued expressions: the check compares those with CPython).
  inK: `C04-invert-bool` when the expression applies `~` to a Bool, `C04-float-*` classes for float rows, else `0`.
Floats are executed here with `Float.ofBits` (the model itself only sees bit patterns).
-/
open ErgVerif ErgVerif.C04

-- ------------------------------------------------------------------ float primitives (executed, not proved)
def fOf (b : UInt64) : Float := Float.ofBits b
def fTo (f : Float) : UInt64 := f.toBits

/-- decompose a finite non-zero magnitude into (mantissa, exponent) with value = m * 2^e -/
def decomp (bits : UInt64) : Nat × Int :=
  let n := bits.toNat % 9223372036854775808
  let ef := n / 4503599627370496
  let frac := n % 4503599627370496
  if ef = 0 then (frac, -1074) else (frac + 4503599627370496, (ef : Int) - 1075)

/-- C `fmod` (= Rust `%` on f64), computed exactly on the bit patterns -/
def fmodBits (xb yb : UInt64) : UInt64 :=
  let x := fOf xb
  let y := fOf yb
  if x.isNaN || y.isNaN || x.isInf || y == 0.0 then fTo (0.0 / 0.0)
  else if y.isInf then xb
  else if x == 0.0 then xb
  else
    let (mx, ex) := decomp xb
    let (my, ey) := decomp yb
    let e := if ex ≤ ey then ex else ey
    let X := mx * 2 ^ (ex - e).toNat
    let Y := my * 2 ^ (ey - e).toNat
    let R := X % Y
    let mag := (Float.ofNat R).scaleB e
    let neg := xb.toNat ≥ 9223372036854775808
    fTo (if neg then -mag else mag)

/-- compiler-rt `__powidf2` (what `f64::powi` lowers to) -/
def powiLoop : Nat → Float → Int → Float → Float
  | 0, _, _, r => r
  | fuel + 1, a, b, r =>
    let r := if b % 2 != 0 then r * a else r
    let b := Int.tdiv b 2
    if b = 0 then r else powiLoop fuel (a * a) b r

def powiF (a : Float) (b : Int) : Float :=
  let r := powiLoop 40 a b 1.0
  if b < 0 then 1.0 / r else r

def realFloatOps : FloatOps where
  add a b := fTo (fOf a + fOf b)
  sub a b := fTo (fOf a - fOf b)
  mul a b := fTo (fOf a * fOf b)
  div a b := fTo (fOf a / fOf b)
  rem a b := fmodBits a b
  powf a b := fTo (Float.pow (fOf a) (fOf b))
  powi a i := fTo (powiF (fOf a) i)
  floor a := fTo (fOf a).floor
  neg a := fTo (-(fOf a))
  ofInt i := fTo (Float.ofInt i)
  ofNat n := fTo n.toUInt64.toFloat
  lt a b := fOf a < fOf b
  le a b := fOf a ≤ fOf b
  eq a b := fOf a == fOf b

-- ------------------------------------------------------------------ parsing / printing
def opOfName : String → Option Op
  | "Add" => some .Add | "Sub" => some .Sub | "Mul" => some .Mul | "Div" => some .Div | "FloorDiv" => some .FloorDiv
  | "Pow" => some .Pow | "Mod" => some .Mod | "Pos" => some .Pos | "Neg" => some .Neg | "Invert" => some .Invert
  | "Gt" => some .Gt | "Lt" => some .Lt | "Ge" => some .Ge | "Le" => some .Le | "Eq" => some .Eq | "Ne" => some .Ne
  | "As" => some .As | "And" => some .And | "Or" => some .Or | "Not" => some .Not | "BitAnd" => some .BitAnd
  | "BitOr" => some .BitOr | "BitXor" => some .BitXor | "Shl" => some .Shl | "Shr" => some .Shr
  | "ClosedRange" => some .ClosedRange | "LeftOpenRange" => some .LeftOpenRange
  | "RightOpenRange" => some .RightOpenRange | "OpenRange" => some .OpenRange
  | _ => none

def hexU64 (s : String) : Option UInt64 :=
  s.toList.foldl (fun acc c => match acc, Sexp.hexVal c with
    | some a, some v => some (a * 16 + v)
    | _, _ => none) (some 0) |>.map (fun n => n.toUInt64)

partial def parseExpr : Sexp → Option Expr
  | .list [.atom "int", a] => (Sexp.atomInt? a).map (fun i => .lit (.int i))
  | .list [.atom "nat", a] => (Sexp.atomNat? a).map (fun n => .lit (.nat n))
  | .list [.atom "bool", .atom b] => some (.lit (.bool (b == "true")))
  | .list [.atom "float", .atom h] =>
    if h == "nan" then some (.lit (.float (fTo (0.0 / 0.0)))) else (hexU64 h).map (fun b => .lit (.float b))
  | .list [.atom "bin", .atom o, l, r] => do
    let op ← opOfName o
    let l' ← parseExpr l
    let r' ← parseExpr r
    pure (.bin op l' r')
  | .list [.atom "un", .atom o, e] => do
    let op ← opOfName o
    let e' ← parseExpr e
    pure (.un op e')
  | _ => none

def hex16 (b : UInt64) : String :=
  let n := b.toNat
  String.ofList ((List.range 16).map (fun k => Sexp.hexDigit (n / 16 ^ (15 - k) % 16)))

def showVal : Val → String
  | .int i => "(int " ++ toString i ++ ")"
  | .nat n => "(nat " ++ toString n ++ ")"
  | .bool b => "(bool " ++ (if b then "true" else "false") ++ ")"
  | .float b => if (fOf b).isNaN then "(float nan)" else "(float " ++ hex16 b ++ ")"

def showPyRes : PyRes → String
  | .val (.int i) => "(val (int " ++ toString i ++ "))"
  | .val (.bool b) => "(val (bool " ++ (if b then "true" else "false") ++ "))"
  | .nonInt => "nonInt"
  | .raises => "raises"
  | .noDemand => "noDemand"

def showOut (wrap : String) : Out → String
  | .ok v => "(" ++ wrap ++ " " ++ showVal v ++ ")"
  | .okOther => "(" ++ wrap ++ " other)"
  | .none => if wrap == "ok" then "none" else "unfolded"
  | .crash w => "crash(" ++ Sexp.quote w.toList ++ ")"
  | .oom => "out-of-model(operand outside Int/Nat/Bool/Float)"

/-- the implementation's answer, read back: `some (some v)` a value of the model, `some none` no value (left to run time /
    diagnostic / value outside the model), `none` a crash or an unreadable line -/
def readImpl (impl : String) : Option (Option Val) × Bool :=
  -- second component: the answer was a value outside the model
  if impl == "none" || impl == "unfolded" then (some none, false)
  else match Sexp.parse impl with
    | some (.list [.atom _, .atom "other"]) => (some none, true)
    | some (.list [.atom _, v]) =>
      match parseExpr v with
      | some (.lit x) => (some (some x), false)
      | _ => (none, false)
    | _ => (none, false)

def hasFloatLeaf : Expr → Bool
  | .lit v => !v.intlike
  | .bin _ l r => hasFloatLeaf l || hasFloatLeaf r
  | .un _ e => hasFloatLeaf e

/-- `pyEval` is unbounded; the driver refuses to build astronomically large powers (more than 20000 bits) and reports
    `none` for them: such a value fits no machine type, so the only acceptable compile-time answer is "not evaluated" -/
def pyEvalSafe : Expr → Option PyRes
  | .lit v => some (pyEval (.lit v))
  | .un op e => match pyEvalSafe e with
    | some (.val a) => some (pyUnary op a)
    | some _ => some .noDemand
    | none => none
  | .bin op l r =>
    match pyEvalSafe l, pyEvalSafe r with
    | some (.val a), some (.val b) =>
      if op == .Pow && b.toInt > 0 && a.toInt.natAbs ≥ 2 && (a.toInt.natAbs.log2 + 1) * b.toInt.toNat > 20000 then none
      else if op == .Pow && b.toInt > 64 && a.toInt.natAbs ≤ 1 then
        -- 0, 1, -1 to a large power, without iterating
        some (pyInt (if a.toInt = 0 then 0 else if a.toInt = 1 then 1 else if b.toInt % 2 = 0 then 1 else -1))
      else some (pyBin op a b)
    -- astronomically large only when the other operand has an int/bool value; an operand that raises or is outside the
    -- property makes the whole tree `noDemand`, as in `pyEval`
    | none, some (.val _) => none
    | some (.val _), none => none
    | none, none => none
    | _, _ => some .noDemand

/-- spec verdict on the implementation's answer for (core e) / (fold e) -/
def specVerdict (e : Expr) (impl : String) : String :=
  match pyEvalSafe e with
  | none =>
    (match readImpl impl with
     | (none, _) => "viol:the compiler crashed (or printed an unreadable answer) expected huge"
     | (some none, _) => "ok huge"
     | _ => "viol:compile-time value for an astronomically large run-time value expected huge")
  | some want =>
  let w := showPyRes want
  match readImpl impl with
  | (none, _) => "viol:the compiler crashed (or printed an unreadable answer) expected " ++ w
  | (some none, _) => "ok " ++ w                     -- left to run time / diagnostic: always allowed
  | (some (some v), _) =>
    if want == .noDemand then "- " ++ w
    else if agrees v want then "ok " ++ w
    else "viol:compile-time value " ++ showVal v ++ " differs from the run-time value expected " ++ w

def classOf (e : Expr) : String :=
  if hasInvertBool realFloatOps e then "C04-invert-bool"
  else if floatResidual realFloatOps e then "C04-float-semantics" else "0"

/-- acceptance of `x: {N} = lit` as the checker decides it: the literal's value must equal the folded value.
    (Int and Nat with the same integer are the same value; a Bool is not a number here.) -/
def modelAccepts (folded lit : Val) : Bool :=
  match folded, lit with
  | .bool a, .bool b => a == b
  | .float a, .float b => realFloatOps.eq a b
  | .float _, _ => false
  | _, .float _ => false
  | .bool _, _ => false
  | _, .bool _ => false
  | a, b => decide (toPy a = toPy b)

def handle (line : String) : String :=
  match splitTabs line with
  | id :: input :: rest =>
    let impl := rest.headD ""
    match Sexp.parse input with
    | some (.list [.atom "core", es]) =>
      match parseExpr es with
      | some e =>
        let m := evalExpr realFloatOps e
        id ++ "\t" ++ showOut "ok" m ++ "\t" ++ (if rest.isEmpty then "-" else specVerdict e impl) ++ "\t" ++ classOf e
      | none => id ++ "\tbad-input\t-\t-"
    | some (.list [.atom "fold", es]) =>
      match parseExpr es with
      | some e =>
        if impl == "no-surface-form" then id ++ "\tout-of-model(the tree has no literal surface form)\t-\t-" else
        let m := evalExpr realFloatOps e
        id ++ "\t" ++ showOut "folded" m ++ "\t" ++ (if rest.isEmpty then "-" else specVerdict e impl) ++ "\t" ++ classOf e
      | none => id ++ "\tbad-input\t-\t-"
    | some (.list [.atom "accept", es, vs]) =>
      match parseExpr es, parseExpr vs with
      | some e, some (.lit lit) =>
        if impl == "no-surface-form" then id ++ "\tout-of-model(the tree has no literal surface form)\t-\t-" else
        let m := evalExpr realFloatOps e
        let model := match m with
          | .ok v => if modelAccepts v lit then "accepted" else "rejected"
          | .crash w => "crash(" ++ Sexp.quote w.toList ++ ")"
          | _ => "rejected"
        let want := (pyEvalSafe e).getD .noDemand
        let spec :=
          if impl.startsWith "crash" then "viol:the compiler crashed expected " ++ showPyRes want
          else match want with
            | .val pv =>
              let should := lit.intlike && decide (toPy lit = pv)
              if impl == "accepted" && !should then
                "viol:`x: {N} = " ++ showVal lit ++ "` accepted although the run-time value of N is " ++ showPyRes want
              else if impl == "rejected" && should && m != .none then
                -- a rejection is a violation only when N was folded to a different value; `none` = left to run time
                "viol:`x: {N} = " ++ showVal lit ++ "` rejected although it is the run-time value of N"
              else "ok " ++ showPyRes want
            | _ => "- " ++ showPyRes want
        id ++ "\t" ++ model ++ "\t" ++ spec ++ "\t" ++ classOf e
      | _, _ => id ++ "\tbad-input\t-\t-"
    | _ => id ++ "\tbad-input\t-\t-"
  | _ => "?\tbad-line\t-\t-"

def main : IO Unit := do
  lineLoop (← IO.getStdin) (← IO.getStdout) handle
