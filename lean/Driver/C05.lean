import ErgVerif.Util.Sexp
import ErgVerif.C05.Model
/-!
Driver for C05 (`ergmodel_c05`): the Lean injectors produce the test inputs.

stdin : id \t (prog <stmt>…) \t -
        stmt ::= (defv e) | (print e) | (fun1 P e) | (fun2 P Q e) | (fun1d P d e) | (lam P e) | (forp n e) | (printEnd e d) | (defvK f a b)
        e    ::= (lit T v) | (var x) | (bin op l r) | (ite c a b) | (call0 f) | (call1 f a) | (call2 f a b) | (attr e a)
        T, P ::= nat | int | bool | str        op ::= add | sub | mul | lt | and
stdout: id \t (base <welltyped> <size> "<erg source>") (inj <injector> <stmt> <slot> (<path>) <spec-illtyped> <known class or -> "<erg source>")… \t ok|viol:… \t 0
        one `inj` item for EVERY position of every injector (`positionsP`); `<spec-illtyped>` re-evaluates `check` on the injected
        program (theorem C05_inject_untypable says it is always true; a `false` here is reported as `viol:`).
        The Erg text starts with the marker line `print! "C05MARK"`.
-/
open ErgVerif ErgVerif.C05

def tyOf : Sexp → Option Ty
  | .atom "nat" => some .nat | .atom "int" => some .int | .atom "bool" => some .bool | .atom "str" => some .str
  | _ => none

def opOf : Sexp → Option Op
  | .atom "add" => some .add | .atom "sub" => some .sub | .atom "mul" => some .mul | .atom "lt" => some .lt
  | .atom "and" => some .and_
  | _ => none

partial def exprOf : Sexp → Option Expr
  | .list [.atom "lit", t, v] => match tyOf t, Sexp.atomNat? v with
    | some t, some v => some (.lit t v)
    | _, _ => none
  | .list [.atom "var", x] => (Sexp.atomNat? x).map Expr.var
  | .list [.atom "bin", op, l, r] => match opOf op, exprOf l, exprOf r with
    | some op, some l, some r => some (.bin op l r)
    | _, _, _ => none
  | .list [.atom "ite", c, a, b] => match exprOf c, exprOf a, exprOf b with
    | some c, some a, some b => some (.ite c a b)
    | _, _, _ => none
  | .list [.atom "call0", f] => (Sexp.atomNat? f).map Expr.call0
  | .list [.atom "call1", f, a] => match Sexp.atomNat? f, exprOf a with
    | some f, some a => some (.call1 f a)
    | _, _ => none
  | .list [.atom "call2", f, a, b] => match Sexp.atomNat? f, exprOf a, exprOf b with
    | some f, some a, some b => some (.call2 f a b)
    | _, _, _ => none
  | .list [.atom "attr", e, a] => match exprOf e, Sexp.atomNat? a with
    | some e, some a => some (.attr e a)
    | _, _ => none
  | _ => none

def stmtOf : Sexp → Option Stmt
  | .list [.atom "defv", e] => (exprOf e).map Stmt.defv
  | .list [.atom "print", e] => (exprOf e).map Stmt.print
  | .list [.atom "fun1", p, e] => match tyOf p, exprOf e with
    | some p, some e => some (.fun1 p e)
    | _, _ => none
  | .list [.atom "fun2", p, q, e] => match tyOf p, tyOf q, exprOf e with
    | some p, some q, some e => some (.fun2 p q e)
    | _, _, _ => none
  | .list [.atom "fun1d", p, d, e] => match tyOf p, exprOf d, exprOf e with
    | some p, some d, some e => some (.fun1d p d e)
    | _, _, _ => none
  | .list [.atom "lam", p, e] => match tyOf p, exprOf e with
    | some p, some e => some (.lam p e)
    | _, _ => none
  | .list [.atom "forp", n, e] => match Sexp.atomNat? n, exprOf e with
    | some n, some e => some (.forp n e)
    | _, _ => none
  | .list [.atom "printEnd", e, d] => match exprOf e, exprOf d with
    | some e, some d => some (.printEnd e d)
    | _, _ => none
  | .list [.atom "defvK", f, a, b] => match Sexp.atomNat? f, exprOf a, exprOf b with
    | some f, some a, some b => some (.defvK f a b)
    | _, _, _ => none
  | _ => none

/-! ### Erg text -/

def tyName : Ty → String
  | .nat => "Nat" | .int => "Int" | .bool => "Bool" | .str => "Str"

def opText : Op → String
  | .add => "+" | .sub => "-" | .mul => "*" | .lt => "<" | .and_ => "and"

def attrText (a : Nat) : String :=
  if a = 0 then ".bit_length()" else if a = 1 then ".isascii()" else if a = 2 then ".real" else ".zz_missing"

def litText : Ty → Nat → String
  | .nat, v => toString (v % 10)
  | .int, v => "(-" ++ toString (v % 10 + 1) ++ ")"
  | .bool, v => if v % 2 = 1 then "True" else "False"
  | .str, v => "\"s" ++ toString (v % 10) ++ "\""

/-- `nglob` globals are named v0…; the extra variables of the slot have the names `extra`; anything else is undefined -/
def varText (nglob : Nat) (extra : List String) (x : Nat) : String :=
  if x < nglob then "v" ++ toString x
  else match extra[x - nglob]? with
    | some n => n
    | none => "zz_undefined"

def exprText (nglob : Nat) (extra : List String) : Expr → String
  | .lit t v => litText t v
  | .var x => varText nglob extra x
  | .bin op l r => "(" ++ exprText nglob extra l ++ " " ++ opText op ++ " " ++ exprText nglob extra r ++ ")"
  | .ite c a b => "if(" ++ exprText nglob extra c ++ ", do(" ++ exprText nglob extra a ++ "), do(" ++ exprText nglob extra b ++ "))"
  | .call0 f => "f" ++ toString f ++ "()"
  | .call1 f a => "f" ++ toString f ++ "(" ++ exprText nglob extra a ++ ")"
  | .call2 f a b => "f" ++ toString f ++ "(" ++ exprText nglob extra a ++ ", " ++ exprText nglob extra b ++ ")"
  | .attr e a => exprText nglob extra e ++ attrText a

/-- text of the statements; `nglob`/`nfun` count the definitions emitted so far -/
def progText : Nat → Nat → List Stmt → List String
  | _, _, [] => []
  | g, f, .defv e :: rest => ("v" ++ toString g ++ " = " ++ exprText g [] e) :: progText (g + 1) f rest
  | g, f, .print e :: rest => ("print!(" ++ exprText g [] e ++ ")") :: progText g f rest
  | g, f, .fun1 p b :: rest =>
    ("f" ++ toString f ++ "(p: " ++ tyName p ++ ") = " ++ exprText g ["p"] b) :: progText g (f + 1) rest
  | g, f, .fun2 p q b :: rest =>
    ("f" ++ toString f ++ "(p: " ++ tyName p ++ ", q: " ++ tyName q ++ ") = " ++ exprText g ["p", "q"] b) :: progText g (f + 1) rest
  | g, f, .fun1d p d b :: rest =>
    ("f" ++ toString f ++ "(p: " ++ tyName p ++ " := " ++ exprText g [] d ++ ") = " ++ exprText g ["p"] b) :: progText g (f + 1) rest
  | g, f, .lam p b :: rest =>
    ("f" ++ toString f ++ " = (p: " ++ tyName p ++ ") -> " ++ exprText g ["p"] b) :: progText g (f + 1) rest
  | g, f, .printEnd e d :: rest =>
    ("print!(" ++ exprText g [] e ++ ", end := " ++ exprText g [] d ++ ")") :: progText g f rest
  | g, f, .defvK fn a b :: rest =>
    ("v" ++ toString g ++ " = f" ++ toString fn ++ "(" ++ exprText g [] a ++ ", q := " ++ exprText g [] b ++ ")") :: progText (g + 1) f rest
  | g, f, .forp h b :: rest =>
    ("for! 0..<" ++ toString h ++ ", i =>\n    print!(" ++ exprText g ["i"] b ++ ")") :: progText g f rest

def ergText (p : List Stmt) : String :=
  "\n".intercalate ("print! \"C05MARK\"" :: progText 0 0 p) ++ "\n"

def injName : Inj → String
  | .operand => "operand" | .dropArg => "dropArg" | .addArg => "addArg" | .badArg => "badArg"
  | .rename => "rename" | .missingAttr => "missingAttr"

def handle (line : String) : String :=
  match splitTabs line with
  | id :: input :: _ =>
    match Sexp.parse input with
    | some (.list (.atom "prog" :: ss)) =>
      match ss.mapM stmtOf with
      | some p =>
        let wt := check [] [] p
        let base := "(base " ++ toString wt ++ " " ++ toString (progSize p) ++ " " ++ Sexp.quote (ergText p).toList ++ ")"
        if !wt then id ++ "\t" ++ base ++ "\t-\t0"
        else
          let items := Inj.all.flatMap (fun k => (positionsP k p).map (fun pos =>
            let q := inject k pos p
            let ill := !check [] [] q
            (ill, "(inj " ++ injName k ++ " " ++ toString pos.stmt ++ " " ++ toString pos.slot ++ " (" ++
              " ".intercalate (pos.path.map toString) ++ ") " ++ toString ill ++ " " ++
              (if inKLtEnum k p pos then "C05-lt-enum-operand-accepted"
               else if inKLoopVarMul k p pos then "C05-loopvar-mul-str-accepted" else "-") ++ " " ++ Sexp.quote (ergText q).toList ++ ")")))
          let bad := items.filter (fun x => !x.1)
          id ++ "\t" ++ base ++ String.join (items.map (fun x => " " ++ x.2)) ++ "\t" ++
            (if bad.isEmpty then "ok" else "viol:injected-program-typable-in-the-spec") ++ "\t0"
      | none => id ++ "\tbad-input\t-\t-"
    | _ => id ++ "\tbad-input\t-\t-"
  | _ => "?\tbad-line\t-\t-"

def main : IO Unit := do
  lineLoop (← IO.getStdin) (← IO.getStdout) handle
