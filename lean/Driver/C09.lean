import ErgVerif.Util.Sexp
import ErgVerif.C09.Model
/-!
Driver for C09 (`ergmodel_c09`). stdin: id \t (ladder <kind> <depth>) | (text "<src>") \t <impl outcome>
stdout: id \t <model outcome> \t <spec verdict on the impl outcome> \t <inK>
Ladders: the model outcome comes from the measured stack-budget model (`ladderOutcome`; `out-of-model(threshold-band)` where
the measured bounds do not decide); the verdict applies the property to what the implementation did (handled up to depth 200,
never an overflow). Texts: the model's claim is totality (`total`); a crash or an error-less failure violates the property.
-/
open ErgVerif ErgVerif.C09

def kindOf (s : String) : Option Kind :=
  if s = "paren" then some .paren else if s = "sqbr" then some .sqbr else if s = "brace" then some .brace
  else if s = "call" then some .call else if s = "index" then some .index else if s = "unary" then some .unary
  else if s = "lambda" then some .lambda else if s = "block" then some .block else if s = "mixed" then some .mixed else none

def showOutcome : Outcome → String
  | .ok => "ok" | .err => "err" | .overflow => "overflow"

def readOutcome (s : String) : Option Outcome :=
  if s = "ok" then some .ok else if s = "err" then some .err else if s.startsWith "overflow" then some .overflow else none

def handle (line : String) : String :=
  match splitTabs line with
  | id :: input :: rest =>
    let impl := rest.headD ""
    match Sexp.parse input with
    | some (.list [.atom "ladder", .atom k, .atom d]) =>
      match kindOf k, d.toNat? with
      | some kind, some depth =>
        let verdict := match readOutcome impl with
          | some o => if ladderSpecOk kind depth o then "ok"
                      else "viol:" ++ (if o = .overflow then "stack-overflow-at-depth-" else "nesting-not-handled-at-depth-") ++ toString depth
          | none => if rest.isEmpty then "-" else "viol:" ++ impl
        let ink := if inOverflowClass kind depth then "C09-nesting-overflow" else "0"
        match ladderOutcome kind depth with
        | some o => id ++ "\t" ++ showOutcome o ++ "\t" ++ verdict ++ "\t" ++ ink
        | none => id ++ "\tout-of-model(threshold-band)\t" ++ verdict ++ "\t" ++ ink
      | _, _ => id ++ "\tbad-input\t-\t-"
    | some (.list [.atom "text", .str _]) =>
      let verdict := if rest.isEmpty then "-" else if impl = "total" then "ok" else "viol:" ++ impl
      id ++ "\ttotal\t" ++ verdict ++ "\t0"
    | _ => id ++ "\tbad-input\t-\t-"
  | _ => "?\tbad-line\t-\t-"

def main : IO Unit := do
  lineLoop (← IO.getStdin) (← IO.getStdout) handle
