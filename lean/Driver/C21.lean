import ErgVerif.Util.Sexp
import ErgVerif.C21.Model
/-!
Driver for C21 (`ergmodel_c21`). stdin lines:  id \t (ops (add m0) (inc m0 m1) (remove m2) (rename m1 m3) (sort)) \t <impl output>
stdout lines: id \t <model output> \t <spec verdict> \t 0

Output (impl and model, byte-identical when they agree): one S-expression per step, space separated,
  (s <res> (st <node>…) (gn <g0>…<g5>) (dep <36 bits>) (deep <36 bits>) (ch <l0>…<l5>) (par <p0>…<p5>) (anc <a0>…<a5>))
or `(s crash)` (then the history stops). Paths are the atoms m0…m5 (model: Nat 0..5).

Model: `ErgVerif.C21.step` from `MG.new`. `(st …)` is the only unsorted part of the protocol: it lists the nodes in
vector order with each dependency set in the *iteration order of the real hash set*. After each model step the driver
reads the implementation's `(st …)` of the same step; if the model graph has the same ids in the same vector order and
every dependency list is a permutation of the dumped one, the model's lists are re-ordered to the dumped order
("adoption"), so that the next `sort` walks the dependencies in the order the real code does. Nothing else of the
implementation's answer is copied; if the shape differs the model keeps its own order.

Spec verdict: an independent, naive executable reference graph `XG` (node list + edge list, reachability by iterating
the edge relation) with the semantics documented in ErgVerif/C21/Spec.lean (`Spec.step`, `Spec.res`; that file is
NOT imported). The IMPLEMENTATION's parsed answer is compared with `XG` at every step: result, node set and edge set
of `st`, gn, dep, deep, ch, par, anc; for a successful sort additionally that the listing is a permutation of the
previous listing and every node comes after the nodes it depends on. First difference: `viol:step<k>:<field>`
(k = 0-based index of the operation). Without an impl column the model's own answer is checked instead.
-/
open ErgVerif ErgVerif.Graph ErgVerif.C21

namespace C21Driver

/-- the universe of the protocol: m0 … m5 -/
def U : List Nat := [0, 1, 2, 3, 4, 5]

def pname (n : Nat) : String := "m" ++ toString n

def sortNat (l : List Nat) : List Nat := l.mergeSort (fun a b => decide (a ≤ b))

def pairLe (x y : Nat × Nat) : Bool := decide (x.1 < y.1) || (x.1 == y.1 && decide (x.2 ≤ y.2))
def sortPairs (l : List (Nat × Nat)) : List (Nat × Nat) := l.mergeSort pairLe

/-- everything one step prints -/
structure PStep where
  res : String
  st : List (Nat × List Nat)
  gn : List (Option (Nat × List Nat))
  dep : String
  deep : String
  ch : List (List Nat)
  par : List (Option (List Nat))
  anc : List (List Nat)
  deriving Inhabited

inductive IStep where
  | crash
  | bad
  | ok (p : PStep)
  deriving Inhabited

/-! ### parsing -/

def parsePath : Sexp → Option Nat
  | .atom s =>
    match s.toList with
    | 'm' :: ds => if ds.isEmpty then none else (String.ofList ds).toNat?
    | _ => none
  | _ => none

def parseOp : Sexp → Option Op
  | .list [.atom "add", p] => (parsePath p).map Op.add
  | .list [.atom "remove", p] => (parsePath p).map Op.remove
  | .list [.atom "inc", a, b] =>
    match parsePath a, parsePath b with
    | some a, some b => some (Op.inc a b)
    | _, _ => none
  | .list [.atom "rename", a, b] =>
    match parsePath a, parsePath b with
    | some a, some b => some (Op.rename a b)
    | _, _ => none
  | .list [.atom "sort"] => some Op.sort
  | _ => none

def parseOps (input : String) : Option (List Op) :=
  match Sexp.parse input with
  | some (.list (.atom "ops" :: xs)) => xs.mapM parseOp
  | _ => none

def parseNode : Sexp → Option (Nat × List Nat)
  | .list (i :: ds) =>
    match parsePath i, ds.mapM parsePath with
    | some i, some ds => some (i, ds)
    | _, _ => none
  | _ => none

def parseOptNode : Sexp → Option (Option (Nat × List Nat))
  | .atom "-" => some none
  | x => (parseNode x).map some

def parseList : Sexp → Option (List Nat)
  | .list ds => ds.mapM parsePath
  | _ => none

def parseOptList : Sexp → Option (Option (List Nat))
  | .atom "-" => some none
  | x => (parseList x).map some

def parseStep : Sexp → IStep
  | .list [.atom "s", .atom "crash"] => .crash
  | .list [.atom "s", .atom r, .list (.atom "st" :: st), .list (.atom "gn" :: gn), .list [.atom "dep", .atom dep],
           .list [.atom "deep", .atom deep], .list (.atom "ch" :: ch), .list (.atom "par" :: par),
           .list (.atom "anc" :: anc)] =>
    match st.mapM parseNode, gn.mapM parseOptNode, ch.mapM parseList, par.mapM parseOptList, anc.mapM parseList with
    | some st, some gn, some ch, some par, some anc =>
      .ok { res := r, st := st, gn := gn, dep := dep, deep := deep, ch := ch, par := par, anc := anc }
    | _, _, _, _, _ => .bad
  | _ => .bad

def parseImpl (impl : String) : List IStep :=
  match Sexp.parseAll impl.toList with
  | none => [.bad]
  | some xs => xs.map parseStep

/-! ### rendering -/

def paren (xs : List String) : String := "(" ++ " ".intercalate xs ++ ")"

def renderNode (n : Nat × List Nat) : String := paren (pname n.1 :: n.2.map pname)

def renderOptNode : Option (Nat × List Nat) → String
  | none => "-"
  | some n => renderNode n

def renderList (l : List Nat) : String := paren (l.map pname)

def renderOptList : Option (List Nat) → String
  | none => "-"
  | some l => renderList l

def renderStep (p : PStep) : String :=
  paren ["s", p.res, paren ("st" :: p.st.map renderNode), paren ("gn" :: p.gn.map renderOptNode),
         paren ["dep", p.dep], paren ["deep", p.deep], paren ("ch" :: p.ch.map renderList),
         paren ("par" :: p.par.map renderOptList), paren ("anc" :: p.anc.map renderList)]

def bits (l : List Bool) : String := String.ofList (l.map (fun b => if b then '1' else '0'))

/-! ### the model side -/

def resStr : OpRes → Option String
  | .unit => some "unit"
  | .incOk => some "ok"
  | .incCycle => some "err:cycle"
  | .sortOk => some "sorted"
  | .sortErr .cycle => some "err:CyclicReference"
  | .sortErr .keyNotFound => some "err:KeyNotFound"
  | .sortErr _ => none
  | .crash _ => none

/-- every query of the protocol on a model state; `.error` = a panic site of the real code -/
def queries (s : MG) (res : String) : Except Err PStep := do
  let gn ← U.mapM (fun p => do
    let o ← s.getNode p
    pure (o.map (fun n => (n.id, sortNat n.deps))))
  let dep ← U.mapM (fun p => U.mapM (fun t => s.dependsOn p t))
  let deep ← U.mapM (fun p => U.mapM (fun t => s.deepDependsOn p t))
  let par ← U.mapM (fun p => do
    let o ← s.parents p
    pure (o.map sortNat))
  let anc ← U.mapM (fun p => do
    let a ← s.ancestors p
    pure (sortNat a))
  pure { res := res, st := s.graph.map (fun n => (n.id, n.deps)), gn := gn, dep := bits dep.flatten,
         deep := bits deep.flatten, ch := U.map (fun p => sortNat (s.children p)), par := par, anc := anc }

/-- adopt the hash-set iteration order of the implementation's dump (same ids, same vector order, every dependency
    list a permutation of the dumped one); otherwise keep the model's own order -/
def adopt (s : MG) (dump : List (Nat × List Nat)) : MG :=
  let zs := s.graph.zip dump
  if s.graph.length == dump.length &&
      zs.all (fun nd => nd.1.id == nd.2.1 && nd.1.deps.length == nd.2.2.length && sortNat nd.1.deps == sortNat nd.2.2) then
    { s with graph := zs.map (fun nd => { nd.1 with deps := nd.2.2 }) }
  else s

/-! ### the executable reference graph (spec side; independent of the model) -/

structure XG where
  nodes : List Nat
  edges : List (Nat × Nat)
  deriving Inhabited

def ins {α : Type} [BEq α] (l : List α) (x : α) : List α := if l.contains x then l else l ++ [x]
def dedup {α : Type} [BEq α] (l : List α) : List α := l.foldl ins []

/-- `r ∘ e`: pairs (a, c) with (a, b) ∈ r and (b, c) ∈ e -/
def compose (r e : List (Nat × Nat)) : List (Nat × Nat) :=
  r.flatMap (fun ab => (e.filter (fun bc => bc.1 == ab.2)).map (fun bc => (ab.1, bc.2)))

/-- transitive closure (paths of length ≥ 1): `R := R ∪ R∘E`, repeated once per distinct endpoint -/
def closure (e : List (Nat × Nat)) : List (Nat × Nat) :=
  let n := (dedup (e.map (·.1) ++ e.map (·.2))).length
  (List.range n).foldl (fun r _ => dedup (r ++ compose r e)) (dedup e)

def xren (o n x : Nat) : Nat := if x == o then n else x

def isStr (a : String) : String → Bool := fun b => a == b

/-- what an operation means on the reference graph, and which results it allows -/
def xstep (g : XG) : Op → XG × (String → Bool)
  | .add p => ({ g with nodes := ins g.nodes p }, isStr "unit")
  | .inc a b =>
    let nodes := ins g.nodes a
    if a != b && (closure g.edges).contains (b, a) then ({ g with nodes := nodes }, isStr "err:cycle")
    else if a == b then ({ g with nodes := nodes }, isStr "ok")
    else ({ nodes := nodes, edges := ins g.edges (a, b) }, isStr "ok")
  | .remove p =>
    ({ nodes := g.nodes.filter (· != p), edges := g.edges.filter (fun e => e.1 != p && e.2 != p) }, isStr "unit")
  | .rename o n =>
    if o == n then (g, isStr "unit")
    else if g.nodes.contains o then
      ({ nodes := ins (g.nodes.filter (· != o)) n,
         edges := dedup ((g.edges.filter (fun e => e.1 != n)).map (fun e => (xren o n e.1, xren o n e.2))) },
       isStr "unit")
    else
      ({ g with edges := dedup (g.edges.map (fun e => (xren o n e.1, xren o n e.2))) }, isStr "unit")
  | .sort =>
    let closed := g.edges.all (fun e => g.nodes.contains e.2)
    let acyclic := (closure g.edges).all (fun e => e.1 != e.2)
    (g, match closed, acyclic with
        | true, true => isStr "sorted"
        | true, false => isStr "err:CyclicReference"
        | false, true => isStr "err:KeyNotFound"
        | false, false => fun r => r == "err:KeyNotFound" || r == "err:CyclicReference")

def targets (g : XG) (p : Nat) : List Nat := sortNat ((g.edges.filter (·.1 == p)).map (·.2))

def viol (k : Nat) (what : String) : String := "viol:step" ++ toString k ++ ":" ++ what

/-- compare one observed step with the reference graph after the step -/
def check (g : XG) (resOk : String → Bool) (prevIds : List Nat) (o : PStep) : Option String :=
  let cl := closure g.edges
  let ids := o.st.map (·.1)
  if !resOk o.res then some "res"
  else if sortNat ids != sortNat g.nodes then some "st-nodes"
  else if sortPairs (o.st.flatMap (fun n => n.2.map (fun d => (n.1, d)))) != sortPairs g.edges then some "st-edges"
  else if o.gn != U.map (fun p => if g.nodes.contains p then some (p, targets g p) else none) then some "gn"
  else if o.dep != bits (U.flatMap (fun p => U.map (fun t => g.edges.contains (p, t)))) then some "dep"
  else if o.deep != bits (U.flatMap (fun p => U.map (fun t => cl.contains (p, t)))) then some "deep"
  else if o.ch != U.map (fun p => sortNat ((g.edges.filter (·.2 == p)).map (·.1))) then some "ch"
  else if o.par != U.map (fun p => if g.nodes.contains p then some (targets g p) else none) then some "par"
  else if o.anc != U.map (fun p => sortNat ((cl.filter (·.1 == p)).map (·.2))) then some "anc"
  else if o.res == "sorted" then
    if sortNat ids != sortNat prevIds then some "sort-perm"
    else if !(o.st.zipIdx.all (fun ni => ni.1.2.all (fun d => decide (ids.idxOf d < ni.2)))) then some "sort-order"
    else none
  else none

/-! ### one history -/

def loop (hasImpl : Bool) : List Op → List IStep → MG → XG → List Nat → Nat → List String → Option String →
    List String × Option String
  | [], isteps, _, _, _, k, out, v =>
    let v' := match v with
      | some x => some x
      | none => if hasImpl && !isteps.isEmpty then some (viol k "extra") else none
    (out, v')
  | op :: ops, isteps, s, x, prev, k, out, v =>
    let istep : Option IStep := isteps.head?
    let irest := isteps.tail
    let sr := step s op
    -- the model's answer (after adopting the implementation's set order)
    let mres : Option (PStep × MG) :=
      match resStr sr.2 with
      | none => none
      | some rs =>
        let s2 := match istep with
          | some (.ok p) => adopt sr.1 p.st
          | _ => sr.1
        match queries s2 rs with
        | .ok p => some (p, s2)
        | .error _ => none
    -- the answer the specification is evaluated on
    let obs : Option IStep :=
      if hasImpl then istep
      else some (match mres with
        | some ps => .ok ps.1
        | none => .crash)
    let spec : XG × Option String × List Nat :=
      match v with
      | some _ => (x, v, prev)
      | none =>
        let xr := xstep x op
        match obs with
        | none => (xr.1, some (viol k "missing"), prev)
        | some .crash => (xr.1, some (viol k "crash"), prev)
        | some .bad => (xr.1, some (viol k "unparsable"), prev)
        | some (.ok p) => (xr.1, (check xr.1 xr.2 prev p).map (viol k), p.st.map (·.1))
    match mres with
    | none => ("(s crash)" :: out, spec.2.1)
    | some ps => loop hasImpl ops irest ps.2 spec.1 spec.2.2 (k + 1) (renderStep ps.1 :: out) spec.2.1

def handle (line : String) : String :=
  match splitTabs line with
  | id :: input :: rest =>
    match parseOps input with
    | none => id ++ "\tbad-input\t-\t-"
    | some ops =>
      let impl := rest.headD ""
      let hasImpl := !impl.isEmpty
      let isteps := if hasImpl then parseImpl impl else []
      let r := loop hasImpl ops isteps MG.new ⟨[], []⟩ [] 0 [] none
      id ++ "\t" ++ " ".intercalate r.1.reverse ++ "\t" ++ r.2.getD "ok" ++ "\t0"
  | _ => "?\tbad-line\t-\t-"

end C21Driver

def main : IO Unit := do
  lineLoop (← IO.getStdin) (← IO.getStdout) C21Driver.handle
