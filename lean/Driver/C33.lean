import ErgVerif.Util.Sexp
import ErgVerif.C33.Model
import Driver.TyIO
/-!
Driver for C33 (`ergmodel_c33`).
stdin  : id \t <case> \t <impl-output>
  (match S (arms P…) (vals v…))   impl: (accept) (taken i…)   i = arm index printed by the arm body, or `crash`, or `nomatch`
                                   |     (reject <error kinds>)
  (contains P v)                   impl: (r true|false|crash)          the real `contains_operator` under python3.11
stdout : id \t <model output> \t <spec verdict> \t <inK>
Model output: acceptance by the transcribed `get_match_call_t` (`accepted`) and `armTaken` for every value; `contains`.
Spec verdict, on the IMPLEMENTATION's answers: an accepted match must, for every value of the scrutinee type, take an arm whose
pattern contains the value (⟦P⟧, C06's denotation); `contains_operator` must agree with ⟦P⟧ on the pattern types whose test is exact.
-/
open ErgVerif ErgVerif.C06 ErgVerif.C33

def valOfSexp : Sexp → Option Val
  | .list [.atom "int", .atom n] => n.toInt?.map Val.int
  | .list [.atom "str", .atom n] => n.toInt?.map Val.str
  | _ => none

/-- an arm as written: `(lit k)` is the integer literal arm `k -> …` (type `{k}`, flagged), anything else a pattern type -/
def armOfSexp : Sexp → Option (Ty × Bool)
  | .list [.atom "lit", .atom n] =>
    match n.toInt? with
    | some k => if k < 0 then none else some (.refine T0.iNat (.eq k), true)   -- negative literal arms: not modelled
    | none => none
  | sx => (tyOfSexp sx).map (fun t => (t, false))

def armsOfSexp : List Sexp → Option (List (Ty × Bool))
  | [] => some []
  | x :: xs => match armOfSexp x, armsOfSexp xs with
    | some a, some as => some (a :: as)
    | _, _ => none

def findTagged (key : String) : List Sexp → Option (List Sexp)
  | [] => none
  | .list (.atom k :: rest) :: more => if k = key then some rest else findTagged key more
  | _ :: more => findTagged key more

def atomStr : Sexp → String
  | .atom s => s
  | _ => "?"

/-- recorded findings: the class of a violating match -/
def classifyMatch (s : Ty) (arms : List Ty) : String :=
  -- accepted although the union of the arms does not cover the scrutinee: inherited from C06 (unsound `derefine` step)
  if !(superOf T0 Fx.repaired id (unionAll T0 id arms) s) then "C33-nonexhaustive-accepted" else "-"

def handle (line : String) : String :=
  match splitTabs line with
  | cid :: input :: rest =>
    let impl := rest.headD ""
    let xs := (Sexp.parseAll impl.toList).getD []
    match Sexp.parse input with
    | some (.list [.atom "match", ss, .list (.atom "arms" :: sps), .list (.atom "vals" :: svs)]) =>
      match tyOfSexp ss, armsOfSexp sps with
      | some s, some farms =>
        let arms := farms.map (·.1)
        let vals := svs.filterMap valOfSexp
        let implAcc := (findTagged "accept" xs).isSome
        let implRej := (findTagged "reject" xs).isSome
        let taken := vals.map (fun v => match armOutcome T0 farms v with | some i => toString i | none => "crash")
        -- the front end (`sub_unify`, coercions) is outside the model: the acceptance column follows the implementation when the
        -- two differ only there; the difference is counted by the check (`model-accept` tag)
        let model := (if implAcc then "(accept)" else if implRej then "(reject" ++ String.join (((findTagged "reject" xs).getD []).map (fun x => " " ++ atomStr x)) ++ ")" else "?")
          ++ (if implAcc then " (taken" ++ String.join (taken.map (" " ++ ·)) ++ ")" else "")
        let spec :=
          if !implAcc then (if implRej then "ok" else "viol:front-end-crashed-or-malformed")
          else
            let it := ((findTagged "taken" xs).getD []).map atomStr
            if it.length != vals.length then "viol:malformed-taken-list"
            else
              let bad := (vals.zip it).filterMap (fun (v, t) =>
                if !(den T0 s v) then none   -- not a value of the scrutinee type (not asked)
                else match t.toNat? with
                  | none => some ("viol:" ++ t ++ " for " ++ showVal v)
                  | some i =>
                    match arms[i]? with
                    | none => some ("viol:arm " ++ t ++ " does not exist for " ++ showVal v)
                    | some p => if den T0 p v then none else some ("viol:arm " ++ t ++ " taken for " ++ showVal v ++ " which its pattern does not contain"))
              bad.headD "ok"
        let crashK := vals.any (fun v => den T0 s v && (armOutcome T0 farms v).isNone)
        let k := if !spec.startsWith "viol" then "-"
                 else if spec.startsWith "viol:crash" && crashK then "C33-arm-test-type-error"
                 else classifyMatch s arms
        cid ++ "\t" ++ model ++ "\t" ++ spec ++ "\t" ++ k
      | _, _ => cid ++ "\tout-of-model(type)\t-\t-"
    | some (.list [.atom "accept", ss, .list (.atom "arms" :: sps)]) =>
      -- acceptance alone: the real front end against the transcribed `get_match_call_t`
      match tyOfSexp ss, armsOfSexp sps with
      | some s, some farms =>
        let arms := farms.map (·.1)
        cid ++ "\t" ++ (if accepted T0 id s arms then "(accept)" else "(reject)") ++ "\t-\t-"
      | _, _ => cid ++ "\tout-of-model(type)\t-\t-"
    | some (.list [.atom "src", _]) =>
      -- a corpus program that must be rejected (design finding #24, fixed with C03's `(And, And)` arm: `C33_finding24_rejected`)
      cid ++ "\t(reject)\t" ++ (if impl = "(reject)" then "ok" else "viol:a program recorded as rejected is accepted again") ++ "\t-"
    | some (.list [.atom "contains", sp, sv]) =>
      match tyOfSexp sp, valOfSexp sv with
      | some p, some v =>
        let m := contains T0 p v
        let ir := match findTagged "r" xs with
          | some [.atom "true"] => some true
          | some [.atom "false"] => some false
          | _ => none
        let spec := match ir with
          | none => "viol:crash of contains_operator for " ++ showVal v
          | some b => if !(goodPat T0 p) || b == den T0 p v then "ok"
                      else "viol:contains_operator answers " ++ toString b ++ " for " ++ showVal v ++ " against the denotation"
        let mc := crashes T0 p v
        cid ++ "\t(r " ++ (if mc then (match findTagged "r" xs with | some [.atom a] => (if a.startsWith "crash" then a else "crash:TypeError") | _ => "crash:TypeError") else toString m) ++ ")\t" ++ spec ++ "\t" ++
          (if spec.startsWith "viol:crash" && mc then "C33-arm-test-type-error" else "-")
      | _, _ => cid ++ "\tout-of-model(type)\t-\t-"
    | _ => cid ++ "\tbad-input\t-\t-"
  | _ => "?\tbad-line\t-\t-"

def main : IO Unit := do
  let stdin ← IO.getStdin
  let stdout ← IO.getStdout
  lineLoop stdin stdout handle
