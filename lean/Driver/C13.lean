import ErgVerif.Util.Sexp
import ErgVerif.C13.Model
/-!
Driver for C13 (`ergmodel_c13`). stdin: the rows of the `c13` harness:
  id \t (ver m) (src "…") \t (ver m) (base b) (hir …) (code …)  |  rejected | out-of-model(…) | crash("…")
stdout: id \t <model output> \t <spec verdict> \t -
  model output = the impl column with `(code …)` replaced by the code the version-parameterised model generator emits for the
                 projected HIR at offset `base` (impl == model textually iff the real generator for that target emitted what the
                 transcription emits); `crash(fill_jump)` when the model reaches the u16 conversion;
  spec verdict = `ok (vm <outcome>) (src <outcome>)`: the model machine of that target, run on the REAL instruction list, ends with
                 the outcome of the version-independent source semantics `runW`; `viol:…` otherwise. The `(vm …)` outcome is compared
                 with the real interpreter of that version by checks/c13.py.
Parsers copied from Driver/C01.lean.
-/
open ErgVerif ErgVerif.C07.Stage1 ErgVerif.C13

def parseCls (s : String) : Option Cls := none

def parseConst : Sexp → Option Const
  | .list [.atom "int", .atom i] => i.toInt?.map .int
  | .list [.atom "str", .str s] => some (.str s)
  | .list [.atom "bool", .atom b] => if b = "true" then some (.bool true) else if b = "false" then some (.bool false) else none
  | .list [.atom "none"] => some .none
  | _ => none

def parseW : Sexp → Sexp → Option (Option Cls)
  | .list [.atom "sw", .atom sw], .list [.atom "ty", .str ty] => wrapOf (sw = "1") (String.ofList ty)
  | _, _ => none

def parseId : Sexp → Option String
  | .list [.atom "id", .str name, .atom priv, .atom line, .atom col, .str py, .atom param] =>
    match line.toNat?, col.toNat? with
    | some l, some c => escapeIdent (String.ofList name) (priv = "1") l c (String.ofList py) (param = "1")
    | _, _ => none
  | _ => none

def parseBinOp (s : String) : Option BinOp :=
  if s = "add" then some .add else if s = "sub" then some .sub else if s = "mul" then some .mul
  else if s = "floordiv" then some .floordiv else if s = "mod" then some .mod else none

def parseCmpOp (s : String) : Option CmpOp :=
  if s = "lt" then some .lt else if s = "le" then some .le else if s = "eq" then some .eq
  else if s = "ne" then some .ne else if s = "gt" then some .gt else if s = "ge" then some .ge else none

partial def parseExpr : Sexp → Option Expr
  | .list [.atom "lit", c, sw, ty] => do
    let c ← parseConst c; let w ← parseW sw ty; pure (.lit c w)
  | .list [.atom "var", id, sw, ty] => do
    let x ← parseId id; let w ← parseW sw ty; pure (.var x w)
  | .list [.atom "bin", .atom op, l, r, sw, ty] => do
    let op ← parseBinOp op; let l ← parseExpr l; let r ← parseExpr r; let w ← parseW sw ty; pure (.bin op l r w)
  | .list [.atom "cmp", .atom op, l, r, sw, ty] => do
    let op ← parseCmpOp op; let l ← parseExpr l; let r ← parseExpr r; let w ← parseW sw ty; pure (.cmp op l r w)
  | .list [.atom "and", l, r, sw, ty] => do
    let l ← parseExpr l; let r ← parseExpr r; let w ← parseW sw ty; pure (.and l r w)
  | .list [.atom "or", l, r, sw, ty] => do
    let l ← parseExpr l; let r ← parseExpr r; let w ← parseW sw ty; pure (.or l r w)
  | .list [.atom "neg", e, sw, ty] => do
    let e ← parseExpr e; let w ← parseW sw ty; pure (.neg e w)
  | .list [.atom "not", e, sw, ty] => do
    let e ← parseExpr e; let w ← parseW sw ty; pure (.not e w)
  | _ => none

def parseStmt : Sexp → Option Stmt
  | .list [.atom "defv", id, e] => do
    let x ← parseId id; let e ← parseExpr e; pure (.defv x e)
  | .list (.atom "print" :: id :: args) => do
    let f ← parseId id
    if f ≠ "print" then none
    let args ← args.mapM parseExpr
    pure (.print args)
  | .list [.atom "expr", e] => do
    let e ← parseExpr e; pure (.expr e)
  | _ => none

def parseInstr : Sexp → Option Instr
  | .list [.atom "pushNull"] => some .pushNull
  | .list [.atom "popTop"] => some .popTop
  | .list [.atom "returnValue"] => some .returnValue
  | .list [.atom "unaryNeg"] => some .unaryNeg
  | .list [.atom "unaryNot"] => some .unaryNot
  | .list [.atom "loadConst", c] => (parseConst c).map .loadConst
  | .list [.atom "loadName", .str x] => some (.loadName (String.ofList x))
  | .list [.atom "storeName", .str x] => some (.storeName (String.ofList x))
  | .list [.atom "extArg", .atom n] => n.toNat?.map .extArg
  | .list [.atom "jumpIfFalseOrPop", .atom n] => n.toNat?.map .jumpIfFalseOrPop
  | .list [.atom "jumpIfTrueOrPop", .atom n] => n.toNat?.map .jumpIfTrueOrPop
  | .list [.atom "binaryOp", .atom op] => (parseBinOp op).map .binaryOp
  | .list [.atom "compareOp", .atom op] => (parseCmpOp op).map .compareOp
  | .list [.atom "call", .atom n] => n.toNat?.map .call
  | _ => none

def constS : Const → String
  | .int i => "(int " ++ toString i ++ ")"
  | .str s => "(str " ++ Sexp.quote s ++ ")"
  | .bool b => "(bool " ++ toString b ++ ")"
  | .none => "(none)"

def binS : BinOp → String
  | .add => "add" | .sub => "sub" | .mul => "mul" | .floordiv => "floordiv" | .mod => "mod"

def cmpS : CmpOp → String
  | .lt => "lt" | .le => "le" | .eq => "eq" | .ne => "ne" | .gt => "gt" | .ge => "ge"

def instrS : Instr → String
  | .pushNull => "(pushNull)" | .popTop => "(popTop)" | .returnValue => "(returnValue)"
  | .unaryNeg => "(unaryNeg)" | .unaryNot => "(unaryNot)"
  | .loadConst c => "(loadConst " ++ constS c ++ ")"
  | .loadName x => "(loadName " ++ Sexp.quote x.toList ++ ")"
  | .storeName x => "(storeName " ++ Sexp.quote x.toList ++ ")"
  | .extArg n => "(extArg " ++ toString n ++ ")"
  | .jumpIfFalseOrPop n => "(jumpIfFalseOrPop " ++ toString n ++ ")"
  | .jumpIfTrueOrPop n => "(jumpIfTrueOrPop " ++ toString n ++ ")"
  | .binaryOp op => "(binaryOp " ++ binS op ++ ")"
  | .compareOp op => "(compareOp " ++ cmpS op ++ ")"
  | .call n => "(call " ++ toString n ++ ")"

def codeS (c : List Instr) : String := "(code" ++ String.join (c.map (fun i => " " ++ instrS i)) ++ ")"

def exitS : Exit → String
  | .ok => "ok" | .exc e => "exc:" ++ e.name | .stuck => "stuck" | .outOfFuel => "out-of-fuel"

def outcomeS (o : Outcome) : String :=
  "(" ++ exitS o.exit ++ String.join (o.out.map (fun l => " " ++ Sexp.quote l)) ++ ")"

def noShadowB : List Stmt → Bool
  | [] => true
  | .defv x _ :: ss => !(x = "Nat" || x = "Int" || x = "Str" || x = "Bool" || x = "print") && noShadowB ss
  | _ :: ss => noShadowB ss

def handle (line : String) : String :=
  match splitTabs line with
  | id :: _input :: impl :: _ =>
    if impl.startsWith "crash" then id ++ "\tcrash\tviol:panic-in-process\t-"
    else if impl.startsWith "out-of-model" || impl = "rejected" then id ++ "\t" ++ "out-of-model(" ++ impl ++ ")\t-\t-"
    else
      match Sexp.parseAll impl.toList with
      | some [.list [.atom "ver", .atom m], .list [.atom "base", .atom b], .list (.atom "hir" :: stmts), .list (.atom "code" :: instrs)] =>
        match m.toNat?.bind Ver.ofMinor, b.toNat?, stmts.mapM parseStmt, instrs.mapM parseInstr with
        | some v, some base, some p, some realCode =>
          if !noShadowB p then id ++ "\tout-of-model(shadow)\t-\t-"
          else if base % 2 ≠ 0 then id ++ "\tout-of-model(odd-base)\t-\t-"
          else
            let hirText := (Sexp.list (.atom "hir" :: stmts)).toString
            let modelCode := match compileV v base p with
              | some c => codeS c
              | none => "crash(fill_jump)"
            let ow := (runW p).1
            let vm := vmRunV v base realCode
            let verdict :=
              if vm.exit = .outOfFuel || vm.exit = .stuck then "viol:machine-" ++ exitS vm.exit
              else if vm ≠ ow then "viol:bytecode-differs-from-source-semantics"
              else "ok"
            id ++ "\t(ver " ++ m ++ ") (base " ++ b ++ ") " ++ hirText ++ " " ++ modelCode ++ "\t" ++ verdict ++ " (vm " ++ outcomeS vm ++ ") (src "
              ++ outcomeS ow ++ ")\t-"
        | _, _, _, _ => id ++ "\tout-of-model(unparsed-hir-or-code)\t-\t-"
      | _ => id ++ "\tbad-impl-output\t-\t-"
  | _ => "?\tbad-line\t-\t-"

def main : IO Unit := do
  lineLoop (← IO.getStdin) (← IO.getStdout) handle
