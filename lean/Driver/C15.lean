import ErgVerif.Util.Sexp
import ErgVerif.C15.Model
/-!
Driver for C15 (`ergmodel_c15`). stdin lines: `id \t input \t impl-output`, see harness/src/bin/c15.rs for the input forms.
stdout: `id \t model-output \t spec-verdict \t inK`.
  (w minor val)       model: (bytes x..) (read R) — `Val.write` and the model reader on the model's bytes
                      spec : on the implementation's bytes: `pyRead` yields `toPy val` with nothing left (py round trip),
                             the reader yields `norm val` (erg round trip)
  (p minor "src")     the value is the code object the implementation printed (`(obj …)`): same as `w` on it
  (r|rc minor x..)    model: (read R); spec: the reader must not crash
  (pyc x..)           model: (read R) (ver m); spec: the reader must not crash
  (pyread minor x..)  model: `pyRead` printed as the attribute view an interpreter shows (validated against marshal.loads)
-/
open ErgVerif ErgVerif.Marshal ErgVerif.C15

def hexD (n : Nat) : Char := Sexp.hexDigit n

def hexOf (bs : Bytes) : String :=
  String.ofList ('x' :: bs.foldr (fun b acc => hexD (b / 16 % 16) :: hexD (b % 16) :: acc) [])

partial def unhexGo : List Char → List Nat → Option Bytes
  | [], acc => some acc.reverse
  | a :: b :: rest, acc =>
    match Sexp.hexVal a, Sexp.hexVal b with
    | some x, some y => unhexGo rest ((x * 16 + y) :: acc)
    | _, _ => none
  | _, _ => none

def unhex (s : String) : Option Bytes :=
  match s.toList with
  | 'x' :: rest => unhexGo rest []
  | _ => none

def cps (cs : List Char) : List Nat := cs.map Char.toNat
def chars (s : List Nat) : List Char := s.map Char.ofNat

def strList : List Sexp → Option (List (List Nat))
  | [] => some []
  | .str s :: rest => (strList rest).map (cps s :: ·)
  | _ => none

mutual
partial def valOf : Sexp → Option Val
  | .atom "true" => some (.bool true)
  | .atom "false" => some (.bool false)
  | .atom "none" => some .none
  | .list [.atom "int", .atom i] => i.toInt?.map .int
  | .list [.atom "nat", .atom n] => n.toNat?.map .nat
  | .list [.atom "float", .atom h] => (unhexGo h.toList []).map fun bs => .float (bs.foldl (fun acc b => acc * 256 + b) 0)
  | .list [.atom "str", .str s] => some (.str (cps s))
  | .list [.atom "unsupported"] => some .unsupported
  | .list (.atom "list" :: xs) => (valsOf xs).map fun vs => .list (ValList.ofList vs)
  | .list (.atom "tuple" :: xs) => (valsOf xs).map fun vs => .tuple (ValList.ofList vs)
  | .list [.atom "code", .atom a, .atom p, .atom k, .atom n, .atom s, .atom f, .atom code, .list (.atom "consts" :: cs),
           .list (.atom "names" :: ns), .list (.atom "varnames" :: vn), .list (.atom "freevars" :: fv), .list (.atom "cellvars" :: cv),
           .str filename, .str name, .str qualname, .atom first, .atom lnotab, .atom exc] => do
    let consts ← valsOf cs
    some (.code (.mk { argcount := ← a.toNat?, posonly := ← p.toNat?, kwonly := ← k.toNat?, nlocals := ← n.toNat?, stacksize := ← s.toNat?,
                       flags := ← f.toNat?, code := ← unhex code, names := ← strList ns, varnames := ← strList vn,
                       freevars := ← strList fv, cellvars := ← strList cv, filename := cps filename, name := cps name,
                       qualname := cps qualname, firstlineno := ← first.toNat?, lnotab := ← unhex lnotab, exctable := ← unhex exc }
                     (ValList.ofList consts)))
  | _ => none
partial def valsOf : List Sexp → Option (List Val)
  | [] => some []
  | x :: xs => do
    let v ← valOf x
    let vs ← valsOf xs
    some (v :: vs)
end

def pad16 (n : Nat) : String :=
  String.ofList ((List.range 16).map fun i => hexD (n / 16 ^ (15 - i) % 16))

def strsShow (name : String) (ss : List (List Nat)) : String :=
  "(" ++ name ++ String.join (ss.map fun s => " " ++ Sexp.quote (chars s)) ++ ")"

mutual
partial def valShow : Val → String
  | .int i => "(int " ++ toString i ++ ")"
  | .nat n => "(nat " ++ toString n ++ ")"
  | .float b => "(float " ++ pad16 b ++ ")"
  | .str s => "(str " ++ Sexp.quote (chars s) ++ ")"
  | .bool true => "true"
  | .bool false => "false"
  | .none => "none"
  | .list vs => "(list" ++ String.join (vs.toList.map fun v => " " ++ valShow v) ++ ")"
  | .tuple vs => "(tuple" ++ String.join (vs.toList.map fun v => " " ++ valShow v) ++ ")"
  | .code c => codeShow c
  | .unsupported => "(unsupported)"
partial def codeShow : Code → String
  | .mk m consts =>
    "(code " ++ toString m.argcount ++ " " ++ toString m.posonly ++ " " ++ toString m.kwonly ++ " " ++ toString m.nlocals ++ " "
      ++ toString m.stacksize ++ " " ++ toString m.flags ++ " " ++ hexOf m.code ++ " (consts"
      ++ String.join (consts.toList.map fun v => " " ++ valShow v) ++ ") " ++ strsShow "names" m.names ++ " "
      ++ strsShow "varnames" m.varnames ++ " " ++ strsShow "freevars" m.freevars ++ " " ++ strsShow "cellvars" m.cellvars ++ " "
      ++ Sexp.quote (chars m.filename) ++ " " ++ Sexp.quote (chars m.name) ++ " " ++ Sexp.quote (chars m.qualname) ++ " "
      ++ toString m.firstlineno ++ " " ++ hexOf m.lnotab ++ " " ++ hexOf m.exctable ++ ")"
end

def rShow {α : Type} (show_ : α → String) : R α → String
  | .ok a rest => "(read (ok " ++ show_ a ++ " " ++ toString rest.length ++ "))"
  | .err e => "(read (err " ++ e ++ "))"
  | .crash s => "(read (crash " ++ s ++ "))"
  | .fuel => "(read (fuel))"

def readModel (isCode : Bool) (minor : Nat) (bs : Bytes) : R Val :=
  if isCode then (ergCode minor bs).bind fun c r => .ok (.code c) r
  else ergConst minor (2 * bs.length + 16) bs

/-- code points in hex: Python strings may hold lone surrogates, which no `Char` can -/
def cpShow (s : List Nat) : String := String.join (s.map fun c => " " ++ String.ofList (Nat.toDigits 16 c))

def kindNames (mask : Nat) : List PyVal → Bytes → List (List Nat)
  | .str s :: ns, k :: ks => if k / mask % 2 = 1 then s :: kindNames mask ns ks else kindNames mask ns ks
  | _, _ => []

mutual
/-- the attribute view of an unmarshalled object (what py/c15_marshal_oracle.py prints from the real object) -/
partial def pyShow (minor : Nat) : PyVal → String
  | .int i => "(int " ++ toString i ++ ")"
  | .float b => "(float " ++ pad16 b ++ ")"
  | .str s => "(str" ++ cpShow s ++ ")"
  | .bytes b => "(bytes " ++ hexOf b ++ ")"
  | .bool true => "true"
  | .bool false => "false"
  | .none => "none"
  | .tuple vs => "(tuple" ++ String.join (vs.toList.map fun v => " " ++ pyShow minor v) ++ ")"
  | .code ints objs =>
    let o := objs.toList
    let g (i : Nat) : String := match o[i]? with | some v => pyShow minor v | none => "?"
    let n (i : Nat) : String := match ints[i]? with | some v => toString v | none => "?"
    if minor ≥ 11 then
      let names : List PyVal := match o[3]? with | some (PyVal.tuple vs) => vs.toList | _ => []
      let kinds : Bytes := match o[4]? with | some (PyVal.bytes b) => b | _ => []
      let sel (mask : Nat) : String := "(tuple" ++ String.join ((kindNames mask names kinds).map fun s => " (str" ++ cpShow s ++ ")") ++ ")"
      "(code " ++ n 0 ++ " " ++ n 1 ++ " " ++ n 2 ++ " " ++ toString (kindNames 32 names kinds).length ++ " " ++ n 3 ++ " " ++ n 4 ++ " " ++ n 5
        ++ " " ++ g 0 ++ " " ++ g 1 ++ " " ++ g 2 ++ " " ++ sel 32 ++ " " ++ sel 128 ++ " " ++ sel 64 ++ " " ++ g 5 ++ " " ++ g 6 ++ " " ++ g 7
        ++ " " ++ g 8 ++ " " ++ g 9 ++ ")"
    else
      let off := if minor ≥ 8 then 1 else 0
      -- up to 3.10 the code constructor recomputes CO_NOFREE (0x40) from freevars/cellvars
      let isEmpty (i : Nat) : Bool := match o[i]? with | some (PyVal.tuple PyList.nil) => true | _ => false
      let flags : String := match ints[4 + off]? with
        | some v => toString (((v.toNat / 128) * 128 + v.toNat % 64) + (if isEmpty 4 && isEmpty 5 then 64 else 0))
        | none => "?"
      "(code " ++ n 0 ++ " " ++ (if minor ≥ 8 then n 1 else "0") ++ " " ++ n (1 + off) ++ " " ++ n (2 + off) ++ " " ++ n (3 + off) ++ " "
        ++ flags ++ " " ++ n (5 + off) ++ " " ++ g 0 ++ " " ++ g 1 ++ " " ++ g 2 ++ " " ++ g 3 ++ " " ++ g 4 ++ " " ++ g 5 ++ " " ++ g 6
        ++ " " ++ g 7 ++ " " ++ g 7 ++ " " ++ g 8 ++ " (bytes x))"
end

def findList (key : String) : List Sexp → Option (List Sexp)
  | [] => none
  | .list (.atom k :: rest) :: more => if k = key then some rest else findList key more
  | _ :: more => findList key more

def implBytes (impl : String) : Option Bytes :=
  match Sexp.parseAll impl.toList with
  | some xs =>
    match findList "bytes" xs with
    | some [.atom h] => unhex h
    | _ => none
  | none => none

def idClosure := "C15-reader-311-closure-kind"
def idMalformed := "C15-reader-crash-on-malformed"

/-- spec verdict for a value the writer was given, on the bytes the implementation produced -/
def writerVerdict (minor : Nat) (v : Val) (impl : String) : String × String :=
  match implBytes impl with
  | none => if v.panics then ("ok", "-") else ("viol:writer-crash", "-")
  | some b =>
    -- outside the marshal limits (a u32 field ≥ 2^31 is a negative r_long): not a value the format can represent
    if !v.wfb then ("-", "-") else
    if pyRead minor b ≠ some (v.toPy minor, []) then ("viol:py-roundtrip", "-")
    else
      let isCode := match v with | .code _ => true | _ => false
      -- the specification is evaluated on the implementation's own answer: its `(read …)` column must be the normal form of the value
      let expected := "(read (ok " ++ valShow (v.norm minor) ++ " 0))"
      let implReadOk := (impl.splitOn expected).length > 1
      match readModel isCode minor b with
      | .ok v' [] => if v' = v.norm minor then (if implReadOk then ("ok", "-") else ("viol:erg-roundtrip-impl", "-"))
                     else ("viol:erg-roundtrip-value", "-")
      | .ok _ _ => ("viol:erg-roundtrip-rest", "-")
      | .err e => ("viol:erg-read-err " ++ e, "-")
      | .crash s => ("viol:erg-read-crash " ++ s, if K_closure311 minor v && s == "kind" then idClosure else "-")
      | .fuel => ("viol:fuel", "-")

def readerVerdict {α : Type} (r : R α) (closure malformed : Bool) : String × String :=
  match r with
  | .crash s => ("viol:reader-crash " ++ s, if closure && s == "kind" then idClosure else if malformed then idMalformed else "-")
  | .fuel => ("viol:fuel", "-")
  | _ => ("ok", "-")

def handle0 (line : String) : String :=
  match splitTabs line with
  | id :: input :: rest =>
    let impl := rest.headD ""
    let out (m : String) (v : String × String) := id ++ "\t" ++ m ++ "\t" ++ v.1 ++ "\t" ++ v.2
    match Sexp.parse input with
    | some (.list [.atom "w", .atom minor, vx]) =>
      match minor.toNat?, valOf vx with
      | some minor, some v =>
        if v.panics then out "(crash unserializable)" (writerVerdict minor v impl)
        else
          let b := v.write minor
          let isCode := match v with | .code _ => true | _ => false
          out ("(bytes " ++ hexOf b ++ ") " ++ rShow valShow (readModel isCode minor b)) (writerVerdict minor v impl)
      | _, _ => id ++ "\tbad-input\t-\t-"
    | some (.list [.atom "p", .atom minor, .str _]) =>
      match minor.toNat?, Sexp.parseAll impl.toList with
      | some minor, some xs =>
        match findList "obj" xs with
        | some [ox] =>
          match valOf ox with
          | some v =>
            let b := v.write minor
            out ("(obj " ++ valShow v ++ ") (bytes " ++ hexOf b ++ ") " ++ rShow valShow (readModel true minor b)) (writerVerdict minor v impl)
          | none => id ++ "\tout-of-model(unparsable obj)\t-\t-"
        | _ => id ++ "\tout-of-model(compile-error)\t-\t-"
      | _, _ => id ++ "\tbad-input\t-\t-"
    | some (.list [.atom kind, .atom minor, .atom h]) =>
      match minor.toNat?, unhex h with
      | some minor, some b =>
        if kind = "pyread" then
          out (match pyRead minor b with
               | some (v, []) => pyShow minor v
               | some (_, _) => "(raise trailing)"
               | none => "(raise)") ("-", "-")
        else
          let r := readModel (kind = "r") minor b
          out (rShow valShow r) (readerVerdict r (K_closureBytes minor b) (K_malformed minor b))
      | _, _ => id ++ "\tbad-input\t-\t-"
    | some (.list [.atom "pyc", .atom h]) =>
      match unhex h with
      | some b =>
        let r := ergPyc b
        let m := match r with
          | .ok (c, minor) _ => "(read (ok " ++ codeShow c ++ " 0)) (ver " ++ toString minor ++ ")"
          | other => rShow (fun (_ : Code × Nat) => "") other
        let closure := match b with
          | m0 :: m1 :: _ => (match verOfMagic (m0 + 256 * m1) with | some minor => K_closureBytes minor (b.drop 16) | none => false)
          | _ => false
        out m (readerVerdict r closure (K_malformedPyc b))
      | none => id ++ "\tbad-input\t-\t-"
    | _ => id ++ "\tbad-input\t-\t-"
  | _ => "?\tbad-line\t-\t-"

/-- an allocation within 2 GiB of the workers' address-space limit: the outcome (abort or not) is not predicted -/
def handle (line : String) : String :=
  let r := handle0 line
  if (r.splitOn "abort-band").length > 1 then
    (splitTabs line).headD "?" ++ "\tout-of-model(allocation within 2 GiB of the worker's address-space limit)\t-\t-"
  else r

def main : IO Unit := do
  lineLoop (← IO.getStdin) (← IO.getStdout) handle
