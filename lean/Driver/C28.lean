import ErgVerif.Util.Sexp
import ErgVerif.C28.Model
/-!
Driver for C28 (`ergmodel_c28`). stdin lines:  id \t <case> \t <impl output>
  case   ::= [(e2e)] [(disk "<text already loaded from disk>")] (open V "<text>") (note V <change>…)… [(probes (L C)…)]
  change ::= (ch SL SC EL EC "<text>") | (full "<text>")
stdout lines: id \t <model output> \t <spec verdict on the impl output> \t <inK>
  model output ::= (docs "<after open>" "<after note 1>" …) (ver V | crash <kind>) (idx I…)

The model column is the transcription of `FileCache::update` / `incremental_update` / `pos_to_byte_index`.
The spec column maintains the *client's* copy with `Spec.apply` (LSP semantics) and demands, for every prefix of the
history that is LSP-conformant (versions strictly increase, no range has its start after its end), that the
implementation's copy after each notification equals the client's and that the server did not crash; probes demand
`byte index = UTF-8 length of the first Spec.offset characters`.
With `--legacy` the model column is the pinned-commit code instead; with `--legacy-open` only `update` is the pinned
version (both used once, before the respective `fix:` commits, to validate the legacy models against the old code).
-/
open ErgVerif ErgVerif.C28

structure Case where
  disk : Option Doc
  openVer : Int
  text : Doc
  notes : List Note
  probes : List Pos

def parseChange : Sexp → Option Change
  | .list [.atom "ch", a, b, c, d, .str t] => do
    let a ← Sexp.atomNat? a; let b ← Sexp.atomNat? b; let c ← Sexp.atomNat? c; let d ← Sexp.atomNat? d
    some ⟨some (⟨a, b⟩, ⟨c, d⟩), t⟩
  | .list [.atom "full", .str t] => some ⟨none, t⟩
  | _ => none

def parseProbe : Sexp → Option Pos
  | .list [a, b] => do
    let a ← Sexp.atomNat? a; let b ← Sexp.atomNat? b
    some ⟨a, b⟩
  | _ => none

def parseItems : List Sexp → Option Int → Option Doc → List Note → List Pos → Option Case
  | [], some v, some t, notes, probes => some ⟨none, v, t, notes.reverse, probes⟩
  | [], _, _, _, _ => none
  | .list [.atom "disk", .str d] :: rest, v, t, ns, ps =>
    (parseItems rest v t ns ps).map (fun c => { c with disk := some d })
  | .list [.atom "e2e"] :: rest, v, t, ns, ps => parseItems rest v t ns ps
  | .list [.atom "open", v, .str t] :: rest, _, _, ns, ps =>
    match Sexp.atomInt? v with
    | some v => parseItems rest (some v) (some t) ns ps
    | none => none
  | .list (.atom "note" :: v :: chs) :: rest, ov, t, ns, ps =>
    match Sexp.atomInt? v, chs.mapM parseChange with
    | some v, some chs => parseItems rest ov t (⟨v, chs⟩ :: ns) ps
    | _, _ => none
  | .list (.atom "probes" :: pr) :: rest, ov, t, ns, _ =>
    match pr.mapM parseProbe with
    | some ps => parseItems rest ov t ns ps
    | none => none
  | _ :: _, _, _, _, _ => none

def docsStr (ds : List Doc) : String :=
  "(docs" ++ String.join (ds.map (fun d => " " ++ Sexp.quote d)) ++ ")"

/-- run the model note by note, collecting the copy after each notification -/
def runModel (legacy : Bool) : Entry → List Note → List Doc → List Doc × Outcome Entry
  | e, [], acc => (acc.reverse, .ok e)
  | e, n :: rest, acc =>
    let r := if legacy then
        (if e.ver ≥ n.version then Outcome.ok e
         else match legacyApplyChanges e.code n.changes with
           | .ok code => .ok ⟨code, n.version⟩
           | .crash m => .crash m)
      else incrementalUpdate e n.version n.changes
    match r with
    | .ok e' => runModel legacy e' rest (e'.code :: acc)
    | .crash m => (acc.reverse, .crash m)

def idxStr (legacy : Bool) (c : Case) : String :=
  "(idx" ++ String.join (c.probes.map (fun p =>
    " " ++ toString (if legacy then legacyPosToByteIndex c.text p else posToByteIndex c.text p))) ++ ")"

def modelOut (legacy : Bool) (legacyOpen : Bool) (c : Case) : String :=
  let e0 := if legacy || legacyOpen then legacyOpenDoc c.disk c.text c.openVer else openDoc c.disk c.text c.openVer
  let (docs, r) := runModel legacy e0 c.notes [e0.code]
  let tail := match r with
    | .ok e => "(ver " ++ toString e.ver ++ ")"
    | .crash m => "(crash " ++ m ++ ")"
  docsStr docs ++ " " ++ tail ++ " " ++ idxStr legacy c

/-- the client's copies after each notification, as long as the history stays LSP-conformant -/
def clientDocs : Doc → Int → List Note → List Doc
  | _, _, [] => []
  | d, v, n :: rest =>
    if decide (v < n.version) && Spec.validRangesB d n.changes then
      let d' := Spec.apply d n.changes
      d' :: clientDocs d' n.version rest
    else []

def strItems : List Sexp → Option (List Doc)
  | [] => some []
  | .str s :: rest => (strItems rest).map (s :: ·)
  | _ => none

def findList (key : String) : List Sexp → Option (List Sexp)
  | [] => none
  | .list (.atom k :: xs) :: rest => if k = key then some xs else findList key rest
  | _ :: rest => findList key rest

def cmpDocs : List Doc → List Doc → Nat → Option String
  | [], _, _ => none
  | _ :: _, [], k => some ("viol:server-stopped-before-note-" ++ toString k)
  | c :: cs, s :: ss, k =>
    if c = s then cmpDocs cs ss (k + 1)
    else some ("viol:copy-differs-after-note-" ++ toString k ++ " (client " ++ Sexp.quote c ++ ") (server " ++ Sexp.quote s ++ ")")

def cmpIdx (c : Case) : List Pos → List Sexp → Option String
  | [], _ => none
  | _ :: _, [] => some "viol:index-missing"
  | p :: ps, x :: xs =>
    let want := byteLen (c.text.take (Spec.offset c.text p))
    if Sexp.atomNat? x = some want then cmpIdx c ps xs
    else some ("viol:index (pos " ++ toString p.line ++ " " ++ toString p.character ++ ") (want " ++ toString want ++ ") (got " ++ toString x ++ ")")

def specVerdict (c : Case) (impl : String) : String :=
  match Sexp.parseAll impl.toList with
  | none => "viol:impl-output-unparsable"
  | some xs =>
    match (findList "docs" xs).bind strItems with
    | none => "viol:impl-output-malformed"
    | some implDocs =>
      let want := c.text :: clientDocs c.text c.openVer c.notes
      match cmpDocs want implDocs 0 with
      | some v => v
      | none =>
        match cmpIdx c c.probes ((findList "idx" xs).getD []) with
        | some v => v
        | none => "ok"

def handle (legacy : Bool) (legacyOpen : Bool) (line : String) : String :=
  match splitTabs line with
  | id :: input :: rest =>
    match (Sexp.parseAll input.toList).bind (fun xs => parseItems xs none none [] []) with
    | some c =>
      id ++ "\t" ++ modelOut legacy legacyOpen c ++ "\t" ++ (if rest.isEmpty then "-" else specVerdict c (rest.headD "")) ++ "\t0"
    | none => id ++ "\tbad-input\t-\t-"
  | _ => "?\tbad-line\t-\t-"

def main (args : List String) : IO Unit := do
  lineLoop (← IO.getStdin) (← IO.getStdout) (handle (args.contains "--legacy") (args.contains "--legacy-open"))
