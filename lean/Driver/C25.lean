import ErgVerif.Util.Sexp
import ErgVerif.C25.Model
/-!
Driver for C25 (`ergmodel_c25`). stdin lines:  id \t <case> \t <impl output>;  stdout: id \t <model output> \t <spec verdict> \t <inK>

Cases (bytes ::= "hex" | (rep N B) | (cat bytes…)):
  (rtx (inst N) (data none|bytes) (wsched k…))            Rust `send_msg(Message::new(Inst::from(N), data))` on a stream whose writes are split
  (rrx (wire bytes) (rsched k…) (n K) [(sent (i bytes)…)]) Rust `recv_msg` × K on a stream whose reads are split
  (ptx (inst N) (text bytes) (wsched k…))                 Python `send_msg(N, text)`
  (prx (wire bytes) (rsched k…) (n K) [(sent (i bytes)…)]) Python `recv_msg` × K
  (ptx-legacy …) (prx-legacy …)                           the same against the pinned-commit functions
  (instfrom)                                              `Inst::from(v) as u8` for v = 0…255 and the seven enum codes
Outputs print byte strings up to 48 bytes in hex and longer ones as (big LEN FNV64 first8 last8).
Spec verdict: the frame on the wire is the one frame that carries the message (tx), the messages received are the
messages sent (rx with a `sent` annotation: the wire is what the *other* end really wrote for them), no crash otherwise.
inK: the id of the recorded finding when some payload of the case is longer than 65535 bytes.
-/
open ErgVerif ErgVerif.C25

def findingBig : String := "C25-payload-over-65535"

def hexPairs : List Char → Option Bytes
  | [] => some []
  | [_] => none
  | a :: b :: rest =>
    match Sexp.hexVal a, Sexp.hexVal b, hexPairs rest with
    | some x, some y, some r => some ((x * 16 + y) :: r)
    | _, _, _ => none

partial def evBytes : Sexp → Option Bytes
  | .str cs => hexPairs cs
  | .list [.atom "rep", n, b] =>
    match Sexp.atomNat? n, Sexp.atomNat? b with
    | some n, some b => some (List.replicate n b)
    | _, _ => none
  | .list (.atom "cat" :: xs) =>
    xs.foldl (fun acc x => match acc, evBytes x with
      | some a, some b => some (a ++ b)
      | _, _ => none) (some [])
  | _ => none

def hex2 (n : Nat) : List Char := [Sexp.hexDigit (n / 16 % 16), Sexp.hexDigit (n % 16)]

def hexOf (b : Bytes) : String := String.ofList (b.foldr (fun x acc => hex2 x ++ acc) [])

def fnv (b : Bytes) : UInt64 :=
  b.foldl (fun h x => (h ^^^ x.toUInt64) * 0x100000001b3) 0xcbf29ce484222325

def hex16 (h : UInt64) : String :=
  String.ofList ((List.range 16).map (fun i => Sexp.hexDigit ((h.toNat >>> (4 * (15 - i))) % 16)))

/-- canonical printing of a byte string -/
def pb (b : Bytes) : String :=
  if b.length ≤ 48 then "\"" ++ hexOf b ++ "\""
  else "(big " ++ toString b.length ++ " " ++ hex16 (fnv b) ++ " \"" ++ hexOf (b.take 8) ++ "\" \"" ++ hexOf (b.drop (b.length - 8)) ++ "\")"

def field (key : String) : List Sexp → Option (List Sexp)
  | [] => none
  | .list (.atom k :: args) :: rest => if k = key then some args else field key rest
  | _ :: rest => field key rest

def nats (xs : List Sexp) : Option (List Nat) := xs.mapM Sexp.atomNat?

def sentList (xs : List Sexp) : Option (List (Nat × Bytes)) :=
  xs.mapM (fun x => match x with
    | .list [i, b] => match Sexp.atomNat? i, evBytes b with
      | some i, some b => some (i, b)
      | _, _ => none
    | _ => none)

def kOf (payloads : List Bytes) : String := if bigPayload payloads then findingBig else "0"

/-- the one frame that carries `(inst, data)`, when the size field can carry it -/
def idealFrame (inst : Nat) (data : Bytes) : Option Bytes :=
  if inst > 255 ∨ data.length > 65535 then none else some (inst :: (data.length / 256) :: (data.length % 256) :: data)

def wireOf (xs : List (Nat × Bytes)) : Option Bytes :=
  xs.foldl (fun acc m => match acc, idealFrame m.1 m.2 with
    | some a, some f => some (a ++ f)
    | _, _ => none) (some [])

def showRMsg : Option RMsg → String
  | none => "(err \"failed to fill whole buffer\")"
  | some m => "(msg " ++ toString m.inst ++ " " ++ toString m.size ++ " " ++ (match m.data with | none => "none" | some d => pb d) ++ ")"

def showPyErr : PyErr → String
  | .connReset => "ConnectionResetError"
  | .decode => "UnicodeDecodeError"
  | .overflow => "OverflowError"

def showPyRx : PyRx → String
  | .ok i t => "(msg " ++ toString i ++ " " ++ pb t ++ ")"
  | .err e => "(err " ++ showPyErr e ++ ")"

def joinOr (xs : List String) : String := if xs.isEmpty then "()" else " ".intercalate xs

def doRtx (args : List Sexp) : Option (String × String × String) := do
  let inst ← (← field "inst" args).head? >>= Sexp.atomNat?
  let dx ← (← field "data" args).head?
  let data ← (match dx with | .atom "none" => some none | x => (evBytes x).map some)
  let ws ← nats (← field "wsched" args)
  let body := data.getD []
  let out := match rustSend ⟨[], ws⟩ inst data with
    | some w => "(wire " ++ pb w.written ++ ") ok"
    | none => "(wire \"\") (err \"failed to write whole buffer\")"
  let spec := match rustSend ⟨[], ws⟩ inst data, idealFrame (instFrom inst) body with
    | some w, some f => if w.written = f then "ok" else "viol:frame-differs-from-the-message"
    | some _, none => "viol:size-field-cannot-carry-the-payload (size " ++ toString (rustSize data) ++ " for " ++ toString body.length ++ " bytes)"
    | none, _ => "viol:send-failed"
  pure (out, spec, kOf [body])

def doPtx (legacy : Bool) (args : List Sexp) : Option (String × String × String) := do
  let inst ← (← field "inst" args).head? >>= Sexp.atomNat?
  let text ← (← field "text" args).head? >>= evBytes
  let ws ← nats (← field "wsched" args)
  let r := if legacy then legacyPySend ⟨[], ws⟩ inst text else pySend ⟨[], ws⟩ inst text
  let out := match r with
    | .ok w => "(wire " ++ pb w.written ++ ") ok"
    | .error e => "(wire \"\") (err " ++ showPyErr e ++ ")"
  let spec := if legacy ∨ inst > 255 then "-" else match r, idealFrame inst text with
    | .ok w, some f => if w.written = f then "ok" else "viol:frame-differs-from-the-message"
    | .ok _, none => "viol:sent-a-frame-for-a-payload-the-size-field-cannot-carry"
    | .error _, _ => "viol:cannot-send (" ++ toString text.length ++ " bytes)"
  pure (out, spec, kOf [text])

def isCrash (impl : String) : Bool := impl.startsWith "crash"

def doRrx (args : List Sexp) (impl : String) : Option (String × String × String) := do
  let wire ← (← field "wire" args).head? >>= evBytes
  let rs ← nats (← field "rsched" args)
  let n ← (← field "n" args).head? >>= Sexp.atomNat?
  let res := rustRecvAll n ⟨wire, rs⟩
  let out := joinOr (res.map showRMsg)
  match field "sent" args with
  | none => pure (out, if isCrash impl then "viol:crash" else "ok", "0")
  | some sx =>
    let sent ← sentList sx
    let expected : List (Option RMsg) := sent.map (fun m => some ⟨instFrom m.1, m.2.length, if m.2 = [] then none else some m.2⟩)
    let k := kOf (sent.map (·.2))
    if n < sent.length then pure (out, "-", k)
    else if res.take sent.length = expected then pure (out, "ok", k)
    else pure (out, "viol:received-differs-from-sent", k)

def doPrx (legacy : Bool) (args : List Sexp) (impl : String) : Option (String × String × String) := do
  let wire ← (← field "wire" args).head? >>= evBytes
  let rs ← nats (← field "rsched" args)
  let n ← (← field "n" args).head? >>= Sexp.atomNat?
  let res := pyRecvAll (if legacy then legacyPyRecvMsg else pyRecvMsg) n ⟨wire, rs⟩
  let out := joinOr (res.map showPyRx)
  match field "sent" args with
  | none => pure (out, if isCrash impl then "viol:crash" else if legacy then "-" else "ok", "0")
  | some sx =>
    let sent ← sentList sx
    let expected : List PyRx := sent.map (fun m => .ok m.1 m.2)
    let k := kOf (sent.map (·.2))
    if legacy ∨ n < sent.length then pure (out, "-", k)
    else if res.take sent.length = expected then pure (out, "ok", k)
    else pure (out, "viol:received-differs-from-sent", k)

def doInstFrom : String × String × String :=
  let vals := (List.range 256).map instFrom
  let cs := [codes.cUnknown, codes.cPrint, codes.cLoad, codes.cException, codes.cInitialize, codes.cExit, codes.cExecute]
  let out := "(from " ++ " ".intercalate (vals.map toString) ++ ") (codes " ++ " ".intercalate (cs.map toString) ++ ")"
  (out, if cs.all (fun c => instFrom c = c) then "ok" else "viol:from-does-not-invert-as-u8", "0")

def handle (line : String) : String :=
  match splitTabs line with
  | id :: input :: rest =>
    let impl := rest.headD ""
    match Sexp.parse input with
    | some (.list (.atom kind :: args)) =>
      let r : Option (String × String × String) :=
        if kind = "rtx" then doRtx args
        else if kind = "ptx" then doPtx false args
        else if kind = "ptx-legacy" then doPtx true args
        else if kind = "rrx" then doRrx args impl
        else if kind = "prx" then doPrx false args impl
        else if kind = "prx-legacy" then doPrx true args impl
        else if kind = "instfrom" then some doInstFrom
        else none
      match r with
      | some (out, spec, k) => id ++ "\t" ++ out ++ "\t" ++ spec ++ "\t" ++ k
      | none => id ++ "\tbad-input\t-\t-"
    | _ => id ++ "\tbad-input\t-\t-"
  | _ => "?\tbad-line\t-\t-"

def main : IO Unit := do
  lineLoop (← IO.getStdin) (← IO.getStdout) handle
