import ErgVerif.Util.Sexp
import ErgVerif.C25.Model
/-!
Driver for C25 (`ergmodel_c25`). stdin lines:  id \t <case> \t <impl output>;  stdout: id \t <model output> \t <spec verdict> \t <inK>

Cases (bytes ::= "hex" | (rep N B) | (cat bytes…)):
  (rtx (inst N) (data none|bytes) (wsched k…))            Rust `send_msg(Message::new(Inst::from(N), data))` on a stream whose writes are split
  (rrx (wire bytes) (rsched k…) (n K) [(sent (i bytes)…)]) Rust `recv_msg` × K on a stream whose reads are split
  (ptx (inst N) (text bytes) (wsched k…))                 Python `send_msg(N, text)`
  (prx (wire bytes) (rsched k…) (n K) [(sent (i bytes)…)]) Python `recv_msg` × K
  (ptx-legacy …) (prx-legacy …)                           the same against the pinned-commit functions
  (srv (wire bytes) (rsched k…) (wsched k…) (reqs (inst script [respInst respText])…))
                                                          the whole server script on one connection (fake `socket` module)
  (instfrom)                                              `Inst::from(v) as u8` for v = 0…255 and the seven enum codes
Outputs print byte strings up to 48 bytes in hex and longer ones as (big LEN FNV64 first8 last8).
Spec verdict, evaluated on the IMPLEMENTATION's answer (third column): the frame on the wire is the one frame that carries
the message (tx), the messages received are the messages sent (rx with a `sent` annotation: the wire is what the *other*
end really wrote for them), the server's answers are the evaluations of the requests in order (srv), no crash otherwise.
inK: the id of the recorded finding when some payload of the case is longer than 65535 bytes.
-/
open ErgVerif ErgVerif.C25

def findingBig : String := "C25-payload-over-65535"

def hexPairs : List Char → Option Bytes
  | [] => some []
  | [_] => none
  | a :: b :: rest =>
    match Sexp.hexVal a, Sexp.hexVal b, hexPairs rest with
    | some x, some y, some r => some ((x * 16 + y) :: r)
    | _, _, _ => none

partial def evBytes : Sexp → Option Bytes
  | .str cs => hexPairs cs
  | .list [.atom "rep", n, b] =>
    match Sexp.atomNat? n, Sexp.atomNat? b with
    | some n, some b => some (List.replicate n b)
    | _, _ => none
  | .list (.atom "cat" :: xs) =>
    xs.foldl (fun acc x => match acc, evBytes x with
      | some a, some b => some (a ++ b)
      | _, _ => none) (some [])
  | _ => none

def hex2 (n : Nat) : List Char := [Sexp.hexDigit (n / 16 % 16), Sexp.hexDigit (n % 16)]

def hexOf (b : Bytes) : String := String.ofList (b.foldr (fun x acc => hex2 x ++ acc) [])

def fnv (b : Bytes) : UInt64 :=
  b.foldl (fun h x => (h ^^^ x.toUInt64) * 0x100000001b3) 0xcbf29ce484222325

def hex16 (h : UInt64) : String :=
  String.ofList ((List.range 16).map (fun i => Sexp.hexDigit ((h.toNat >>> (4 * (15 - i))) % 16)))

/-- canonical printing of a byte string -/
def pb (b : Bytes) : String :=
  if b.length ≤ 48 then "\"" ++ hexOf b ++ "\""
  else "(big " ++ toString b.length ++ " " ++ hex16 (fnv b) ++ " \"" ++ hexOf (b.take 8) ++ "\" \"" ++ hexOf (b.drop (b.length - 8)) ++ "\")"

def field (key : String) : List Sexp → Option (List Sexp)
  | [] => none
  | .list (.atom k :: args) :: rest => if k = key then some args else field key rest
  | _ :: rest => field key rest

def nats (xs : List Sexp) : Option (List Nat) := xs.mapM Sexp.atomNat?

def sentList (xs : List Sexp) : Option (List (Nat × Bytes)) :=
  xs.mapM (fun x => match x with
    | .list [i, b] => match Sexp.atomNat? i, evBytes b with
      | some i, some b => some (i, b)
      | _, _ => none
    | _ => none)

def kOf (payloads : List Bytes) : String := if bigPayload payloads then findingBig else "0"

/-- the one frame that carries `(inst, data)`, when the size field can carry it -/
def idealFrame (inst : Nat) (data : Bytes) : Option Bytes :=
  if inst > 255 ∨ data.length > 65535 then none else some (inst :: (data.length / 256) :: (data.length % 256) :: data)

def wireOf (xs : List (Nat × Bytes)) : Option Bytes :=
  xs.foldl (fun acc m => match acc, idealFrame m.1 m.2 with
    | some a, some f => some (a ++ f)
    | _, _ => none) (some [])

def showRMsg : Option RMsg → String
  | none => "(err \"failed to fill whole buffer\")"
  | some m => "(msg " ++ toString m.inst ++ " " ++ toString m.size ++ " " ++ (match m.data with | none => "none" | some d => pb d) ++ ")"

def showPyErr : PyErr → String
  | .connReset => "ConnectionResetError"
  | .decode => "UnicodeDecodeError"
  | .overflow => "OverflowError"

def showPyRx : PyRx → String
  | .ok i t => "(msg " ++ toString i ++ " " ++ pb t ++ ")"
  | .err e => "(err " ++ showPyErr e ++ ")"

def joinOr (xs : List String) : String := if xs.isEmpty then "()" else " ".intercalate xs

def doRtx (args : List Sexp) (impl : String) : Option (String × String × String) := do
  let inst ← (← field "inst" args).head? >>= Sexp.atomNat?
  let dx ← (← field "data" args).head?
  let data ← (match dx with | .atom "none" => some none | x => (evBytes x).map some)
  let ws ← nats (← field "wsched" args)
  let body := data.getD []
  let out := match rustSend ⟨[], ws⟩ inst data with
    | some w => "(wire " ++ pb w.written ++ ") ok"
    | none => "(wire \"\") (err \"failed to write whole buffer\")"
  let spec := match idealFrame (instFrom inst) body with
    | some f => if impl = "(wire " ++ pb f ++ ") ok" then "ok" else "viol:frame-differs-from-the-message"
    | none => "viol:size-field-cannot-carry-the-payload (size " ++ toString (rustSize data) ++ " for " ++ toString body.length ++ " bytes)"
  pure (out, spec, kOf [body])

def doPtx (legacy : Bool) (args : List Sexp) (impl : String) : Option (String × String × String) := do
  let inst ← (← field "inst" args).head? >>= Sexp.atomNat?
  let text ← (← field "text" args).head? >>= evBytes
  let ws ← nats (← field "wsched" args)
  let r := if legacy then legacyPySend ⟨[], ws⟩ inst text else pySend ⟨[], ws⟩ inst text
  let out := match r with
    | .ok w => "(wire " ++ pb w.written ++ ") ok"
    | .error e => "(wire \"\") (err " ++ showPyErr e ++ ")"
  let spec := if legacy ∨ inst > 255 then "-" else match idealFrame inst text with
    | some f => if impl = "(wire " ++ pb f ++ ") ok" then "ok" else "viol:frame-differs-from-the-message"
    | none => "viol:cannot-send (" ++ toString text.length ++ " bytes; the size field carries at most 65535)"
  pure (out, spec, kOf [text])

def isCrash (impl : String) : Bool := impl.startsWith "crash"

/-- the implementation's answer begins with exactly these items (the specification is evaluated on the implementation's
    answer, in printed form: long byte strings are compared by length, FNV-64 and both ends) -/
def startsWithItems (impl : String) (items : List String) : Bool :=
  let e := joinOr items
  items.isEmpty || impl = e || impl.startsWith (e ++ " ")

def doRrx (args : List Sexp) (impl : String) : Option (String × String × String) := do
  let wire ← (← field "wire" args).head? >>= evBytes
  let rs ← nats (← field "rsched" args)
  let n ← (← field "n" args).head? >>= Sexp.atomNat?
  let res := rustRecvAll n ⟨wire, rs⟩
  let out := joinOr (res.map showRMsg)
  match field "sent" args with
  | none => pure (out, if isCrash impl then "viol:crash" else "ok", "0")
  | some sx =>
    let sent ← sentList sx
    let expected : List (Option RMsg) := sent.map (fun m => some ⟨instFrom m.1, m.2.length, if m.2 = [] then none else some m.2⟩)
    let k := kOf (sent.map (·.2))
    if n < sent.length then pure (out, "-", k)
    else if startsWithItems impl (expected.map showRMsg) then pure (out, "ok", k)
    else pure (out, "viol:received-differs-from-sent", k)

def doPrx (legacy : Bool) (args : List Sexp) (impl : String) : Option (String × String × String) := do
  let wire ← (← field "wire" args).head? >>= evBytes
  let rs ← nats (← field "rsched" args)
  let n ← (← field "n" args).head? >>= Sexp.atomNat?
  let res := pyRecvAll (if legacy then legacyPyRecvMsg else pyRecvMsg) n ⟨wire, rs⟩
  let out := joinOr (res.map showPyRx)
  match field "sent" args with
  | none => pure (out, if isCrash impl then "viol:crash" else if legacy then "-" else "ok", "0")
  | some sx =>
    let sent ← sentList sx
    let expected : List PyRx := sent.map (fun m => .ok m.1 m.2)
    let k := kOf (sent.map (·.2))
    if legacy ∨ n < sent.length then pure (out, "-", k)
    else if startsWithItems impl (expected.map showPyRx) then pure (out, "ok", k)
    else pure (out, "viol:received-differs-from-sent", k)

def showEnd : ServerEnd → String
  | .normal => "normal"
  | .died e => showPyErr e
  | .outOfFuel => "out-of-fuel"

/-- `(reqs (inst script [respInst respText])…)`: all requests on the wire in order; for the executed ones what evaluating
    them answers (the evaluator of the case) -/
def reqList (xs : List Sexp) : Option (List (Nat × Bytes × Option (Nat × Bytes))) :=
  xs.mapM (fun x => match x with
    | .list [i, b] => match Sexp.atomNat? i, evBytes b with
      | some i, some b => some (i, b, none)
      | _, _ => none
    | .list [i, b, ri, rb] => match Sexp.atomNat? i, evBytes b, Sexp.atomNat? ri, evBytes rb with
      | some i, some b, some ri, some rb => some (i, b, some (ri, rb))
      | _, _, _, _ => none
    | _ => none)

def doSrv (args : List Sexp) (impl : String) : Option (String × String × String) := do
  let wire ← (← field "wire" args).head? >>= evBytes
  let rs ← nats (← field "rsched" args)
  let ws ← nats (← field "wsched" args)
  let reqs ← reqList (← field "reqs" args)
  let execd := reqs.filter (fun r => r.1 = 6 ∨ r.1 = 2)
  -- the evaluator of this case: the k-th executed request answers as annotated, provided the server received that script
  let ev : Eval := fun hist _ text =>
    match execd[hist.length]? with
    | some (_, script, some resp) => if script = text then resp else (1, [63])
    | _ => (1, [63])
  let (w, e) := serverLoop ev (wire.length + 1) ⟨wire, rs⟩ ⟨[], ws⟩ []
  let out := "(written " ++ pb w.written ++ ") (end " ++ showEnd e ++ ")"
  -- specification: one answer per request, in order, up to and including the answer to Exit
  let rec expected : List (Nat × Bytes × Option (Nat × Bytes)) → List (Nat × Bytes)
    | [] => []
    | (i, _, r) :: rest =>
      if i = 5 then [(5, [])]
      else (match r with | some resp => resp | none => (0, [])) :: expected rest
  let k := kOf (reqs.map (fun r => r.2.1) ++ reqs.filterMap (fun r => r.2.2.map (·.2)))
  let spec := match wireOf (expected reqs) with
    | some f => if impl = "(written " ++ pb f ++ ") (end normal)" then "ok" else "viol:answers-differ-from-the-evaluations-of-the-requests"
    | none => "viol:an-answer-cannot-be-framed (longer than 65535 bytes)"
  pure (out, spec, k)

def doInstFrom : String × String × String :=
  let vals := (List.range 256).map instFrom
  let cs := [codes.cUnknown, codes.cPrint, codes.cLoad, codes.cException, codes.cInitialize, codes.cExit, codes.cExecute]
  let out := "(from " ++ " ".intercalate (vals.map toString) ++ ") (codes " ++ " ".intercalate (cs.map toString) ++ ")"
  (out, if cs.all (fun c => instFrom c = c) then "ok" else "viol:from-does-not-invert-as-u8", "0")

def handle (line : String) : String :=
  match splitTabs line with
  | id :: input :: rest =>
    let impl := rest.headD ""
    match Sexp.parse input with
    | some (.list (.atom kind :: args)) =>
      let r : Option (String × String × String) :=
        if kind = "rtx" then doRtx args impl
        else if kind = "ptx" then doPtx false args impl
        else if kind = "ptx-legacy" then doPtx true args impl
        else if kind = "rrx" then doRrx args impl
        else if kind = "prx" then doPrx false args impl
        else if kind = "prx-legacy" then doPrx true args impl
        else if kind = "srv" then doSrv args impl
        else if kind = "instfrom" then some doInstFrom
        else none
      match r with
      | some (out, spec, k) => id ++ "\t" ++ out ++ "\t" ++ spec ++ "\t" ++ k
      | none => id ++ "\tbad-input\t-\t-"
    | _ => id ++ "\tbad-input\t-\t-"
  | _ => "?\tbad-line\t-\t-"

def main : IO Unit := do
  lineLoop (← IO.getStdin) (← IO.getStdout) handle
