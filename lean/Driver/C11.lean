import ErgVerif.Util.Sexp
import ErgVerif.C11.Model
/-!
Driver for C11 (`ergmodel_c11`). stdin lines:  id \t (src "<text>") \t <impl output>
stdout lines: id \t <model output> \t <spec verdict> \t <inK>

model output = `(toks …) (ok <ast>)` / `(toks …) (err)` / `(lexerr)`, computed by the transcribed lexer + parser with the
GENERATED precedence table. Spec verdict: the same token list parsed with the DOCUMENTED table (`docTab`, ranks written
from the property statement) and the documented prefix rule; the implementation's answer must be that tree
(`viol:tree-differs-from-documented-precedence` otherwise). The theorems in `Props.lean` say why that parser is the
specification (every level is the precedence climb of its operands, well-shaped, with the input as yield).
-/
open ErgVerif ErgVerif.C11

mutual
def showT : T → String
  | .lit s => "(lit " ++ Sexp.quote s ++ ")"
  | .id s => "(id " ++ Sexp.quote s ++ ")"
  | .attr o n => "(attr " ++ showT o ++ " " ++ Sexp.quote n ++ ")"
  | .idx o i => "(idx " ++ showT o ++ " " ++ showT i ++ ")"
  | .bin k l r => "(bin " ++ k.name ++ " " ++ showT l ++ " " ++ showT r ++ ")"
  | .un k e => "(un " ++ k.name ++ " " ++ showT e ++ ")"
  | .call o m as => "(call " ++ showT o ++ " " ++ (match m with | some n => Sexp.quote n | none => "-") ++ showTL as ++ ")"
  | .paren e => showT e
  | .defn n e => "(def " ++ Sexp.quote n ++ " " ++ showT e ++ ")"
def showTL : TL → String
  | .nil => ""
  | .cons t ts => " " ++ showT t ++ showTL ts
end

def kindName : TK → String
  | .sym => "Symbol" | .nat => "NatLit" | .int => "IntLit" | .bin k => k.name | .pre k => k.name
  | .lparen => "LParen" | .rparen => "RParen" | .lsqbr => "LSqBr" | .rsqbr => "RSqBr" | .dot => "Dot"
  | .comma => "Comma" | .assign => "Assign"

def showToks (ts : List Tok) : String :=
  "(toks" ++ String.join (ts.map fun t => " (" ++ kindName t.kind ++ " " ++ Sexp.quote t.text ++ " " ++ (if t.sp then "1" else "0") ++ ")") ++ ")"

def showRes (toks : String) : Res T → String
  | .ok t => toks ++ " (ok " ++ showT t ++ ")"
  | .err => toks ++ " (err)"
  | .oom w => "out-of-model(" ++ w ++ ")"

def handle (line : String) : String :=
  match splitTabs line with
  | id :: input :: rest =>
    match Sexp.parse input with
    | some (.list [.atom "src", .str s]) =>
      match lex s with
      | .oom w => id ++ "\tout-of-model(lex:" ++ w ++ ")\t-\t-"
      | .err => id ++ "\t(lexerr)\t" ++ (if rest.headD "" = "(lexerr)" ∨ rest.isEmpty then "ok" else "-") ++ "\t0"
      | .ok toks =>
        let tk := showToks toks
        let model := showRes tk (parseToks cfgGen toks)
        let doc := showRes tk (parseToks cfgDoc toks)
        let verdict :=
          if rest.isEmpty then "-"
          else if doc.startsWith "out-of-model" then "-"
          else if rest.headD "" = doc then "ok"
          else "viol:tree-differs-from-documented-precedence expected=" ++ doc
        id ++ "\t" ++ model ++ "\t" ++ verdict ++ "\t0"
    | _ => id ++ "\tbad-input\t-\t-"
  | _ => "?\tbad-line\t-\t-"

def main : IO Unit := do
  lineLoop (← IO.getStdin) (← IO.getStdout) handle
