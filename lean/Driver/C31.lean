import ErgVerif.Util.Sexp
import ErgVerif.C31.Model
/-!
Driver for C31 (`ergmodel_c31`). stdin lines:  id \t (path "<s>") \t <impl output>
stdout lines: id \t <model output> \t <spec verdict on the impl output> \t <inK>
The spec verdict re-reads the implementation's normal form with `components` and compares denotations
(`ok` / `viol:<what>`), so an implementation-vs-spec failure is reported separately from a model disagreement.
-/
open ErgVerif ErgVerif.C31

def compSexp : Comp → String
  | .root => "root" | .cur => "cur" | .parent => "parent"
  | .normal n => Sexp.quote n

def modelOut (s : List Char) : String :=
  let cs := components s
  let n := normalize s
  let again := normalize n
  "(comps" ++ String.join (cs.map (fun c => " " ++ compSexp c)) ++ ") (norm " ++ Sexp.quote n ++ ") (again " ++ Sexp.quote again ++ ")"

def denStr (d : Den) : String :=
  "(den " ++ toString d.rooted ++ " " ++ toString d.ups ++ String.join (d.names.map (fun n => " " ++ Sexp.quote n)) ++ ")"

/-- find `(key "<string>")` among the top-level expressions of the impl output -/
def findStr (key : String) : List Sexp → Option (List Char)
  | [] => none
  | .list [.atom k, .str v] :: rest => if k = key then some v else findStr key rest
  | _ :: rest => findStr key rest

def specVerdict (s : List Char) (impl : String) : String :=
  match Sexp.parseAll impl.toList with
  | none => "viol:impl-output-unparsable"
  | some xs =>
    match findStr "norm" xs, findStr "again" xs with
    | some n, some a =>
      let d0 := denote (components s)
      let d1 := denote (components n)
      if d0 ≠ d1 then "viol:denotation-changed " ++ denStr d0 ++ " " ++ denStr d1
      else if a ≠ n then "viol:not-idempotent"
      else "ok"
    | _, _ => "viol:impl-crashed-or-malformed"

def handle (line : String) : String :=
  match splitTabs line with
  | id :: input :: rest =>
    match Sexp.parse input with
    | some (.list [.atom "path", .str s]) =>
      if s.contains '\\' then id ++ "\tout-of-model(backslash)\t-\t-"
      else
        let impl := rest.headD ""
        id ++ "\t" ++ modelOut s ++ "\t" ++ (if rest.isEmpty then "-" else specVerdict s impl) ++ "\t0"
    | _ => id ++ "\tbad-input\t-\t-"
  | _ => "?\tbad-line\t-\t-"

def main : IO Unit := do
  lineLoop (← IO.getStdin) (← IO.getStdout) handle
