import ErgVerif.Util.Sexp
import ErgVerif.C20.Model
/-!
Driver for C20 (`ergmodel_c20`). stdin lines:  id \t (proj (m <id> <ty> <pre> (imp …) (uv …) (uf …) (bad …))… [(delay …)]) \t (core …) (obs …)
stdout lines: id \t (core <model>) (obs <copied from the implementation>) \t <spec verdict on (obs …)> \t <inK>

* model column: `resolveRoot` + `execute` of `ErgVerif/C20/Model.lean` on the project's import lists, printed in the harness's
  format. The iteration orders of the `ancestors` hash sets are read from the implementation's `(enter …)` events and handed to
  the model as its oracle (an order that is not a permutation of the model's own ancestor set is ignored by the model, so a
  wrong set still shows up as a disagreement). The `(obs …)` part is copied: it is judged by the spec verdict, not predicted.
* spec verdict (what the property demands of the observation): the compilation terminates; without a mistyped use it succeeds
  without error diagnostics, the program exits 0 and prints exactly one marker `M:m<i>` per module reachable from the entry and
  the declared value for every use `V:`/`F:`; with a mistyped use `bad<j>` it is rejected with a TypeError at that definition
  (and nothing else). Failures explained by a recorded finding carry its id in the inK column:
    C20-cycle-variable          AttributeError in an inlined module reading a public variable of a module whose import was refused
    C20-inlined-import-race     AttributeError in a module other than the inliner that uses a module inlined elsewhere
    C20-cycle-function          `t.f()` over a refused import of t ≠ entry runs against the entry module (`__main__`): wrong value or
                                AttributeError at run time
    C20-entry-cycle-runs-twice  a module imports the entry module: every top level runs twice
-/
open ErgVerif ErgVerif.Graph ErgVerif.C20

structure PMod where
  id : Nat
  ty : String
  imp : List Nat
  uv : List Nat
  uf : List Nat
  bad : List Nat

def natsOf (xs : List Sexp) : List Nat := xs.filterMap Sexp.atomNat?

def field (key : String) : List Sexp → List Nat
  | [] => []
  | .list (.atom k :: rest) :: more => if k = key then natsOf rest else field key more
  | _ :: more => field key more

def parseMods : List Sexp → List PMod
  | [] => []
  | .list (.atom "m" :: .atom i :: .atom ty :: _pre :: fs) :: more =>
    { id := i.toNat!, ty := ty, imp := field "imp" fs, uv := field "uv" fs, uf := field "uf" fs, bad := field "bad" fs } :: parseMods more
  | _ :: more => parseMods more

def sp (xs : List String) : String := String.join (xs.map (fun x => " " ++ x))
def nats (xs : List Nat) : String := sp (xs.map toString)

def sortNat (l : List Nat) : List Nat := l.mergeSort (fun a b => decide (a ≤ b))

def evStr : Ev → String
  | .enter p anc => "(enter " ++ toString p ++ nats anc ++ ")"
  | .start p => "(start " ++ toString p ++ ")"
  | .inlined p => "(inlined " ++ toString p ++ ")"
  | .rotate p => "(rotate " ++ toString p ++ ")"
  | .exit p => "(exit " ++ toString p ++ ")"
  | .settled p => "(settled " ++ toString p ++ ")"
  | .recurse p i => "(recurse " ++ toString p ++ " " ++ toString i ++ ")"
  | .joined p => "(joined " ++ toString p ++ ")"

def errStr : Err → String
  | .cycle => "cycle" | .keyNotFound => "keyNotFound" | .fuel => "fuel" | .crash => "crash"

/-- the `(enter p a…)` orders in the implementation's bdm event list -/
def ordersOf : List Sexp → List (List Nat)
  | [] => []
  | .list (.atom "enter" :: _ :: anc) :: more => natsOf anc :: ordersOf more
  | _ :: more => ordersOf more

def findList (key : String) : List Sexp → Option (List Sexp)
  | [] => none
  | .list (.atom k :: rest) :: more => if k = key then some rest else findList key more
  | _ :: more => findList key more

def coreStr (rs : RState) (bdmPart : String) : String :=
  let g := String.join (rs.graph.graph.map (fun n => " (" ++ toString n.id ++ nats (sortNat n.deps) ++ ")"))
  let inl := (rs.inlines.mergeSort (fun a b => decide (a.1 ≤ b.1))).map (fun kv => "(" ++ toString kv.1 ++ " " ++ toString kv.2 ++ ")")
  "(graph" ++ g ++ ") (inl" ++ sp inl ++ ") (asts" ++ nats (sortNat rs.asts) ++ ") (cyclic" ++ nats rs.cyclic ++ ") " ++ bdmPart

def modelCore (pr : Proj) (root : Nat) (orders : List (List Nat)) : String :=
  match resolveRoot pr root with
  | .error e => "(resolve-error " ++ errStr e ++ ")"
  | .ok (rs, errs) =>
    let tail := if errs.isEmpty then "" else " (unfiltered-errors" ++ nats errs ++ ")"
    match execute rs root orders with
    | .error e => coreStr rs ("(bdm-error " ++ errStr e ++ ")") ++ tail
    | .ok bs => coreStr rs ("(bdm" ++ sp (bs.evs.map evStr) ++ ")") ++ tail

/-! ### the specification of the observation -/

def valueOf (m : PMod) : String :=
  if m.ty = "i" then "-" ++ toString (m.id + 1)
  else if m.ty = "n" then toString (m.id + 10)
  else if m.ty = "s" then "s" ++ toString m.id
  else "True"

def findMod (ms : List PMod) (i : Nat) : Option PMod := ms.find? (fun m => m.id == i)

/-- modules reachable from the entry through imports (any import, accepted or refused), by iteration to a fixpoint -/
def reachStep (ms : List PMod) (seen : List Nat) : List Nat :=
  seen.foldl (fun acc i => match findMod ms i with
    | some m => m.imp.foldl (fun a j => if a.contains j then a else a ++ [j]) acc
    | none => acc) seen

def reachable (ms : List PMod) (root : Nat) : List Nat :=
  (List.range (ms.length + 1)).foldl (fun seen _ => reachStep ms seen) [root]

/-- the lines the program must print, sorted. `fnRoot` lists the uses `(i, j)` of `m<j>.f()` that are printed with the ENTRY
    module's value instead (finding C20-cycle-function), `twice` doubles every line (finding C20-entry-cycle-runs-twice);
    the specification is `expectedLines ms root [] false`, the other variants only classify failures -/
def expectedLines (ms : List PMod) (root : Nat) (fnRoot : List (Nat × Nat)) (twice : Bool) : List String :=
  let rs := reachable ms root
  let lines := rs.flatMap (fun i => match findMod ms i with
    | none => []
    | some m =>
      ["M:m" ++ toString i] ++
      m.uv.map (fun j => "V:m" ++ toString i ++ ":m" ++ toString j ++ " " ++ ((findMod ms j).map valueOf).getD "?") ++
      m.uf.map (fun j => "F:m" ++ toString i ++ ":m" ++ toString j ++ " " ++
        toString (100 + (if fnRoot.contains (i, j) then root else j))))
  (if twice then lines ++ lines else lines).mergeSort (fun a b => decide (a ≤ b))

structure Diag where
  kind : String
  file : String
  line : Nat
  msg : String

def parseDiags : List Sexp → List Diag
  | [] => []
  | .list [.atom k, .atom f, .atom l, .str m] :: more => ⟨k, f, l.toNat!, String.ofList m⟩ :: parseDiags more
  | _ :: more => parseDiags more

def isSub (needle hay : String) : Bool := (hay.splitOn needle).length > 1

/-- refused imports (b, t): `inc_ref(b, t)` answered CycleDetected in the model's resolution — recomputed here from the final
    graph: an import b → t with t ≠ b that is not an edge of the graph -/
def refused (ms : List PMod) (rs : RState) : List (Nat × Nat) :=
  ms.flatMap (fun m => (m.imp.filter (fun t => t != m.id &&
    !((rs.graph.graph.find? (fun n => n.id == m.id)).map (fun n => n.deps.contains t)).getD false)).map (fun t => (m.id, t)))

def verdict (ms : List PMod) (root : Nat) (rs? : Option RState) (obs : List Sexp) : String × String :=
  let status := match findList "compile" obs with
    | some (.atom s :: _) => s
    | _ => "?"
  let diags := parseDiags ((findList "diag" obs).getD [])
  let errs := diags.filter (fun d => d.kind.startsWith "e:")
  let bads := ms.flatMap (fun m => m.bad.map (fun j => (m.id, j)))
  if status = "timeout" then ("viol:compilation-did-not-terminate", "-")
  else if status = "crash" then ("viol:compiler-crashed", "-")
  else
    -- error diagnostics that the mistyped uses demand
    let isBadDiag (d : Diag) : Bool := bads.any (fun (i, j) => d.kind = "e:TypeError" && d.file = "m" ++ toString i ++ ".er" &&
      isSub ("bad" ++ toString j) d.msg)
    let missingBad := bads.filter (fun (i, j) => !errs.any (fun d => d.kind = "e:TypeError" && d.file = "m" ++ toString i ++ ".er" &&
      isSub ("bad" ++ toString j) d.msg))
    let unexpected := errs.filter (fun d => !isBadDiag d)
    if unexpected.isEmpty then
      if !missingBad.isEmpty then ("viol:mistyped-use-accepted", "-")
      else if !bads.isEmpty then (if status = "err" then ("ok", "0") else ("viol:mistyped-use-accepted", "-"))
      else if status != "ok" then ("viol:rejected-without-error-diagnostic", "-")
      else
        match findList "run" obs with
        | some (.atom rc :: lines) =>
          let got := lines.filterMap (fun x => match x with | .str s => some (String.ofList s) | _ => none)
          let stderr := ((lines.filterMap (fun x => match x with | .list [.atom "stderr", .str s] => some (String.ofList s) | _ => none)).headD "")
          -- recorded classes: uses of `t.f()` over a refused import b → t with t ≠ entry; some module imports the entry
          let ref := match rs? with | some rs => refused ms rs | none => []
          let fnRoot := ms.flatMap (fun b => (b.uf.filter (fun t => t != root && ref.contains (b.id, t))).map (fun t => (b.id, t)))
          let entryCycle := ms.any (fun m => m.id != root && (reachable ms root).contains m.id && m.imp.contains root)
          if rc != "0" then
            if !fnRoot.isEmpty && stderr = "AttributeError: module '__main__' has no attribute 'f'" then
              ("viol:program-exit-" ++ rc ++ " function of a module under analysis looked up in the entry module", "C20-cycle-function")
            else if entryCycle && isSub ("partially initialized module 'm" ++ toString root ++ "'") stderr then
              ("viol:program-exit-" ++ rc ++ " entry module imported again at run time (circular import)", "C20-entry-cycle-runs-twice")
            else ("viol:program-exit-" ++ rc ++ " " ++ Sexp.quote stderr.toList, "-")
          else if got == expectedLines ms root [] false then ("ok", "0")
          else
            -- class shapes. A use `F:m<b>:m<t> v` of fnRoot may show the `f` of ANOTHER module (100 + k, k ≠ t: the entry's, or that
            -- of an enclosing module that already defined `f`): compare those lines by their prefix only. In an entry cycle the
            -- entry's top level (with `erg compile` + python: every top level) runs twice: same set of lines, each at most twice.
            let norm (l : String) : String :=
              match fnRoot.find? (fun (b, t) => l.startsWith ("F:m" ++ toString b ++ ":m" ++ toString t ++ " 1")) with
              | some (b, t) => "F:m" ++ toString b ++ ":m" ++ toString t
              | none => l
            let srt (xs : List String) : List String := xs.mergeSort (fun a b => decide (a ≤ b))
            let expN := srt ((expectedLines ms root [] false).map norm)
            let gotN := srt (got.map norm)
            let gotSet := gotN.eraseDups
            let atMostTwice := gotN.all (fun l => gotN.count l ≤ 2)
            if entryCycle && srt gotSet == expN && gotN.length > expN.length && atMostTwice then
              ("viol:top-level-executed-twice", "C20-entry-cycle-runs-twice")
            else if !fnRoot.isEmpty && gotN == expN then
              ("viol:function-of-module-under-analysis-resolved-to-another-module", "C20-cycle-function")
          else ("viol:output-differs expected" ++ sp ((expectedLines ms root [] false).map (fun l => Sexp.quote l.toList)), "-")
        | _ => ("viol:no-run-observation", "-")
    else
      match rs? with
      | none => ("viol:unexpected-errors", "-")
      | some rs =>
        let ref := refused ms rs
        let attrMsg (t : Nat) (a : String) : String := "Module(\"m" ++ toString t ++ ".er\") object has no attribute " ++ a
        -- finding #23: an inlined module b reads `.x` of t where the import b → t was refused (t is being analysed)
        let k23 (d : Diag) : Bool := d.kind = "e:AttributeError" && ms.any (fun b => d.file = "m" ++ toString b.id ++ ".er" &&
          (lookup rs.inlines b.id).isSome && b.uv.any (fun t => ref.contains (b.id, t) && d.msg = attrMsg t "x"))
        -- race: k uses a module i that is inlined into another module
        let krace (d : Diag) : Bool := d.kind = "e:AttributeError" && ms.any (fun k => d.file = "m" ++ toString k.id ++ ".er" &&
          ((k.uv.any (fun i => (match lookup rs.inlines i with | some a => a != k.id | none => false) && d.msg = attrMsg i "x")) ||
           (k.uf.any (fun i => (match lookup rs.inlines i with | some a => a != k.id | none => false) && d.msg = attrMsg i "f"))))
        if unexpected.all (fun d => k23 d || krace d) then
          if unexpected.any k23 then ("viol:attribute-of-module-under-analysis-not-visible", "C20-cycle-variable")
          else ("viol:attribute-of-inlined-module-not-visible", "C20-inlined-import-race")
        else
          let d := (unexpected.filter (fun d => !(k23 d || krace d))).headD ⟨"", "", 0, ""⟩
          ("viol:unexpected-error " ++ d.kind ++ " " ++ d.file ++ ":" ++ toString d.line ++ " " ++ Sexp.quote d.msg.toList, "-")

def obsRaw (impl : String) : String :=
  match impl.splitOn " (obs " with
  | _ :: rest@(_ :: _) => "(obs " ++ " (obs ".intercalate rest
  | _ => "(obs)"

def handle (line : String) : String :=
  match splitTabs line with
  | id :: input :: rest =>
    match Sexp.parse input with
    | some (.list (.atom "proj" :: items)) =>
      let ms := parseMods items
      match ms with
      | [] => id ++ "\tbad-input\t-\t-"
      | m0 :: _ =>
        let pr : Proj := ms.map (fun m => (m.id, m.imp))
        let impl := rest.headD ""
        let parts := (Sexp.parseAll impl.toList).getD []
        let core := (findList "core" parts).getD []
        let obs := (findList "obs" parts).getD []
        let orders := ordersOf ((findList "bdm" core).getD [])
        let rs? := match resolveRoot pr m0.id with | .ok (rs, _) => some rs | .error _ => none
        let (v, k) := verdict ms m0.id rs? obs
        id ++ "\t(core " ++ modelCore pr m0.id orders ++ ") " ++ obsRaw impl ++ "\t" ++ v ++ "\t" ++ k
    | _ => id ++ "\tbad-input\t-\t-"
  | _ => "?\tbad-line\t-\t-"

def main : IO Unit := do
  lineLoop (← IO.getStdin) (← IO.getStdout) handle
