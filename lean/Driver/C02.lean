import ErgVerif.Util.Sexp
import ErgVerif.C02.Model
import ErgVerif.Gen.C02Sig
/-!
Driver for C02 (`ergmodel_c02`). stdin lines:  id \t input \t <impl: what the real checker + `python m.pyc` did>
  input ::= (prog (env (<Ty> <int>)…) <expr>)      expr ::= (var i) | (lit <Ty> <int>) | (bin <op> expr expr)
            | anything else (row-stream / generator programs: executed only)
  impl  ::= rejected | ok <stdout> | exc:<Class> | crash…
stdout lines: id \t <model> \t <spec verdict on the impl's answer> \t <inK>
The model types and evaluates the expression with the operator signatures REGENERATED from the real checker
(`Gen.C02.binopSig`, so a row the checker declares is evaluated as the compiled program would, defect included) over the
runtime-class model of C26; the theorem `C02_sound` is about `Spec.sig`, tied by `gen_sig_subset`.
-/
open ErgVerif ErgVerif.C26 ErgVerif.C02

def tyOfName : String → Option Ty
  | "Nat" => some .Nat | "Int" => some .Int | "Bool" => some .Bool | _ => none

def opOfName (s : String) : Option Op := Op.all.find? (fun o => o.name = s)

partial def exprOf : Sexp → Option Expr
  | .list [.atom "var", i] => (Sexp.atomNat? i).map Expr.var
  | .list [.atom "lit", .atom t, v] =>
    match tyOfName t, Sexp.atomInt? v with
    | some t, some v => some (.lit t v)
    | _, _ => none
  | .list [.atom "bin", .atom o, l, r] =>
    match opOfName o, exprOf l, exprOf r with
    | some o, some l, some r => some (.bin o l r)
    | _, _, _ => none
  | _ => none

def envOf : List Sexp → Option (List (Ty × Int))
  | [] => some []
  | .list [.atom t, v] :: rest =>
    match tyOfName t, Sexp.atomInt? v, envOf rest with
    | some t, some v, some r => some ((t, v) :: r)
    | _, _, _ => none
  | _ => none

def showVal (t : Ty) (v : Int) : String :=
  match t with
  | .Bool => if v = 0 then "False" else if v = 1 then "True" else toString v
  | _ => toString v

def genSig : Sig := sigOfRows Gen.C02.binopSig

def modelOut (ρ : List (Ty × Int)) (e : Expr) : String :=
  let Γ := ρ.map Prod.fst
  if ¬ (ρ.all fun p => p.1.dom p.2) then "out-of-model(inadmissible environment)"
  else match typeOf genSig Γ e with
    | none => "rejected"
    | some _ =>
      match eval genSig ρ e with
      | .ok t v => "ok " ++ showVal t v
      | .legit w => "exc:" ++ w
      | .typeErr w => "exc:" ++ w
      | .stuck why => "out-of-model(" ++ why ++ ")"

def typeErrClasses : List String := ["exc:TypeError", "exc:AttributeError", "exc:NameError", "exc:ValueError", "exc:UnboundLocalError"]

def specVerdict (impl : String) : String :=
  if typeErrClasses.any (fun c => impl.startsWith c) then "viol:type-related-run-time-error " ++ impl
  else if impl.startsWith "crash" then "viol:crash"
  else "ok"

def handle (line : String) : String :=
  match splitTabs line with
  | id :: input :: rest =>
    let impl := rest.headD ""
    match Sexp.parse input with
    | some (.list [.atom "prog", .list (.atom "env" :: envs), ex]) =>
      match envOf envs, exprOf ex with
      | some ρ, some e =>
        let k := if usesBadRow genSig (ρ.map Prod.fst) e then "C02-int-pow-declared-nat" else "-"
        id ++ "\t" ++ modelOut ρ e ++ "\t" ++ (if rest.isEmpty then "-" else specVerdict impl) ++ "\t" ++ k
      | _, _ => id ++ "\tbad-input\t-\t-"
    | some _ => id ++ "\tout-of-model(executed only)\t-\t-"
    | none => id ++ "\tbad-input\t-\t-"
  | _ => "?\tbad-line\t-\t-"

def main : IO Unit := do
  lineLoop (← IO.getStdin) (← IO.getStdout) handle
