import ErgVerif.Util.Sexp
import ErgVerif.C30.Model
/-!
Driver for C30 (`ergmodel_c30`). stdin: id \t input \t impl; stdout: id \t model \t spec \t inK.
input `(prog (src "<text>") (new "<name>") (toks (t "<name>" line col rcol)…) (tm <Tm>) (tp (i (l c0 c1)…)…))`
  Tm: `(var i)` | `lit` | `(app a b)` | `(lam (ps (p id i dflt)…) body)` | `(letv id i rhs rest)` | `(letf id i (ps …) body rest)`.
  `col` = true column of the token, `rcol` = the column the real lexer reports (fact), `tp` = answers to rename requests sent at the TRUE
  position of tokens whose reported position differs (facts, judged by the spec only).
model `(r i (l c0 c1)…)` per token: the ranges `Server::rename` returns for a request at token i (reported columns), sorted; then
  `(edited id "<text>")` per binder: the source after applying that edit set.
spec  on the implementation's answer: every request must return exactly the TRUE ranges of the binder's sites.
-/
open ErgVerif ErgVerif.C30

structure TokInfo where
  name : String
  pos : TokPos

def tokOf : Sexp → Option TokInfo
  | .list [.atom "t", .str n, .atom l, .atom c, .atom rc] =>
    match l.toNat?, c.toNat?, rc.toNat? with
    | some l, some c, some rc => some ⟨String.ofList n, ⟨l, c, rc, n.length⟩⟩
    | _, _, _ => none
  | _ => none

partial def tmOf (toks : Array TokInfo) : Sexp → Option Tm
  | .atom "lit" => some .lit
  | .list [.atom "var", .atom i] => i.toNat?.bind (fun i => toks[i]?.map (fun t => .var ⟨i, t.name⟩))
  | .list [.atom "app", a, b] => do let a ← tmOf toks a; let b ← tmOf toks b; pure (.app a b)
  | .list [.atom "lam", .list (.atom "ps" :: ps), body] => do
    let ps ← psOf toks ps; let body ← tmOf toks body; pure (.lam ps body)
  | .list [.atom "letv", .atom id, .atom i, rhs, rest] => do
    let id ← id.toNat?; let i ← i.toNat?; let t ← toks[i]?
    let rhs ← tmOf toks rhs; let rest ← tmOf toks rest; pure (.letv id ⟨i, t.name⟩ rhs rest)
  | .list [.atom "letf", .atom id, .atom i, .list (.atom "ps" :: ps), body, rest] => do
    let id ← id.toNat?; let i ← i.toNat?; let t ← toks[i]?
    let ps ← psOf toks ps; let body ← tmOf toks body; let rest ← tmOf toks rest; pure (.letf id ⟨i, t.name⟩ ps body rest)
  | _ => none
where
  psOf (toks : Array TokInfo) : List Sexp → Option Ps
    | [] => some .nil
    | .list [.atom "p", .atom id, .atom i, d] :: rest => do
      let id ← id.toNat?; let i ← i.toNat?; let t ← toks[i]?
      let d ← tmOf toks d; let rest ← psOf toks rest; pure (.cons id ⟨i, t.name⟩ d rest)
    | _ => none

/-- names of the functions defined along a block (Erg makes them visible in the whole block) -/
def funNames : Tm → List String
  | .letv _ _ _ rest => funNames rest
  | .letf _ t _ _ rest => t.name :: funNames rest
  | .app _ b => funNames b
  | _ => []

mutual
  /-- a name is referenced in a block BEFORE a function of that name is defined later in the same block: Erg resolves such a reference to
      the later function (forward reference), which the model's sequential scoping does not describe — such programs are out of model -/
  def fwdT : Tm → Bool
    | .var _ => false
    | .lit => false
    | .app a b => fwdT a || fwdT b || (namesT a).any (fun n => (funNames b).contains n)
    | .lam ps body => fwdPs ps || fwdT body
    | .letv _ _ rhs rest => fwdT rhs || fwdT rest || (namesT rhs).any (fun n => (funNames rest).contains n)
    | .letf _ _ ps body rest =>
      fwdPs ps || fwdT body || fwdT rest || (namesPs ps ++ namesT body).any (fun n => (funNames rest).contains n)
  def fwdPs : Ps → Bool
    | .nil => false
    | .cons _ _ d rest => fwdT d || fwdPs rest
end

/-- binders of the module level: the chain of definitions along the top-level block -/
def topBinders : Tm → List Nat
  | .letv id _ _ rest => id :: topBinders rest
  | .letf id _ _ _ rest => id :: topBinders rest
  | .app _ b => topBinders b
  | _ => []

def tagged (key : String) : List Sexp → Option (List Sexp)
  | [] => none
  | .list (.atom k :: rest) :: more => if k = key then some rest else tagged key more
  | _ :: more => tagged key more

def sortTriples (l : List (Nat × Nat × Nat)) : List (Nat × Nat × Nat) :=
  (l.toArray.qsort (fun a b => a.1 < b.1 || (a.1 == b.1 && (a.2.1 < b.2.1 || (a.2.1 == b.2.1 && a.2.2 < b.2.2))))).toList

def showEdits (l : List (Nat × Nat × Nat)) : String :=
  String.join (l.map (fun e => " (" ++ toString e.1 ++ " " ++ toString e.2.1 ++ " " ++ toString e.2.2 ++ ")"))

/-- index of the character at UTF-16 column `col` (clamped; a column inside a surrogate pair counts as after the character) -/
def u16idx : List Char → Nat → Nat
  | [], _ => 0
  | c :: cs, k => if k = 0 then 0 else 1 + u16idx cs (k - (if c.toNat ≥ 65536 then 2 else 1))

/-- apply one-line edits to the text, from the last to the first (columns clamped to the line) -/
def applyEdits (src : List Char) (new : List Char) (edits : List (Nat × Nat × Nat)) : List Char :=
  let lines := (String.ofList src).splitOn "\n" |>.map String.toList
  let desc := (sortTriples edits).reverse
  let lines := desc.foldl (fun (ls : List (List Char)) e =>
      ls.zipIdx.map (fun (ln, k) =>
        if k = e.1 then
          let c0 := u16idx ln e.2.1
          let c1 := u16idx ln (max e.2.2 e.2.1)
          ln.take c0 ++ new ++ ln.drop c1
        else ln)) lines
  "\n".toList.intercalate lines

def editsOf : List Sexp → Option (List (Nat × Nat × Nat))
  | [] => some []
  | .list [.atom l, .atom a, .atom b] :: rest =>
    match l.toNat?, a.toNat?, b.toNat?, editsOf rest with
    | some l, some a, some b, some r => some ((l, a, b) :: r)
    | _, _, _, _ => none
  | _ => none

/-- Column ranges `[c0, e)` that the server's token lookup attributes to the string literals of a line:
`<Token as Locational>::col_end` (crates/erg_parser/token.rs) is `col_begin + content.len()`, the BYTE length of the
escape-processed content (`\t` becomes four blanks), not the number of source columns the literal occupies. -/
def strExtentsGo : List Char → Nat → Option (Nat × Nat) → List (Nat × Nat)
  | [], _, _ => []
  | c :: cs, col, none => if c == '"' then strExtentsGo cs (col + 1) (some (col, 1)) else strExtentsGo cs (col + 1) none
  | c :: cs, col, some (c0, b) =>
    if c == '"' then (c0, c0 + b + 1) :: strExtentsGo cs (col + 1) none
    else if c == '\\' then
      match cs with
      | x :: cs' => strExtentsGo cs' (col + 2) (some (c0, b + (if x == 't' then 4 else x.utf8Size)))
      | [] => []
    else strExtentsGo cs (col + 1) (some (c0, b + c.utf8Size))
termination_by cs => cs.length

def progCase (id : String) (items : List Sexp) (impl : String) (haveImpl : Bool) : String :=
  match tagged "src" items, tagged "new" items, tagged "toks" items, tagged "tm" items with
  | some [.str src], some [.str new], some ts, some [tmx] =>
    match ts.mapM tokOf with
    | none => id ++ "\tbad-input(toks)\t-\t-"
    | some tl =>
      let toks := tl.toArray
      match tmOf toks tmx with
      | none => id ++ "\tbad-input(tm)\t-\t-"
      | some tm =>
        if fwdT tm then id ++ "\tout-of-model(forward-reference-to-a-later-local-function)\t-\t-" else
        let res := resT [] tm
        let binderOf := fun (i : Nat) => (res.find? (fun x => x.1.idx = i)).bind (·.2)
        let tab := fun (i : Nat) => toks[i]?.map (·.pos)
        let sitesOf := fun (b : Option Nat) => match b with
          | some b => renameSites b [] tm
          | none => []
        let numsOf := fun (xs : Option (List Sexp)) => match xs with
          | some l => l.filterMap Sexp.atomNat?
          | none => []
        let anom := (tagged "anom" items).getD []
        -- observed anomalies the model makes no claim about (judged by the spec only): empty answers, duplicated edits
        let empties := numsOf (tagged "empty" anom)
        let dups := numsOf (tagged "dup" anom)
        let serverOf := fun (i : Nat) => if empties.contains i then [] else sitesOf (binderOf i)
        let binderTok := fun (b : Nat) => match tagged "binders" items with
          | some l => l.findSome? (fun x => match x with
              | .list [.atom bb, .atom t] => if bb.toNat? == some b then t.toNat? else none
              | _ => none)
          | none => none
        let topIds := topBinders tm
        let nameOf := fun (i : Nat) => (toks[i]?.map (·.name)).getD ""
        -- class of `C30-nested-def-site-empty`: the token is the definition site of a binder that is not at module level while ANOTHER
        -- binder of the program (module level, another function's parameter or local) has the same name
        let allBinders := (res.filterMap (·.2)).eraseDups
        let shadowDef := fun (i : Nat) => match binderOf i with
          | some b => binderTok b == some i && !topIds.contains b &&
              allBinders.any (fun b' => b' != b && (match binderTok b' with | some t => nameOf t == nameOf i | none => false))
          | none => false
        let lamIds := (lamParamsT tm).map (·.1)
        let rows := (List.range toks.size).map (fun i =>
          "(r " ++ toString i ++ showEdits (sortTriples (renameEdits tab true (serverOf i))) ++ ")")
        -- binders: tokens that denote themselves as binder, i.e. first site of each binder id, in id order
        let binderIds := (res.filterMap (·.2)).eraseDups.toArray.qsort (· < ·) |>.toList
        let edited := binderIds.map (fun b =>
          "(edited " ++ toString b ++ " " ++ Sexp.quote (applyEdits src new (renameEdits tab true (match binderTok b with | some t => serverOf t | none => renameSites b [] tm))) ++ ")")
        let model := " ".intercalate (rows ++ edited)
        -- specification on the implementation's answers
        let drifted := fun (i : Nat) => match tab i with | some p => p.rcol != p.col | none => false
        let judge := fun (i : Nat) (got : List (Nat × Nat × Nat)) =>
          let sites := sitesOf (binderOf i)
          let want := sortTriples (renameEdits tab false sites)
          let isLam := match binderOf i with | some b => lamIds.contains b | none => false
          let afterMixed := match tab i with
            | some p =>
              let ln := (((String.ofList src).splitOn "\n").getD p.line "").toList
              -- the request column lies inside the (byte-counted) extent of a string literal that starts left of the token
              (strExtentsGo ln 0 none).any (fun (c0, e) => c0 < u16idx ln p.col && c0 ≤ p.col && p.col < e)
            | none => false
          if sortTriples got == want && !dups.contains i then none
          else some (i, drifted i || sites.any drifted, (dups.contains i && isLam) || (empties.contains i && (shadowDef i || afterMixed)))
        let implRows : List (Nat × List (Nat × Nat × Nat)) := match Sexp.parseAll impl.toList with
          | some xs => xs.filterMap (fun (x : Sexp) => match x with
              | .list (.atom "r" :: .atom i :: es) => match i.toNat?, editsOf es with
                | some i, some es => some (i, es)
                | _, _ => none
              | _ => none)
          | none => []
        let tpRows : List (Nat × List (Nat × Nat × Nat)) := match tagged "tp" items with
          | some xs => xs.filterMap (fun (x : Sexp) => match x with
              | .list (.atom i :: es) => match i.toNat?, editsOf es with
                | some i, some es => some (i, es)
                | _, _ => none
              | _ => none)
          | none => []
        let bad : List (Nat × Bool × Bool) := (implRows ++ tpRows).filterMap (fun (i, es) => judge i es)
        let missing := haveImpl && implRows.length != toks.size
        let badBinders := (bad.filterMap (fun (i, _) => binderOf i)).eraseDups
        let spec :=
          if !haveImpl then "-"
          else if missing then "viol:impl-crashed-or-malformed"
          else if bad.isEmpty then "ok"
          else if bad.all (fun x => x.2.1 || x.2.2) then
            (if bad.any (·.2.1) then "viol:range-drift" else if bad.any (fun x => dups.contains x.1) then "viol:duplicate-edit" else "viol:empty-edit-at-definition") ++ " (binders" ++ String.join (badBinders.map (fun b => " " ++ toString b)) ++ ")"
          else "viol:wrong-edit-set (tokens" ++ String.join ((bad.filter (fun x => !(x.2.1 || x.2.2))).map (fun x => " " ++ toString x.1)) ++ ")"
        let ink := if bad.isEmpty || !bad.all (fun x => x.2.1 || x.2.2) then "-"
          else if bad.any (·.2.1) then "C30-column-not-utf16"
          else if bad.any (fun x => dups.contains x.1) then "C30-lambda-param-duplicate-edit"
          else if bad.any (fun x => shadowDef x.1) then "C30-nested-def-site-empty" else "C30-empty-after-escaped-nonascii-string"
        id ++ "\t" ++ model ++ "\t" ++ spec ++ "\t" ++ ink
  | _, _, _, _ => id ++ "\tbad-input\t-\t-"

def handle (line : String) : String :=
  match splitTabs line with
  | id :: input :: rest =>
    match Sexp.parse input with
    | some (.list (.atom "prog" :: items)) => progCase id items (rest.headD "") (!rest.isEmpty)
    | _ => id ++ "\tbad-input\t-\t-"
  | _ => "?\tbad-line\t-\t-"

def main : IO Unit := do
  lineLoop (← IO.getStdin) (← IO.getStdout) handle
