import ErgVerif.Util.Sexp
import ErgVerif.Util.PredIO
import ErgVerif.C03.Model
/-!
Driver for C03 (`ergmodel_c03`).
core rows: id \t (pair <P> <Q>) \t (lhs <P built>) (rhs <Q built>) (super <bool>)
e2e rows : id \t (e2e|e2elit|e2en|e2elitn <P> <Q>)  \t (e2e accept|reject …) (hook <bool>)
           (`e2e*n`: negation spelled `not (p)` instead of `~(p)`; class of the recorded finding C03-not-call-predicate)
stdout   : id \t <model output> \t <spec verdict> \t <inK>

Model output of a core row: the structures built by the transcribed constructors and the verdict of the transcribed
`is_super_pred_of`. The verdict is computed for the iteration orders `ordK 0 … ordK (nOrders-1)` (hash-iteration order is a
parameter of the model); if the implementation's verdict is among the possible ones it is taken, otherwise the verdict of order 0.
Spec verdict: an accepted pair must satisfy the exact implication oracle (`C03_oracle_exact`), evaluated on the structures
the *implementation* printed; a violation prints the refuting integer.
e2e rows are judged by the spec only (front-end glue is outside the model): the model column echoes the implementation's.
Environment: ERGMODEL_C03_CFG=legacy selects the pinned-tree configuration (to replay the check against an old tree);
then inK names the fixed finding whose class the case falls in.
-/
open ErgVerif ErgVerif.PredIO

def nOrders : Nat := 24

def verdicts (mk : (List Pred → List Pred) → Cfg) (p q : Pred) : List Bool :=
  (List.range nOrders).map (fun k => isSuperPred (mk (ordK k)) p q)

def findTagged (key : String) : List Sexp → Option (List Sexp)
  | [] => none
  | .list (.atom k :: rest) :: more => if k = key then some rest else findTagged key more
  | _ :: more => findTagged key more

def implBool (key : String) (xs : List Sexp) : Option Bool :=
  match findTagged key xs with
  | some [.atom "true"] => some true
  | some [.atom "false"] => some false
  | _ => none

def implPred (key : String) (xs : List Sexp) : Option Pred :=
  match findTagged key xs with
  | some [sx] => predOfSexp sx
  | _ => none

/-- class of a (legacy) violation: which fixed finding explains it -/
def legacyClass (p q : Pred) : String :=
  let offExact := (List.range nOrders).any (fun k => isSuperPred { aa := .off, f64 := false, ord := ordK k } p q)
  let fixedExact := (List.range nOrders).any (fun k => isSuperPred { aa := .fixed, f64 := false, ord := ordK k } p q)
  let legacyExact := (List.range nOrders).any (fun k => isSuperPred { aa := .legacy, f64 := false, ord := ordK k } p q)
  if legacyExact && !offExact then "C03-and-and-direction"
  else if !fixedExact then "C03-f64-constant-compare"
  else "-"

def specOf (accepted : Bool) (p q : Pred) : String :=
  if !accepted then "ok"
  else match refute p q with
    | none => "ok"
    | some i => "viol:accepted-but-i=" ++ toString i ++ " satisfies the supplied predicate and not the required one"

def handle (legacy : Bool) (line : String) : String :=
  let mk : (List Pred → List Pred) → Cfg := if legacy then Cfg.legacy else Cfg.current
  match splitTabs line with
  | id :: input :: rest =>
    match Sexp.parse input with
    | some (.list [.atom kind, sp, sq]) =>
      match exprOfSexp sp, exprOfSexp sq with
      | some ep, some eq_ =>
        if !((exprConsts ep ++ exprConsts eq_).all constInModel) then id ++ "\tout-of-model(constant)\t-\t-"
        else
          let p := ep.build
          let q := eq_.build
          let impl := rest.headD ""
          let xs := (Sexp.parseAll impl.toList).getD []
          if kind = "pair" then
            let vs := verdicts mk p q
            let v0 := vs.headD false
            let iv := implBool "super" xs
            let v := match iv with
              | some b => if vs.contains b then b else v0
              | none => v0
            let model := "(lhs " ++ showPred p ++ ") (rhs " ++ showPred q ++ ") (super " ++ toString v ++ ")"
            let spec := match iv with
              | none => if rest.isEmpty then "-" else "viol:impl-crashed-or-malformed"
              | some b =>
                -- the specification is evaluated on what the implementation built and answered
                let ip := (implPred "lhs" xs).getD p
                let iq := (implPred "rhs" xs).getD q
                specOf b ip iq
            let ink := if legacy && spec.startsWith "viol" then legacyClass p q else "-"
            id ++ "\t" ++ model ++ "\t" ++ spec ++ "\t" ++ ink
          else if kind = "e2e" || kind = "e2elit" || kind = "e2en" || kind = "e2elitn" then
            let accepted := match findTagged "e2e" xs with
              | some (.atom "accept" :: _) => some true
              | some (.atom "reject" :: _) => some false
              | _ => none
            let spec := match accepted with
              | none => "viol:front-end-crashed-or-malformed"
              | some b => specOf b p q
            -- recorded finding: `not (p)` spelled with the builtin function becomes a `Call` predicate
            let notFn := (kind = "e2en" || kind = "e2elitn") && (ep.hasNot || eq_.hasNot)
            let ink := if !spec.startsWith "viol" then "-"
              else if notFn then "C03-not-call-predicate"
              else if substituteShortcutClass p q then "C03-substitute-not-shortcut"
              else if legacy then legacyClass p q else "-"
            id ++ "\t" ++ impl ++ "\t" ++ spec ++ "\t" ++ ink
          else id ++ "\tbad-input\t-\t-"
      | _, _ => id ++ "\tbad-input\t-\t-"
    | _ => id ++ "\tbad-input\t-\t-"
  | _ => "?\tbad-line\t-\t-"

/-- `stats` mode: per core row, how many distinct verdicts the enumerated orders give (order sensitivity of the real code) -/
def handleStats (line : String) : String :=
  match splitTabs line with
  | id :: input :: _ =>
    match Sexp.parse input with
    | some (.list [.atom "pair", sp, sq]) =>
      match exprOfSexp sp, exprOfSexp sq with
      | some ep, some eq_ =>
        let vs := verdicts Cfg.current ep.build eq_.build
        let both := vs.contains true && vs.contains false
        let imp := implies ep.build eq_.build
        id ++ "\t" ++ (if both then "order-sensitive" else "stable") ++ "\t" ++ toString (vs.headD false) ++ "\t" ++ toString imp
      | _, _ => id ++ "\t-\t-\t-"
    | _ => id ++ "\t-\t-\t-"
  | _ => "?\t-\t-\t-"

def main (args : List String) : IO Unit := do
  let legacy := (← IO.getEnv "ERGMODEL_C03_CFG") == some "legacy"
  if args.contains "stats" then
    lineLoop (← IO.getStdin) (← IO.getStdout) handleStats
  else
    lineLoop (← IO.getStdin) (← IO.getStdout) (handle legacy)
