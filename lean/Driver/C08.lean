import ErgVerif.Util.Sexp
import ErgVerif.C08.Model
/-!
Driver for C08 (`ergmodel_c08`). stdin: id \t (src "<s>") \t <impl output>.  stdout: id \t <model> \t <spec verdict> \t <inK>
model output = `(lex <item>…)` exactly as harness/src/bin/c08.rs prints it.  A first column `L:<id>` runs the *legacy* model
(code before the C08 fix; used for the `fixed` witnesses).
Spec verdict (evaluated on the model's run, which the orchestrator requires to equal the implementation's):
`viol:crash`, `viol:fuel`, `viol:shape` (no error, but not EOF-terminated or #Indent ≠ #Dedent), `viol:pos <n> first=<k>` (an Ok token
whose line/col differ from the true position of the source offset it stands for, or offsets out of order), else `ok`.
-/
open ErgVerif ErgVerif.Lex ErgVerif.C08

def tokSexp (t : Token) : String :=
  "(t " ++ t.kind.name ++ " " ++ Sexp.quote t.content ++ " " ++ toString t.line ++ " " ++ toString t.col ++ ")"

def errSexp (t : Token) (msg : String) : String :=
  let loc := if t.line = 0 then "unknown"
    else "(r " ++ toString t.line ++ " " ++ toString t.col ++ " " ++ toString t.line ++ " " ++ toString (t.col + t.content.length) ++ ")"
  "(e " ++ loc ++ " " ++ Sexp.quote msg.toList ++ ")"

def itemSexp : Item → String
  | .tok t => tokSexp t
  | .err t m => errSexp t m

def outSexp (o : Outcome) : String :=
  let body := String.join (o.items.map (fun i => " " ++ itemSexp i))
  match o with
  | .finished _ => "(lex" ++ body ++ ")"
  | .crash _ _ => "(lex" ++ body ++ " (crash \"called `Option::unwrap()` on a `None` value\"))"
  | .fuel _ => "(lex" ++ body ++ " (fuel))"

/-- known-finding classes (decidable on the input); see known_findings.json -/
def classOf (src : List Char) : String := if lineDriftClass src then "C08-line-drift" else "-"

def verdict (src : List Char) (o : Outcome) : String × String :=
  let chars := (normalizeNewline src).toArray
  match o with
  | .crash _ _ => ("viol:crash", "-")
  | .fuel _ => ("viol:fuel", "-")
  | .finished items =>
    let ts := okTokens items
    if lexResultIsOk items && !shapeOk ts then ("viol:shape", "-")
    else
      let bad := ts.filter (fun t => !posOk chars t)
      if !bad.isEmpty then
        let t := bad.head!
        ("viol:pos " ++ toString bad.length ++ " first=" ++ tokSexp t ++ " true=" ++ toString (posOf chars t.off), classOf src)
      else if !sortedOffs ts then ("viol:order", "-")
      else ("ok", "-")

/-- the shape/crash part of the specification evaluated on the IMPLEMENTATION's answer (so that a broken implementation yields a
    concrete failing input even when it also disagrees with the model) -/
def implVerdict (impl : String) : Option String :=
  match Sexp.parse impl with
  | some (.list (.atom "lex" :: items)) =>
    let kindOf : Sexp → Option String
      | .list (.atom "t" :: .atom k :: _) => some k
      | _ => none
    let isTag (tag : String) : Sexp → Bool
      | .list (.atom a :: _) => a = tag
      | _ => false
    if items.any (isTag "crash") then some "viol:crash(impl)"
    else if items.any (isTag "runaway") then some "viol:does-not-terminate(impl)"
    else if items.any (isTag "e") then none
    else
      let ks := items.filterMap kindOf
      let cnt (k : String) := (ks.filter (· = k)).length
      if ks.getLast? ≠ some "EOF" || cnt "Indent" ≠ cnt "Dedent" then some "viol:shape(impl)" else none
  | _ => if impl.isEmpty then none else some "viol:impl-output-unparsable"

def handle (line : String) : String :=
  match splitTabs line with
  | id :: input :: _ =>
    match Sexp.parse input with
    | some (.list [.atom "src", .str s]) =>
      let lg := id.startsWith "L:"
      let o := lexAll lg s
      let (v, k) := verdict s o
      let impl := (splitTabs line).getD 2 ""
      let (v, k) := match (if lg then none else implVerdict impl) with
        | some iv => (iv, "-")
        | none => (v, k)
      id ++ "\t" ++ outSexp o ++ "\t" ++ v ++ "\t" ++ k
    | _ => id ++ "\tbad-input\t-\t-"
  | _ => "?\tbad-line\t-\t-"

def main : IO Unit := do
  lineLoop (← IO.getStdin) (← IO.getStdout) handle
