import ErgVerif.Util.Sexp
import ErgVerif.Util.PredIO
import ErgVerif.C06.Spec
/-!
Reading types of the grammar G and printing values: shared by the C06 and C33 drivers (driver-level utility, `partial` allowed).
-/
open ErgVerif ErgVerif.PredIO ErgVerif.C06

def T0 : Table := genTable

def nameIndex (n : String) : Option Nat :=
  let rec go (rows : List Row) (i : Nat) : Option Nat :=
    match rows with
    | [] => none
    | r :: rs => if r.name = n then some i else go rs (i + 1)
  go T0.rows 0

mutual
partial def tyOfSexp : Sexp → Option Ty
  | .atom n => (nameIndex n).map Ty.mono
  | .list [.atom "ref", .atom b, p] =>
    match nameIndex b, predOfSexp p with
    | some k, some q => some (.refine k q)
    | _, _ => none
  | .list (.atom "or" :: es) => (tysOfSexp es).map (fun l => Ty.or (TyList.ofList l))
  | .list (.atom "and" :: es) => (tysOfSexp es).map (fun l => Ty.and (TyList.ofList l))
  | .list (.atom "tuple" :: es) => (tysOfSexp es).map (fun l => Ty.tuple (TyList.ofList l))
  | .list [.atom "iv", .atom k, .atom a, .atom b] =>
    -- the four interval forms as the checker reads them (ty/constructors.rs `interval`): cc `a..b`, oc `a<..b` = a+1..b,
    -- co `a..<b` = a..b-1, oo `a<..<b` = a+1..b-1
    match a.toInt?, b.toInt? with
    | some x, some y =>
      let lo := if k = "oc" || k = "oo" then x + 1 else x
      let hi := if k = "co" || k = "oo" then y - 1 else y
      if k = "cc" || k = "oc" || k = "co" || k = "oo" then some (.refine T0.iInt (.and (.ge lo) (.le hi))) else none
    | _, _ => none
  | .list [.atom "list", e, .atom n] =>
    match tyOfSexp e, n.toNat? with
    | some t, some k => some (.list t k)
    | _, _ => none
  | _ => none
partial def tysOfSexp : List Sexp → Option (List Ty)
  | [] => some []
  | e :: es =>
    match tyOfSexp e, tysOfSexp es with
    | some t, some ts => some (t :: ts)
    | _, _ => none
end

mutual
partial def showVal : Val → String
  | .int i => "(int " ++ toString i ++ ")"
  | .str c => "(str s" ++ toString c ++ ")"
  | .obj k => "(instance-of " ++ (T0.row k).name ++ ")"
  | .list vs => "(list" ++ String.join (vs.toList.map (fun v => " " ++ showVal v)) ++ ")"
  | .tuple vs => "(tuple" ++ String.join (vs.toList.map (fun v => " " ++ showVal v)) ++ ")"
end

