import ErgVerif.Util.Sexp
import ErgVerif.C14.Model
import ErgVerif.Gen.C14Tables
/-!
Driver for C14 (`ergmodel_c14`), T-val. stdin: `id \t input \t impl-output`.
  (p minor "src")            impl = (nlines N) (bytes x…) — the marshalled code object the compiler emitted. model column: the impl column
                             echoed (there is no model of the compiler here); spec column: the validator's verdict on those bytes
  (dis minor nlines x…)      model column: the decoder's reading (instruction starts, opcodes, folded arguments, jump targets, lines) in
                             the format of py/c14_dis_oracle.py; spec column: the validator's verdict
-/
open ErgVerif ErgVerif.Marshal ErgVerif.Bytecode ErgVerif.C14

partial def unhexGo : List Char → List Nat → Option Bytes
  | [], acc => some acc.reverse
  | a :: b :: rest, acc =>
    match Sexp.hexVal a, Sexp.hexVal b with
    | some x, some y => unhexGo rest ((x * 16 + y) :: acc)
    | _, _ => none
  | _, _ => none

def unhex (s : String) : Option Bytes :=
  match s.toList with
  | 'x' :: rest => unhexGo rest []
  | _ => none

def clauses (r : Report) : String :=
  if !r.decoded then "undecodable"
  else String.intercalate "+" ((if r.stack then [] else ["stack"]) ++ (if r.jumps then [] else ["jumps"]) ++ (if r.indices then [] else ["indices"])
    ++ (if r.lines then [] else ["lines"]))

def verdict (minor nlines : Nat) (bs : Bytes) : String × String :=
  match ErgVerif.Gen.C14.tableOf minor with
  | none => ("viol:no-table", "-")
  | some t =>
    match validateBytes t nlines bs with
    | none => ("viol:not-a-code-object", "-")
    | some rs =>
      if rs.all (fun x => x.2.ok) then ("ok", "-")
      else
        let bad := (rs.zipIdx.filter fun (x, _) => !x.2.ok).map fun (x, i) => "code#" ++ toString i ++ ":" ++ clauses x.2
        -- every failing clause of every code object must be explained by a recorded finding for the case to be in a class K
        let ks := rs.map fun x => if x.2.ok then some "" else explained t x.1 x.2
        let ink := if ks.all Option.isSome then (match (ks.filterMap id).filter (· ≠ "") with | k :: _ => k | [] => "-") else "-"
        ("viol:" ++ String.intercalate "," bad, ink)

def disReport (t : VerTable) (c : CodeView) : String :=
  match decode t c.code with
  | none => "(code undecodable)"
  | some instrs =>
    "(code (instrs " ++ String.intercalate " " (instrs.map fun i =>
      let info := t.info i.op
      -- dis lists every EXTENDED_ARG prefix as an instruction of its own, with the argument accumulated so far
      let pre := ((List.range (i.at_ - i.start)).foldl (fun (acc : Nat × String) k =>
        let u := i.start + k
        let a := acc.1 * 256 + c.code.getD (2 * u + 1) 0
        let ln := match lineOf t.minor c u with | some l => toString l | none => "-"
        (a, acc.2 ++ "(" ++ toString u ++ " 144 " ++ toString a ++ " - L" ++ ln ++ ") ")) (0, "")).2
      let tg := match jumpTarget t i with
        | none => "-"
        | some none => "odd"
        | some (some x) => toString x
      let ln := match lineOf t.minor c i.at_ with
        | some l => toString l
        | none => "-"
      pre ++ "(" ++ toString i.at_ ++ " " ++ toString i.op ++ " " ++ toString (if info.hasArg then i.arg else 0) ++ " " ++ tg ++ " L" ++ ln ++ ")") ++ "))"

def findList (key : String) : List Sexp → Option (List Sexp)
  | [] => none
  | .list (.atom k :: rest) :: more => if k = key then some rest else findList key more
  | _ :: more => findList key more

def handle (line : String) : String :=
  match splitTabs line with
  | id :: input :: rest =>
    let impl := rest.headD ""
    match Sexp.parse input with
    | some (.list [.atom "p", .atom minor, .str _]) =>
      match minor.toNat?, Sexp.parseAll impl.toList with
      | some minor, some xs =>
        match findList "nlines" xs, findList "bytes" xs with
        | some [.atom n], some [.atom h] =>
          match n.toNat?, unhex h with
          | some n, some b => let v := verdict minor n b; id ++ "\t" ++ impl ++ "\t" ++ v.1 ++ "\t" ++ v.2
          | _, _ => id ++ "\tbad-impl\t-\t-"
        | _, _ => id ++ "\tout-of-model(compile-error)\t-\t-"
      | _, _ => id ++ "\tbad-input\t-\t-"
    | some (.list [.atom "dis", .atom minor, .atom n, .atom h]) =>
      match minor.toNat?, n.toNat?, unhex h with
      | some minor, some n, some b =>
        match ErgVerif.Gen.C14.tableOf minor, pyRead minor b with
        | some t, some (v, []) =>
          let cs := allCodes minor 64 v
          let rep := String.intercalate " " (cs.map fun c => match c with | some c => disReport t c | none => "(code malformed)")
          let vd := verdict minor n b
          id ++ "\t" ++ rep ++ "\t" ++ vd.1 ++ "\t" ++ vd.2
        | _, _ => id ++ "\t(unreadable)\tviol:not-a-code-object\t-"
      | _, _, _ => id ++ "\tbad-input\t-\t-"
    | _ => id ++ "\tbad-input\t-\t-"
  | _ => "?\tbad-line\t-\t-"

def main : IO Unit := do
  lineLoop (← IO.getStdin) (← IO.getStdout) handle
