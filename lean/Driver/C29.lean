import ErgVerif.Util.Sexp
import ErgVerif.C29.Model
/-!
Driver for C29 (`ergmodel_c29`). stdin: id \t input \t impl-output; stdout: id \t model \t spec-verdict \t inK.
* `(diff (srcs …) (old <chunk>…) (new <chunk>…))`: model = `Model.diff` / `Model.update` printed as the harness prints the real
  `ASTDiff`; spec verdict on the implementation's answer: `Nop ⇔ old ≈ new`, and a single-chunk edit must be patched to `≈ new`.
* `(hist …)`: the notification state machine run with the observed values of its parameters (a text is its version number, the
  analysis of a text is that number); model = predicted trace, last publishing event, and convergence (demanded when the published
  version is the current one; otherwise the model makes no claim and repeats the observed `fresh-eq` fact, the case is in a
  known-finding class). Spec verdict: the implementation's final diagnostics equal those of a fresh server.
-/
open ErgVerif ErgVerif.C29

def chunkOf : Sexp → Option Chunk
  | .list [.atom "c", .str k, .atom l] => l.toNat?.map (fun n => ⟨String.ofList k, n⟩)
  | _ => none

def chunksOf (xs : List Sexp) : Option Ast := xs.mapM chunkOf

def showChunk (c : Chunk) : String := "(c " ++ Sexp.quote c.key.toList ++ " " ++ toString c.line ++ ")"

def showList (tag : String) (xs : List String) : String :=
  if xs.isEmpty then "(" ++ tag ++ ")" else "(" ++ tag ++ " " ++ " ".intercalate xs ++ ")"

def showDiff : Diff → String
  | .nop => "nop"
  | .deletion i => "(del " ++ toString i ++ ")"
  | .addition i c => "(add " ++ toString i ++ " " ++ Sexp.quote c.key.toList ++ ")"
  | .modification i c => "(mod " ++ toString i ++ " " ++ Sexp.quote c.key.toList ++ ")"

def showDiffShort : Diff → String
  | .nop => "nop"
  | .deletion i => "(del " ++ toString i ++ ")"
  | .addition i _ => "(add " ++ toString i ++ ")"
  | .modification i _ => "(mod " ++ toString i ++ ")"

def tagged (key : String) : List Sexp → Option (List Sexp)
  | [] => none
  | .list (.atom k :: rest) :: more => if k = key then some rest else tagged key more
  | _ :: more => tagged key more

def eqsOf : Ast → Ast → List String
  | a :: as, b :: bs => (if a.same b then "t" else "f") :: eqsOf as bs
  | _, _ => []

/-- spec side: `new` is `old` with one chunk inserted, deleted or replaced (content-wise) -/
def removeEach (xs : Ast) : List Ast := (List.range xs.length).map (fun i => removeAt i xs)

def countDiff : Ast → Ast → Nat
  | a :: as, b :: bs => (if a.same b then 0 else 1) + countDiff as bs
  | _, _ => 0

def isSingleEdit (old new : Ast) : Bool :=
  if old.length + 1 = new.length then (removeEach new).any (fun n => equiv old n)
  else if new.length + 1 = old.length then (removeEach old).any (fun o => equiv o new)
  else old.length = new.length && countDiff old new ≤ 1

def diffCase (id : String) (items : List Sexp) (impl : String) : String :=
  match tagged "old" items, tagged "new" items with
  | some o, some n =>
    match chunksOf o, chunksOf n with
    | some old, some new =>
      let d := diff old new
      let upd := update d old
      let model := "(d " ++ showDiff d ++ ") " ++ showList "upd" (upd.map showChunk) ++ " " ++ showList "eqs" (eqsOf old new)
      let spec :=
        match Sexp.parseAll impl.toList with
        | some xs =>
          match tagged "d" xs, tagged "upd" xs with
          | some dd, some uu =>
            let implNop := match dd with | [.atom "nop"] => true | _ => false
            match chunksOf uu with
            | some iu =>
              if implNop != equiv old new then "viol:nop-iff-equal"
              else if isSingleEdit old new && !equiv iu new then "viol:single-edit-not-patched"
              else "ok"
            | none => "viol:impl-output-malformed"
          | _, _ => "viol:impl-crashed-or-malformed"
        | none => "viol:impl-output-unparsable"
      id ++ "\t" ++ model ++ "\t" ++ spec ++ "\t-"
    | _, _ => id ++ "\tbad-input\t-\t-"
  | _, _ => id ++ "\tout-of-model(unparsable)\t-\t-"

/-! #### histories -/

structure Chg where
  ver : Nat
  first : Option (Nat × String)     -- start column and text of the first content change
  lower : Bool

def parseResOf : List Sexp → Option ParseRes
  | [.list (.atom "ok" :: cs)] => (chunksOf cs).map .ok
  | [.list (.atom "err" :: cs)] => (chunksOf cs).map (fun a => .err (some a))
  | [.list [.atom "err-none"]] => some (.err none)
  | _ => none

inductive Ev where
  | ev (e : Event Nat Chg) (pr : Option ParseRes)
  | sleep

def firstEdit : List Sexp → Option (Nat × String)
  | .list [_, .atom sc, _, _, .str t] :: _ => sc.toNat?.map (fun n => (n, String.ofList t))
  | _ => none

/-- the text after the event: `(ver k)` = 1 + index of the first event after which the document had exactly this text -/
def verOf (dflt : Nat) (rest : List Sexp) : Nat :=
  match tagged "ver" rest with
  | some [.atom v] => v.toNat?.getD dflt
  | _ => dflt

def evOf (ver : Nat) : Sexp → Option Ev
  | .list (.atom "open" :: rest) => (tagged "parse" rest).bind parseResOf |>.map (fun pr => .ev (.didOpen (verOf ver rest)) (some pr))
  | .list (.atom "change" :: rest) =>
    match tagged "edits" rest, tagged "lower" rest, (tagged "parse" rest).bind parseResOf with
    | some eds, some [.atom lw], some pr => some (.ev (.didChange ⟨verOf ver rest, firstEdit eds, lw = "true"⟩) (some pr))
    | _, _, _ => none
  | .list [.atom "save"] => some (.ev .didSave none)
  | .list [.atom "sleep", _] => some .sleep
  | _ => none

/-- `TRIGGER_CHARS.contains(text) || range.start.character == 0` on the first content change -/
def triggerOf (c : Chg) : Bool :=
  match c.first with
  | some (col, t) => t = "." || t = ":" || t = "(" || t = " " || col = 0
  | none => false

def mkEnv (deps : Bool) (tab : List (Nat × ParseRes)) : Env Nat Chg Nat :=
  { parse := fun v => ((tab.find? (fun p => p.1 = v)).map (·.2)).getD (.err none),
    analyse := fun v => v, apply := fun _ c => c.ver, trigger := triggerOf,
    lowerOk := fun c _ _ => c.lower, hasDeps := deps }

def obsOf (before after : State Nat Nat) : Event Nat Chg → String
  | .didOpen _ => "(open pub)"
  | .didChange _ =>
    match after.lastQuick with
    | none => "(chg noqc)"
    | some (none, _) => if before.cache.isNone then "(chg qc-noast)" else "(chg noqc)"
    | some (some d, p) => "(chg (qc " ++ showDiffShort d ++ (if p then " patched" else "") ++ "))"
  | .didSave =>
    match after.lastKind, before.text with
    | some .noChange, _ => "(save nochange)"
    | _, some _ => "(save check pub)"
    | _, none => "(save nothing)"

def publishes (after before : State Nat Nat) : Event Nat Chg → Bool
  | .didOpen _ => true
  | .didChange _ => false
  | .didSave => after.lastKind != some .noChange && before.text.isSome

def histCase (id : String) (items : List Sexp) : String :=
  let auto := match tagged "mode" items with | some [.atom "auto"] => true | _ => false
  let deps := match tagged "deps" items with | some [.atom "true"] => true | _ => false
  let freshEq := match tagged "fresh-eq" items with | some (.atom "true" :: _) => true | _ => false
  match tagged "events" items with
  | none => id ++ "\tbad-input\t-\t-"
  | some evs =>
    -- version numbers: the index of the event + 1
    let parsed := (evs.zipIdx).map (fun (e, i) => evOf (i + 1) e)
    if parsed.any Option.isNone then id ++ "\tbad-input(events)\t-\t-" else
    let es : List Ev := parsed.filterMap (fun x => x)
    let tab : List (Nat × ParseRes) := es.filterMap (fun e => match e with
      | .ev (.didOpen v) (some pr) => some (v, pr)
      | .ev (.didChange c) (some pr) => some (c.ver, pr)
      | _ => none)
    let env := mkEnv deps tab
    let (s, trace, lastpub) := (es.zipIdx).foldl (fun (acc : State Nat Nat × List String × Int) (e, i) =>
        match e with
        | .sleep => acc
        | .ev ev _ =>
          let s' := step false env acc.1 ev
          (s', acc.2.1 ++ [obsOf acc.1 s' ev], if publishes s' acc.1 ev then (i : Int) else acc.2.2))
      (State.init, [], -1)
    let stale := staleVersion s
    let conv := if stale then freshEq else true
    let astOf := fun (v : Option Nat) => (v.bind (fun v => (env.parse v).registered)).getD []
    -- with the repaired `change_kind` a history that ends with a save is never stale (`C29_converge_full`); the classes of the two fixed
    -- findings are still computed so that a regression is reported under its name
    let ink := if !stale then "-" else if equiv (astOf s.publishedOf) (astOf s.text) then "C29-nochange-stale-positions" else "C29-quickcheck-stale-content"
    let model := if auto then "(auto) (converged true)"
      else showList "trace" trace ++ " (lastpub " ++ toString lastpub ++ ") (converged " ++ toString conv ++ ")"
    id ++ "\t" ++ model ++ "\t" ++ "@SPEC@" ++ "\t" ++ (if auto then "-" else ink)

def specHist (impl : String) : String :=
  match Sexp.parseAll impl.toList with
  | some xs =>
    match tagged "converged" xs with
    | some [.atom "true"] => "ok"
    | some [.atom "false"] => "viol:published-diagnostics-differ-from-fresh-server"
    | _ => "viol:impl-crashed-or-malformed"
  | none => "viol:impl-crashed-or-malformed"

def handle (line : String) : String :=
  match splitTabs line with
  | id :: input :: rest =>
    let impl := rest.headD ""
    match Sexp.parse input with
    | some (.list (.atom "diff" :: items)) => diffCase id items impl
    | some (.list (.atom "hist" :: items)) => (histCase id items).replace "@SPEC@" (if rest.isEmpty then "-" else specHist impl)
    | _ => id ++ "\tbad-input\t-\t-"
  | _ => "?\tbad-line\t-\t-"

def main : IO Unit := do
  lineLoop (← IO.getStdin) (← IO.getStdout) handle
