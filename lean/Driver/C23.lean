import ErgVerif.Util.Sexp
import ErgVerif.Shared.MiniHir
import ErgVerif.C23.Model
/-!
Driver for C23 (`ergmodel_c23`). stdin lines:  id \t (src "<erg>") (module <mini-HIR>) \t <impl output>
stdout: id \t (errs (move "<name>" <use line> <use col> <moved line>)…) | crash(<why>) \t <spec verdict> \t <inK>
Spec verdict: the implementation's answer against the `ideal` walker (current code + callee/receiver and unpacked
arguments of calls visited by reference); a crash of the checker is always a violation. inK names the recorded finding
when the current code differs from `ideal` on the case. `ergmodel_c23 legacy` = pinned commit.
-/
open ErgVerif ErgVerif.MiniHir ErgVerif.C23

def errKey (e : MErr) : String :=
  "(move " ++ Sexp.quote e.name ++ " " ++ locStr e.useLoc ++ " " ++ toString e.movedLoc.line ++ ")"

def resOut : Res → String
  | .crash w => "crash(" ++ Sexp.quote w.toList ++ ")"
  | .ok _ errs => "(errs" ++ String.join ((sortBy (fun a b => a < b) (errs.map errKey)).map (" " ++ ·)) ++ ")"

def handle (v : Variant) (line : String) : String :=
  match splitTabs line with
  | id :: input :: rest =>
    let impl := rest.headD ""
    if impl.startsWith "(lower-error" then id ++ "\tout-of-model(lower-error)\t-\t-"
    else if impl.startsWith "out-of-fragment" || impl.startsWith "out-of-model" then id ++ "\tout-of-model(" ++ impl ++ ")\t-\t-"
    else
    match Sexp.parseAll input.toList with
    | none => id ++ "\tbad-input\t-\t-"
    | some xs =>
      match (findModule xs).bind (readModule (input.length + 1)) with
      | none => id ++ "\tbad-input(no module)\t-\t-"
      | some p =>
        let model := resOut (checkModule v p)
        let spec := resOut (checkModule ideal p)
        let implC := if impl.startsWith "crash(" then "crash" else impl
        let modelC := if model.startsWith "crash(" then "crash" else model
        let verdict :=
          if rest.isEmpty then "-"
          else if implC == "crash" then "viol:checker-panics"
          else if spec.startsWith "crash(" then "ok"      -- the reference itself reaches a todo!: nothing to demand
          else if implC == spec then "ok" else "viol:spec=" ++ spec
        let ink := if modelC != "crash" && model != spec then "C23-receiver-not-checked" else "0"
        id ++ "\t" ++ (if implC == "crash" && modelC == "crash" then impl else model) ++ "\t" ++ verdict ++ "\t" ++ ink
  | _ => "?\tbad-line\t-\t-"

def main (args : List String) : IO Unit := do
  let v := if args.contains "legacy" then legacy else fixed
  lineLoop (← IO.getStdin) (← IO.getStdout) (handle v)
