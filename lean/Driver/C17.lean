import ErgVerif.Util.Sexp
import ErgVerif.C17.Model
/-!
Driver for C17 (`ergmodel_c17`). stdin lines:  id \t (src "<erg>") (lit <TokenKind> "<token>" <value>) \t (line "<script line>")
stdout lines: id \t <model output> \t <spec verdict> \t <inK>

model output: `(line "s = <transpileLit value>")`. spec verdict: the implementation's line is `s = Str(<lit>)` /
`s = Nat(<lit>)` / `s = Int(<lit>)`; `<lit>` is read with the Python-literal specification (`PyLit.parseStrLit`, `pyDecInt`)
and must denote the literal's *value* (what the bytecode holds).
-/
open ErgVerif ErgVerif.C17

def valOf : Sexp → LitVal
  | .list [.atom "nat", n] => match Sexp.atomNat? n with | some k => .nat k | none => .other
  | .list [.atom "int", i] => match Sexp.atomInt? i with | some k => .int k | none => .other
  | .list [.atom "str", .str s] => .str s
  | _ => .other

def stripPrefix (p : List Char) (s : List Char) : Option (List Char) :=
  if s.take p.length = p then some (s.drop p.length) else none

def specVerdict (v : LitVal) (impl : String) : String :=
  match Sexp.parseAll impl.toList with
  | some [.list [.atom "line", .str l]] =>
    (match v with
     | .str s =>
       (match stripPrefix "s = Str(".toList l with
        | none => "viol:not-a-Str-call"
        | some t =>
          match PyLit.parseStrLit t with
          | some (c, rest) =>
            if rest ≠ [')'] then "viol:python-literal-ends-early " ++ Sexp.quote c
            else if c = s then "ok" else "viol:python-reads-other-content " ++ Sexp.quote c
          | none => "viol:not-a-python-string-literal")
     | .nat n =>
       (match stripPrefix "s = Nat(".toList l with
        | none => "viol:not-a-Nat-call"
        | some t => if PyLit.pyDecInt t.dropLast = some n ∧ t.getLast? = some ')' then "ok" else "viol:python-int-literal " ++ Sexp.quote t)
     | .int i =>
       (match stripPrefix "s = Int(-".toList l with
        | none => "viol:not-an-Int-call"
        | some t => if PyLit.pyDecInt t.dropLast = some i.natAbs ∧ i < 0 ∧ t.getLast? = some ')' then "ok" else "viol:python-int-literal " ++ Sexp.quote t)
     | .other => "-")
  | _ => "viol:crash-or-malformed-output"

def handle (line : String) : String :=
  match splitTabs line with
  | id :: input :: rest =>
    match Sexp.parseAll input.toList with
    | some [_, .list [.atom "rejected"]] => id ++ "\tout-of-model(rejected-by-front-end)\t-\t-"
    | some [_, .list [.atom "lit", _, _, v]] =>
      (match transpileLit (valOf v) with
       | none => id ++ "\tout-of-model(literal-kind)\t-\t-"
       | some t =>
         id ++ "\t(line " ++ Sexp.quote ("s = ".toList ++ t) ++ ")\t" ++ (if rest.isEmpty then "-" else specVerdict (valOf v) (rest.headD "")) ++ "\t0")
    | _ => id ++ "\tout-of-model(not-a-literal)\t-\t-"
  | _ => "?\tbad-line\t-\t-"

def main : IO Unit := do
  lineLoop (← IO.getStdin) (← IO.getStdout) handle
