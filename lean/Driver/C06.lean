import ErgVerif.Util.Sexp
import ErgVerif.Util.PredIO
import ErgVerif.C06.Spec
import Driver.TyIO
/-!
Driver for C06 (`ergmodel_c06`).
stdin  : id \t <case> \t <impl-output>      (cases: see harness/src/bin/c06.rs)
stdout : id \t <model output> \t <spec verdict> \t <inK>

Model output: the verdicts of the transcribed `supertype_of` over the class table generated from the real builtin context on this
run. The hash-iteration order inside `is_super_pred_of` is a model parameter: the verdict is computed for `ordK 0 … ordK 3`; if the
implementation's verdict is among them it is taken, else the verdict of order 0.
Spec verdict, evaluated on the IMPLEMENTATION's answers:
  pair  : an accepted pair S <: T must have no test value in ⟦S⟧ \ ⟦T⟧ (`refuteSub`; the value is printed);
  law   : the law instance must hold of the implementation's verdicts;
  fe    : an accepted program must have no such test value either.
inK: the id of the recorded finding whose class the case falls in (see `classify`).
-/
open ErgVerif ErgVerif.PredIO ErgVerif.C06

def nOrders : Nat := 4

/-- the model's verdict for `s <: t`, preferring the implementation's answer when some enumerated order gives it -/
def subVerdict (s t : Ty) (impl : Option Bool) : Bool :=
  let vs := (List.range nOrders).map (fun k => subOf T0 Fx.code (ordK k) s t)
  let v0 := vs.headD false
  match impl with
  | some b => if vs.contains b then b else v0
  | none => v0

def findTagged (key : String) : List Sexp → Option (List Sexp)
  | [] => none
  | .list (.atom k :: rest) :: more => if k = key then some rest else findTagged key more
  | _ :: more => findTagged key more

def implBool (key : String) (xs : List Sexp) : Option Bool :=
  match findTagged key xs with
  | some [.atom "true"] => some true
  | some [.atom "false"] => some false
  | _ => none

def b2s (b : Bool) : String := toString b

/-- (spec verdict, class of the recorded finding the violation falls in) for an accepted `s <: t` -/
def soundSpec (accepted : Option Bool) (s t : Ty) : String × String :=
  match accepted with
  | none => ("viol:impl-crashed-or-malformed", "-")
  | some false => ("ok", "-")
  | some true =>
    match refuteSub T0 s t with
    | none => ("ok", "-")
    | some v =>
      ("viol:unsound " ++ showVal v ++ " is a value of the subtype and not of the supertype",
       if v.usesBad T0 then "C06-lattice-not-transitive"
       else if !(subOf T0 Fx.repaired id s t) then "C06-derefine-unsound" else "-")

def repairedSub (s t : Ty) : Bool := subOf T0 Fx.repaired id s t

def isMono : Ty → Bool
  | .mono _ => true
  | _ => false

/-- recorded findings: which class does a violated law instance fall in -/
def classify (law : String) (ts : List Ty) : String :=
  let never := Ty.mono T0.iNever
  let g (i : Nat) : Ty := ts.getD i never
  if law = "orintro" then (if repairedSub (g 0) (g 2) && repairedSub (g 1) (g 2) then "C06-or-intro-incomplete" else "-")
  else if law = "andelim" then (if repairedSub (g 2) (g 0) && repairedSub (g 2) (g 1) then "C06-and-elim-incomplete" else "-")
  else if law = "trans" then
    (match g 0 with
     | .mono k => if ts.all isMono then (if T0.badBottom k then "C06-lattice-not-transitive" else "-")
                  else if repairedSub (g 0) (g 2) then "C06-trans-incomplete" else "-"
     | _ => if repairedSub (g 0) (g 2) then "C06-trans-incomplete" else "-")
  else "-"

def handle (line : String) : String :=
  match splitTabs line with
  | id :: input :: rest =>
    let impl := rest.headD ""
    let xs := (Sexp.parseAll impl.toList).getD []
    match Sexp.parse input with
    | some (.list [.atom "pair", ss, st]) =>
      match tyOfSexp ss, tyOfSexp st with
      | some s, some t =>
        let ib := implBool "sub" xs
        let v := subVerdict s t ib
        let v2 := subVerdict s t (implBool "sup" xs)
        let (spec, k) := soundSpec ib s t
        id ++ "\t(sub " ++ b2s v ++ ") (sup " ++ b2s v2 ++ ")\t" ++ spec ++ "\t" ++ k
      | _, _ => id ++ "\tout-of-model(type)\t-\t-"
    | some (.list [.atom "fe", ss, st]) =>
      match tyOfSexp ss, tyOfSexp st with
      | some s, some t =>
        let accepted := match findTagged "fe" xs with
          | some (.atom "accept" :: _) => some true
          | some (.atom "reject" :: _) => some false
          | _ => none
        let (spec, k) := if impl.startsWith "out-of-model" then ("-", "-") else soundSpec accepted s t
        -- the front end is outside the model: the model column echoes the implementation's, the model's own verdict is appended
        -- by the check (`post`) for the entry-point comparison
        id ++ "\t" ++ impl ++ "\t" ++ spec ++ "\t" ++ k
      | _, _ => id ++ "\tout-of-model(type)\t-\t-"
    | some (.list (.atom "law" :: .atom law :: args)) =>
      match tysOfSexp args with
      | none => id ++ "\tout-of-model(type)\t-\t-"
      | some ts =>
        let never := Ty.mono T0.iNever
        let obj := Ty.mono T0.iObj
        let g (i : Nat) : Ty := ts.getD i never
        let ib (k : String) := implBool k xs
        let tt (o : Option Bool) : Bool := o == some true
        let (model, spec) :=
          if law = "refl" then ("(r " ++ b2s (subVerdict (g 0) (g 0) (ib "r")) ++ ")", if tt (ib "r") then "ok" else "viol:refl")
          else if law = "bot" then ("(r " ++ b2s (subVerdict never (g 0) (ib "r")) ++ ")", if tt (ib "r") then "ok" else "viol:never-bot")
          else if law = "top" then ("(r " ++ b2s (subVerdict (g 0) obj (ib "r")) ++ ")", if tt (ib "r") then "ok" else "viol:obj-top")
          else if law = "trans" then
            ("(ab " ++ b2s (subVerdict (g 0) (g 1) (ib "ab")) ++ ") (bc " ++ b2s (subVerdict (g 1) (g 2) (ib "bc")) ++ ") (ac "
              ++ b2s (subVerdict (g 0) (g 2) (ib "ac")) ++ ")",
             if tt (ib "ab") && tt (ib "bc") && !tt (ib "ac") then "viol:trans" else "ok")
          else if law = "orintro" then
            ("(r " ++ b2s (subVerdict (g 0) (g 2) (ib "r")) ++ ") (r2 " ++ b2s (subVerdict (g 1) (g 2) (ib "r2")) ++ ")",
             if tt (ib "r") && tt (ib "r2") then "ok" else "viol:or-intro")
          else if law = "andelim" then
            ("(r " ++ b2s (subVerdict (g 2) (g 0) (ib "r")) ++ ") (r2 " ++ b2s (subVerdict (g 2) (g 1) (ib "r2")) ++ ")",
             if tt (ib "r") && tt (ib "r2") then "ok" else "viol:and-elim")
          else ("bad-input", "-")
        id ++ "\t" ++ model ++ "\t" ++ spec ++ "\t" ++ (if spec.startsWith "viol" then classify law ts else "-")
    | _ => id ++ "\tbad-input\t-\t-"
  | _ => "?\tbad-line\t-\t-"

def main : IO Unit := do
  let stdin ← IO.getStdin
  let stdout ← IO.getStdout
  lineLoop stdin stdout handle
