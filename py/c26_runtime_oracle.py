#!/usr/bin/env python3
"""C26 tie: execute erg's real runtime classes (imported from <ERG_PATH>/lib/core, synced from the working tree) and Python's
builtins on the same operands.  Runs under every interpreter in core.PYTHONS (3.7+ syntax only).

  c26_runtime_oracle.py <lib/core> gen --seed S --n N --tier T      generated cases
  c26_runtime_oracle.py <lib/core> replay                           `id \\t input` lines on stdin
output lines:  id \\t input \\t impl

input  ::= (bin <op> <operand> <operand>) | (un <uop> <operand>)              int/bool family (modelled in Lean)
         | (xbin <op> <xoperand> <xoperand>) | (xun <uop> <xoperand>)          float/str/list family (executed only)
         | (meth <name> <operand> <int>*)                                     declared named methods (executed only)
operand ::= (<class> <class of .value | same class> <int>)   classes: int bool Int Nat Bool IntMut NatMut BoolMut
xoperand ::= operand | (float "<repr>") | (Float "<repr>") | (FloatMut "<repr>") | (str "<s>") | (Str "<s>") | (StrMut "<s>")
           | (list <int>*) | (List <int>*)
impl   ::= <result> [ (builtin <result of the same operation on the unwrapped builtin operands>) ]
result ::= (ok <class> <inner class> <int>) | (float "<repr>") | (str "<s>") | (list …) | ValueError | ZeroDivisionError
         | TypeError | OverflowError | (exc <Name>) | (other <type> "<repr>")
"""
import operator
import sys

MASK = (1 << 64) - 1


class Rng:
    def __init__(self, seed):
        self.s = (seed * 0x9E3779B97F4A7C15 + 0x123456789ABCDEF1) & MASK

    def next(self):
        self.s = (self.s + 0x9E3779B97F4A7C15) & MASK
        z = self.s
        z = ((z ^ (z >> 30)) * 0xBF58476D1CE4E5B9) & MASK
        z = ((z ^ (z >> 27)) * 0x94D049BB133111EB) & MASK
        return z ^ (z >> 31)

    def below(self, n):
        return self.next() % n if n > 0 else 0

    def chance(self, num, den):
        return self.below(den) < num

    def pick(self, xs):
        return xs[self.below(len(xs))]


def quote(s):
    o = ['"']
    for c in s:
        n = ord(c)
        if c == '"':
            o.append('\\"')
        elif c == "\\":
            o.append("\\\\")
        elif c == "\n":
            o.append("\\n")
        elif c == "\t":
            o.append("\\t")
        elif c == "\r":
            o.append("\\r")
        elif n < 32 or n >= 127:
            o.append("\\u%04x" % n if n < 65536 else "\\U%06x" % n)
        else:
            o.append(c)
    o.append('"')
    return "".join(o)


# ------------------------------------------------------------------------------------------ tiny s-expression reader

def tokenize(s):
    i, n = 0, len(s)
    while i < n:
        c = s[i]
        if c in " \t":
            i += 1
        elif c in "()":
            yield c
            i += 1
        elif c == '"':
            j = i + 1
            out = []
            while s[j] != '"':
                if s[j] == "\\":
                    e = s[j + 1]
                    if e == "n":
                        out.append("\n")
                    elif e == "t":
                        out.append("\t")
                    elif e == "r":
                        out.append("\r")
                    elif e == "u":
                        out.append(chr(int(s[j + 2:j + 6], 16)))
                        j += 4
                    elif e == "U":
                        out.append(chr(int(s[j + 2:j + 8], 16)))
                        j += 6
                    else:
                        out.append(e)
                    j += 2
                else:
                    out.append(s[j])
                    j += 1
            yield ("str", "".join(out))
            i = j + 1
        else:
            j = i
            while j < n and s[j] not in ' \t()"':
                j += 1
            yield s[i:j]
            i = j


def parse(s):
    stack = [[]]
    for t in tokenize(s):
        if t == "(":
            stack.append([])
        elif t == ")":
            x = stack.pop()
            stack[-1].append(x)
        else:
            stack[-1].append(t)
    return stack[0][0]


# ------------------------------------------------------------------------------------------ the classes under test

def load(core):
    sys.path.insert(0, core)
    import _erg_int, _erg_nat, _erg_bool, _erg_float, _erg_str, _erg_list  # noqa
    return {"Int": _erg_int.Int, "IntMut": _erg_int.IntMut, "Nat": _erg_nat.Nat, "NatMut": _erg_nat.NatMut,
            "Bool": _erg_bool.Bool, "BoolMut": _erg_bool.BoolMut, "Float": _erg_float.Float, "FloatMut": _erg_float.FloatMut,
            "Str": _erg_str.Str, "StrMut": _erg_str.StrMut, "List": _erg_list.List, "int": int, "bool": bool,
            "float": float, "str": str, "list": list}


IMM = ["int", "bool", "Int", "Nat", "Bool"]
SHAPES = [("int", "int"), ("bool", "bool"), ("Int", "Int"), ("Nat", "Nat"), ("Bool", "Bool"), ("IntMut", "Int"),
          ("NatMut", "Nat"), ("NatMut", "Bool"), ("NatMut", "int"), ("NatMut", "Int"), ("BoolMut", "Bool"), ("BoolMut", "bool")]
NONNEG = {"Nat", "NatMut"}
BOOLS = {"bool", "Bool", "BoolMut"}
BINOPS = {"add": operator.add, "sub": operator.sub, "mul": operator.mul, "floordiv": operator.floordiv, "mod": operator.mod,
          "pow": operator.pow, "truediv": operator.truediv, "eq": operator.eq, "ne": operator.ne, "lt": operator.lt,
          "le": operator.le, "gt": operator.gt, "ge": operator.ge}
UNOPS = {"neg": operator.neg, "pos": operator.pos}
MODEL_OPS = ["add", "sub", "mul", "floordiv", "mod", "pow", "eq", "ne", "lt", "le", "gt", "ge"]


def build(C, o):
    """operand s-expression -> (object under test, unwrapped builtin value)"""
    k = o[0]
    if k in ("float", "Float", "FloatMut"):
        v = float.fromhex(o[1][1]) if o[1][1].startswith(("0x", "-0x")) else float(o[1][1])
        return (v if k == "float" else C[k](v)), v
    if k in ("str", "Str", "StrMut"):
        v = o[1][1]
        return (v if k == "str" else C[k](v)), v
    if k in ("list", "List"):
        v = [int(x) for x in o[1:]]
        return (list(v) if k == "list" else C["List"](v)), list(v)
    cls, inner, v = o[0], o[1], int(o[2])
    plain = bool(v) if cls in BOOLS and inner in BOOLS else v
    if cls in IMM:
        return C[cls](v), plain
    if cls == "IntMut":
        return C["IntMut"](v), plain
    base = C[inner](v)
    return C[cls](base), plain


def show(C, r):
    t = type(r)
    n = t.__name__
    if r is NotImplemented or r is None:
        return "(other %s %s)" % (n, quote(repr(r)))
    if n in ("IntMut", "NatMut", "BoolMut"):
        iv = r.value
        if isinstance(iv, int):
            return "(ok %s %s %d)" % (n, type(iv).__name__, int.__index__(iv))
        return "(other %s %s)" % (n, quote(type(iv).__name__ + ":" + repr(iv)))
    if n in ("FloatMut", "StrMut"):
        iv = r.value
        if isinstance(iv, float):
            return "(okx %s %s %s)" % (n, type(iv).__name__, quote(float.hex(float(iv))))
        if isinstance(iv, str):
            return "(okx %s %s %s)" % (n, type(iv).__name__, quote(str.__str__(iv)))
        return "(other %s %s)" % (n, quote(repr(iv)))
    if isinstance(r, int):
        return "(ok %s %s %d)" % (n, n, int.__index__(r))
    if isinstance(r, float):
        return "(okx %s %s %s)" % (n, n, quote(float.hex(float(r))))
    if isinstance(r, str):
        return "(okx %s %s %s)" % (n, n, quote(str.__str__(r)))
    if isinstance(r, list) and all(isinstance(x, int) for x in r):
        return "(okx %s %s %s)" % (n, n, quote(" ".join(str(int(x)) for x in r)))
    return "(other %s %s)" % (n, quote(repr(r)[:80]))


def attempt(C, f):
    try:
        return show(C, f())
    except ValueError:
        return "ValueError"
    except ZeroDivisionError:
        return "ZeroDivisionError"
    except TypeError:
        return "TypeError"
    except OverflowError:
        return "OverflowError"
    except BaseException as e:  # noqa
        return "(exc %s)" % type(e).__name__


METHODS = {
    # name -> (wrapper call, builtin reading)
    "succ": (lambda x: x.succ(), lambda v: v + 1),
    "pred": (lambda x: x.pred(), lambda v: v - 1),
    "bit_count": (lambda x: x.bit_count(), lambda v: bin(v).count("1")),
    "saturating_sub": (lambda x, y: x.saturating_sub(y), lambda v, w: max(v - w, 0)),
    "invert": (lambda x: x.invert(), lambda v: not v),
    "mutate": (lambda x: x.mutate(), lambda v: v),
    "copy": (lambda x: x.copy(), lambda v: v),
    "inc": (lambda x, y: (x.inc(y), x)[1], lambda v, w: v + w),
    "dec": (lambda x, y: (x.dec(y), x)[1], lambda v, w: v - w),
}


def run_case(C, inp):
    e = parse(inp)
    k = e[0]
    try:
        if k in ("bin", "xbin"):
            op = BINOPS[e[1]]
            a, pa = build(C, e[2])
            b, pb = build(C, e[3])
            impl = attempt(C, lambda: op(a, b))
            blt = attempt(C, lambda: op(pa, pb))
        elif k in ("un", "xun"):
            op = UNOPS[e[1]]
            a, pa = build(C, e[2])
            impl = attempt(C, lambda: op(a))
            blt = attempt(C, lambda: op(pa))
        elif k == "meth":
            w, p = METHODS[e[1]]
            a, pa = build(C, e[2])
            args = [int(x) for x in e[3:]]
            impl = attempt(C, lambda: w(a, *args))
            blt = attempt(C, lambda: p(pa, *args))
        else:
            return "bad-input"
    except BaseException as ex:  # operand construction failed: the generator made an inadmissible operand
        return "(bad-operand %s)" % type(ex).__name__
    return "%s (builtin %s)" % (impl, blt)


# ------------------------------------------------------------------------------------------ generation

SMALL = [0, 1, 2, 3, 5, 7, 10, -1, -2, -3, -7, -10]
WIDE = [255, 256, 65535, 65536, 2**31 - 1, 2**31, 2**31 + 1, 2**32, 2**63 - 1, 2**63, 2**64 - 1, 2**64, 10**30,
        -255, -256, -(2**31), -(2**31) - 1, -(2**63), -(2**63) - 1, -(2**64), -(10**30)]
FLOATS = [0.0, -0.0, 1.0, -1.0, 1.5, -3.5, 0.1, 2.25, 1e300, -1e300, 5e-324, float("inf"), float("-inf"), float("nan"), 100.0, 0.5]
STRS = ["", "a", "abc", "hello world", "%s", "a%sb", "%d", "日本", "q😀", "x y", "{}", "tab\tx", "a\"b", "back\\slash"]


def value_for(rng, shape, exp=False):
    cls, inner = shape
    if cls in BOOLS or inner in BOOLS:
        return rng.below(2)
    if exp:
        v = rng.pick([0, 1, 2, 3, 4, 5, 7, 16, 33, -1, -2, -3])
    elif rng.chance(1, 2):
        v = rng.pick(SMALL)
    elif rng.chance(1, 2):
        v = rng.pick(WIDE)
    else:
        bits = rng.pick([8, 16, 31, 32, 33, 63, 64, 65, 100])
        v = rng.next() % (1 << bits)
        if bits > 64:
            v = (v << (bits - 64)) | rng.next() % (1 << (bits - 64))
        if rng.chance(1, 2):
            v = -v
    if cls in NONNEG or inner in NONNEG:
        v = abs(v)
    return v


def operand(shape, v):
    return "(%s %s %d)" % (shape[0], shape[1], v)


def xoperand(rng):
    k = rng.below(10)
    if k < 4:
        kind = rng.pick(["float", "Float", "Float", "FloatMut"])
        return "(%s %s)" % (kind, quote(float.hex(rng.pick(FLOATS))))
    if k < 7:
        kind = rng.pick(["str", "Str", "Str", "StrMut"])
        return "(%s %s)" % (kind, quote(rng.pick(STRS)))
    if k < 8:
        kind = rng.pick(["list", "List", "List"])
        return "(%s%s)" % (kind, "".join(" %d" % rng.pick(SMALL) for _ in range(rng.below(4))))
    sh = rng.pick(SHAPES)
    return operand(sh, value_for(rng, sh, exp=True))


def gen_cases(seed, n, tier):
    rng = Rng(seed)
    cases = []
    i = 0
    # exhaustive over (op, shape, shape) with boundary-biased values, then random
    reps = 1 if tier == "quick" else 4
    for _ in range(reps):
        for op in MODEL_OPS:
            for sa in SHAPES:
                for sb in SHAPES:
                    a = value_for(rng, sa, exp=(op == "pow"))
                    b = value_for(rng, sb, exp=(op == "pow"))
                    if op == "pow" and abs(a) > 2**64:
                        a = a % 1000
                    cases.append(("g%d" % i, "(bin %s %s %s)" % (op, operand(sa, a), operand(sb, b))))
                    i += 1
        for op in ["neg", "pos"]:
            for sa in SHAPES:
                cases.append(("g%d" % i, "(un %s %s)" % (op, operand(sa, value_for(rng, sa)))))
                i += 1
    while len(cases) < n:
        r = rng.below(20)
        if r < 12:
            op = rng.pick(MODEL_OPS)
            sa, sb = rng.pick(SHAPES), rng.pick(SHAPES)
            a = value_for(rng, sa, exp=(op == "pow"))
            b = value_for(rng, sb, exp=(op == "pow"))
            # steer towards the sign boundary of the result for add/mul (where Nat re-wrapping matters)
            if op == "add" and rng.chance(1, 3) and sb[0] not in NONNEG and sb[1] not in NONNEG and sb[0] not in BOOLS:
                b = -a + rng.pick([-2, -1, 0, 1])
            cases.append(("g%d" % i, "(bin %s %s %s)" % (op, operand(sa, a), operand(sb, b))))
        elif r < 13:
            sa = rng.pick(SHAPES)
            cases.append(("g%d" % i, "(un %s %s)" % (rng.pick(["neg", "pos"]), operand(sa, value_for(rng, sa)))))
        elif r < 18:
            op = rng.pick(["add", "sub", "mul", "truediv", "floordiv", "mod", "pow", "eq", "ne", "lt", "le", "gt", "ge"])
            cases.append(("g%d" % i, "(xbin %s %s %s)" % (op, xoperand(rng), xoperand(rng))))
        elif r < 19:
            k = rng.pick(["float", "Float", "FloatMut"])
            cases.append(("g%d" % i, "(xun %s (%s %s))" % (rng.pick(["neg", "pos"]), k, quote(float.hex(rng.pick(FLOATS))))))
        else:
            m = rng.pick(sorted(METHODS))
            if m in ("succ", "pred", "bit_count"):
                sh = rng.pick([("Int", "Int"), ("Nat", "Nat"), ("IntMut", "Int")]) if m != "bit_count" else rng.pick([("Int", "Int"), ("Nat", "Nat")])
                cases.append(("g%d" % i, "(meth %s %s)" % (m, operand(sh, value_for(rng, sh)))))
            elif m == "saturating_sub":
                sh = ("Nat", "Nat")
                cases.append(("g%d" % i, "(meth %s %s %d)" % (m, operand(sh, value_for(rng, sh)), abs(value_for(rng, sh)))))
            elif m == "invert":
                cases.append(("g%d" % i, "(meth invert (Bool Bool %d))" % rng.below(2)))
            elif m == "mutate":
                sh = rng.pick([("Int", "Int"), ("Nat", "Nat"), ("Bool", "Bool")])
                cases.append(("g%d" % i, "(meth mutate %s)" % operand(sh, value_for(rng, sh))))
            elif m == "copy":
                sh = rng.pick([("IntMut", "Int"), ("NatMut", "Nat"), ("BoolMut", "Bool")])
                cases.append(("g%d" % i, "(meth copy %s)" % operand(sh, value_for(rng, sh))))
            else:
                sh = rng.pick([("IntMut", "Int"), ("NatMut", "Nat")])
                cases.append(("g%d" % i, "(meth %s %s %d)" % (m, operand(sh, value_for(rng, sh)), rng.pick(SMALL))))
        i += 1
    return cases


def main():
    core = sys.argv[1]
    mode = sys.argv[2]
    C = load(core)
    out = sys.stdout
    if mode == "gen":
        av = sys.argv[3:]
        seed = int(av[av.index("--seed") + 1]) if "--seed" in av else 0
        n = int(av[av.index("--n") + 1]) if "--n" in av else 100
        tier = av[av.index("--tier") + 1] if "--tier" in av else "quick"
        cases = gen_cases(seed, n, tier)
    else:
        cases = []
        for l in sys.stdin:
            l = l.rstrip("\n")
            if l:
                p = l.split("\t")
                cases.append((p[0], p[1] if len(p) > 1 else ""))
    for cid, inp in cases:
        out.write("%s\t%s\t%s\n" % (cid, inp, run_case(C, inp)))
    out.flush()


if __name__ == "__main__":
    main()
