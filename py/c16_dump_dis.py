"""C16 table dump, run under each installed interpreter (absolute path; see vlib/core.PYTHONS).
Prints one JSON object: version, dis.opmap, dis.hasjrel, dis.hasjabs, importlib.util.MAGIC_NUMBER (4 bytes)."""
import dis
import importlib.util
import json
import sys

print(json.dumps({
    "version": [sys.version_info[0], sys.version_info[1], sys.version_info[2]],
    "opmap": dict(sorted(dis.opmap.items())),
    "hasjrel": sorted(dis.hasjrel),
    "hasjabs": sorted(dis.hasjabs),
    "magic": list(importlib.util.MAGIC_NUMBER),
}, sort_keys=True))
