"""py/c34_runpyc.py <dir> <erg lib dir> — run every <dir>/*.pyc produced by the real code generator in this interpreter (one
process: the Erg runtime modules are imported once), each in a fresh `__main__`-like namespace with stdout captured.
Prints one JSON object: {file stem: {"out": <stdout>, "exc": <exception class or "">, "msg": <str(exception)>}}."""
import contextlib
import io
import json
import marshal
import os
import sys

d, lib = sys.argv[1], sys.argv[2]
sys.path.insert(0, lib)
res = {}
for fn in sorted(os.listdir(d)):
    if not fn.endswith(".pyc"):
        continue
    data = open(os.path.join(d, fn), "rb").read()
    buf = io.StringIO()
    exc, msg = "", ""
    try:
        code = marshal.loads(data[16:])
        with contextlib.redirect_stdout(buf):
            exec(code, {"__name__": "__main__", "__builtins__": __builtins__})
    except SystemExit as e:
        exc, msg = "SystemExit", str(e)
    except BaseException as e:
        exc, msg = type(e).__name__, str(e)
    res[fn[:-4]] = {"out": buf.getvalue(), "exc": exc, "msg": msg[:300]}
json.dump(res, sys.stdout)
