"""C14 table generator, run under each target interpreter: prints one JSON object describing every opcode of the running interpreter
(flags from `opcode`/`dis`, stack effects from dis.stack_effect per edge, inline cache entries). checks/c14.py merges the five outputs
into lean/ErgVerif/Gen/C14Tables.lean."""
import dis
import json
import opcode
import sys

MINOR = sys.version_info[1]
NOFALL = {"JUMP_FORWARD", "JUMP_ABSOLUTE", "JUMP_BACKWARD", "JUMP_BACKWARD_NO_INTERRUPT", "RETURN_VALUE", "RAISE_VARARGS", "RERAISE",
          "CONTINUE_LOOP", "BREAK_LOOP"}


def eff(op, arg, jump):
    try:
        if MINOR >= 8:
            return dis.stack_effect(op, arg, jump=jump)
        return dis.stack_effect(op, arg)
    except (ValueError, TypeError):
        return None


def effspec(op, has_arg, jump):
    """('lin', base, slope) when linear on 0..255 and at 256, 1000, 65535; ('tab', [256 values]) otherwise; None when undefined"""
    if not has_arg:
        e = eff(op, None, jump)
        return None if e is None else ["lin", e, 0]
    vals = [eff(op, a, jump) for a in range(256)]
    if any(v is None for v in vals):
        return None
    base, slope = vals[0], vals[1] - vals[0]
    if all(vals[a] == base + slope * a for a in range(256)) and all(eff(op, a, jump) == base + slope * a for a in (256, 1000, 65535)):
        return ["lin", base, slope]
    return ["tab", vals]


ops = []
caches = getattr(opcode, "_inline_cache_entries", [0] * 256)
for op in range(256):
    name = opcode.opname[op]
    if name.startswith("<"):
        ops.append(None)
        continue
    has_arg = op >= opcode.HAVE_ARGUMENT
    idx = 0
    if op in opcode.hasconst:
        idx = 1
    elif op in opcode.hasname:
        idx = 2
    elif op in opcode.haslocal:
        idx = 3
    elif op in opcode.hasfree:
        idx = 4
    ops.append({"op": op, "name": name, "hasArg": has_arg, "jrel": op in opcode.hasjrel, "jabs": op in opcode.hasjabs,
                "back": "BACKWARD" in name, "nofall": name in NOFALL, "effNo": effspec(op, has_arg, False),
                "effJump": effspec(op, has_arg, True), "caches": caches[op] if op < len(caches) else 0, "idx": idx,
                "idxShift": 1 if (MINOR >= 11 and name == "LOAD_GLOBAL") else 0,
                # prologue instructions the interpreter's own compiler emits without a source line (line 0 / None)
                "lineExempt": name in ("RESUME", "MAKE_CELL", "COPY_FREE_VARS")})
json.dump({"minor": MINOR, "ops": ops, "EXTENDED_ARG": opcode.EXTENDED_ARG}, sys.stdout)
