"""C25 helper: runs the `MessageStream` class of src/scripts/repl_server.py (the text before the server socket is created)
against a fake socket whose recv/send results are split by a given schedule.

  python c25_fake_socket.py <repl_server.py> tables          -> JSON of the INST constants
  python c25_fake_socket.py <repl_server.py> run < cases     -> `id \\t input \\t impl-output` per case, plus chain rows

Fake socket semantics (mirrors ErgVerif.C25.Sock / WSock): the k-th recv(n) returns a non-empty prefix of the bytes in
flight, at most n bytes and at most max(1, k-th schedule entry); an exhausted schedule means "as much as asked"; an
empty result only at end of stream. send(b) accepts a non-empty prefix likewise and returns its length; sendall(b)
loops over send. Every call consumes one schedule entry. Works on Python 3.6+.
"""
import json
import sys


# ------------------------------------------------------------------------------------------------- extraction

def load_classes(path):
    src = open(path, encoding="utf-8").read()
    cut = src.find("server_socket = socket.socket()")
    if cut < 0:
        raise SystemExit("cannot find the server socket creation in " + path)
    ns = {"__name__": "repl_server_classes"}
    exec(compile(src[:cut], path, "exec"), ns)
    return ns


# ------------------------------------------------------------------------------------------------- fake socket

class FakeSocket:
    def __init__(self, data=b"", rsched=(), wsched=()):
        self.data = bytes(data)
        self.pos = 0
        self.rsched = list(rsched)
        self.wsched = list(wsched)
        self.written = bytearray()
        self.recv_calls = 0

    def recv(self, n, flags=0):
        self.recv_calls += 1
        if self.rsched:
            cap = max(1, min(self.rsched.pop(0), n))
        else:
            cap = n
        k = min(cap, n)
        chunk = self.data[self.pos:self.pos + k]
        self.pos += len(chunk)
        return chunk

    def send(self, b, flags=0):
        b = bytes(b)
        if self.wsched:
            cap = max(1, min(self.wsched.pop(0), len(b)))
        else:
            cap = len(b)
        k = min(cap, len(b))
        self.written += b[:k]
        return k

    def sendall(self, b, flags=0):
        b = bytes(b)
        while b:
            k = self.send(b)
            if k == 0:
                raise OSError("send returned 0")
            b = b[k:]

    def close(self):
        pass


# ------------------------------------------------------------------------------------------------- s-expressions

def parse_sexp(s):
    pos = 0
    n = len(s)

    def skip():
        nonlocal pos
        while pos < n and s[pos] in " \t\r\n":
            pos += 1

    def one():
        nonlocal pos
        skip()
        if pos >= n:
            raise ValueError("eof")
        c = s[pos]
        if c == "(":
            pos += 1
            xs = []
            while True:
                skip()
                if pos >= n:
                    raise ValueError("unclosed")
                if s[pos] == ")":
                    pos += 1
                    return xs
                xs.append(one())
        if c == '"':
            j = s.index('"', pos + 1)      # hex strings only: no escapes
            v = ("str", s[pos + 1:j])
            pos = j + 1
            return v
        j = pos
        while j < n and s[j] not in ' \t\r\n()"':
            j += 1
        v = s[pos:j]
        pos = j
        return v

    out = []
    while True:
        skip()
        if pos >= n:
            return out
        out.append(one())


def ev_bytes(x):
    """bytes ::= "hex" | (rep N B) | (cat bytes...)"""
    if isinstance(x, tuple):
        return bytes.fromhex(x[1])
    if isinstance(x, list) and x and x[0] == "rep":
        return bytes([int(x[2])]) * int(x[1])
    if isinstance(x, list) and x and x[0] == "cat":
        return b"".join(ev_bytes(y) for y in x[1:])
    raise ValueError("bad bytes expression")


def field(xs, key):
    for x in xs:
        if isinstance(x, list) and x and x[0] == key:
            return x[1:]
    return None


def fnv(b):
    h = 0xcbf29ce484222325
    for x in b:
        h ^= x
        h = (h * 0x100000001b3) & 0xFFFFFFFFFFFFFFFF
    return h


def pb(b):
    """canonical printing of a byte string (mirrors the harness and the Lean driver)"""
    b = bytes(b)
    if len(b) <= 48:
        return '"' + b.hex() + '"'
    return '(big %d %016x "%s" "%s")' % (len(b), fnv(b), b[:8].hex(), b[-8:].hex())


# ------------------------------------------------------------------------------------------------- cases

def run_ptx(ns, xs, raw_input):
    inst = int(field(xs, "inst")[0])
    text_b = ev_bytes(field(xs, "text")[0])
    wsched = [int(v) for v in field(xs, "wsched")]
    sock = FakeSocket(wsched=wsched)
    stream = ns["MessageStream"](sock)
    try:
        text = text_b.decode("utf-8")
    except UnicodeDecodeError:
        return "bad-input(text is not utf-8)", None
    try:
        stream.send_msg(inst, text)
        status = "ok"
    except Exception as e:      # noqa: the exception class is the outcome
        status = "(err %s)" % type(e).__name__
    out = "(wire %s) %s" % (pb(sock.written), status)
    chain = None
    if status == "ok":
        # Python -> Rust chain row: the bytes really written, in compact form when they are header + text
        w = bytes(sock.written)
        textexpr = raw_field_text(raw_input, "text")
        if w[3:] == text_b and textexpr is not None:
            wire = '(cat "%s" %s)' % (w[:3].hex(), textexpr)
        else:
            wire = '"%s"' % w.hex()
        chain = "(rrx (wire %s) (rsched %s) (n 2) (sent (%d %s)))" % (
            wire, " ".join(str(v) for v in chain_sched(w, wsched)), inst, textexpr or ('"%s"' % text_b.hex()))
    return out, chain


def chain_sched(w, wsched):
    """a read schedule for the chained receiver, derived from the case (deterministic)"""
    h = fnv(w[:64] + bytes([len(wsched) & 255]))
    kind = h % 4
    if kind == 0:
        return [1] * 12
    if kind == 1:
        return [2, 1, 3, 1, 7]
    if kind == 2:
        return [1 + (h >> (4 * i)) % 9 for i in range(10)]
    return [1, 1, 1, 1000, 1, 50000]


def raw_field_text(raw, key):
    """the source text of field `key`'s single argument inside the raw input line (keeps compact forms compact)"""
    i = raw.find("(" + key + " ")
    if i < 0:
        return None
    j = i + len(key) + 2
    depth = 0
    k = j
    instr = False
    while k < len(raw):
        c = raw[k]
        if instr:
            if c == '"':
                instr = False
        elif c == '"':
            instr = True
        elif c == "(":
            depth += 1
        elif c == ")":
            if depth == 0:
                return raw[j:k].strip()
            depth -= 1
        k += 1
    return None


def run_prx(ns, xs):
    wire = ev_bytes(field(xs, "wire")[0])
    rsched = [int(v) for v in field(xs, "rsched")]
    n = int(field(xs, "n")[0])
    sock = FakeSocket(data=wire, rsched=rsched)
    stream = ns["MessageStream"](sock)
    outs = []
    for _ in range(n):
        try:
            inst, text = stream.recv_msg()
            outs.append("(msg %d %s)" % (inst, pb(text.encode("utf-8", "surrogatepass"))))
        except Exception as e:      # noqa
            outs.append("(err %s)" % type(e).__name__)
            break
    return " ".join(outs) if outs else "()"


class _FakeServerSocket:
    def __init__(self, conn):
        self.conn = conn

    def bind(self, addr):
        pass

    def listen(self, n=0):
        pass

    def accept(self):
        return (self.conn, ('127.0.0.1', 0))

    def close(self):
        pass


class _FakeSocketModule:
    def __init__(self, conn):
        self.conn = conn

    def socket(self, *a, **kw):
        return _FakeServerSocket(self.conn)


def run_srv(path, xs):
    """the whole of repl_server.py (main loop included) with the `socket` module replaced: one connection whose incoming
    bytes and read/write splitting are given; returns what the server wrote and how the script ended"""
    wire = ev_bytes(field(xs, "wire")[0])
    rsched = [int(v) for v in field(xs, "rsched")]
    wsched = [int(v) for v in field(xs, "wsched")]
    conn = FakeSocket(data=wire, rsched=rsched, wsched=wsched)
    src = open(path, encoding="utf-8").read().replace("__PORT__", "0").replace("__MODULE__", "c25_no_such_module")
    saved_mod, saved_out = sys.modules.get("socket"), sys.stdout
    sys.modules["socket"] = _FakeSocketModule(conn)
    end = "normal"
    try:
        exec(compile(src, path, "exec"), {"__name__": "repl_server_under_test"})
    except BaseException as e:      # noqa: the exception class is the outcome (SystemExit included)
        end = type(e).__name__
    finally:
        sys.stdout = saved_out
        if saved_mod is not None:
            sys.modules["socket"] = saved_mod
        else:
            sys.modules.pop("socket", None)
    return "(written %s) (end %s)" % (pb(conn.written), end)


def main():
    path, mode = sys.argv[1], sys.argv[2]
    ns = load_classes(path)
    if mode == "tables":
        inst = ns["INST"]
        print(json.dumps({k: getattr(inst, k) for k in dir(inst) if not k.startswith("_")}, sort_keys=True))
        return
    out = sys.stdout
    for line in sys.stdin:
        line = line.rstrip("\n")
        if not line:
            continue
        parts = line.split("\t")
        cid, inp = parts[0], parts[1]
        try:
            xs = parse_sexp(inp)[0]
            kind = xs[0]
            chain = None
            if kind == "ptx":
                res, chain = run_ptx(ns, xs[1:], inp)
            elif kind == "prx":
                res = run_prx(ns, xs[1:])
            elif kind == "srv":
                res = run_srv(path, xs[1:])
            else:
                res = "bad-input(kind)"
        except Exception as e:      # noqa
            res = "crash(%s: %s)" % (type(e).__name__, str(e)[:80].replace("\t", " ").replace("\n", " "))
            chain = None
        out.write("%s\t%s\t%s\n" % (cid, inp, res))
        if chain:
            out.write("c:%s\t%s\t?\n" % (cid, chain))
    out.flush()


if __name__ == "__main__":
    main()
