#!/usr/bin/env python3
"""C26 T-gen: translate erg's runtime classes into the term language of lean/ErgVerif/C26/Model.lean.

usage: c26_extract_runtime.py <lib/core directory> <out.lean> [<summary.json>]

Parses _erg_int.py _erg_nat.py _erg_bool.py _erg_type.py (the int/bool family: `family` table, the object of the
theorems) and _erg_float.py _erg_str.py _erg_list.py (the `rest` table: emitted, hashed and pattern-checked, but only
executed by the oracle) with `ast`; _erg_control.py is checked to define `then__` in the shape the model's `then_`
assumes. Per class: its bases, the recognised shape of `__init__`, and per dunder method a term; a body the translator
does not recognise becomes `opaque` (listed in the summary; such a method is tie-only). Run under python 3.9+.
"""
import ast
import hashlib
import json
import os
import sys

FAMILY_FILES = ["_erg_type.py", "_erg_int.py", "_erg_nat.py", "_erg_bool.py"]
REST_FILES = ["_erg_float.py", "_erg_str.py", "_erg_list.py"]
KNOWN_CLS = {"object": "object", "int": "pyint", "bool": "pybool", "MutType": "MutType", "Int": "Int", "Nat": "Nat",
             "Bool": "Bool", "IntMut": "IntMut", "NatMut": "NatMut", "BoolMut": "BoolMut"}
FAMILY_CLASSES = ["MutType", "Int", "IntMut", "Nat", "NatMut", "Bool", "BoolMut"]
OPS = {"add": "add", "sub": "sub", "mul": "mul", "floordiv": "floordiv", "mod": "mod", "pow": "pow",
       "eq": "eq", "ne": "ne", "lt": "lt", "le": "le", "gt": "gt", "ge": "ge"}
ARITH = ["add", "sub", "mul", "floordiv", "mod", "pow"]
UOPS = {"neg": "neg", "pos": "pos"}
AST_BIN = {ast.Add: "add", ast.Sub: "sub", ast.Mult: "mul", ast.FloorDiv: "floordiv", ast.Mod: "mod", ast.Pow: "pow"}
AST_CMP = {ast.Eq: "eq", ast.NotEq: "ne", ast.Lt: "lt", ast.LtE: "le", ast.Gt: "gt", ast.GtE: "ge"}
AST_UN = {ast.USub: "neg", ast.UAdd: "pos"}


class Intern:
    def __init__(self):
        self.ids = {}

    def get(self, name):
        if name not in self.ids:
            self.ids[name] = len(self.ids)
        return self.ids[name]


CLS_IDS = Intern()
METH_IDS = Intern()


def cls_term(name):
    if name in KNOWN_CLS:
        return "." + KNOWN_CLS[name]
    return "(.other %d)" % CLS_IDS.get(name)


def meth_term(name):
    core = name[2:-2] if name.startswith("__") and name.endswith("__") else None
    if core in OPS:
        return "(.dunder .%s)" % OPS[core]
    if core and core.startswith("r") and core[1:] in ARITH:
        return "(.rdunder .%s)" % core[1:]
    if core in UOPS:
        return "(.udunder .%s)" % UOPS[core]
    if name == "__init__":
        return ".init"
    return "(.other %d)" % METH_IDS.get(name)


class Opaque(Exception):
    pass


class MethodTranslator:
    def __init__(self, params):
        self.selfn = params[0] if params else None
        self.othern = params[1] if len(params) > 1 else None

    def arg(self, e):
        if isinstance(e, ast.Name):
            if e.id == self.selfn:
                return "self"
            if e.id == self.othern:
                return "other"
        if isinstance(e, ast.Attribute) and e.attr == "value" and isinstance(e.value, ast.Name):
            if e.value.id == self.selfn:
                return "selfVal"
            if e.value.id == self.othern:
                return "otherVal"
        return None

    def clssel(self, e):
        if isinstance(e, ast.Name):
            return "(.const %s)" % cls_term(e.id)
        if (isinstance(e, ast.IfExp) and isinstance(e.body, ast.Name) and isinstance(e.orelse, ast.Name)
                and isinstance(e.test, ast.Call) and isinstance(e.test.func, ast.Name) and e.test.func.id == "isinstance"
                and len(e.test.args) == 2 and isinstance(e.test.args[1], ast.Name) and not e.test.keywords):
            a = self.arg(e.test.args[0])
            if a:
                return "(.ifInst .%s %s %s %s)" % (a, cls_term(e.test.args[1].id), cls_term(e.body.id), cls_term(e.orelse.id))
        raise Opaque()

    def tm(self, e):
        a = self.arg(e)
        if a:
            return "(.arg .%s)" % a
        if isinstance(e, ast.BinOp) and type(e.op) in AST_BIN:
            return "(.binop .%s %s %s)" % (AST_BIN[type(e.op)], self.tm(e.left), self.tm(e.right))
        if isinstance(e, ast.Compare) and len(e.ops) == 1 and type(e.ops[0]) in AST_CMP:
            return "(.binop .%s %s %s)" % (AST_CMP[type(e.ops[0])], self.tm(e.left), self.tm(e.comparators[0]))
        if isinstance(e, ast.UnaryOp) and type(e.op) in AST_UN:
            return "(.unop .%s %s)" % (AST_UN[type(e.op)], self.tm(e.operand))
        if isinstance(e, ast.Call) and not e.keywords:
            f = e.func
            if isinstance(f, ast.Name) and f.id == "then__" and len(e.args) == 2:
                return "(.then_ %s %s)" % (self.tm(e.args[0]), self.clssel(e.args[1]))
            if isinstance(f, ast.Attribute) and isinstance(f.value, ast.Name) and f.attr.startswith("__") and f.value.id not in (self.selfn, self.othern):
                if len(e.args) == 2:
                    return "(.baseCall %s %s %s %s)" % (cls_term(f.value.id), meth_term(f.attr), self.tm(e.args[0]), self.tm(e.args[1]))
                if len(e.args) == 1:
                    return "(.baseCall1 %s %s %s)" % (cls_term(f.value.id), meth_term(f.attr), self.tm(e.args[0]))
            if (isinstance(f, ast.Attribute) and isinstance(f.value, ast.Call) and isinstance(f.value.func, ast.Name)
                    and f.value.func.id == "super" and not f.value.args and len(e.args) == 1):
                return "(.superCall %s %s)" % (meth_term(f.attr), self.tm(e.args[0]))
            if isinstance(f, ast.Name) and len(e.args) == 1 and (f.id in KNOWN_CLS or f.id[:1].isupper()):
                return "(.construct %s %s)" % (cls_term(f.id), self.tm(e.args[0]))
        raise Opaque()

    def is_mut_test(self, t):
        return (isinstance(t, ast.Call) and isinstance(t.func, ast.Name) and t.func.id == "isinstance" and len(t.args) == 2
                and self.arg(t.args[0]) == "other" and isinstance(t.args[1], ast.Name) and t.args[1].id == "MutType")

    def body(self, stmts):
        stmts = [s for s in stmts if not (isinstance(s, ast.Expr) and isinstance(s.value, ast.Constant))]  # docstrings
        try:
            if len(stmts) == 1 and isinstance(stmts[0], ast.Return) and stmts[0].value is not None:
                return self.tm(stmts[0].value)
            if (len(stmts) == 1 and isinstance(stmts[0], ast.If) and self.is_mut_test(stmts[0].test)
                    and len(stmts[0].body) == 1 and isinstance(stmts[0].body[0], ast.Return)
                    and len(stmts[0].orelse) == 1 and isinstance(stmts[0].orelse[0], ast.Return)):
                return "(.ifMut %s %s)" % (self.tm(stmts[0].body[0].value), self.tm(stmts[0].orelse[0].value))
        except Opaque:
            pass
        return ".opaque"


def init_kind(fn):
    params = [a.arg for a in fn.args.args]
    if len(params) != 2:
        return "InitKind.opaque"
    selfn, p = params
    stmts = [s for s in fn.body if not (isinstance(s, ast.Expr) and isinstance(s.value, ast.Constant))]

    def is_check(s):
        return (isinstance(s, ast.If) and not s.orelse and isinstance(s.test, ast.Compare) and len(s.test.ops) == 1
                and isinstance(s.test.ops[0], ast.Lt) and isinstance(s.test.left, ast.Call)
                and isinstance(s.test.left.func, ast.Name) and s.test.left.func.id == "int" and len(s.test.left.args) == 1
                and isinstance(s.test.left.args[0], ast.Name) and s.test.left.args[0].id == p
                and isinstance(s.test.comparators[0], ast.Constant) and s.test.comparators[0].value == 0
                and len(s.body) == 1 and isinstance(s.body[0], ast.Raise) and isinstance(s.body[0].exc, ast.Call)
                and isinstance(s.body[0].exc.func, ast.Name) and s.body[0].exc.func.id == "ValueError")

    def store_of(s):
        if (isinstance(s, ast.Assign) and len(s.targets) == 1 and isinstance(s.targets[0], ast.Attribute)
                and s.targets[0].attr == "value" and isinstance(s.targets[0].value, ast.Name) and s.targets[0].value.id == selfn):
            v = s.value
            if isinstance(v, ast.Name) and v.id == p:
                return "plain"
            if (isinstance(v, ast.Call) and isinstance(v.func, ast.Name) and len(v.args) == 1 and not v.keywords
                    and isinstance(v.args[0], ast.Name) and v.args[0].id == p):
                return v.func.id
        return None

    if len(stmts) == 1 and is_check(stmts[0]):
        return "InitKind.checkNonneg"
    if len(stmts) == 1 and store_of(stmts[0]) == "plain":
        return "InitKind.store"
    if len(stmts) == 1 and store_of(stmts[0]):
        return "(InitKind.storeWrapped %s)" % cls_term(store_of(stmts[0]))
    if len(stmts) == 2 and is_check(stmts[0]) and store_of(stmts[1]) == "plain":
        return "InitKind.checkStore"
    return "InitKind.opaque"


def translate_class(c, summary, fname, family):
    bases = [b.id if isinstance(b, ast.Name) else ast.unparse(b) for b in c.bases]
    if len(bases) > 1:
        summary["problems"].append("%s: multiple inheritance (%s) is outside the model" % (c.name, ", ".join(bases)))
    if not bases:
        bases = ["object"]
    init = "none"
    methods = []
    for s in c.body:
        if not isinstance(s, ast.FunctionDef):
            continue
        if s.name == "__init__":
            init = "(some %s)" % init_kind(s)
            if "opaque" in init:
                summary["opaque"].append("%s.__init__" % c.name)
            continue
        if not (s.name.startswith("__") and s.name.endswith("__")):
            summary["named_methods"].append("%s.%s" % (c.name, s.name))
            continue
        params = [a.arg for a in s.args.args]
        if s.args.vararg or s.args.kwarg or s.args.kwonlyargs or s.args.defaults or len(params) > 2:
            t = ".opaque"
        else:
            t = MethodTranslator(params).body(s.body)
        if t == ".opaque" and not (family and meth_term(s.name).startswith("(.other")):
            summary["opaque"].append("%s.%s" % (c.name, s.name))
        if family and meth_term(s.name).startswith("(.other"):
            # not an operator dunder (__int__, __repr__, __hash__, __truediv__, ...): irrelevant to the modelled dispatch
            summary["non_operator_dunders"].append("%s.%s" % (c.name, s.name))
            continue
        methods.append((s.name, meth_term(s.name), t))
    methods.sort(key=lambda m: m[1])
    summary["classes"].append({"name": c.name, "file": fname, "bases": bases, "methods": len(methods)})
    lines = ["  { cls := %s, bases := [%s], init := %s," % (cls_term(c.name), ", ".join(cls_term(b) for b in bases), init),
             "    methods := ["]
    lines.append(",\n".join("      (%s, %s)  /- %s -/" % (m, t, n) if False else "      (%s, %s)" % (m, t) for n, m, t in methods))
    lines.append("    ] }")
    return "\n".join(lines)


def check_then(core, summary):
    """`then__` must be: if x is None or x is NotImplemented: return x  else: return f(x)"""
    src = open(os.path.join(core, "_erg_control.py")).read()
    ok = False
    for n in ast.parse(src).body:
        if isinstance(n, ast.FunctionDef) and n.name == "then__":
            want = "if x is None or x is NotImplemented:\n    return x\nelse:\n    return f(x)"
            got = "\n".join(ast.unparse(s) for s in n.body)
            ok = [a.arg for a in n.args.args] == ["x", "f"] and got == want
            summary["then__"] = got
    return ok


def main():
    core, out = sys.argv[1], sys.argv[2]
    summary = {"classes": [], "opaque": [], "non_operator_dunders": [], "named_methods": [], "problems": [], "hashes": {}}
    tables = {}
    for key, files in (("family", FAMILY_FILES), ("rest", REST_FILES)):
        rows = []
        for fn in files:
            src = open(os.path.join(core, fn)).read()
            summary["hashes"][fn] = hashlib.sha256(src.encode()).hexdigest()[:16]
            for n in ast.parse(src).body:
                if isinstance(n, ast.ClassDef):
                    if key == "family" and n.name not in FAMILY_CLASSES:
                        continue        # helper classes of _erg_type.py (UnionType, FakeGenericAlias, ...)
                    rows.append(translate_class(n, summary, fn, key == "family"))
        tables[key] = rows
    then_ok = check_then(core, summary)
    summary["then_ok"] = then_ok
    if not then_ok:
        summary["problems"].append("then__ no longer has the shape the model's `then_` assumes")
    text = ["/- GENERATED on every run by checks/c26.py (py/c26_extract_runtime.py) from crates/erg_compiler/lib/core/_erg_*.py of the",
            "   working tree. Never edit by hand.",
            "   interned class ids: " + ", ".join("%d=%s" % (v, k) for k, v in CLS_IDS.ids.items()),
            "   interned method ids: " + ", ".join("%d=%s" % (v, k) for k, v in METH_IDS.ids.items()) + " -/",
            "import ErgVerif.C26.Model",
            "namespace ErgVerif.Gen.C26",
            "open ErgVerif.C26",
            "",
            "/-- `then__` of _erg_control.py has the shape `if x is None or x is NotImplemented: return x else: return f(x)` -/",
            "def thenOk : Bool := %s" % ("true" if then_ok else "false"),
            "",
            "/-- the int/bool family (object of the theorems) -/",
            "def runtime : Table := [",
            ",\n".join(tables["family"]),
            "]",
            "",
            "/-- Float/Str/List classes: emitted for the record (pattern-checked by the check, executed by the oracle) -/",
            "def rest : Table := [",
            ",\n".join(tables["rest"]),
            "]",
            "",
            "end ErgVerif.Gen.C26",
            ""]
    text = "\n".join(text)
    summary["cls_ids"] = CLS_IDS.ids
    summary["meth_ids"] = METH_IDS.ids
    summary["lean_sha"] = hashlib.sha256(text.encode()).hexdigest()[:16]
    old = open(out).read() if os.path.exists(out) else None
    if old != text:
        open(out, "w").write(text)
    if len(sys.argv) > 3:
        json.dump(summary, open(sys.argv[3], "w"), indent=1)
    else:
        json.dump(summary, sys.stdout, indent=1)


if __name__ == "__main__":
    main()
