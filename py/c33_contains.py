"""C33 helper: run the REAL `contains_operator` (crates/erg_compiler/lib/core/_erg_contains_operator.py of the tree under test)
on (pattern, value) rows. stdin: JSON lines {"id", "pat", "val"} with pat/val in a small tagged form; stdout: id \\t true|false|crash:<exc>
usage: python3.11 c33_contains.py <lib/core dir>"""
import json
import sys

sys.path.insert(0, sys.argv[1])
from _erg_contains_operator import contains_operator  # noqa: E402
from _erg_int import Int  # noqa: E402
from _erg_nat import Nat  # noqa: E402
from _erg_str import Str  # noqa: E402
from _erg_range import ClosedRange, LeftOpenRange, OpenRange, RightOpenRange  # noqa: E402
from _erg_type import UnionType  # noqa: E402


def lit(v):
    if v[0] == "int":
        return Nat(v[1]) if v[1] >= 0 else Int(v[1])
    return Str(v[1])


def pat(p):
    k = p[0]
    if k == "class":
        return {"Int": Int, "Nat": Nat, "Str": Str, "Obj": object}[p[1]]
    if k == "range":
        cls = {"cc": ClosedRange, "oc": LeftOpenRange, "co": RightOpenRange, "oo": OpenRange}[p[1]]
        return cls(lit(["int", p[2]]), lit(["int", p[3]]))
    if k == "enum":
        return set(lit(x) for x in p[1])
    if k == "or":
        return UnionType(*[pat(x) for x in p[1]])
    raise ValueError(k)


for line in sys.stdin:
    line = line.strip()
    if not line:
        continue
    r = json.loads(line)
    try:
        out = "true" if contains_operator(pat(r["pat"]), lit(r["val"])) else "false"
    except Exception as e:  # a crash is an outcome
        out = "crash:%s" % type(e).__name__
    print("%s\t%s" % (r["id"], out))
