"""C15 oracle: marshal.loads under the running interpreter, printed as the attribute view the Lean driver prints for
`Spec.PyMarshal` (`pyShow` in lean/Driver/C15.lean). stdin: `id \\t (pyread <minor> x<hex>)`; stdout: `id \\t input \\t view`.
Run under every interpreter of core.PYTHONS whose minor version equals <minor> of the case (other cases are skipped)."""
import io
import marshal
import struct
import sys

MINOR = sys.version_info[1]


def hx(b):
    return "x" + bytes(b).hex()


def show(v):
    t = type(v)
    if v is None:
        return "none"
    if t is bool:
        return "true" if v else "false"
    if t is int:
        return "(int %d)" % v
    if t is float:
        return "(float %016x)" % struct.unpack("<Q", struct.pack("<d", v))[0]
    if t is str:
        return "(str" + "".join(" %x" % ord(c) for c in v) + ")"
    if t is bytes:
        return "(bytes %s)" % hx(v)
    if t is tuple:
        return "(tuple" + "".join(" " + show(x) for x in v) + ")"
    if t.__name__ == "code":
        c = v
        lt = c.co_linetable if MINOR >= 10 else c.co_lnotab
        return "(code %d %d %d %d %d %d %d %s %s %s %s %s %s %s %s %s %s %s)" % (
            c.co_argcount, getattr(c, "co_posonlyargcount", 0), c.co_kwonlyargcount, c.co_nlocals, c.co_stacksize, c.co_flags,
            c.co_firstlineno, show(c.co_code), show(c.co_consts), show(c.co_names), show(c.co_varnames), show(c.co_freevars),
            show(c.co_cellvars), show(c.co_filename), show(c.co_name), show(getattr(c, "co_qualname", c.co_name)), show(lt),
            show(getattr(c, "co_exceptiontable", b"")))
    return "(other %s)" % t.__name__


for line in sys.stdin:
    line = line.rstrip("\n")
    if not line:
        continue
    cid, inp = line.split("\t")[:2]
    parts = inp.strip("()").split(" ")
    if parts[0] != "pyread" or int(parts[1]) != MINOR:
        continue
    data = bytes.fromhex(parts[2][1:])
    try:
        f = io.BytesIO(data)
        v = marshal.load(f)          # reads exactly the bytes of one object from a non-file stream
        out = show(v) if f.tell() == len(data) else "(raise trailing)"
    except Exception as e:
        out = "(raise)"
    print("%s\t%s\t%s" % (cid, inp, out))
    sys.stdout.flush()
