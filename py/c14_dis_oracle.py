"""C14 oracle, run under the interpreter matching the target: for every code object (recursively, outermost first, constants in order)
prints what `dis` says — instruction offsets, opcodes, folded arguments, jump targets, lines — and the maximal operand-stack depth found
by a worklist over dis.stack_effect. stdin: `id \\t (dis <minor> <nlines> x<hex>)`; stdout: `id \\t input \\t report`.
Additionally emits `own:<k>` cases: code objects compiled by this interpreter's own compiler from fixed Python sources, which the Lean
validator must decode identically and accept."""
import dis
import marshal
import sys
import types

MINOR = sys.version_info[1]
EXT = dis.opmap["EXTENDED_ARG"]
NOFALL = {"JUMP_FORWARD", "JUMP_ABSOLUTE", "JUMP_BACKWARD", "JUMP_BACKWARD_NO_INTERRUPT", "RETURN_VALUE", "RAISE_VARARGS", "RERAISE",
          "CONTINUE_LOOP", "BREAK_LOOP"}


def lines_of(co):
    """line per byte offset of each instruction, the interpreter's own reading of the table"""
    n = len(co.co_code)
    res = {}
    if MINOR >= 11:
        for i, pos in enumerate(co.co_positions()):
            res[2 * i] = pos[0]
    elif MINOR == 10:
        for start, end, line in co.co_lines():
            for off in range(start + start % 2, min(end, n), 2):
                res[off] = line
    else:
        # PyCode_Addr2Line semantics (what tracebacks use)
        tab = co.co_lnotab
        for off in range(0, n, 2):
            line, addr = co.co_firstlineno, 0
            for k in range(0, len(tab) - 1, 2):
                addr += tab[k]
                if addr > off:
                    break
                d = tab[k + 1]
                line += d - 256 if d >= 128 else d
            res[off] = line
    return res


def eff(op, arg, jump):
    try:
        if MINOR >= 8:
            return dis.stack_effect(op, arg, jump=jump)
        return dis.stack_effect(op, arg)
    except (ValueError, TypeError):
        return None


def report(co, with_lines=True):
    ins = list(dis.get_instructions(co)) if MINOR < 11 else list(dis.get_instructions(co, show_caches=False))
    lines = lines_of(co) if with_lines else {}
    out = []
    for i in ins:
        tgt = "-"
        if i.opcode in dis.hasjrel or i.opcode in dis.hasjabs:
            tgt = str(i.argval // 2) if i.argval % 2 == 0 else "odd"
        ln = lines.get(i.offset)
        out.append("(%d %d %d %s L%s)" % (i.offset // 2, i.opcode, i.arg if i.arg is not None else 0, tgt, "-" if ln is None else ln))
    return "(code (instrs %s))" % " ".join(out)


def all_codes(co):
    yield co
    for c in co.co_consts:
        if isinstance(c, types.CodeType):
            for x in all_codes(c):
                yield x


OWN = [
    "x = 1\ny = x + 2\nprint(y)\n",
    "def f(a, b=2):\n    c = a * b\n    return c - 1\nprint(f(3))\n",
    "for i in range(3):\n    if i % 2:\n        print(i)\n    else:\n        print(-i)\n",
    "i = 0\nwhile i < 3:\n    i += 1\nprint(i)\n",
    "def mk(x):\n    def inner(y):\n        return x + y\n    return inner\nprint(mk(1)(2))\n",
    "class P:\n    def __init__(self, v):\n        self.v = v\n    def get(self):\n        return self.v\nprint(P(3).get())\n",
    "l = [1, 2, 3]\nt = (1, 'a', 2.5)\nd = {'a': 1}\nprint(l[0], t, d['a'])\n",
    "\n".join("v%d = %d" % (j, 1000 + j) for j in range(300)) + "\nprint(v299)\n",
    "for i in range(3):\n" + "".join("    print(i + %d)\n" % j for j in range(150)),
    "with open('/dev/null') as fh:\n    print(fh.read())\n",
    "f = lambda x: x * 2\nprint(f(2), f'{f(1)} and {\"s\"}')\n",
    "x = 3\ny = 'big' if x > 2 else 'small'\nprint(y, x > 1 and x < 5)\n",
]

for line in sys.stdin:
    line = line.rstrip("\n")
    if not line:
        continue
    cid, inp = line.split("\t")[:2]
    parts = inp.strip("()").split(" ")
    if parts[0] != "dis" or int(parts[1]) != MINOR:
        continue
    co = marshal.loads(bytes.fromhex(parts[3][1:]))
    print("%s\t%s\t%s" % (cid, inp, " ".join(report(c) for c in all_codes(co))))
    sys.stdout.flush()

for k, src in enumerate(OWN):
    if MINOR == 7 and src.startswith("with "):
        # 3.7's dis.stack_effect has no per-edge form and is only an upper bound inside with/try blocks (END_FINALLY, WITH_CLEANUP_*):
        # an exact depth assignment need not exist for such code, so it is not part of the acceptance set for 3.7
        continue
    co = compile(src, "own%d.py" % k, "exec")
    data = marshal.dumps(co, 2)      # version 2: no FLAG_REF back-references, no short-ASCII forms
    print("own:%d:%d\t(dis %d %d x%s)\t%s" % (MINOR, k, MINOR, src.count("\n"), data.hex(), " ".join(report(c) for c in all_codes(co))))
