"""C04 oracle: the run-time value of a constant expression tree under CPython (the interpreter erg's bytecode runs on).

stdin : id \\t (core|fold|accept <e> ...)        (grammar in harness/src/bin/c04.rs)
stdout: id \\t <result>
  result ::= (val (int N)) | (val (bool true|false)) | (float <16 hex>) | (float nan) | raises:<Exception> | huge | noDemand
`noDemand`: operators the property does not speak about (bitwise operators on integers, `and`/`or`/`not` on non-Bool
operands - ill-typed in Erg -, range constructors, `as`, shifts) or an operand that already had no value.
`huge`: an integer power with more than 20000 bits (not computed).
Run with an absolute interpreter path (core.PYTHONS).
"""
import struct
import sys


class NoDemand(Exception):
    pass


class Huge(Exception):
    pass


def tokens(s):
    out, cur = [], ""
    for c in s:
        if c in "()":
            if cur:
                out.append(cur)
                cur = ""
            out.append(c)
        elif c.isspace():
            if cur:
                out.append(cur)
                cur = ""
        else:
            cur += c
    if cur:
        out.append(cur)
    return out


def parse(t, i):
    assert t[i] == "("
    head = t[i + 1]
    i += 2
    if head in ("int", "nat"):
        v = ("lit", int(t[i]))
        i += 1
    elif head == "bool":
        v = ("lit", t[i] == "true")
        i += 1
    elif head == "float":
        v = ("lit", float("nan") if t[i] == "nan" else struct.unpack(">d", bytes.fromhex(t[i]))[0])
        i += 1
    elif head == "bin":
        op = t[i]
        l, i = parse(t, i + 1)
        r, i = parse(t, i)
        v = ("bin", op, l, r)
    elif head == "un":
        op = t[i]
        e, i = parse(t, i + 1)
        v = ("un", op, e)
    else:
        raise ValueError(head)
    assert t[i] == ")"
    return v, i + 1


def isbool(x):
    return isinstance(x, bool)


def ev(e):
    if e[0] == "lit":
        return e[1]
    if e[0] == "un":
        op, a = e[1], ev(e[2])
        if op == "Pos":
            return +a
        if op == "Neg":
            return -a
        if op == "Invert":
            if isinstance(a, float):
                raise NoDemand()
            return ~a
        if op == "Not":
            if not isbool(a):
                raise NoDemand()
            return not a
        raise NoDemand()
    op, a, b = e[1], ev(e[2]), ev(e[3])
    if op == "Add":
        return a + b
    if op == "Sub":
        return a - b
    if op == "Mul":
        return a * b
    if op == "Div":
        return a / b
    if op == "FloorDiv":
        return a // b
    if op == "Mod":
        return a % b
    if op == "Pow":
        if isinstance(a, int) and isinstance(b, int) and b > 0 and abs(a) >= 2 and abs(a).bit_length() * b > 20000:
            raise Huge()
        return a ** b
    if op == "Gt":
        return a > b
    if op == "Ge":
        return a >= b
    if op == "Lt":
        return a < b
    if op == "Le":
        return a <= b
    if op == "Eq":
        return a == b
    if op == "Ne":
        return a != b
    if op in ("And", "BitAnd"):
        if isbool(a) and isbool(b):
            return a and b
        raise NoDemand()
    if op in ("Or", "BitOr"):
        if isbool(a) and isbool(b):
            return a or b
        raise NoDemand()
    if op == "BitXor":
        if isbool(a) and isbool(b):
            return a ^ b
        raise NoDemand()
    raise NoDemand()


def show(v):
    if isinstance(v, bool):
        return "(val (bool %s))" % ("true" if v else "false")
    if isinstance(v, int):
        return "(val (int %d))" % v
    if isinstance(v, float):
        if v != v:
            return "(float nan)"
        return "(float %s)" % struct.pack(">d", v).hex()
    return "other:" + type(v).__name__


def main():
    if hasattr(sys, "set_int_max_str_digits"):
        sys.set_int_max_str_digits(0)
    for line in sys.stdin:
        line = line.rstrip("\n")
        if not line:
            continue
        p = line.split("\t")
        t = tokens(p[1])
        try:
            e, _ = parse(t, 2)
            try:
                out = show(ev(e))
            except NoDemand:
                out = "noDemand"
            except Huge:
                out = "huge"
            except (ZeroDivisionError, OverflowError, ValueError, TypeError) as ex:
                out = "raises:" + type(ex).__name__
        except Exception as ex:  # unreadable input
            out = "bad-input:" + type(ex).__name__
        sys.stdout.write(p[0] + "\t" + out + "\n")


main()
