"""C27: top-level names (and, one level down, class-body names) that the bundled typeshed stubs define for a list of stdlib
modules, across ALL `sys.platform` branches and every `sys.version_info` branch reachable for a supported version
(3.7-3.13); both arms of every other `if`, `try`, `with` are walked.
usage : python c27_typeshed.py <typeshed stdlib dir>      stdin: JSON {"modules": [M...]}
stdout: JSON {"modules": {M: {"stub": relative path | null, "names": [...], "classes": {C: [...]}}}}
Star imports are expanded from the imported stub (its `__all__` if it is a literal list, else its public names);
sub-packages / sub-modules present as stub files count as attributes of the package."""
import ast
import json
import os
import sys

ROOT = sys.argv[1]
_cache = {}


def stub_path(mod):
    p = os.path.join(ROOT, *mod.split("."))
    for cand in (os.path.join(p, "__init__.pyi"), p + ".pyi"):
        if os.path.isfile(cand):
            return cand
    return None


def targets(t, out):
    if isinstance(t, ast.Name):
        out.add(t.id)
    elif isinstance(t, (ast.Tuple, ast.List)):
        for e in t.elts:
            targets(e, out)


def resolve_from(mod, node):
    """absolute module name of `from <level dots><module> import ...` inside stub `mod`"""
    if node.level == 0:
        return node.module
    is_pkg = (stub_path(mod) or "").endswith("__init__.pyi")
    parts = mod.split(".")
    base = parts if is_pkg else parts[:-1]
    base = base[:len(base) - (node.level - 1)] if node.level > 1 else base
    return ".".join(base + ([node.module] if node.module else []))


SUPPORTED = [(3, m) for m in range(7, 14)]     # the property: "in at least one supported Python version" (3.7-3.13)


def _ver_test(test, v):
    """value of a `sys.version_info` test for version v; None when the test is not (only) about the version"""
    if isinstance(test, ast.Compare) and len(test.ops) == 1 and len(test.comparators) == 1:
        l, r = test.left, test.comparators[0]
        def is_vi(n):
            return isinstance(n, ast.Attribute) and n.attr == "version_info" and isinstance(n.value, ast.Name) and n.value.id == "sys"
        def tup(n):
            if isinstance(n, ast.Tuple) and all(isinstance(e, ast.Constant) and isinstance(e.value, int) for e in n.elts):
                return tuple(e.value for e in n.elts)
            return None
        if is_vi(l) and tup(r) is not None:
            a, b = v[:len(tup(r))], tup(r)[:2] if len(tup(r)) > 2 else tup(r)
            a = v[:len(b)]
        elif is_vi(r) and tup(l) is not None:
            return _ver_test(ast.Compare(left=r, ops=[{ast.Lt: ast.Gt, ast.Gt: ast.Lt, ast.LtE: ast.GtE, ast.GtE: ast.LtE}.get(type(test.ops[0]), type(test.ops[0]))()], comparators=[l]), v)
        else:
            return None
        op = test.ops[0]
        if isinstance(op, ast.GtE): return a >= b
        if isinstance(op, ast.Gt): return a > b
        if isinstance(op, ast.LtE): return a <= b
        if isinstance(op, ast.Lt): return a < b
        if isinstance(op, ast.Eq): return a == b
        if isinstance(op, ast.NotEq): return a != b
        return None
    if isinstance(test, ast.BoolOp):
        vals = [_ver_test(t, v) for t in test.values]
        if isinstance(test.op, ast.And):
            if any(x is False for x in vals): return False
            return True if all(x is True for x in vals) else None
        if any(x is True for x in vals): return True
        return False if all(x is False for x in vals) else None
    if isinstance(test, ast.UnaryOp) and isinstance(test.op, ast.Not):
        x = _ver_test(test.operand, v)
        return None if x is None else (not x)
    return None


def branch_reachable(test):
    """(body reachable, orelse reachable) for some supported version; platform tests and anything unknown count as both"""
    vals = [_ver_test(test, v) for v in SUPPORTED]
    return any(x is not False for x in vals), any(x is not True for x in vals)


def walk(mod, body, names, classes, all_list, private):
    for st in body:
        if isinstance(st, (ast.FunctionDef, ast.AsyncFunctionDef)):
            names.add(st.name)
        elif isinstance(st, ast.ClassDef):
            names.add(st.name)
            if classes is not None:
                cn, _ = set(), None
                walk(mod, st.body, cn, None, None, set())
                bases = [b.id for b in st.bases if isinstance(b, ast.Name)] + \
                        [b.value.id for b in st.bases if isinstance(b, ast.Subscript) and isinstance(b.value, ast.Name)]
                classes.setdefault(st.name, (set(), []))
                classes[st.name][0].update(cn)
                classes[st.name][1].extend(bases)
        elif isinstance(st, ast.Assign):
            for t in st.targets:
                targets(t, names)
                if all_list is not None and isinstance(t, ast.Name) and t.id == "__all__" and isinstance(st.value, (ast.List, ast.Tuple)):
                    all_list.extend(e.value for e in st.value.elts if isinstance(e, ast.Constant) and isinstance(e.value, str))
        elif isinstance(st, ast.AugAssign):
            if all_list is not None and isinstance(st.target, ast.Name) and st.target.id == "__all__" and isinstance(st.value, (ast.List, ast.Tuple)):
                all_list.extend(e.value for e in st.value.elts if isinstance(e, ast.Constant) and isinstance(e.value, str))
        elif isinstance(st, ast.AnnAssign):
            targets(st.target, names)
        elif hasattr(ast, "TypeAlias") and isinstance(st, ast.TypeAlias):
            targets(st.name, names)
        elif isinstance(st, ast.Import):
            # stub convention (PEP 484): `import x` is private to the stub, `import x as x` re-exports; a sub-module import
            # `import M.x` of the stub's own package still makes `x` an attribute of M at run time
            for a in st.names:
                if a.asname is not None and a.asname == a.name:
                    names.add(a.asname)
                elif a.asname is None and a.name.startswith(mod + "."):
                    names.add(a.name[len(mod) + 1:].split(".")[0])
                else:
                    private.add(a.asname or a.name.split(".")[0])
        elif isinstance(st, ast.ImportFrom):
            for a in st.names:
                if a.name == "*":
                    src = resolve_from(mod, st)
                    info = load(src) if src else None
                    if info:
                        names.update(info["star"])
                elif a.asname is not None and a.asname == a.name:
                    names.add(a.asname)          # `from m import y as y` re-exports
                elif st.level > 0 and resolve_from(mod, st) == mod and a.asname is None:
                    names.add(a.name)            # `from . import sub` inside a package: sub-module attribute
                else:
                    private.add(a.asname or a.name)   # plain `from m import y`: not re-exported by a stub
        elif isinstance(st, ast.If):
            # `sys.version_info` guards are evaluated over the supported versions 3.7-3.13 (a name that exists only from 3.14 on,
            # or only before 3.7, exists in no supported version); platform guards and anything else: both arms
            tb, fb = branch_reachable(st.test)
            if tb:
                walk(mod, st.body, names, classes, all_list, private)
            if fb:
                walk(mod, st.orelse, names, classes, all_list, private)
        elif isinstance(st, ast.Try):
            for b in (st.body, st.orelse, st.finalbody):
                walk(mod, b, names, classes, all_list, private)
            for h in st.handlers:
                walk(mod, h.body, names, classes, all_list, private)
        elif isinstance(st, (ast.With, ast.For, ast.While)):
            walk(mod, st.body, names, classes, all_list, private)
        elif isinstance(st, ast.Expr) and all_list is not None:
            # __all__.extend([...]) / __all__.append("x")
            c = st.value
            if isinstance(c, ast.Call) and isinstance(c.func, ast.Attribute) and isinstance(c.func.value, ast.Name) and c.func.value.id == "__all__":
                for a in c.args:
                    if isinstance(a, (ast.List, ast.Tuple)):
                        all_list.extend(e.value for e in a.elts if isinstance(e, ast.Constant) and isinstance(e.value, str))
                    elif isinstance(a, ast.Constant) and isinstance(a.value, str):
                        all_list.append(a.value)


def load(mod):
    if mod in _cache:
        return _cache[mod]
    _cache[mod] = None  # cycle guard
    p = stub_path(mod)
    if p is None:
        return None
    tree = ast.parse(open(p, encoding="utf-8").read())
    names, classes, all_list, private = set(), {}, [], set()
    walk(mod, tree.body, names, classes, all_list, private)
    names |= private & set(all_list)     # a privately imported name listed in __all__ is exported after all
    if p.endswith("__init__.pyi"):
        d = os.path.dirname(p)
        for fn in os.listdir(d):
            if fn.endswith(".pyi") and fn != "__init__.pyi":
                names.add(fn[:-4])
            elif os.path.isdir(os.path.join(d, fn)) and os.path.isfile(os.path.join(d, fn, "__init__.pyi")):
                names.add(fn)
    star = set(all_list) if all_list else {n for n in names if not n.startswith("_")}
    # inherited class-body names (bases defined in the same stub), to a fixpoint
    cls = {c: set(v[0]) for c, v in classes.items()}
    for _ in range(8):
        for c, v in classes.items():
            for b in v[1]:
                if b in cls:
                    cls[c] |= cls[b]
    info = {"stub": os.path.relpath(p, ROOT), "names": names, "star": star, "classes": cls}
    _cache[mod] = info
    return info


def main():
    req = json.load(sys.stdin)
    out = {"modules": {}}
    for m in req["modules"]:
        info = load(m)
        if info is None:
            out["modules"][m] = {"stub": None, "names": [], "classes": {}}
        else:
            out["modules"][m] = {"stub": info["stub"], "names": sorted(info["names"]),
                                 "classes": {c: sorted(v) for c, v in sorted(info["classes"].items())}}
    json.dump(out, sys.stdout, sort_keys=True)


main()
