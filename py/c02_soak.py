#!/usr/bin/env python3
"""py/c02_soak.py <first-seed> <n-seeds> <frag> <rows> <gen> — soak of C02's three streams against the real compiler without the
proof stage: prints every accepted program that ends in a type-related error (or disagrees with the Lean model) and that no
listed finding explains, grouped by signature. Uses the harness binary and the driver built by `./check C02`."""
import collections
import os
import sys

V = os.path.dirname(os.path.dirname(os.path.abspath(__file__)))
sys.path.insert(0, V)
from vlib import core, fraggen, fragrun          # noqa: E402
from checks import c26, c02                       # noqa: E402

s0, ns, nf, nr, ng = [int(x) for x in sys.argv[1:6]]
ok, _, erg = core.erg_binary()
ctx = core.Ctx("C02", "quick", 0)
known = {e["id"] for e in ctx.known_findings()}
dsum, err = c26.regen_declared(ctx, os.path.join(core.harness_dir(), "target", "debug"))
decl = dsum["table"]
groups = collections.defaultdict(list)
tot = acc = 0
for seed in range(s0, s0 + ns):
    rng = fraggen.Rng(seed * 7919 + 17)
    cases = []
    for i in range(nf):
        cid, inp, src = c02.gen_frag(rng, decl, i)
        cases.append((cid, inp, src, "frag"))
    for cid, inp, src in c02.gen_rows(rng, decl, nr, seed * 101):
        cases.append((cid, inp, src, "row"))
    for pid, prog, feats in fragrun.gen_programs(seed + 4242, ng, zero_div=True):
        feats = sorted(set(feats) | fraggen.tree_features(prog))
        cases.append(("g" + pid, "(gen %s)" % " ".join(feats), fraggen.to_erg(prog), "gen"))
    res = fragrun.run_programs([(c[0], c[2], None) for c in cases], erg, jobs=8)
    rows = [(c[0], c[1], c02.canon_impl(r)) for c, r in zip(cases, res)]
    _, mrows, _ = core.run_model("C02", rows)
    mm = {m[0]: m for m in mrows}
    for c, r, row in zip(cases, res, rows):
        tot += 1
        impl = row[2]
        if impl == "rejected" or r["erg_class"] == "timeout":
            continue
        acc += 1
        m = mm.get(c[0], ["", "", "", ""])
        sig = None
        if impl.startswith("exc:") and impl[4:] in c02.TYPE_ERR:
            k = m[3] if (c[3] == "frag" and m[3] not in ("-", "0", "")) else c02.known_class(c[3], c[1], c[2], impl[4:], r.get("erg_err", ""))
            if k not in known:
                sig = ("type-error", c[3], impl, (r["erg_err"].strip().splitlines() or [""])[-1][:90])
        elif c[3] == "frag" and not m[1].startswith("out-of-model") and m[1] != impl:
            sig = ("model-disagrees", impl[:40], m[1][:40])
        if sig:
            groups[sig].append((c[0], c[1], c[2]))
    print(f"seed {seed}: total {tot} accepted {acc} unexplained groups {len(groups)}", flush=True)
for sig, items in groups.items():
    print("=" * 100)
    print(sig, len(items))
    print(items[0][1])
    print(items[0][2])
