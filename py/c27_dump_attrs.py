"""C27 attribute dump, run under each installed interpreter (absolute path; see vlib/core.PYTHONS).
stdin : JSON {"modules": [M...], "classes": {M: [pyClassName...]}, "submods": {M: [name...]}}
stdout: JSON {"version": [3, x, y], "platform": ..., "modules": {M: {"ok": bool, "error": str|null, "attrs": [dir(module)...],
               "classes": {C: [dir(class)...]}, "submods": [names x such that importlib.import_module(M + "." + x) works]}}}
Every module is imported in this one process with stdout/stderr silenced; an import failure is recorded, never fatal."""
import importlib
import io
import json
import sys


def main():
    req = json.load(sys.stdin)
    out = {"version": list(sys.version_info[:3]), "platform": sys.platform, "modules": {}}
    real_out, real_err = sys.stdout, sys.stderr
    for m in req["modules"]:
        rec = {"ok": False, "error": None, "attrs": [], "classes": {}, "submods": []}
        sys.stdout, sys.stderr = io.StringIO(), io.StringIO()
        try:
            try:
                mod = importlib.import_module(m)
                rec["ok"] = True
            except BaseException as e:  # noqa: ImportError, ValueError (ctypes.wintypes), SystemExit, ...
                rec["error"] = "%s: %s" % (type(e).__name__, str(e)[:200])
                mod = None
            if mod is not None:
                for x in req.get("submods", {}).get(m, []):
                    try:
                        importlib.import_module(m + "." + x)
                        rec["submods"].append(x)
                    except BaseException:
                        pass
                rec["attrs"] = sorted(set(dir(mod)))
                for c in req.get("classes", {}).get(m, []):
                    try:
                        obj = getattr(mod, c)
                    except BaseException:
                        continue
                    try:
                        rec["classes"][c] = sorted(set(dir(obj)))
                    except BaseException:
                        pass
        finally:
            sys.stdout, sys.stderr = real_out, real_err
        out["modules"][m] = rec
    json.dump(out, sys.stdout, sort_keys=True)


main()
