//! C19: compile `<dir>/<entry>` to `<dir>/<stem>.pyc` with a compiler built WITHOUT the `parallel` feature and print the
//! diagnostics in the format of harness/src/bin/c20.rs (`D \t (<e|w>:<kind> <file> <line> "<first line>")`, `R \t ok|err|crash`,
//! `P \t <PARALLEL>`): usage  c19seq <dir> <entry>
use erg_common::config::ErgConfig;
use erg_common::python_util::PythonVersion;
use erg_common::traits::Stream;
use erg_compiler::Compiler;
use std::path::{Path, PathBuf};

fn strip_ansi(s: &str) -> String {
    let mut o = String::new();
    let mut it = s.chars();
    while let Some(c) = it.next() {
        if c == '\u{1b}' {
            for d in it.by_ref() {
                if d == 'm' { break; }
            }
        } else {
            o.push(c);
        }
    }
    o
}

fn quote(s: &str) -> String {
    let mut o = String::from("\"");
    for c in s.chars() {
        match c {
            '"' => o.push_str("\\\""),
            '\\' => o.push_str("\\\\"),
            '\n' => o.push_str("\\n"),
            '\t' => o.push_str("\\t"),
            '\r' => o.push_str("\\r"),
            c if (c as u32) < 32 || (c as u32) >= 127 => o.push_str(&format!("\\u{:04x}", c as u32)),
            c => o.push(c),
        }
    }
    o.push('"');
    o
}

fn first_line(s: &str) -> String {
    strip_ansi(s).lines().next().unwrap_or("").trim().to_string()
}

fn diag_rows(errs: &erg_compiler::error::CompileErrors, tag: &str, out: &mut Vec<String>) {
    for e in errs.iter() {
        let file = Path::new(&e.input.path().to_string_lossy().to_string()).file_name().map(|x| x.to_string_lossy().to_string()).unwrap_or_default();
        out.push(format!("({}:{:?} {} {} {})", tag, e.core.kind, file, e.core.loc.ln_begin().unwrap_or(0), quote(&first_line(&e.core.main_message))));
    }
}

fn main() {
    let av: Vec<String> = std::env::args().collect();
    let path = PathBuf::from(&av[1]).join(&av[2]);
    let mut cfg = ErgConfig::with_main_path(path.clone());
    cfg.target_version = Some(PythonVersion::new(3, Some(11), Some(0)));
    cfg.py_magic_num = Some(3495);
    let src = std::fs::read_to_string(&path).unwrap_or_default();
    let mut pyc = path.clone();
    pyc.set_extension("pyc");
    println!("P\t{}", erg_common::consts::PARALLEL);
    let res = std::panic::catch_unwind(std::panic::AssertUnwindSafe(move || {
        let mut compiler = Compiler::new(cfg);
        let mut rows = vec![];
        let status = match compiler.compile_and_dump_as_pyc(&pyc, src, "exec") {
            Ok(warns) => { diag_rows(&warns, "w", &mut rows); "ok" }
            Err(eart) => { diag_rows(&eart.errors, "e", &mut rows); diag_rows(&eart.warns, "w", &mut rows); "err" }
        };
        (status, rows)
    }));
    match res {
        Ok((status, mut rows)) => {
            rows.sort();
            for r in rows { println!("D\t{}", r); }
            println!("R\t{}", status);
        }
        Err(_) => println!("R\tcrash"),
    }
}
