"""Helpers shared by checks/c32.py and checks/c03.py: S-expression shrinking of predicate construction expressions and a
wider search for a concrete failing input when the tie or a proof breaks."""
import os
from vlib import core


def parse(s):
    toks = s.replace("(", " ( ").replace(")", " ) ").split()
    pos = 0

    def go():
        nonlocal pos
        t = toks[pos]
        pos += 1
        if t == "(":
            l = []
            while toks[pos] != ")":
                l.append(go())
            pos += 1
            return l
        return t
    return go()


def show(x):
    return x if isinstance(x, str) else "(" + " ".join(show(y) for y in x) + ")"


def size(x):
    return 1 if isinstance(x, str) else sum(size(y) for y in x)


def variants(x):
    """smaller variants of one construction expression"""
    if isinstance(x, str):
        return
    head = x[0]
    if head in ("and", "or", "rand", "ror", "not", "rnot"):
        for a in x[1:]:
            yield a
        if head == "ror" and len(x) > 2:
            for k in range(1, len(x)):
                yield x[:k] + x[k + 1:]
    if head in ("eq", "ge", "le", "ne", "gt", "lt"):
        c = int(x[1])
        for d in (0, c // 2, c - 1 if c > 0 else c + 1):
            if d != c and abs(d) < abs(c):
                yield [head, str(d)]
    for k in range(1, len(x)):
        for v in variants(x[k]):
            yield x[:k] + [v] + x[k + 1:]


def run_cases(prop, harness_bin, bindir, inputs, env=None):
    """inputs: list of input strings -> list of (input, impl, model, spec, inK)"""
    stdin = "".join(f"s{i}\t{inp}\n" for i, inp in enumerate(inputs))
    _, rows, _ = core.run_harness(bindir, harness_bin, ["replay"], stdin=stdin)
    if env:
        exe = os.path.join(core.LEAN, ".lake", "build", "bin", "ergmodel_" + prop.lower())
        text = "".join("\t".join(r[:3]) + "\n" for r in rows)
        _, out, _ = core.sh([exe], input=text, env=env)
        mrows = core.parse_lines(out, 4)
    else:
        _, mrows, _ = core.run_model(prop, rows)
    m = {r[0]: r for r in mrows}
    out = []
    for r in rows:
        mr = m.get(r[0], ["", "", "", ""])
        out.append((r[1], r[2], mr[1], mr[2], mr[3]))
    return out


def shrink(ctx, v, bindir, harness_bin, failing, rounds=25):
    """v = (id, input, impl, model, spec, inK); failing(result_tuple) -> bool. Greedy sub-term deletion, batched."""
    cur = parse(v[1])
    best = v
    for _ in range(rounds):
        cands = []
        seen = set()
        for c in variants(cur):
            s = show(c)
            if s in seen or s == show(cur):
                continue
            seen.add(s)
            cands.append(c)
        cands.sort(key=size)
        cands = cands[:300]
        if not cands:
            break
        res = run_cases(ctx.prop, harness_bin, bindir, [show(c) for c in cands])
        hit = None
        for c, r in zip(cands, res):
            if failing(r):
                hit = (c, r)
                break
        if not hit:
            break
        cur = hit[0]
        r = hit[1]
        best = (v[0] + "-shrunk", r[0], r[1], r[2], r[3], r[4])
    return best


def search_more(ctx, bindir, harness_bin, known_ids, extra_args=(), seeds=6, n=20000):
    """fresh cases from other seeds: a spec violation outside the known classes gives a concrete replay"""
    for k in range(1, seeds + 1):
        seed = ctx.seed * 1000 + k
        _, rows, _ = core.run_harness(bindir, harness_bin, ["gen", "--seed", str(seed), "--n", str(n), "--tier", "quick"] + list(extra_args))
        _, mrows, _ = core.run_model(ctx.prop, rows)
        res = core.compare(rows, mrows, known_ids)
        if res.spec_viol:
            v = res.spec_viol[0]
            v = shrink(ctx, v, bindir, harness_bin, lambda r: r[3].startswith("viol"))
            return {"kind": "implementation-violates-spec (found by the wider search after the tie/proof broke)", "case_id": v[0],
                    "input": v[1], "impl": v[2], "model": v[3], "spec": v[4], "inK": v[5], "search_seed": seed}
    return None
