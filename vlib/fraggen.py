"""Typed fragment generator shared by the behavioural ties (C01, C07, C13, C14, C34, ...).

One tree, two independent emitters:
  * `to_erg(prog)`   — Erg source text fed to the real compiler;
  * `to_python(prog)` — the "Python-semantics reading" of the same tree, written directly from the tree (it does NOT use
    erg's transpiler or runtime classes): Nat/Int are plain `int`, `//` and `%` are Python's, `Nat - Nat` is `int`,
    `print!` is `print`, `for! a..<b` is `range(a, b)`, mutable cells are plain variables.
Every random choice derives from the `Rng` passed in (splitmix64, same constants as harness/src/lib.rs).

Types: 'Nat' 'Int' 'Float' 'Str' 'Bool' and ('List', elemTy, n).
Expressions are tuples; statements are tuples; see `Gen`.
"""

MASK = (1 << 64) - 1


class Rng:
    def __init__(self, seed):
        # scramble the seed first: with a plain affine initialisation consecutive seeds give shifted copies of one stream
        z = (seed + 0x123456789ABCDEF1) & MASK
        z = ((z ^ (z >> 33)) * 0xFF51AFD7ED558CCD) & MASK
        z = ((z ^ (z >> 33)) * 0xC4CEB9FE1A85EC53) & MASK
        self.s = z ^ (z >> 33)

    def next(self):
        self.s = (self.s + 0x9E3779B97F4A7C15) & MASK
        z = self.s
        z = ((z ^ (z >> 30)) * 0xBF58476D1CE4E5B9) & MASK
        z = ((z ^ (z >> 27)) * 0x94D049BB133111EB) & MASK
        return z ^ (z >> 31)

    def below(self, n):
        return self.next() % n if n > 0 else 0

    def chance(self, num, den):
        return self.below(den) < num

    def pick(self, xs):
        return xs[self.below(len(xs))]


NAT_POOL = [0, 1, 2, 3, 5, 7, 10, 100, 255, 256, 65535, 65536, 2**31 - 1, 2**31, 2**31 + 1, 2**32, 2**63 - 1]
NAT_SMALL = [0, 1, 2, 3, 4, 5, 7, 10]
INT_POOL = [-1, -2, -3, -7, -10, -255, -65536, -(2**31) + 1, 1, 2, 7, 0]
FLOAT_POOL = ["0.0", "-0.0", "1.5", "2.25", "-3.5", "0.1", "100.0", "1.0", "-1.0", "0.5"]
STR_POOL = ["", "a", "abc", "hello world", "x y", "Erg", "π", "日本", "a'b", "{}", "%s", "q😀", "tab\\tx", "nl\\nx", "back\\\\slash", "quote\\\"q"]
STR_SIMPLE = ["", "a", "abc", "hello", "x y", "Erg", "π", "日本"]


def py_str_of_erg_literal(body):
    """the Erg literal body uses the escapes \\t \\n \\\\ \\" which mean the same in Python"""
    return body


class Gen:
    """Generates a program as a list of statements. cfg keys (all optional):
       big_lits (bool)   allow boundary-pool numerals (>= 2**31 etc.)
       floats, strings, lists, funcs, lambdas, loops, conds, patterns, interp (bools)
       max_depth (int), n_stmts (lo, hi)
    """

    def __init__(self, rng, **cfg):
        self.r = rng
        self.cfg = dict(big_lits=True, floats=True, strings=True, lists=True, funcs=True, lambdas=True, loops=True,
                        conds=True, patterns=True, interp=True, zero_div=False, max_depth=4, n_stmts=(3, 10),
                        hard_strings=False, str_mul=True, bare_expr=False, if_stmt=True, whiles=True)
        if cfg.get("stage1"):
            # the straight-line scalar fragment of the C01 stage-1 theorem
            self.cfg.update(floats=False, lists=False, funcs=False, lambdas=False, loops=True, whiles=False, conds=True,
                            patterns=False, interp=False, str_mul=False, bare_expr=True, if_stmt=False)
        cfg = {k: v for k, v in cfg.items() if k != "stage1"}
        self.cfg.update(cfg)
        self.vars = []      # (name, ty) visible immutable bindings at top level
        self.funcs = []     # (name, [param tys], ret ty)
        self.n = 0
        self.features = set()

    # ------------------------------------------------------------------ names
    def fresh(self, pfx="v"):
        self.n += 1
        return f"{pfx}{self.n}"

    # ------------------------------------------------------------------ expressions
    def lit(self, ty):
        r = self.r
        if ty == "Nat":
            v = r.pick(NAT_POOL if (self.cfg["big_lits"] and r.chance(1, 4)) else NAT_SMALL)
            if self.cfg["big_lits"] and r.chance(1, 6):
                # a natural of random bit length 31..63 (every digit count of marshal's long format)
                bits = 31 + r.below(33)
                v = (1 << (bits - 1)) | (r.next() & ((1 << (bits - 1)) - 1))
            if v >= 2**31:
                self.features.add("big-nat")
            return ("lit", "Nat", v)
        if ty == "Int":
            v = r.pick(INT_POOL)
            if not self.cfg["big_lits"] and abs(v) > 65536:
                v = -5
            return ("lit", "Int", v)
        if ty == "Float":
            v = r.pick(FLOAT_POOL)
            if v == "-0.0":
                self.features.add("neg-zero")
            return ("lit", "Float", v)
        if ty == "Str":
            return ("lit", "Str", r.pick(STR_POOL if self.cfg["hard_strings"] else STR_SIMPLE))
        if ty == "Bool":
            return ("lit", "Bool", r.chance(1, 2))
        if isinstance(ty, tuple) and ty[0] == "List":
            return ("list", [self.expr(ty[1], 1) for _ in range(ty[2])], ty)
        raise ValueError(ty)

    def vars_of(self, ty, env):
        return [v for v in env if v[1] == ty]

    def expr(self, ty, depth, env=None):
        """an expression of exactly type `ty` (Nat is not silently used where Int is demanded except through explicit
        sub-typing cases listed here)"""
        r = self.r
        env = self.vars if env is None else env
        if depth <= 0 or r.chance(1, 4):
            vs = self.vars_of(ty, env)
            if vs and r.chance(2, 3):
                v = r.pick(vs)
                return ("var", v[0], ty)
            if ty == "Int" and r.chance(1, 3):
                vs = self.vars_of("Nat", env)
                if vs:
                    return ("var", r.pick(vs)[0], "Nat")     # Nat <: Int
            return self.lit(ty)
        d = depth - 1
        k = r.below(10)
        if ty == "Nat":
            if k < 4:
                op = r.pick(["+", "*", "+", "*", "//", "%"])
                rhs = self.expr("Nat", d, env)
                if op in ("//", "%") and not self.cfg["zero_div"]:
                    rhs = ("bin", "+", rhs, ("lit", "Nat", 1), "Nat")
                return ("bin", op, self.expr("Nat", d, env), rhs, "Nat")
            if k == 4 and self.cfg["lists"]:
                n = r.below(4)
                self.features.add("len")
                return ("len", self.expr(("List", r.pick(["Nat", "Int", "Str"]), n), 1, env))
            if k == 5 and self.cfg["conds"]:
                self.features.add("if-expr")
                return ("if", self.expr("Bool", d, env), self.expr("Nat", d, env), self.expr("Nat", d, env), "Nat")
            if k == 6:
                c = self.call("Nat", d, env)
                if c:
                    return c
            if k == 7 and self.cfg["lists"]:
                ix = self.index("Nat", env)
                if ix:
                    return ix
            return self.lit("Nat") if r.chance(1, 2) else ("bin", "+", self.expr("Nat", d, env), self.expr("Nat", d, env), "Nat")
        if ty == "Int":
            if k < 3:
                op = r.pick(["+", "-", "*", "//", "%"])
                rhs = self.expr("Int", d, env)
                if op in ("//", "%") and not self.cfg["zero_div"]:
                    # make the divisor non-zero: 2*|x|+1 has no simple spelling; use a non-zero literal
                    rhs = ("lit", "Int", r.pick([-3, -2, -1, 1, 2, 3, 7]))
                return ("bin", op, self.expr("Int", d, env), rhs, "Int")
            if k == 3:
                self.features.add("nat-minus-nat")
                return ("bin", "-", self.expr("Nat", d, env), self.expr("Nat", d, env), "Int")
            if k == 4:
                return ("neg", self.expr("Int", d, env), "Int")
            if k == 5 and self.cfg["conds"]:
                return ("if", self.expr("Bool", d, env), self.expr("Int", d, env), self.expr("Int", d, env), "Int")
            if k == 6:
                c = self.call("Int", d, env)
                if c:
                    return c
            if k == 7:
                self.features.add("mixed-nat-int")
                return ("bin", r.pick(["+", "*"]), self.expr("Int", d, env), self.expr("Nat", d, env), "Int")
            return self.lit("Int")
        if ty == "Float":
            if k < 5:
                op = r.pick(["+", "-", "*"])
                return ("bin", op, self.expr("Float", d, env), self.expr("Float", d, env), "Float")
            if k == 5:
                rhs = self.lit("Float")
                if rhs[2] in ("0.0", "-0.0"):
                    rhs = ("lit", "Float", "2.0")
                return ("bin", "/", self.expr("Float", d, env), rhs, "Float")
            if k == 6:
                self.features.add("nat-div")
                return ("bin", "/", self.expr("Nat", d, env), ("bin", "+", self.expr("Nat", d, env), ("lit", "Nat", 1), "Nat"), "Float")
            return self.lit("Float")
        if ty == "Str":
            if k < 4:
                return ("bin", "+", self.expr("Str", d, env), self.expr("Str", d, env), "Str")
            if k == 4 and self.cfg["interp"]:
                self.features.add("interp")
                t = r.pick(["Nat", "Int", "Str", "Bool"])
                return ("interp", r.pick(STR_SIMPLE), self.expr(t, d, env), r.pick(STR_SIMPLE))
            if k == 5 and self.cfg["conds"]:
                return ("if", self.expr("Bool", d, env), self.expr("Str", d, env), self.expr("Str", d, env), "Str")
            if k == 6:
                c = self.call("Str", d, env)
                if c:
                    return c
            if k == 7 and self.cfg["str_mul"]:
                self.features.add("str-mul")
                return ("bin", "*", self.expr("Str", d, env), ("lit", "Nat", r.below(4)), "Str")
            return self.lit("Str")
        if ty == "Bool":
            if k < 4:
                t = r.pick(["Nat", "Int", "Nat", "Int", "Str"] + (["Float"] if self.cfg["floats"] else []))
                # Float has no Eq in Erg (only the order comparisons), Str only ==/!= here
                op = r.pick(["==", "!="] if t == "Str" else (["<", "<=", ">", ">="] if t == "Float" else ["==", "!=", "<", "<=", ">", ">="]))
                return ("cmp", op, self.expr(t, d, env), self.expr(t, d, env))
            if k < 6:
                return ("boolop", r.pick(["and", "or"]), self.expr("Bool", d, env), self.expr("Bool", d, env))
            if k == 6:
                return ("not", self.expr("Bool", d, env))
            if k == 7:
                self.features.add("mixed-cmp")
                return ("cmp", r.pick(["<", "<=", ">", ">=", "=="]), self.expr("Nat", d, env), self.expr("Int", d, env))
            return self.lit("Bool")
        if isinstance(ty, tuple) and ty[0] == "List":
            vs = self.vars_of(ty, env)
            if vs and r.chance(1, 2):
                return ("var", r.pick(vs)[0], ty)
            if ty[2] >= 2 and r.chance(1, 3):
                self.features.add("list-concat")
                a = 1 + r.below(ty[2] - 1)
                return ("bin", "+", self.expr(("List", ty[1], a), d, env), self.expr(("List", ty[1], ty[2] - a), d, env), ty)
            return ("list", [self.expr(ty[1], d, env) for _ in range(ty[2])], ty)
        raise ValueError(ty)

    def call(self, ty, d, env):
        fs = [f for f in self.funcs if f[2] == ty]
        if not fs:
            return None
        f = self.r.pick(fs)
        self.features.add("call")
        return ("call", f[0], [self.expr(t, min(d, 1), env) for t in f[1]], ty)

    def index(self, ty, env):
        ls = [v for v in env if isinstance(v[1], tuple) and v[1][0] == "List" and v[1][1] == ty and v[1][2] > 0]
        if not ls:
            return None
        v = self.r.pick(ls)
        self.features.add("index")
        return ("index", ("var", v[0], v[1]), self.r.below(v[1][2]), ty)

    # ------------------------------------------------------------------ statements
    def scalar_ty(self):
        r = self.r
        ts = ["Nat", "Nat", "Int", "Int", "Bool"]
        if self.cfg["strings"]:
            ts += ["Str", "Str"]
        if self.cfg["floats"]:
            ts += ["Float"]
        return r.pick(ts)

    def any_ty(self):
        if self.cfg["lists"] and self.r.chance(1, 5):
            return ("List", self.r.pick(["Nat", "Int", "Str"]), self.r.below(4))
        return self.scalar_ty()

    def stmt(self):
        r = self.r
        k = r.below(20)
        D = self.cfg["max_depth"]
        if k < 6:
            ty = self.any_ty()
            name = self.fresh()
            e = self.expr(ty, D)
            annotated = r.chance(1, 3) and not isinstance(ty, tuple)
            self.vars.append((name, ty))
            return ("def", name, ty, e, annotated)
        if k < 11:
            n = 1 + r.below(3)
            return ("print", [self.expr(self.any_ty(), D) for _ in range(n)])
        if k == 11 and self.cfg["funcs"]:
            self.features.add("func")
            name = self.fresh("f")
            ptys = [self.scalar_ty() for _ in range(1 + r.below(3))]
            params = [(self.fresh("p"), t) for t in ptys]
            ret = self.scalar_ty()
            env = list(params) + [v for v in self.vars if not isinstance(v[1], tuple)]
            body = []
            if r.chance(1, 2):
                ln = self.fresh("l")
                lt = self.scalar_ty()
                body.append(("def", ln, lt, self.expr(lt, 2, env), False))
                env = env + [(ln, lt)]
            res = self.expr(ret, 3, env)
            self.funcs.append((name, ptys, ret))
            return ("func", name, params, ret, body, res)
        if k == 12 and self.cfg["lambdas"]:
            self.features.add("lambda")
            name = self.fresh("g")
            pt = self.scalar_ty()
            p = self.fresh("p")
            ret = self.scalar_ty()
            env = [(p, pt)] + [v for v in self.vars if not isinstance(v[1], tuple)]
            body = self.expr(ret, 2, env)
            self.funcs.append((name, [pt], ret))
            return ("lambda", name, (p, pt), ret, body)
        if k == 13 and self.cfg["loops"]:
            self.features.add("for")
            i = self.fresh("i")
            lo = r.below(3)
            hi = lo + r.below(4)
            env = self.vars + [(i, "Nat")]
            body = [("print", [self.expr(self.scalar_ty(), 2, env)])]
            if r.chance(1, 2):
                body.append(("print", [("var", i, "Nat")]))
            return ("for", i, lo, hi, body)
        if k == 14 and self.cfg["loops"] and self.cfg["whiles"]:
            self.features.add("while")
            c = self.fresh("c")
            n = r.below(4)
            return ("while", c, n, [("print", [self.expr(self.scalar_ty(), 2)])])
        if k == 15 and self.cfg["conds"] and self.cfg["if_stmt"]:
            self.features.add("if-stmt")
            return ("ifstmt", self.expr("Bool", 3), [("print", [self.expr(self.scalar_ty(), 2)])],
                    [("print", [self.expr(self.scalar_ty(), 2)])])
        if k == 16 and self.cfg["patterns"]:
            self.features.add("pattern")
            t1, t2 = self.scalar_ty(), self.scalar_ty()
            a, b = self.fresh(), self.fresh()
            e1, e2 = self.expr(t1, 2), self.expr(t2, 2)
            self.vars += [(a, t1), (b, t2)]
            return ("tupdef", [(a, t1), (b, t2)], [e1, e2])
        if k == 17 and self.cfg["bare_expr"]:
            return ("exprstmt", self.expr(self.scalar_ty(), 2))
        return ("print", [self.expr(self.any_ty(), D)])

    def program(self):
        lo, hi = self.cfg["n_stmts"]
        n = lo + self.r.below(hi - lo + 1)
        prog = [self.stmt() for _ in range(n)]
        # make sure something is observable
        if not any(s[0] == "print" for s in prog):
            prog.append(("print", [self.expr(self.scalar_ty(), 2)]))
        return prog


# ---------------------------------------------------------------------------------------------- emit Erg

def erg_ty(t):
    if isinstance(t, tuple):
        return f"List({erg_ty(t[1])}, {t[2]})"
    return t


def erg_top(e):
    """expression without the outer parentheses (needed where `f (x)` would parse as a call)"""
    s = erg_expr(e)
    if s.startswith("(") and s.endswith(")") and e[0] in ("bin", "cmp", "boolop", "not", "neg"):
        return s[1:-1]
    return s


def erg_expr(e):
    k = e[0]
    if k == "lit":
        ty, v = e[1], e[2]
        if ty in ("Nat", "Int"):
            return str(v)
        if ty == "Float":
            return v
        if ty == "Str":
            return '"' + v + '"'
        if ty == "Bool":
            return "True" if v else "False"
    if k == "var":
        return e[1]
    if k == "bin":
        return f"({erg_expr(e[2])} {e[1]} {erg_expr(e[3])})"
    if k == "neg":
        return f"(-({erg_expr(e[1])}))"
    if k == "cmp":
        return f"({erg_expr(e[2])} {e[1]} {erg_expr(e[3])})"
    if k == "boolop":
        return f"({erg_expr(e[2])} {e[1]} {erg_expr(e[3])})"
    if k == "not":
        return f"(not {erg_expr(e[1])})"
    if k == "if":
        return f"if({erg_expr(e[1])}, do({erg_expr(e[2])}), do({erg_expr(e[3])}))"
    if k == "len":
        return f"len({erg_expr(e[1])})"
    if k == "index":
        return f"{erg_expr(e[1])}[{e[2]}]"
    if k == "list":
        return "[" + ", ".join(erg_expr(x) for x in e[1]) + "]"
    if k == "call":
        return f"{e[1]}(" + ", ".join(erg_expr(x) for x in e[2]) + ")"
    if k == "interp":
        return '"' + e[1] + "\\{" + erg_expr(e[2]) + "}" + e[3] + '"'
    # list operations with dependent signatures (used by checks/c34.py; never produced by Gen itself)
    if k == "push":
        return f"{erg_expr(e[1])}.push({erg_expr(e[2])})"
    if k == "concatm":
        return f"{erg_expr(e[1])}.concat({erg_expr(e[2])})"
    if k == "repeat":
        return f"({erg_expr(e[1])} * {e[2]})"
    if k == "reversed":
        return f"{erg_expr(e[1])}.reversed()"
    if k == "maplist":
        return f"list({erg_expr(e[1])}.map(({e[2]}) -> {erg_top(e[3])}))"
    raise ValueError(e)


def erg_stmts(stmts, ind=0):
    out = []
    p = "    " * ind
    for s in stmts:
        k = s[0]
        if k == "def":
            ann = f": {erg_ty(s[2])}" if s[4] else ""
            out.append(f"{p}{s[1]}{ann} = {erg_expr(s[3])}")
        elif k == "print":
            out.append(f"{p}print!(" + ", ".join(erg_expr(x) for x in s[1]) + ")")
        elif k == "func":
            params = ", ".join(f"{n}: {erg_ty(t)}" for n, t in s[2])
            out.append(f"{p}{s[1]}({params}): {erg_ty(s[3])} =")
            out += erg_stmts(s[4], ind + 1)
            out.append(f"{p}    {erg_expr(s[5])}")
        elif k == "lambda":
            out.append(f"{p}{s[1]} = ({s[2][0]}: {erg_ty(s[2][1])}) -> {erg_expr(s[4])}")
        elif k == "for":
            out.append(f"{p}for! {s[2]}..<{s[3]}, {s[1]} =>")
            out += erg_stmts(s[4], ind + 1)
        elif k == "while":
            out.append(f"{p}{s[1]} = !{s[2]}")
            out.append(f"{p}while! do!({s[1]} > 0), do!:")
            out += erg_stmts(s[3], ind + 1)
            out.append(f"{p}    {s[1]}.dec!()")
        elif k == "ifstmt":
            out.append(f"{p}if! {erg_top(s[1])}:")
            out.append(f"{p}    do!:")
            out += erg_stmts(s[2], ind + 2)
            out.append(f"{p}    do!:")
            out += erg_stmts(s[3], ind + 2)
        elif k == "tupdef":
            out.append(f"{p}({', '.join(n for n, _ in s[1])}) = ({', '.join(erg_expr(x) for x in s[2])})")
        elif k == "exprstmt":
            out.append(f"{p}{erg_top(s[1])}")
        else:
            raise ValueError(s)
    return out


def to_erg(prog):
    return "\n".join(erg_stmts(prog)) + "\n"


# ---------------------------------------------------------------------------------------------- emit Python (oracle)

def py_expr(e):
    k = e[0]
    if k == "lit":
        ty, v = e[1], e[2]
        if ty in ("Nat", "Int"):
            return f"({v})"
        if ty == "Float":
            return f"({v})"
        if ty == "Str":
            # Erg defines the `\\t` escape as four spaces ("tab is invalid, so changed into 4 whitespace", lex.rs); the other
            # escapes of the pool mean the same in both languages
            return '"' + v.replace("\\t", "    ") + '"'
        if ty == "Bool":
            return "True" if v else "False"
    if k == "var":
        return e[1]
    if k == "bin":
        return f"({py_expr(e[2])} {e[1]} {py_expr(e[3])})"
    if k == "neg":
        return f"(-({py_expr(e[1])}))"
    if k == "cmp":
        return f"({py_expr(e[2])} {e[1]} {py_expr(e[3])})"
    if k == "boolop":
        # Erg's and/or on Bool are strict; on booleans the value equals Python's short-circuit result
        return f"({py_expr(e[2])} {e[1]} {py_expr(e[3])})"
    if k == "not":
        return f"(not {py_expr(e[1])})"
    if k == "if":
        return f"({py_expr(e[2])} if {py_expr(e[1])} else {py_expr(e[3])})"
    if k == "len":
        return f"len({py_expr(e[1])})"
    if k == "index":
        return f"{py_expr(e[1])}[{e[2]}]"
    if k == "list":
        return "[" + ", ".join(py_expr(x) for x in e[1]) + "]"
    if k == "call":
        return f"{e[1]}(" + ", ".join(py_expr(x) for x in e[2]) + ")"
    if k == "interp":
        return '("' + e[1] + '" + str(' + py_expr(e[2]) + ') + "' + e[3] + '")'
    if k == "push":
        return f"({py_expr(e[1])} + [{py_expr(e[2])}])"
    if k == "concatm":
        return f"({py_expr(e[1])} + {py_expr(e[2])})"
    if k == "repeat":
        return f"({py_expr(e[1])} * {e[2]})"
    if k == "reversed":
        return f"list(reversed({py_expr(e[1])}))"
    if k == "maplist":
        return f"[(lambda {e[2]}: {py_expr(e[3])})(_x) for _x in {py_expr(e[1])}]"
    raise ValueError(e)


def py_stmts(stmts, ind=0):
    out = []
    p = "    " * ind
    for s in stmts:
        k = s[0]
        if k == "def":
            out.append(f"{p}{s[1]} = {py_expr(s[3])}")
        elif k == "print":
            out.append(f"{p}print(" + ", ".join(py_expr(x) for x in s[1]) + ")")
        elif k == "func":
            out.append(f"{p}def {s[1]}(" + ", ".join(n for n, _ in s[2]) + "):")
            out += py_stmts(s[4], ind + 1)
            out.append(f"{p}    return {py_expr(s[5])}")
        elif k == "lambda":
            out.append(f"{p}{s[1]} = lambda {s[2][0]}: {py_expr(s[4])}")
        elif k == "for":
            out.append(f"{p}for {s[1]} in range({s[2]}, {s[3]}):")
            out += py_stmts(s[4], ind + 1)
        elif k == "while":
            out.append(f"{p}{s[1]} = {s[2]}")
            out.append(f"{p}while {s[1]} > 0:")
            out += py_stmts(s[3], ind + 1)
            out.append(f"{p}    {s[1]} -= 1")
        elif k == "ifstmt":
            out.append(f"{p}if {py_expr(s[1])}:")
            out += py_stmts(s[2], ind + 1)
            out.append(f"{p}else:")
            out += py_stmts(s[3], ind + 1)
        elif k == "tupdef":
            out.append(f"{p}({', '.join(n for n, _ in s[1])}) = ({', '.join(py_expr(x) for x in s[2])})")
        elif k == "exprstmt":
            out.append(f"{p}{py_expr(s[1])}")
        else:
            raise ValueError(s)
    return out


def to_python(prog):
    return "\n".join(py_stmts(prog)) + "\n"


# ---------------------------------------------------------------------------------------------- tree features

def tree_features(prog):
    """structural features computed from the finished tree (used to attribute mismatches to recorded findings precisely):
       enum-minus : a `-` whose left operand is an if-expression over Nat branches, or a variable defined by one
                    (static type: an enum of naturals such as {2, 3})
       enum-div   : the same for `/`
       enum-neg   : the same for unary `-`
       neglit-cmp-if : a comparison with a negative literal on the left AND an if-expression with a negative literal (operand) in a branch
       enum-arith : any of + - * // % with such a left operand (the result is inferred Nat even when the right operand is an Int)"""
    feats = set()
    enum_vars = set()

    enum_lists = set()
    nat_vars = set()      # unannotated variables whose initialiser is a Nat expression although the generator typed them Int

    def static_nat(e):
        """the expression's own Erg type is Nat (whatever type the generator demanded of it: a Nat is accepted for an Int)"""
        k = e[0]
        if k == "lit":
            return e[1] == "Nat" or (e[1] == "Int" and e[2] >= 0)      # the literal `1` is a Nat whatever was asked for
        if k == "var":
            return e[2] == "Nat" or e[1] in nat_vars
        if k == "bin":
            # Nat is closed under + * // % in Erg, whatever type the generator asked of the node (`0 % 7` is a Nat)
            return e[4] == "Nat" or (e[1] in ("+", "*", "//", "%") and static_nat(e[2]) and static_nat(e[3]))
        if k == "if":
            return static_nat(e[2]) and static_nat(e[3])
        if k == "len":
            return True
        if k in ("index", "call"):
            return e[3] == "Nat"
        return False

    def is_enum_nat(e):
        """the expression's static type is (a union of) natural literals produced by an if-expression: the if-expression
        itself, a variable defined by one, an element of a list (variable or literal) that contains one"""
        if e[0] == "if" and (e[4] == "Nat" or (static_nat(e[2]) and static_nat(e[3]))):
            return True
        if e[0] == "var" and e[1] in enum_vars:
            return True
        if e[0] == "index":
            b = e[1]
            if b[0] == "var" and b[1] in enum_lists:
                return True
            if b[0] == "list" and any(is_enum_nat(x) for x in b[1]):
                return True
        return False

    def list_has_enum(e):
        if e[0] == "list":
            return any(is_enum_nat(x) for x in e[1])
        if e[0] == "bin" and e[1] == "+":
            return list_has_enum(e[2]) or list_has_enum(e[3])
        if e[0] == "var":
            return e[1] in enum_lists
        return False

    seen = {"neg_cmp": False, "neg_branch": False}

    def neg_lit(e):
        return e[0] == "lit" and e[1] == "Int" and e[2] < 0

    def walk(e):
        if not isinstance(e, tuple):
            return
        if e[0] == "cmp" and neg_lit(e[2]):
            seen["neg_cmp"] = True
        if e[0] == "if" and (neg_lit(e[2]) or neg_lit(e[3]) or any(x[0] == "bin" and (neg_lit(x[2]) or neg_lit(x[3])) for x in (e[2], e[3]))):
            seen["neg_branch"] = True
        if e[0] == "bin" and e[1] == "-" and is_enum_nat(e[2]):
            feats.add("enum-minus")
        if e[0] == "bin" and e[1] == "/" and is_enum_nat(e[2]):
            feats.add("enum-div")
        if e[0] == "bin" and e[1] in ("+", "-", "*", "//", "%") and is_enum_nat(e[2]):
            feats.add("enum-arith")
        if e[0] == "neg" and is_enum_nat(e[1]):
            feats.add("enum-neg")
        for x in e[1:]:
            if isinstance(x, tuple):
                walk(x)
            elif isinstance(x, list):
                for y in x:
                    walk(y)

    def stmts(ss):
        for s in ss:
            if s[0] == "def":
                if is_enum_nat(s[3]) and s[2] in ("Nat", "Int") and not s[4]:
                    enum_vars.add(s[1])
                if s[2] in ("Nat", "Int") and not s[4] and static_nat(s[3]):
                    nat_vars.add(s[1])
                if isinstance(s[2], tuple) and s[2][0] == "List" and list_has_enum(s[3]):
                    enum_lists.add(s[1])
                walk(s[3])
            elif s[0] == "print":
                for x in s[1]:
                    walk(x)
            elif s[0] == "func":
                stmts(s[4]); walk(s[5])
            elif s[0] == "lambda":
                walk(s[4])
            elif s[0] in ("for",):
                enum_vars.add(s[1])          # the loop variable of `lo..<hi` has an interval type, treated like an enum
                stmts(s[4])
            elif s[0] == "while":
                stmts(s[3])
            elif s[0] == "ifstmt":
                walk(s[1]); stmts(s[2]); stmts(s[3])
            elif s[0] == "tupdef":
                for (nm, ty), x in zip(s[1], s[2]):
                    if ty in ("Nat", "Int") and is_enum_nat(x):
                        enum_vars.add(nm)
                    if ty in ("Nat", "Int") and static_nat(x):
                        nat_vars.add(nm)
                    walk(x)
            elif s[0] == "exprstmt":
                walk(s[1])
    stmts(prog)
    if seen["neg_cmp"] and seen["neg_branch"]:
        # `if(-1 < 3, do(-1), do(1))`: a negative literal compared on the left and a negative literal (operand) in an
        # if-branch — the literal's type is linked to a Nat-based guard type and the branch value is wrapped in Nat(...)
        feats.add("neglit-cmp-if")
    return feats
