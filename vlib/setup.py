"""./check setup — build everything from files on disk, offline: harness crates (against /repo with --cfg erg_verif),
the Lean library (all property theorem modules) and every model driver, the erg CLI.

Setup is a warm-up: every check rebuilds what it needs itself, so a target that fails to build here is reported by the
property it belongs to (as a VIOLATION … no-failing-input-found), not by setup. Setup therefore only fails when nothing at
all can be built."""
import os
import re
from vlib import core


def lean_targets():
    toml = open(os.path.join(core.LEAN, "lakefile.toml")).read()
    exes = []
    for name, root in re.findall(r'^name = "(ergmodel_\w+)"\nroot = "([\w.]+)"', toml, re.M):
        if os.path.exists(os.path.join(core.LEAN, *root.split(".")) + ".lean"):
            exes.append(name)
    props = []
    for d in sorted(os.listdir(os.path.join(core.LEAN, "ErgVerif"))):
        if os.path.exists(os.path.join(core.LEAN, "ErgVerif", d, "Props.lean")):
            props.append(f"ErgVerif.{d}.Props")
    return props, exes


def main():
    built_any = False
    for kind in ["harness", "harness-els", "harness-seq"]:
        if os.path.exists(os.path.join(core.VERIF, kind, "Cargo.toml.in")):
            d = core.harness_dir(kind)
            r, out, err = core.sh(["cargo", "build", "--offline", "--bins"], cwd=d, timeout=7200)
            core.log(f"[setup] cargo build --bins ({kind}) rc={r}")
            if r == 0:
                built_any = True
            else:
                core.log(err[-2000:])
                # one broken binary must not keep the others from being built
                for f in sorted(os.listdir(os.path.join(d, "src", "bin"))):
                    b = f[:-3] if f.endswith(".rs") else f
                    r2, _, _ = core.sh(["cargo", "build", "--offline", "--bin", b], cwd=d, timeout=7200)
                    core.log(f"[setup]   --bin {b} rc={r2}")
                    built_any = built_any or r2 == 0
    props, exes = lean_targets()
    ok, blog = core.lake_build(props + exes)
    if ok:
        built_any = True
    else:
        core.log(blog[-3000:])
        for t in props + exes:
            ok1, _ = core.lake_build([t])
            built_any = built_any or ok1
    core.ergpath()
    ok, blog, _ = core.erg_binary()
    if not ok:
        core.log(blog)
    return 0 if built_any else 1
