"""./check setup — build everything from files on disk, offline: harness crates (against /repo with --cfg erg_verif),
the Lean library (all property theorem modules) and every model driver."""
import json
import os
import re
from vlib import core


def lean_targets():
    toml = open(os.path.join(core.LEAN, "lakefile.toml")).read()
    exes = re.findall(r'^name = "(ergmodel_\w+)"', toml, re.M)
    props = []
    for d in sorted(os.listdir(os.path.join(core.LEAN, "ErgVerif"))):
        if os.path.exists(os.path.join(core.LEAN, "ErgVerif", d, "Props.lean")):
            props.append(f"ErgVerif.{d}.Props")
    return props, exes


def main():
    rc = 0
    for kind in ["harness", "harness-els"]:
        if os.path.exists(os.path.join(core.VERIF, kind, "Cargo.toml.in")):
            d = core.harness_dir(kind)
            r, out, err = core.sh(["cargo", "build", "--offline", "--bins"], cwd=d, timeout=7200)
            core.log(f"[setup] cargo build --bins ({kind}) rc={r}")
            if r != 0:
                core.log(err[-3000:])
                rc = 1
    props, exes = lean_targets()
    ok, blog = core.lake_build(props + exes)
    if not ok:
        core.log(blog)
        rc = 1
    core.ergpath()
    ok, blog, _ = core.erg_binary()
    if not ok:
        core.log(blog)
        rc = 1
    return rc
