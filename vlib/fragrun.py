"""Run generated fragment programs through the real compiler + interpreter and through the independent Python
oracle, in parallel. Shared by the behavioural ties (C01, C07, C13, ...)."""
import os
import re
import shutil
import subprocess
import tempfile
from concurrent.futures import ThreadPoolExecutor

from vlib import core, fraggen


def run_cmd(cmd, cwd, env, timeout=240):
    try:
        p = subprocess.run(cmd, cwd=cwd, env=env, timeout=timeout, stdout=subprocess.PIPE, stderr=subprocess.PIPE)
        return p.returncode, p.stdout.decode("utf-8", "replace"), p.stderr.decode("utf-8", "replace")
    except subprocess.TimeoutExpired:
        return 124, "", "TIMEOUT"


PANIC_PAT = re.compile(r"panicked at|Thread panicked|this is a bug of the Erg compiler|This may be a bug of Erg compiler|"
                       r"stack overflow|SIGSEGV|SIGABRT")


def exc_class(stderr):
    """last `XxxError:`-style line of a Python traceback, '' if none"""
    cls = ""
    for l in stderr.splitlines():
        m = re.match(r"^([A-Za-z_][A-Za-z0-9_.]*(?:Error|Exception|Exit|Interrupt))\b", l.strip())
        if m:
            cls = m.group(1).split(".")[-1]
    return cls


def classify_erg(rc, out, err):
    """outcome class of an `erg run`: ok / runtime-exc:<cls> / rejected (diagnostics) / crash / timeout"""
    if rc == 124:
        return "timeout"
    if PANIC_PAT.search(err) or PANIC_PAT.search(out):
        return "crash"
    if rc == 0:
        return "ok"
    cls = exc_class(err)
    if "Traceback (most recent call last)" in err and cls:
        return "runtime-exc:" + cls
    if re.search(r"Error\[#\d+\]|SyntaxError|TypeError|NameError", err) or "Error" in err:
        return "rejected"
    return f"exit:{rc}"


def run_programs(progs, erg, python=None, opt=None, jobs=12, mode="compile+run", extra_args=(), keep=False):
    """progs: list of (id, erg_source, python_source or None). Returns list of dicts."""
    python = python or core.PYTHONS["3.11"]
    env = core.erg_env()
    work = tempfile.mkdtemp(prefix="fragrun-", dir=os.path.join(core.scratch_root(), "work") if os.path.isdir(os.path.join(core.scratch_root(), "work")) else None)

    def one(p):
        pid, esrc, psrc = p
        d = os.path.join(work, re.sub(r"[^A-Za-z0-9_]", "_", pid))
        os.makedirs(d, exist_ok=True)
        open(os.path.join(d, "m.er"), "w").write(esrc)
        cmd = [erg, "--py-command", python]
        if opt is not None:
            cmd += ["-o", str(opt)]
        if mode == "compile+run":
            # compile to m.pyc, then run the produced bytecode directly under the target interpreter: stdout is then the
            # program's own output (the compiler prints warnings on stdout in `run` mode)
            rc, out, err = run_cmd(cmd + list(extra_args) + ["compile", "m.er"], d, env)
            ccls = classify_erg(rc, out, err)
            if ccls == "ok" and os.path.exists(os.path.join(d, "m.pyc")):
                rc, out, err = run_cmd([python, "m.pyc"], d, env)
                cls = "ok" if rc == 0 else ("runtime-exc:" + exc_class(err) if exc_class(err) else f"exit:{rc}")
                if rc == 124:
                    cls = "timeout"
            else:
                cls = "rejected" if ccls == "ok" else ccls
                if ccls == "ok":
                    cls = "no-pyc"
                out = ""
            res = {"id": pid, "erg_rc": rc, "erg_out": out, "erg_err": err[-1500:], "erg_class": cls}
        else:
            cmd += list(extra_args) + [mode, "m.er"]
            rc, out, err = run_cmd(cmd, d, env)
            res = {"id": pid, "erg_rc": rc, "erg_out": out, "erg_err": err[-1500:], "erg_class": classify_erg(rc, out, err)}
        if psrc is not None:
            open(os.path.join(d, "oracle.py"), "w").write(psrc)
            prc, pout, perr = run_cmd([python, "oracle.py"], d, env)
            res.update({"py_rc": prc, "py_out": pout, "py_err": perr[-800:],
                        "py_class": "ok" if prc == 0 else ("runtime-exc:" + exc_class(perr) if exc_class(perr) else f"exit:{prc}")})
        return res

    with ThreadPoolExecutor(max_workers=jobs) as ex:
        results = list(ex.map(one, progs))
    if not keep:
        shutil.rmtree(work, ignore_errors=True)
    return results


def gen_programs(seed, n, **cfg):
    out = []
    for i in range(n):
        g = fraggen.Gen(fraggen.Rng(seed * 1000003 + i), **cfg)
        prog = g.program()
        out.append((f"p{seed}_{i}", prog, sorted(g.features)))
    return out
