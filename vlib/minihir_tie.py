"""Helpers shared by the three checks that run on generated Erg programs projected to mini-HIR (C22, C23, C12):
source extraction, input statistics for the evidence, line-block shrinking of a failing program, `erg check` / `erg run`
end-to-end streams."""
import json
import os
import re
import tempfile

from vlib import core

SRC_RE = re.compile(r'^\(src ("(?:[^"\\]|\\.)*")')
ANSI = re.compile(r"\x1b\[[0-9;]*m")


def src_of(inp):
    m = SRC_RE.match(inp)
    if not m:
        return None
    lit = m.group(1)
    # the harness' quote() is JSON-compatible except \Uxxxxxx (astral); generated programs are ASCII
    try:
        return json.loads(lit)
    except Exception:
        return None


def quote(s):
    o = ['"']
    for ch in s:
        c = ord(ch)
        if ch == '"':
            o.append('\\"')
        elif ch == "\\":
            o.append("\\\\")
        elif ch == "\n":
            o.append("\\n")
        elif ch == "\t":
            o.append("\\t")
        elif ch == "\r":
            o.append("\\r")
        elif c < 32 or c >= 127:
            o.append("\\u%04x" % c if c < 65536 else "\\U%06x" % c)
        else:
            o.append(ch)
    o.append('"')
    return "".join(o)


def input_stats(rows):
    """distribution of the generated programs: nesting depth (indentation), size, front-end rejections, refusals of the
    projection, opaque nodes (hypothesis `plain` of the theorems), diagnostics kinds"""
    st = {"programs": len(rows), "lower_error": 0, "out_of_fragment": 0, "crash": 0, "opaque_nodes": 0,
          "max_indent_hist": {}, "lines_hist": {}, "impl_kinds": {}, "mini_hir_ctor_hist": {}}
    for r in rows:
        inp, impl = r[1], r[2]
        if impl.startswith("(lower-error"):
            st["lower_error"] += 1
        elif impl.startswith("out-of-fragment"):
            st["out_of_fragment"] += 1
        elif impl.startswith("crash"):
            st["crash"] += 1
        if re.search(r"\((redef|code|compound|dummy) ", inp):
            st["opaque_nodes"] += 1
        src = src_of(inp) or ""
        lines = [l for l in src.split("\n") if l.strip()]
        d = max([(len(l) - len(l.lstrip(" "))) // 4 for l in lines] or [0])
        st["max_indent_hist"][str(d)] = st["max_indent_hist"].get(str(d), 0) + 1
        b = str(min(len(lines) // 10 * 10, 60))
        st["lines_hist"][b] = st["lines_hist"].get(b, 0) + 1
        for k in re.findall(r"\((\w+) \d+ \d+\)", impl):
            st["impl_kinds"][k] = st["impl_kinds"].get(k, 0) + 1
        for k in re.findall(r"\((lit|ident|attr|bin|un|call|def|lambda|list|listlen|tuple|set|dict|record|tasc|classdef|patchdef|import) ", inp):
            st["mini_hir_ctor_hist"][k] = st["mini_hir_ctor_hist"].get(k, 0) + 1
    n = max(len(rows), 1)
    st["refusal_rate"] = round(st["out_of_fragment"] / n, 4)
    st["lower_error_rate"] = round(st["lower_error"] / n, 4)
    return st


def run_one(ctx, bindir, harness_bin, src, model_args=()):
    """run harness + model on one source; returns (row, mrow) or None"""
    try:
        _, rows, _ = core.run_harness(bindir, harness_bin, ["replay"], stdin="s0\t(src %s)\n" % quote(src))
    except OSError:
        return None     # the harness binary disappeared (scratch directory cleaned by someone else): no shrinking
    if not rows:
        return None
    exe = os.path.join(core.LEAN, ".lake", "build", "bin", "ergmodel_" + ctx.prop.lower())
    text = "\t".join(rows[0][:3]) + "\n"
    rc, out, err = core.sh([exe] + list(model_args), input=text, timeout=600)
    mrows = core.parse_lines(out, 4)
    if not mrows:
        return None
    return rows[0], mrows[0]


def shrink_source(ctx, bindir, harness_bin, src, still_fails, max_trials=80):
    """delta-debugging on line blocks: remove a line together with the more-indented lines that follow it, keep the
    removal while `still_fails(row, mrow)` holds"""
    lines = src.rstrip("\n").split("\n")
    trials = 0
    changed = True
    while changed and trials < max_trials:
        changed = False
        i = len(lines) - 1
        while i >= 0 and trials < max_trials:
            ind = len(lines[i]) - len(lines[i].lstrip(" "))
            j = i + 1
            while j < len(lines) and (len(lines[j]) - len(lines[j].lstrip(" "))) > ind:
                j += 1
            cand = lines[:i] + lines[j:]
            if cand:
                trials += 1
                r = run_one(ctx, bindir, harness_bin, "\n".join(cand) + "\n")
                if r and still_fails(r[0], r[1]):
                    lines = cand
                    changed = True
            i -= 1
    return "\n".join(lines) + "\n"


def make_shrinker(harness_bin):
    def shrink(ctx, v, bindir):
        src = src_of(v[1])
        if not src:
            return None

        def fails(row, mrow):
            return mrow[2].startswith("viol") and not mrow[1].startswith("out-of-model")
        small = shrink_source(ctx, bindir, harness_bin, src, fails)
        r = run_one(ctx, bindir, harness_bin, small)
        if r and fails(r[0], r[1]):
            row, mrow = r
            return (v[0] + "-shrunk", row[1], row[2], mrow[1], mrow[2], mrow[3])
        return None
    return shrink


def make_search_more(harness_bin):
    """a model/implementation disagreement without a spec violation among the generated cases: shrink the first
    disagreeing program and report it if the implementation also leaves the specification there"""
    def search_more(ctx, res, proof, bindir):
        for d in res.disagree[:3]:
            src = src_of(d[1])
            if not src:
                continue

            def differs(row, mrow):
                return (not mrow[1].startswith("out-of-model")) and row[2] != mrow[1]
            small = shrink_source(ctx, bindir, harness_bin, src, differs, max_trials=60)
            r = run_one(ctx, bindir, harness_bin, small)
            if r and r[1][2].startswith("viol"):
                row, mrow = r
                return {"kind": "implementation-violates-spec", "case_id": d[0] + "-shrunk", "input": row[1], "impl": row[2],
                        "model": mrow[1], "spec": mrow[2], "found_by": "shrinking a model/implementation disagreement"}
        return None
    return search_more


def erg_cli(ctx):
    ok, log, exe = core.erg_binary()
    if not ok:
        ctx.violation({"kind": "erg-cli-build-failed", "log": log}, no_input=True)
        return None
    return exe


def erg_check_diags(exe, src, extra_args=()):
    """run `erg check` on a source; returns (rc, [(kind, line)], raw tail)"""
    with tempfile.TemporaryDirectory(prefix="verif_e2e_") as d:
        f = os.path.join(d, "case.er")
        open(f, "w").write(src)
        rc, out, err = core.sh([exe, "check"] + list(extra_args) + [f], env=core.erg_env(), timeout=120, cwd=d)
    txt = ANSI.sub("", out + "\n" + err)
    diags = []
    line = None
    for l in txt.split("\n"):
        m = re.match(r"^Error\[#\d+\]: File .*?, line (\d+)", l)
        if m:
            line = int(m.group(1))
            continue
        m = re.match(r"^(\w+Error|HasEffect|\w+): ", l)
        if m and line is not None:
            diags.append((m.group(1), line))
            line = None
    return rc, diags, txt[-1500:]
