"""Shared machinery of /verif/check: builds, audits, correspondence diff, verdict rule, evidence, replays.

Verdict rule (DESIGN.md section 1), implemented once here:
  1. build (regenerate tables, cargo build the harness against the working tree with --cfg erg_verif,
     lake build the property's theorem module and model driver), audit (forbidden tokens, #print axioms);
  2. run the tie(s): corpus first, then generated cases;
  3. replay known findings -> KNOWN-FINDING lines;
  4. all green -> exit 0;
  5. otherwise search for a concrete failing input -> VIOLATION ... replay=<file> [no-failing-input-found].
"""
import hashlib
import json
import os
import re
import shutil
import subprocess
import sys
import time

VERIF = os.path.dirname(os.path.dirname(os.path.abspath(__file__)))
REPO = os.path.abspath(os.environ.get("ERG_REPO", "/repo"))
LEAN = os.path.join(VERIF, "lean")
ALLOWED_AXIOMS = {"propext", "Classical.choice", "Quot.sound"}
FORBIDDEN = [r"\bsorry\b", r"\badmit\b", r"^\s*axiom\s", r"\bnative_decide\b", r"\bbv_decide\b",
             r"\bimplemented_by\b", r"\bunsafe\s", r"maxHeartbeats\s+0\b"]
PYTHONS = {
    "3.7": "/root/.pyenv/versions/3.7.16/bin/python3.7",
    "3.8": "/root/.pyenv/versions/3.8.18/bin/python3.8",
    "3.9": "/root/.pyenv/versions/3.9.18/bin/python3.9",
    "3.10": "/root/.pyenv/versions/3.10.13/bin/python3.10",
    "3.11": "/root/.pyenv/versions/3.11.7/bin/python3.11",
    "3.12": "/root/.pyenv/versions/3.12.1/bin/python3.12",
    "3.13": "/root/.pyenv/versions/3.13.0/bin/python3.13",
}
BASE_ENV = dict(os.environ, CARGO_NET_OFFLINE="true", LC_ALL="C.UTF-8", LANG="C.UTF-8")
TRUSTED_BASE = [
    "Lean 4.33.0 kernel (lake build; thorough tier also leanchecker)",
    "axioms admitted: propext, Classical.choice, Quot.sound (checked by #print axioms on every property theorem)",
    "Lean compiler/runtime executing the compiled model driver",
    "harness serialisation + orchestrator diff (vlib/core.py)",
]


def quote(s):
    """JSON-style escaping of the S-expression line protocol (mirrors harness/src/lib.rs `quote` and ErgVerif.Sexp)"""
    o = ['"']
    for c in s:
        n = ord(c)
        if c == '"':
            o.append('\\"')
        elif c == "\\":
            o.append("\\\\")
        elif c == "\n":
            o.append("\\n")
        elif c == "\t":
            o.append("\\t")
        elif c == "\r":
            o.append("\\r")
        elif n < 32 or n >= 127:
            o.append("\\u%04x" % n if n < 65536 else "\\U%06x" % n)
        else:
            o.append(c)
    o.append('"')
    return "".join(o)


def log(msg):
    sys.stderr.write(msg + "\n")
    sys.stderr.flush()


def sh(cmd, cwd=None, env=None, timeout=None, input=None):
    """run a command, return (rc, stdout, stderr); never raises on failure"""
    try:
        p = subprocess.run(cmd, cwd=cwd, env=env or BASE_ENV, timeout=timeout, input=input,
                           stdout=subprocess.PIPE, stderr=subprocess.PIPE, text=True, errors="replace")
        return p.returncode, p.stdout, p.stderr
    except subprocess.TimeoutExpired as e:
        out = e.stdout.decode("utf-8", "replace") if isinstance(e.stdout, bytes) else (e.stdout or "")
        err = e.stderr.decode("utf-8", "replace") if isinstance(e.stderr, bytes) else (e.stderr or "")
        return 124, out, err + "\nTIMEOUT"


# ---------------------------------------------------------------------------------------------- paths

def scratch_root():
    """where harness copies live when ERG_REPO is not /repo (seeded-change testing on a scratch worktree)"""
    if REPO == "/repo":
        return VERIF
    h = hashlib.sha1(REPO.encode()).hexdigest()[:10]
    d = os.path.join(os.path.dirname(REPO), ".vsx-" + h)
    os.makedirs(d, exist_ok=True)
    return d


def harness_dir(kind="harness"):
    src = os.path.join(VERIF, kind)
    if REPO == "/repo":
        dst = src
    else:
        dst = os.path.join(scratch_root(), kind)
        os.makedirs(dst, exist_ok=True)
        sh(["rsync", "-rlc", "--delete", "--exclude", "target", "--exclude", "Cargo.toml", src + "/", dst + "/"])
        if kind != "harness":
            # harness-els/src/lib.rs includes ../../harness/src/lib.rs by #[path]: keep the shared library sources
            # (lib.rs and its modules, not the binaries) next to the copy too
            os.makedirs(os.path.join(scratch_root(), "harness", "src"), exist_ok=True)
            sh(["rsync", "-rlc", "--delete", "--exclude", "bin", os.path.join(VERIF, "harness", "src") + "/",
                os.path.join(scratch_root(), "harness", "src") + "/"])
    tmpl = open(os.path.join(src, "Cargo.toml.in")).read().replace("@REPO@", REPO)
    out = os.path.join(dst, "Cargo.toml")
    if not os.path.exists(out) or open(out).read() != tmpl:
        open(out, "w").write(tmpl)
    return dst


def ergpath():
    """ERG_PATH synced from the working tree (never ~/.erg)"""
    d = os.path.join(scratch_root(), ".ergpath")
    os.makedirs(os.path.join(d, "lib"), exist_ok=True)
    sh(["rsync", "-a", "--delete", os.path.join(REPO, "crates/erg_compiler/lib") + "/", os.path.join(d, "lib") + "/"])
    return d


def erg_env():
    e = dict(BASE_ENV)
    e["ERG_PATH"] = ergpath()
    return e


# ---------------------------------------------------------------------------------------------- builds

def cargo_build(bins, kind="harness"):
    d = harness_dir(kind)
    cmd = ["cargo", "build", "--offline"]
    for b in bins:
        cmd += ["--bin", b]
    t = time.time()
    rc, out, err = sh(cmd, cwd=d, timeout=3600)
    log(f"[build] cargo build {' '.join(bins)} ({kind}) rc={rc} {time.time()-t:.1f}s")
    return rc == 0, (out + err)[-6000:], os.path.join(d, "target", "debug")


def erg_binary():
    """the `erg` CLI built from the working tree (debug profile, default features; separate target dir under the
    scratch root so /repo/target is never touched)"""
    td = os.path.join(scratch_root(), "erg-target")
    t = time.time()
    env = dict(BASE_ENV, CARGO_PROFILE_DEV_DEBUG="0", RUSTFLAGS="-Awarnings")
    rc, out, err = sh(["cargo", "build", "--offline", "--target-dir", td], cwd=REPO, timeout=3600, env=env)
    log(f"[build] erg CLI rc={rc} {time.time()-t:.1f}s")
    return rc == 0, (out + err)[-4000:], os.path.join(td, "debug", "erg")


def lake_build(targets):
    t = time.time()
    rc, out, err = sh(["lake", "build"] + targets, cwd=LEAN, timeout=3600)
    log(f"[build] lake build {' '.join(targets)} rc={rc} {time.time()-t:.1f}s")
    return rc == 0, (out + err)[-8000:]


def strip_lean_comments(src):
    # block comments (nested) then line comments
    out = []
    i, depth = 0, 0
    n = len(src)
    while i < n:
        if src.startswith("/-", i):
            depth += 1
            i += 2
        elif depth > 0 and src.startswith("-/", i):
            depth -= 1
            i += 2
        elif depth > 0:
            if src[i] == "\n":
                out.append("\n")
            i += 1
        elif src.startswith("--", i):
            while i < n and src[i] != "\n":
                i += 1
        elif src.startswith("'\"'", i):
            i += 3
        elif src.startswith("'\\\"'", i):
            i += 4
        elif src[i] == '"':
            j = i + 1
            while j < n and src[j] != '"':
                j += 2 if src[j] == "\\" else 1
            out.append('""')
            i = j + 1
        else:
            out.append(src[i])
            i += 1
    return "".join(out)


def lean_files_for(prop):
    fs = []
    for root in [os.path.join(LEAN, "ErgVerif", prop), os.path.join(LEAN, "ErgVerif", "Util"),
                 os.path.join(LEAN, "ErgVerif", "Shared"), os.path.join(LEAN, "ErgVerif", "Gen")]:
        for dp, _, fns in os.walk(root):
            fs += [os.path.join(dp, f) for f in fns if f.endswith(".lean")]
    d = os.path.join(LEAN, "Driver", prop + ".lean")
    if os.path.exists(d):
        fs.append(d)
    return sorted(fs)


def audit_tokens(prop):
    """forbidden tokens outside comments/strings; `partial` only in Util/ and Driver/"""
    hits = []
    for f in lean_files_for(prop):
        src = strip_lean_comments(open(f).read())
        for pat in FORBIDDEN:
            for m in re.finditer(pat, src, re.M):
                hits.append(f"{os.path.relpath(f, LEAN)}: {m.group(0).strip()}")
        if "/Util/" not in f and "/Driver/" not in f and re.search(r"\bpartial\s+def\b", src):
            hits.append(f"{os.path.relpath(f, LEAN)}: partial def in a model/spec/proof file")
    return hits


def theorem_names(prop, props_file=None):
    f = props_file or os.path.join(LEAN, "ErgVerif", prop, "Props.lean")
    src = strip_lean_comments(open(f).read())
    ns = re.findall(r"^namespace\s+(\S+)", src, re.M)
    ns = ns[0] if ns else ""
    names = re.findall(r"^\s*(?:@\[[^\]]*\]\s*)?(?:protected\s+)?theorem\s+(\S+)", src, re.M)
    examples = len(re.findall(r"^\s*example\b", src, re.M))
    return ns, names, examples


def audit_axioms(prop, extra_modules=()):
    """#print axioms on every theorem of Props.lean, by elaborating a generated audit file"""
    ns, names, examples = theorem_names(prop)
    os.makedirs(os.path.join(LEAN, "Audit"), exist_ok=True)
    af = os.path.join(LEAN, "Audit", prop + ".lean")
    body = [f"import ErgVerif.{prop}.Props"] + [f"import {m}" for m in extra_modules]
    for n in names:
        body.append(f"#print axioms {ns + '.' if ns else ''}{n}")
    open(af, "w").write("\n".join(body) + "\n")
    rc, out, err = sh(["lake", "env", "lean", af], cwd=LEAN, timeout=1800)
    axioms = {}
    txt = (out + err).replace("\n  ", " ")
    for m in re.finditer(r"'([^']+)' depends on axioms: \[([^\]]*)\]", txt):
        axioms[m.group(1).split(".")[-1]] = [a.strip() for a in m.group(2).split(",") if a.strip()]
    for m in re.finditer(r"'([^']+)' does not depend on any axioms", txt):
        axioms[m.group(1).split(".")[-1]] = []
    bad = []
    for n in names:
        short = n.split(".")[-1]
        if short not in axioms:
            bad.append(f"{n}: no #print axioms output")
        else:
            extra = set(axioms[short]) - ALLOWED_AXIOMS
            if extra:
                bad.append(f"{n}: uses {sorted(extra)}")
    if rc != 0:
        bad.append("audit file failed to elaborate: " + (out + err)[-500:])
    return names, examples, axioms, bad


def leanchecker(module):
    rc, out, err = sh(["lake", "env", "leanchecker", module], cwd=LEAN, timeout=3600)
    return rc == 0, (out + err)[-2000:]


# ---------------------------------------------------------------------------------------------- ties

def parse_lines(text, ncols):
    rows = []
    for l in text.split("\n"):
        if not l:
            continue
        parts = l.split("\t")
        while len(parts) < ncols:
            parts.append("")
        rows.append(parts)
    return rows


def run_harness(bindir, binname, args, stdin=None, timeout=3600, env=None):
    rc, out, err = sh([os.path.join(bindir, binname)] + args, input=stdin, timeout=timeout, env=env or erg_env())
    if rc != 0:
        log(f"[harness] {binname} {' '.join(args)} rc={rc}: {err[-800:]}")
    return rc, parse_lines(out, 3), err


def run_model(prop, rows, timeout=3600, exe=None):
    """rows: (id, input, impl) -> list of (id, model, spec, inK)"""
    exe = exe or os.path.join(LEAN, ".lake", "build", "bin", "ergmodel_" + prop.lower())
    text = "".join("\t".join(r[:3]) + "\n" for r in rows)
    rc, out, err = sh([exe], input=text, timeout=timeout)
    if rc != 0:
        log(f"[model] {exe} rc={rc}: {err[-800:]}")
    return rc, parse_lines(out, 4), err


class Result:
    """outcome of comparing implementation rows with model rows"""

    def __init__(self):
        self.agree = 0
        self.disagree = []      # (id, input, impl, model)
        self.spec_viol = []     # (id, input, impl, model, spec, inK)  with inK != 1 or impl != model
        self.known = []         # spec violations inside K with impl == model
        self.out_of_model = 0
        self.total = 0


def compare(rows, mrows, known_ids=()):
    """inK column: `-`/`0`/empty = not in a known-finding class; otherwise the id of the known finding whose class K the case
    falls in. A spec violation is accepted as known only if that id is listed (status finding) AND impl == model."""
    res = Result()
    m = {r[0]: r for r in mrows}
    for r in rows:
        res.total += 1
        cid, inp, impl = r[0], r[1], r[2]
        mr = m.get(cid)
        if mr is None:
            res.disagree.append((cid, inp, impl, "<no model output>"))
            continue
        model, spec, ink = mr[1], mr[2], mr[3]
        if model.startswith("out-of-model"):
            res.out_of_model += 1
            continue
        same = (impl == model)
        if same:
            res.agree += 1
        else:
            res.disagree.append((cid, inp, impl, model))
        if spec.startswith("viol"):
            if ink in known_ids and same:
                res.known.append((cid, inp, impl, model, spec, ink))
            else:
                res.spec_viol.append((cid, inp, impl, model, spec, ink))
    return res


# ---------------------------------------------------------------------------------------------- context

class Ctx:
    def __init__(self, prop, tier, seed):
        self.prop = prop
        self.tier = tier
        self.seed = seed
        self.t0 = time.time()
        self.cov = {"samples": [], "evaluations": 0, "distinct_nontrivial": 0, "traces_validated_against_impl": 0}
        self.assumptions = []
        self.violations = 0
        self.known_printed = []
        self.level = "proof"
        self.notes = []

    # ---- findings
    def known_findings(self):
        f = os.path.join(VERIF, "known_findings.json")
        if not os.path.exists(f):
            return []
        return [e for e in json.load(open(f)) if e.get("property") == self.prop and e.get("status") == "finding"]

    def print_known(self, entry, what=None):
        line = f"KNOWN-FINDING: property={self.prop} {entry['id']}: {what or entry.get('summary', '')}"
        print(line)
        sys.stdout.flush()
        self.known_printed.append(entry["id"])

    # ---- violations
    def violation(self, replay, no_input=False):
        self.violations += 1
        d = os.path.join(VERIF, "replays")
        os.makedirs(d, exist_ok=True)
        path = os.path.join(d, f"{self.prop}-{self.tier}-{self.seed}-{self.violations}.json")
        replay = dict(replay)
        replay.setdefault("property", self.prop)
        replay.setdefault("seed", self.seed)
        replay.setdefault("tier", self.tier)
        replay.setdefault("how_to_rerun", f"./check {self.prop} --replay {path}")
        json.dump(replay, open(path, "w"), indent=1, ensure_ascii=False)
        print(f"VIOLATION property={self.prop} replay={path}" + (" no-failing-input-found" if no_input else ""))
        sys.stdout.flush()
        return path

    # ---- evidence
    def write_evidence(self, obligations, discharged, checker_cmd, extra=None, trusted=None):
        cov = dict(self.cov)
        cov.update({"obligations": obligations, "discharged": discharged, "checker_cmd": checker_cmd,
                    "trusted_base": TRUSTED_BASE + list(trusted or [])})
        if extra:
            cov.update(extra)
        cov["samples"] = cov["samples"][:8] or ["<none>"]
        cov["known_findings_replayed"] = self.known_printed
        cov["repo"] = REPO
        ev = {"property_id": self.prop, "tier": self.tier, "seed": self.seed, "level": self.level,
              "coverage": cov, "assumptions": self.assumptions, "wall_s": round(time.time() - self.t0, 2),
              "violations": self.violations}
        # evidence of a run against a scratch worktree (seeded-change testing) never overwrites the committed evidence
        evdir = os.path.join(VERIF, "evidence") if REPO == "/repo" else os.path.join(scratch_root(), "evidence")
        os.makedirs(evdir, exist_ok=True)
        json.dump(ev, open(os.path.join(evdir, self.prop + ".json"), "w"), indent=1, ensure_ascii=False)

    def finish(self):
        sys.exit(1 if self.violations else 0)


# ---------------------------------------------------------------------------------------------- standard flow

def proof_stage(ctx, prop, lake_targets, extra_audit_modules=()):
    """build + audit the Lean side. returns dict(ok, obligations, discharged, axioms, problems, log)"""
    ok, blog = lake_build(lake_targets)
    problems = []
    names, examples, axioms = [], 0, {}
    if not ok:
        problems.append("lake build failed")
    hits = audit_tokens(prop)
    problems += ["forbidden token: " + h for h in hits]
    if ok:
        names, examples, axioms, bad = audit_axioms(prop, extra_audit_modules)
        problems += bad
        if ctx.tier == "thorough":
            lok, llog = leanchecker(f"ErgVerif.{prop}.Props")
            if not lok:
                problems.append("leanchecker rejected ErgVerif.%s.Props: %s" % (prop, llog[-300:]))
    else:
        try:
            _, names, examples = theorem_names(prop)
        except Exception:
            pass
    obligations = len(names) + examples
    return {"ok": ok and not problems, "obligations": max(obligations, 1),
            "discharged": obligations if (ok and not problems) else 0, "axioms": axioms,
            "problems": problems, "log": blog, "theorems": names, "examples": examples}


def corpus_rows(prop):
    d = os.path.join(VERIF, "corpus", prop)
    rows = []
    if os.path.isdir(d):
        for fn in sorted(os.listdir(d)):
            if fn.endswith(".case"):
                for l in open(os.path.join(d, fn)):
                    l = l.rstrip("\n")
                    if l and not l.startswith("#"):
                        p = l.split("\t")
                        rows.append((p[0], p[1] if len(p) > 1 else ""))
    return rows


def standard_check(ctx, *, harness_bin, n_quick, n_thorough, nontrivial, kind="harness", extra_gen_args=(),
                   lake_props=None, trusted=(), search_more=None, known_replay=None, shrink=None,
                   extra_audit_modules=(), pre=None, post=None):
    """The standard T-corr flow for one property with one harness binary and one model driver."""
    prop = ctx.prop
    n = n_thorough if ctx.tier == "thorough" else n_quick
    proof = proof_stage(ctx, prop, [lake_props or f"ErgVerif.{prop}.Props", "ergmodel_" + prop.lower()],
                        extra_audit_modules)
    ok_h, hlog, bindir = cargo_build([harness_bin], kind)
    checker_cmd = f"cd lean && lake build ErgVerif.{prop}.Props ergmodel_{prop.lower()} && lake env lean Audit/{prop}.lean"
    extra = {"axioms": proof["axioms"], "theorems": proof["theorems"], "examples": proof["examples"]}
    if not ok_h:
        ctx.violation({"kind": "harness-build-failed", "what": "the correspondence harness no longer builds against the working tree, "
                       "so the tie between model and code cannot be checked", "log": hlog}, no_input=True)
        ctx.write_evidence(proof["obligations"], proof["discharged"], checker_cmd, extra, trusted)
        ctx.finish()
    if pre:
        pre(ctx, bindir)
    # corpus first
    rows = []
    crow = corpus_rows(prop)
    if crow:
        _, r, _ = run_harness(bindir, harness_bin, ["replay"], stdin="".join(f"{a}\t{b}\n" for a, b in crow))
        rows += r
    rc, r, err = run_harness(bindir, harness_bin, ["gen", "--seed", str(ctx.seed), "--n", str(n), "--tier", ctx.tier] + list(extra_gen_args))
    rows += r
    if rc != 0:
        ctx.violation({"kind": "harness-run-failed", "stderr": err[-3000:]}, no_input=True)
    model_ok = os.path.exists(os.path.join(LEAN, ".lake", "build", "bin", "ergmodel_" + prop.lower()))
    res = Result()
    if model_ok:
        mrc, mrows, merr = run_model(prop, rows)
        res = compare(rows, mrows, {e["id"] for e in ctx.known_findings()})
        if mrc != 0:
            ctx.violation({"kind": "model-driver-failed", "stderr": merr[-3000:]}, no_input=True)
    # coverage
    seen = set()
    nt = 0
    for r_ in rows:
        if r_[1] not in seen:
            seen.add(r_[1])
            if nontrivial(r_):
                nt += 1
    ctx.cov["evaluations"] = len(rows)
    ctx.cov["distinct_nontrivial"] = nt
    ctx.cov["traces_validated_against_impl"] = res.agree
    ctx.cov["samples"] = [{"input": r_[1], "impl": r_[2][:300]} for r_ in rows[:3] + rows[len(rows)//2:len(rows)//2+2]]
    extra.update({"disagreements": len(res.disagree), "spec_violations": len(res.spec_viol),
                  "in_known_class": len(res.known), "out_of_model": res.out_of_model, "corpus_cases": len(crow)})
    # known findings: the witness of every listed finding is a corpus row with id `k:<finding id>`; the line is printed
    # when that witness still fails exactly as the model (which transcribes the defect) predicts
    for e in ctx.known_findings():
        if known_replay:
            known_replay(ctx, e, bindir)
            continue
        hits = [k for k in res.known if k[5] == e["id"]]
        wit = [k for k in hits if k[0] == "k:" + e["id"]]
        if wit:
            ctx.print_known(e, f"{e.get('summary', '')} [witness {wit[0][1][:120]} still fails as recorded; {len(hits)} case(s) of this class in this run]")
        elif hits:
            ctx.print_known(e, f"{e.get('summary', '')} [{len(hits)} case(s) of this class in this run; add the witness to corpus/{prop}/ as k:{e['id']}]")
    # verdict
    if res.spec_viol:
        v = res.spec_viol[0]
        if shrink:
            v = shrink(ctx, v, bindir) or v
        ctx.violation({"kind": "implementation-violates-spec", "case_id": v[0], "input": v[1], "impl": v[2], "model": v[3],
                       "spec": v[4], "inK": v[5], "others": [x[1] for x in res.spec_viol[1:6]],
                       "model_disagreements": [list(x) for x in res.disagree[:5]]})
    elif res.disagree or not proof["ok"]:
        found = None
        if search_more:
            found = search_more(ctx, res, proof, bindir)
        if found:
            ctx.violation(found)
        else:
            ctx.violation({"kind": "no-longer-shown", "what": "a proof obligation or the model/implementation correspondence no longer checks; "
                           "no input on which the implementation violates the specification was found",
                           "proof_problems": proof["problems"], "build_log_tail": proof["log"][-3000:] if not proof["ok"] else "",
                           "correspondence_disagreements": [dict(id=x[0], input=x[1], impl=x[2], model=x[3]) for x in res.disagree[:10]]},
                          no_input=True)
    if post:
        post(ctx, rows, res, bindir)
    ctx.write_evidence(proof["obligations"], proof["discharged"], checker_cmd, extra, trusted)
    ctx.finish()


def standard_replay(ctx, path, harness_bin, kind="harness"):
    rp = json.load(open(path))
    ok_h, hlog, bindir = cargo_build([harness_bin], kind)
    lake_build(["ergmodel_" + ctx.prop.lower()])
    cases = []
    if "input" in rp:
        cases.append((rp.get("case_id", "r0"), rp["input"]))
    for i, o in enumerate(rp.get("others", [])):
        cases.append((f"o{i}", o))
    for i, d in enumerate(rp.get("correspondence_disagreements", [])):
        cases.append((d.get("id", f"d{i}"), d["input"]))
    if not cases:
        print("replay file names no input:", json.dumps(rp.get("proof_problems", rp.get("what", "")))[:2000])
        sys.exit(1)
    _, rows, _ = run_harness(bindir, harness_bin, ["replay"], stdin="".join(f"{a}\t{b}\n" for a, b in cases))
    _, mrows, _ = run_model(ctx.prop, rows)
    res = compare(rows, mrows, {e["id"] for e in ctx.known_findings()})
    for r_, m_ in zip(rows, mrows):
        print("input:", r_[1])
        print("  impl :", r_[2])
        print("  model:", m_[1])
        print("  spec :", m_[2], " inK:", m_[3])
    bad = len(res.disagree) + len(res.spec_viol)
    print("still failing" if bad else "no longer failing")
    sys.exit(1 if bad else 0)
