//! Helpers shared by the C29 and C30 harnesses (included with `#[path]`, not part of the library, so that the
//! other LSP harness is not affected): a small S-expression reader matching ErgVerif.Util.Sexp, and fake-client
//! plumbing (draining the server's message channel without blocking, answering `workspace/configuration`).
#![allow(dead_code)]
use erg_harness::{quote, unquote};
use serde_json::{json, Value};
use std::time::Duration;
use erg_common::config::{ErgConfig, ErgMode};
use lsp_types::Url;

#[derive(Debug, Clone, PartialEq)]
pub enum Sx {
    Atom(String),
    Str(String),
    List(Vec<Sx>),
}

impl Sx {
    pub fn atom(&self) -> Option<&str> { if let Sx::Atom(a) = self { Some(a) } else { None } }
    pub fn str(&self) -> Option<&str> { if let Sx::Str(a) = self { Some(a) } else { None } }
    pub fn list(&self) -> Option<&[Sx]> { if let Sx::List(a) = self { Some(a) } else { None } }
    pub fn num(&self) -> Option<i64> { self.atom().and_then(|a| a.parse().ok()) }
    /// `(head …)` → the tail
    pub fn tagged(&self, head: &str) -> Option<&[Sx]> {
        match self.list() {
            Some([Sx::Atom(h), rest @ ..]) if h == head => Some(rest),
            _ => None,
        }
    }
    pub fn show(&self) -> String {
        match self {
            Sx::Atom(a) => a.clone(),
            Sx::Str(s) => quote(s),
            Sx::List(xs) => format!("({})", xs.iter().map(|x| x.show()).collect::<Vec<_>>().join(" ")),
        }
    }
}

pub fn parse_sx(s: &str) -> Option<Sx> {
    let cs: Vec<char> = s.chars().collect();
    let mut i = 0;
    let r = parse_one(&cs, &mut i)?;
    while i < cs.len() && cs[i].is_whitespace() { i += 1; }
    if i == cs.len() { Some(r) } else { None }
}

fn parse_one(cs: &[char], i: &mut usize) -> Option<Sx> {
    while *i < cs.len() && cs[*i].is_whitespace() { *i += 1; }
    if *i >= cs.len() { return None; }
    match cs[*i] {
        '(' => {
            *i += 1;
            let mut v = vec![];
            loop {
                while *i < cs.len() && cs[*i].is_whitespace() { *i += 1; }
                if *i >= cs.len() { return None; }
                if cs[*i] == ')' { *i += 1; return Some(Sx::List(v)); }
                v.push(parse_one(cs, i)?);
            }
        }
        ')' => None,
        '"' => {
            let st = *i;
            *i += 1;
            while *i < cs.len() && cs[*i] != '"' {
                if cs[*i] == '\\' { *i += 1; }
                *i += 1;
            }
            if *i >= cs.len() { return None; }
            *i += 1;
            let lit: String = cs[st..*i].iter().collect();
            Some(Sx::Str(unquote(&lit)?))
        }
        _ => {
            let st = *i;
            while *i < cs.len() && !cs[*i].is_whitespace() && cs[*i] != '(' && cs[*i] != ')' && cs[*i] != '"' { *i += 1; }
            Some(Sx::Atom(cs[st..*i].iter().collect()))
        }
    }
}

/// A minimal LSP client bound to an in-process server exactly as `els::Server::bind_fake_client()` binds molc's
/// `FakeClient` (`Server::new(cfg, Some(sender))` + `dispatch(Value)`, which handles a message synchronously on the
/// calling thread and writes every outgoing message into the channel). We keep the receiver ourselves because
/// `FakeClient` only offers blocking or 10-ms-per-message reads; the JSON sent is the one `FakeClient::notify/request` sends.
pub struct Client {
    pub server: els::Server,
    rx: std::sync::mpsc::Receiver<Value>,
    /// every message received from the server so far
    pub responses: Vec<Value>,
    pub req_id: i64,
    pub ver: i32,
    /// answer `files.autoSave` configuration requests with `afterDelay` (stops the periodic re-check thread)
    pub after_delay: bool,
}

impl Client {
    /// move everything the server has sent so far into `responses`, answering configuration requests
    pub fn drain(&mut self) {
        while let Ok(msg) = self.rx.try_recv() {
            self.handle(&msg);
            self.responses.push(msg);
        }
    }
    fn handle(&mut self, msg: &Value) {
        if self.after_delay && is_method(msg, "workspace/configuration") {
            let items = &msg["params"]["items"];
            if items.as_array().is_some_and(|a| a.iter().any(|it| it["section"] == "files.autoSave")) {
                let id = msg["id"].clone();
                let _ = self.server.dispatch(json!({"jsonrpc": "2.0", "id": id, "result": ["afterDelay"]}));
            }
        }
    }
    pub fn notify(&mut self, method: &str, params: Value) -> Result<(), String> {
        let r = self.server.dispatch(json!({"jsonrpc": "2.0", "method": method, "params": params})).map_err(|e| e.to_string());
        self.drain();
        r
    }
    /// send a request and wait (up to `timeout`) for the response with the same id
    pub fn request(&mut self, method: &str, params: Value, timeout: Duration) -> Result<Value, String> {
        let id = self.req_id;
        self.req_id += 1;
        self.server.dispatch(json!({"jsonrpc": "2.0", "id": id, "method": method, "params": params})).map_err(|e| e.to_string())?;
        let t0 = std::time::Instant::now();
        loop {
            match self.rx.recv_timeout(Duration::from_millis(5)) {
                Ok(msg) => {
                    self.handle(&msg);
                    let hit = msg.get("id").is_some_and(|v| v == id) && msg.get("method").is_none();
                    self.responses.push(msg);
                    if hit {
                        let m = self.responses.last().unwrap();
                        return if m.get("result").is_some() { Ok(m["result"].clone()) } else { Err(format!("error response: {}", m)) };
                    }
                }
                Err(_) => {}
            }
            if t0.elapsed() > timeout { return Err("timeout".into()); }
        }
    }
    pub fn open(&mut self, uri: &Url, text: &str) -> Result<(), String> {
        self.ver += 1;
        self.notify("textDocument/didOpen", json!({"textDocument": {"uri": uri, "languageId": "erg", "version": self.ver, "text": text}}))
    }
    /// changes: (start line, start char, end line, end char, text)
    pub fn change(&mut self, uri: &Url, changes: &[(u32, u32, u32, u32, String)]) -> Result<(), String> {
        self.ver += 1;
        let cs: Vec<Value> = changes.iter().map(|c| json!({"range": {"start": {"line": c.0, "character": c.1}, "end": {"line": c.2, "character": c.3}}, "text": c.4})).collect();
        self.notify("textDocument/didChange", json!({"textDocument": {"uri": uri, "version": self.ver}, "contentChanges": cs}))
    }
    pub fn save(&mut self, uri: &Url) -> Result<(), String> {
        self.notify("textDocument/didSave", json!({"textDocument": {"uri": uri}}))
    }
}

/// `auto = false` (deterministic streams): the `files.autoSave` question is answered with `afterDelay`, so the server's periodic re-check
/// thread (`start_auto_diagnostics`) exits, and the server is started with `--disable deepCompletion`, so `CompletionCache::new` does not
/// spawn the thread that type-checks ~40 stdlib modules THROUGH THE SAME shared compiler resource (module graph, caches, error lists)
/// concurrently with the notifications — with it the trace of a history depends on how fast the machine is.
/// `auto = true`: the default configuration of `bind_fake_client` (no answer, deep completion on); we then wait for
/// `flags.builtin_modules_loaded` before the first notification.
pub fn new_client(auto: bool) -> Result<Client, String> {
    let (tx, rx) = std::sync::mpsc::channel();
    let cfg = if auto { ErgConfig { mode: ErgMode::LanguageServer, ..Default::default() } }
              else { ErgConfig { mode: ErgMode::LanguageServer, runtime_args: ["--disable", "deepCompletion"].into(), ..Default::default() } };
    let server = els::Server::new(cfg, Some(tx));
    let mut c = Client { server, rx, responses: vec![], req_id: 0, ver: 0, after_delay: !auto };
    // the capabilities molc's FakeClient announces that the server looks at
    let caps = json!({"textDocument": {
        "synchronization": {"didSave": true},
        "publishDiagnostics": {"relatedInformation": true},
        "rename": {"prepareSupport": true},
        "hover": {"contentFormat": ["plaintext"]},
        "definition": {"linkSupport": true}}});
    c.request("initialize", json!({"capabilities": caps}), Duration::from_secs(30))?;
    c.notify("initialized", json!({}))?;
    // let the workspace-diagnostics thread finish (didOpen spins on the flag otherwise)
    let t0 = std::time::Instant::now();
    while !c.server.flags.workspace_checked() && t0.elapsed() < Duration::from_secs(20) {
        std::thread::sleep(Duration::from_millis(2));
    }
    if auto {
        let t0 = std::time::Instant::now();
        while !c.server.flags.builtin_modules_loaded() && t0.elapsed() < Duration::from_secs(120) {
            std::thread::sleep(Duration::from_millis(5));
        }
    }
    c.drain();
    Ok(c)
}

/// scratch directory next to the harness binary (inside the harness' own target directory: nothing outside /verif and the scratch root is
/// needed, in particular not /tmp)
pub fn scratch_dir(tag: &str) -> std::path::PathBuf {
    let base = std::env::current_exe().ok().and_then(|p| p.parent().map(|d| d.to_path_buf())).unwrap_or_else(std::env::temp_dir);
    let d = base.join("scratch").join(format!("{}-{}", tag, std::process::id()));
    let _ = std::fs::create_dir_all(&d);
    d
}

pub fn is_method(v: &Value, m: &str) -> bool { v.get("method").is_some_and(|x| x == m) }

pub fn log_text(v: &Value) -> Option<&str> {
    if is_method(v, "window/logMessage") { v["params"]["message"].as_str() } else { None }
}
