#[path = "../../harness/src/lib.rs"]
mod shared;
pub use shared::*;
