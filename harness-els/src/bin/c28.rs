//! C28: the language server's document copy under didOpen/didChange histories.
//!
//! line: id \t <case> \t <impl output>
//!   case  ::= [(e2e)] [(disk "<text on disk, already loaded by the server>")] (open V "<text>") (note V <change>…)… [(probes (L C)…)]
//!   change::= (ch SL SC EL EC "<text>") | (full "<text>")
//!   output::= (docs "<after open>" "<after note 1>" …) (ver V | crash <kind>) (idx I…)
//! Unit cases call the hooked code in-process: `FileCache::verif_update` (didOpen path),
//! `FileCache::verif_incremental_update` (didChange path), `els::verif_pos_to_byte_index` (probes), and read the
//! copy back from the cache entry and from `erg_common::vfs::VFS`.
//! `(e2e)` cases send the same notifications as JSON through `els::Server::bind_fake_client()` and read the copy
//! back from the server's file cache and `VFS`; afterwards a hover request must still be answered.
use erg_common::vfs::VFS;
use erg_harness::*;
use els::verif_hooks::FileCache;
use els::{NormalizedUrl, Server};
use lsp_types::{
    DidChangeTextDocumentParams, DidOpenTextDocumentParams, Position, Range, TextDocumentContentChangeEvent,
    TextDocumentItem, Url, VersionedTextDocumentIdentifier,
};
use std::panic::AssertUnwindSafe;
use std::sync::atomic::{AtomicUsize, Ordering};

// ------------------------------------------------------------------------------------------- case syntax

#[derive(Clone, Debug)]
enum Ch {
    Ranged(u32, u32, u32, u32, String),
    Full(String),
}
#[derive(Clone, Debug)]
struct Note {
    ver: i32,
    changes: Vec<Ch>,
}
#[derive(Clone, Debug)]
struct Case {
    /// text of the file on disk that the server has already loaded (`load_once`) before the client opens it
    disk: Option<String>,
    e2e: bool,
    open_ver: i32,
    text: String,
    notes: Vec<Note>,
    probes: Vec<(u32, u32)>,
}

fn print_case(c: &Case) -> String {
    let mut o = String::new();
    if c.e2e {
        o.push_str("(e2e) ");
    }
    if let Some(d) = &c.disk {
        o.push_str(&format!("(disk {}) ", quote(d)));
    }
    o.push_str(&format!("(open {} {})", c.open_ver, quote(&c.text)));
    for n in &c.notes {
        o.push_str(&format!(" (note {}", n.ver));
        for ch in &n.changes {
            match ch {
                Ch::Ranged(a, b, c_, d, t) => o.push_str(&format!(" (ch {} {} {} {} {})", a, b, c_, d, quote(t))),
                Ch::Full(t) => o.push_str(&format!(" (full {})", quote(t))),
            }
        }
        o.push(')');
    }
    if !c.probes.is_empty() {
        o.push_str(" (probes");
        for (l, ch) in &c.probes {
            o.push_str(&format!(" ({} {})", l, ch));
        }
        o.push(')');
    }
    o
}

/// minimal S-expression reader for replay (atoms, quoted strings, lists)
#[derive(Debug, Clone)]
enum Sx {
    A(String),
    S(String),
    L(Vec<Sx>),
}
fn parse_sx(cs: &[char], i: &mut usize) -> Option<Sx> {
    while *i < cs.len() && cs[*i].is_whitespace() {
        *i += 1;
    }
    if *i >= cs.len() {
        return None;
    }
    match cs[*i] {
        '(' => {
            *i += 1;
            let mut v = vec![];
            loop {
                while *i < cs.len() && cs[*i].is_whitespace() {
                    *i += 1;
                }
                if *i >= cs.len() {
                    return None;
                }
                if cs[*i] == ')' {
                    *i += 1;
                    return Some(Sx::L(v));
                }
                v.push(parse_sx(cs, i)?);
            }
        }
        ')' => None,
        '"' => {
            let st = *i;
            *i += 1;
            while *i < cs.len() && cs[*i] != '"' {
                if cs[*i] == '\\' {
                    *i += 1;
                }
                *i += 1;
            }
            *i += 1;
            let lit: String = cs.get(st..*i)?.iter().collect();
            Some(Sx::S(unquote(&lit)?))
        }
        _ => {
            let st = *i;
            while *i < cs.len() && !cs[*i].is_whitespace() && cs[*i] != '(' && cs[*i] != ')' && cs[*i] != '"' {
                *i += 1;
            }
            Some(Sx::A(cs[st..*i].iter().collect()))
        }
    }
}
fn atom_num<T: std::str::FromStr>(s: &Sx) -> Option<T> {
    if let Sx::A(a) = s { a.parse().ok() } else { None }
}
fn parse_case(input: &str) -> Option<Case> {
    let cs: Vec<char> = input.chars().collect();
    let mut i = 0;
    let mut case = Case { disk: None, e2e: false, open_ver: 0, text: String::new(), notes: vec![], probes: vec![] };
    let mut opened = false;
    while let Some(sx) = parse_sx(&cs, &mut i) {
        let Sx::L(items) = sx else { return None };
        let Some(Sx::A(head)) = items.first() else { return None };
        match head.as_str() {
            "e2e" => case.e2e = true,
            "disk" => {
                let Sx::S(t) = items.get(1)? else { return None };
                case.disk = Some(t.clone());
            }
            "open" => {
                case.open_ver = atom_num(items.get(1)?)?;
                let Sx::S(t) = items.get(2)? else { return None };
                case.text = t.clone();
                opened = true;
            }
            "note" => {
                let mut n = Note { ver: atom_num(items.get(1)?)?, changes: vec![] };
                for c in &items[2..] {
                    let Sx::L(f) = c else { return None };
                    match f.first()? {
                        Sx::A(k) if k == "ch" => {
                            let Sx::S(t) = f.get(5)? else { return None };
                            n.changes.push(Ch::Ranged(atom_num(f.get(1)?)?, atom_num(f.get(2)?)?, atom_num(f.get(3)?)?, atom_num(f.get(4)?)?, t.clone()));
                        }
                        Sx::A(k) if k == "full" => {
                            let Sx::S(t) = f.get(1)? else { return None };
                            n.changes.push(Ch::Full(t.clone()));
                        }
                        _ => return None,
                    }
                }
                case.notes.push(n);
            }
            "probes" => {
                for p in &items[1..] {
                    let Sx::L(f) = p else { return None };
                    case.probes.push((atom_num(f.first()?)?, atom_num(f.get(1)?)?));
                }
            }
            _ => return None,
        }
    }
    if opened { Some(case) } else { None }
}

// ------------------------------------------------------------------------------------------- running the real code

fn crash_kind(msg: &str) -> String {
    // panic messages of String::replace_range / slice::range (std), mapped to the model's crash sites
    if msg.contains("start of range should be a character boundary") || msg.contains("is_char_boundary(n)") {
        "start-boundary".into()
    } else if msg.contains("end of range should be a character boundary") {
        "end-boundary".into()
    } else if msg.contains("slice index starts at") {
        "order".into()
    } else if msg.contains("out of range for slice of length") {
        "oob".into()
    } else {
        format!("other:{}", quote(msg))
    }
}

fn lsp_change(ch: &Ch) -> TextDocumentContentChangeEvent {
    match ch {
        Ch::Ranged(a, b, c, d, t) => TextDocumentContentChangeEvent {
            range: Some(Range::new(Position::new(*a, *b), Position::new(*c, *d))),
            range_length: None,
            text: t.clone(),
        },
        Ch::Full(t) => TextDocumentContentChangeEvent { range: None, range_length: None, text: t.clone() },
    }
}

fn change_params(url: &Url, n: &Note) -> DidChangeTextDocumentParams {
    DidChangeTextDocumentParams {
        text_document: VersionedTextDocumentIdentifier::new(url.clone(), n.ver),
        content_changes: n.changes.iter().map(lsp_change).collect(),
    }
}

fn probes_out(text: &str, probes: &[(u32, u32)]) -> String {
    let mut o = String::from("(idx");
    for (l, c) in probes {
        let t = text.to_string();
        let (l, c) = (*l, *c);
        match catch(move || els::verif_pos_to_byte_index(&t, Position::new(l, c))) {
            Ok(i) => o.push_str(&format!(" {}", i)),
            Err(e) => o.push_str(&format!(" crash:{}", crash_kind(&e))),
        }
    }
    o.push(')');
    o
}

/// the observable: the cache entry's text, which must agree with `VFS.read` of the same path
fn read_copy(fc: &FileCache, uri: &NormalizedUrl) -> String {
    let entry = fc.files.borrow().get(uri).map(|e| (e.code.clone(), e.ver));
    let vfs = VFS.read(uri.to_file_path().unwrap()).ok();
    match (entry, vfs) {
        (Some((code, _)), Some(v)) if code == v => code,
        (e, v) => format!("<<cache/VFS mismatch: cache={:?} vfs={:?}>>", e.map(|x| x.0), v),
    }
}
fn read_ver(fc: &FileCache, uri: &NormalizedUrl) -> String {
    match fc.get_ver(uri) {
        Some(v) => v.to_string(),
        None => "none".into(),
    }
}

static UNIT_SEQ: AtomicUsize = AtomicUsize::new(0);

fn finish(docs: &[String], tail: &str, idx: &str) -> String {
    let mut o = String::from("(docs");
    for d in docs {
        o.push(' ');
        o.push_str(&quote(d));
    }
    o.push_str(") ");
    o.push_str(tail);
    o.push(' ');
    o.push_str(idx);
    o
}

fn run_unit(case: &Case) -> String {
    let k = UNIT_SEQ.fetch_add(1, Ordering::Relaxed);
    let url = Url::from_file_path(format!("/c28-unit/doc{}.er", k % 64)).unwrap();
    let uri = NormalizedUrl::new(url.clone());
    VFS.remove(uri.to_file_path().unwrap());
    // log lines of the cache go to this channel, not to our stdout
    let (tx, _rx) = std::sync::mpsc::channel();
    let fc = FileCache::new(Some(tx));
    let idx = probes_out(&case.text, &case.probes);
    let mut docs = vec![];
    if let Some(d) = case.disk.clone() {
        // what `FileCache::load_once` does after reading the file: update(uri, code, None)
        if let Err(e) = catch(AssertUnwindSafe(|| fc.verif_update(&uri, d, None))) {
            return finish(&docs, &format!("(crash {})", crash_kind(&e)), &idx);
        }
    }
    let (text, ver) = (case.text.clone(), case.open_ver);
    if let Err(e) = catch(AssertUnwindSafe(|| fc.verif_update(&uri, text, Some(ver)))) {
        return finish(&docs, &format!("(crash {})", crash_kind(&e)), &idx);
    }
    docs.push(read_copy(&fc, &uri));
    for n in &case.notes {
        let params = change_params(&url, n);
        if let Err(e) = catch(AssertUnwindSafe(|| fc.verif_incremental_update(params))) {
            return finish(&docs, &format!("(crash {})", crash_kind(&e)), &idx);
        }
        docs.push(read_copy(&fc, &uri));
    }
    let v = read_ver(&fc, &uri);
    finish(&docs, &format!("(ver {})", v), &idx)
}

// end-to-end: one server per batch of cases, one URI per case
struct E2e {
    client: molc::FakeClient<Server>,
    req_id: i64,
    dir: std::path::PathBuf,
    seq: usize,
}

impl E2e {
    fn start() -> Result<E2e, String> {
        E2e::start_in(None)
    }

    /// `main_text = Some(t)`: the working directory is an erg package (`package.er` + `main.er` containing `t`), which the
    /// server's workspace check loads from disk at start-up, before any didOpen is processed
    fn start_in(main_text: Option<&str>) -> Result<E2e, String> {
        static DIRS: AtomicUsize = AtomicUsize::new(0);
        let dir = std::env::temp_dir().join(format!("c28-e2e-{}-{}", std::process::id(), DIRS.fetch_add(1, Ordering::Relaxed)));
        std::fs::create_dir_all(&dir).map_err(|e| e.to_string())?;
        if let Some(t) = main_text {
            std::fs::write(dir.join("package.er"), "").map_err(|e| e.to_string())?;
            std::fs::write(dir.join("main.er"), t).map_err(|e| e.to_string())?;
        }
        // the server scans the current directory for *.er files at start-up: give it an empty one
        std::env::set_current_dir(&dir).map_err(|e| e.to_string())?;
        let mut client = Server::bind_fake_client();
        client.request_initialize().map_err(|e| e.to_string())?;
        client.notify_initialized().map_err(|e| e.to_string())?;
        Ok(E2e { client, req_id: 1, dir, seq: 0 })
    }

    fn alive(&mut self, url: &Url) -> bool {
        // "keeps running": a request sent after the history is still answered
        let msg = serde_json::json!({
            "jsonrpc": "2.0", "id": self.req_id, "method": "textDocument/hover",
            "params": { "textDocument": { "uri": url.to_string() }, "position": { "line": 0, "character": 0 } },
        });
        let client = &mut self.client;
        let sent = catch(AssertUnwindSafe(|| client.server.dispatch(msg).is_ok()));
        if !matches!(sent, Ok(true)) {
            return false;
        }
        match self.client.wait_with_timeout::<Option<lsp_types::Hover>>(std::time::Duration::from_secs(180)) {
            Ok(Some(_)) => {
                self.req_id += 1;
                true
            }
            _ => false,
        }
    }

    fn run(&mut self, case: &Case) -> String {
        self.seq += 1;
        let path = if case.disk.is_some() { self.dir.join("main.er") } else { self.dir.join(format!("doc{}.er", self.seq)) };
        let url = Url::from_file_path(&path).unwrap();
        let uri = NormalizedUrl::new(url.clone());
        let idx = probes_out(&case.text, &case.probes);
        let mut docs = vec![];
        let open = DidOpenTextDocumentParams {
            text_document: TextDocumentItem::new(url.clone(), "erg".to_string(), case.open_ver, case.text.clone()),
        };
        let client = &mut self.client;
        let r = catch(AssertUnwindSafe(|| {
            client.server.dispatch(serde_json::json!({"jsonrpc": "2.0", "method": "textDocument/didOpen", "params": open}))
                .map_err(|e| e.to_string())
        }));
        match r {
            Err(e) => return finish(&docs, &format!("(crash {})", crash_kind(&e)), &idx),
            Ok(Err(e)) => return finish(&docs, &format!("(error {})", quote(&e)), &idx),
            Ok(Ok(())) => {}
        }
        docs.push(read_copy(self.client.server.get_file_cache(), &uri));
        for n in &case.notes {
            let params = change_params(&url, n);
            let client = &mut self.client;
            let r = catch(AssertUnwindSafe(|| {
                client.server.dispatch(serde_json::json!({"jsonrpc": "2.0", "method": "textDocument/didChange", "params": params}))
                    .map_err(|e| e.to_string())
            }));
            match r {
                Err(e) => return finish(&docs, &format!("(crash {})", crash_kind(&e)), &idx),
                Ok(Err(e)) => return finish(&docs, &format!("(error {})", quote(&e)), &idx),
                Ok(Ok(())) => {}
            }
            docs.push(read_copy(self.client.server.get_file_cache(), &uri));
        }
        let v = read_ver(self.client.server.get_file_cache(), &uri);
        if !self.alive(&url) {
            return finish(&docs, "(crash not-answering)", &idx);
        }
        finish(&docs, &format!("(ver {})", v), &idx)
    }
}

// ------------------------------------------------------------------------------------------- generators

const ASCII: &[&str] = &["a", "b", "x", "=", "1", " ", "#", "(", ")", ".", "\t", "\"", "\\", "'", "{", "}", ":", "0"];
const BMP: &[&str] = &["é", "あ", "ß", "\u{301}", "\u{ffff}", "語"];
const ASTRAL: &[&str] = &["😀", "𝒳", "\u{10000}", "\u{10ffff}"];
const ERG_LINES: &[&str] = &["x = 1", "# あ", "# 😀 note", "print! x", "f y = y + 1", "s = 'é'", "l = [1, 2]", "    x", "#"];

fn pk(rng: &mut Rng, xs: &[&'static str]) -> &'static str {
    xs[rng.below(xs.len() as u64) as usize]
}
fn gen_piece(rng: &mut Rng) -> &'static str {
    match rng.below(100) {
        0..=54 => pk(rng, ASCII),
        55..=74 => pk(rng, BMP),
        75..=94 => pk(rng, ASTRAL),
        _ => "\n",
    }
}
fn gen_eol(rng: &mut Rng, crlf_doc: bool) -> &'static str {
    if crlf_doc {
        if rng.chance(9, 10) { "\r\n" } else { "\n" }
    } else {
        match rng.below(40) { 0 => "\r\n", 1 => "\r", _ => "\n" }
    }
}
fn gen_line(rng: &mut Rng) -> String {
    if rng.chance(1, 3) {
        return pk(rng, ERG_LINES).to_string();
    }
    let mut s = String::new();
    for _ in 0..rng.below(9) {
        let p = gen_piece(rng);
        if p != "\n" { s.push_str(p); }
    }
    s
}
fn gen_doc(rng: &mut Rng) -> String {
    let crlf = rng.chance(1, 6);
    let nlines = match rng.below(10) { 0 => 0, 1 => 1, _ => 1 + rng.below(6) };
    let mut s = String::new();
    for i in 0..nlines {
        s.push_str(&gen_line(rng));
        if i + 1 < nlines || rng.chance(1, 2) {
            s.push_str(gen_eol(rng, crlf));
        }
    }
    if rng.chance(1, 6) { s.push_str(pk(rng, BMP)); }
    if rng.chance(1, 6) { s.push_str(pk(rng, ASTRAL)); }
    s
}
fn gen_text(rng: &mut Rng) -> String {
    let mut s = String::new();
    let n = match rng.below(10) { 0..=2 => 0, 3..=6 => 1, _ => 2 + rng.below(4) };
    for _ in 0..n {
        let p = gen_piece(rng);
        if p == "\n" { s.push_str(gen_eol(rng, false)); } else { s.push_str(p); }
    }
    s
}

/// lines of `text` as the client sees them (content without terminator), LSP line terminators
fn lsp_lines(text: &str) -> Vec<String> {
    let mut lines = vec![String::new()];
    let cs: Vec<char> = text.chars().collect();
    let mut i = 0;
    while i < cs.len() {
        if cs[i] == '\r' || cs[i] == '\n' {
            if cs[i] == '\r' && i + 1 < cs.len() && cs[i + 1] == '\n' { i += 1; }
            lines.push(String::new());
        } else {
            lines.last_mut().unwrap().push(cs[i]);
        }
        i += 1;
    }
    lines
}

/// a position in `text`: mostly exact, with the boundary shapes the property names
fn gen_pos(rng: &mut Rng, text: &str) -> (u32, u32) {
    let lines = lsp_lines(text);
    let nl = lines.len() as u64;
    let line = match rng.below(20) {
        0 => nl,                         // one past the last line
        1 => nl + 1 + rng.below(4),      // further past
        2 | 3 => nl - 1,                 // last line
        _ => rng.below(nl),
    };
    let content: Vec<char> = lines.get(line as usize).map(|l| l.chars().collect()).unwrap_or_default();
    let units: u64 = content.iter().map(|c| c.len_utf16() as u64).sum();
    let col = match rng.below(20) {
        0 | 1 => units,                              // end of line
        2 => units + 1 + rng.below(3),               // just past the end of the line (between \r and \n for CRLF)
        3 => [99u64, 65535, 4294967295][rng.below(3) as usize], // "end of line" idioms
        4 => 0,
        5 => {
            // inside a surrogate pair (not LSP-conformant; exercised for totality)
            let mut u = 0;
            let mut hit = None;
            for c in &content {
                if c.len_utf16() == 2 { hit = Some(u + 1); if rng.chance(1, 2) { break; } }
                u += c.len_utf16() as u64;
            }
            hit.unwrap_or(units)
        }
        _ => {
            // exact character boundary
            let k = rng.below(content.len() as u64 + 1) as usize;
            content[..k].iter().map(|c| c.len_utf16() as u64).sum()
        }
    };
    (line as u32, col as u32)
}

fn gen_change(rng: &mut Rng, text: &str) -> Ch {
    if rng.chance(1, 16) {
        return Ch::Full(if rng.chance(1, 2) { gen_doc(rng) } else { gen_text(rng) });
    }
    let p = gen_pos(rng, text);
    let q = match rng.below(10) {
        0..=3 => p,                       // insertion
        _ => gen_pos(rng, text),
    };
    let (mut s, mut e) = if p <= q { (p, q) } else { (q, p) };
    if rng.chance(1, 60) && s != e {
        std::mem::swap(&mut s, &mut e);   // reversed range: not LSP-conformant
    }
    let t = if s != e && rng.chance(1, 3) { String::new() } else { gen_text(rng) };
    Ch::Ranged(s.0, s.1, e.0, e.1, t)
}

/// builds a case step by step: positions of each change are chosen in the copy the real code holds at that point
/// (changes of one notification: in the text obtained by applying the earlier ones with the hooked code)
fn gen_case(rng: &mut Rng, e2e: bool) -> Case {
    let text = if e2e {
        // end-to-end documents are analysed by the compiler on didOpen: keep them erg-like
        let mut s = String::new();
        for _ in 0..1 + rng.below(4) {
            s.push_str(pk(rng, ERG_LINES));
            s.push_str(if rng.chance(1, 8) { "\r\n" } else { "\n" });
        }
        if rng.chance(1, 2) { s.push_str(pk(rng, &["# あ", "# 😀", "x = 1", "# é"])); }
        s
    } else {
        gen_doc(rng)
    };
    let disk = if !e2e && rng.chance(1, 8) {
        Some(if rng.chance(1, 3) { text.clone() } else { gen_doc(rng) })
    } else {
        None
    };
    let mut case = Case { disk, e2e, open_ver: rng.range(0, 3) as i32, text: text.clone(), notes: vec![], probes: vec![] };
    for _ in 0..rng.below(5) {
        case.probes.push(gen_pos(rng, &text));
    }
    let (tx, _rx) = std::sync::mpsc::channel();
    let fc = FileCache::new(Some(tx));
    let url = Url::from_file_path("/c28-gen/doc.er").unwrap();
    let uri = NormalizedUrl::new(url.clone());
    let mut ver = case.open_ver;
    let mut cur = text;
    let nnotes = if e2e { 1 + rng.below(4) } else { match rng.below(8) { 0 => 0, 1 | 2 => 1, _ => 1 + rng.below(6) } };
    'notes: for _ in 0..nnotes {
        ver = match rng.below(30) { 0 => ver, 1 => ver - 1, 2 => ver + 5, _ => ver + 1 };
        let nch = match rng.below(25) { 0..=14 => 1, 15..=20 => 2, 21..=23 => 3, _ => 0 };
        let mut note = Note { ver, changes: vec![] };
        let mut tmp = cur.clone();
        for _ in 0..nch {
            let ch = gen_change(rng, &tmp);
            // advance `tmp` with the real code (fresh entry, single change); on a crash the case ends here
            let t0 = tmp.clone();
            let one = Note { ver: 1, changes: vec![ch.clone()] };
            let params = change_params(&url, &one);
            let r = catch(AssertUnwindSafe(|| {
                fc.files.borrow_mut().remove(&uri);
                fc.verif_update(&uri, t0, Some(0));
                fc.verif_incremental_update(params);
                fc.files.borrow().get(&uri).map(|e| e.code.clone()).unwrap_or_default()
            }));
            note.changes.push(ch);
            match r {
                Ok(t) => tmp = t,
                Err(_) => { case.notes.push(note); break 'notes; }
            }
        }
        case.notes.push(note);
        cur = tmp;
    }
    case
}

fn main() {
    quiet_panics();
    let a = parse_args();
    match a.mode.as_str() {
        "gen" => {
            let mut rng = Rng::new(a.seed);
            let n_e2e = a.rest.iter().position(|x| x == "--e2e").and_then(|i| a.rest.get(i + 1)).and_then(|s| s.parse::<usize>().ok()).unwrap_or(0);
            for i in 0..a.n {
                let c = gen_case(&mut rng, false);
                println!("g{}\t{}\t{}", i, print_case(&c), run_unit(&c));
            }
            if n_e2e > 0 {
                let mut rng = Rng::new(a.seed ^ 0xE2E);
                match E2e::start() {
                    Ok(mut srv) => {
                        for i in 0..n_e2e {
                            let c = gen_case(&mut rng, true);
                            println!("e{}\t{}\t{}", i, print_case(&c), srv.run(&c));
                        }
                        let _ = std::fs::remove_dir_all(&srv.dir);
                    }
                    Err(e) => println!("e0\t(e2e) (open 0 \"\")\tserver-start-failed({})", quote(&e)),
                }
                // documents the server has already loaded from disk (package entry file), opened with other content
                for i in 0..(n_e2e / 20).max(2) {
                    let mut c = gen_case(&mut rng, true);
                    c.disk = Some(format!("{}\n", pk(&mut rng, ERG_LINES)));
                    c.open_ver = rng.range(0, 2) as i32;
                    let mut v = c.open_ver;
                    for n in c.notes.iter_mut() { v += 1; n.ver = v; }
                    match E2e::start_in(c.disk.as_deref()) {
                        Ok(mut s) => {
                            println!("p{}\t{}\t{}", i, print_case(&c), s.run(&c));
                            let _ = std::fs::remove_dir_all(&s.dir);
                        }
                        Err(e) => println!("p{}\t{}\tserver-start-failed({})", i, print_case(&c), quote(&e)),
                    }
                }
            }
            use std::io::Write;
            let _ = std::io::stdout().flush();
            // the server's worker threads never exit
            std::process::exit(0);
        }
        "replay" => {
            let mut srv: Option<E2e> = None;
            for (id, input) in stdin_cases() {
                match parse_case(&input) {
                    Some(c) if c.e2e && c.disk.is_some() => {
                        // own server: the package's main.er must be on disk before the server starts
                        match E2e::start_in(c.disk.as_deref()) {
                            Ok(mut s) => {
                                println!("{}\t{}\t{}", id, input, s.run(&c));
                                let _ = std::fs::remove_dir_all(&s.dir);
                            }
                            Err(e) => println!("{}\t{}\tserver-start-failed({})", id, input, quote(&e)),
                        }
                    }
                    Some(c) if c.e2e => {
                        if srv.is_none() { srv = E2e::start().ok(); }
                        match srv.as_mut() {
                            Some(s) => println!("{}\t{}\t{}", id, input, s.run(&c)),
                            None => println!("{}\t{}\tserver-start-failed", id, input),
                        }
                    }
                    Some(c) => println!("{}\t{}\t{}", id, input, run_unit(&c)),
                    None => println!("{}\t{}\tbad-input", id, input),
                }
            }
            if let Some(s) = &srv { let _ = std::fs::remove_dir_all(&s.dir); }
            use std::io::Write;
            let _ = std::io::stdout().flush();
            std::process::exit(0);
        }
        _ => { eprintln!("usage: c28 gen|replay"); std::process::exit(2); }
    }
}
