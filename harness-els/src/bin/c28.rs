//! placeholder: verifies the els hooks compile; replaced by the C28 harness.
use erg_harness::*;
fn main() {
    let _ = parse_args();
    let p = els::verif_pos_to_byte_index("x = 1\n", lsp_types::Position::new(0, 2));
    println!("{}", p);
}
