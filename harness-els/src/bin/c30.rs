//! C30: language-server rename vs the scoped mini-language model.
//! One case = one generated program (definitions, parameters, default arguments, lambdas/closures, shadowing in nested blocks,
//! string literals with escapes on the same line as names). For EVERY name token of the program a `textDocument/rename` request is
//! sent (at the position the server's lexer reports for the token; additionally at the true position when that differs) to an
//! in-process server bound as `Server::bind_fake_client` binds it. One server serves all requests of a program: after each rename the
//! client "applies" nothing but touches the file and sends `didSave`, which re-checks the module.
//! line: id \t (prog (src "…") (new "zz9") (toks (t "name" line col rcol)…) (tm <Tm>) (tp (i (l c0 c1)…)…)) \t
//!       (r i (l c0 c1)…)… (edited <binder id> "<text after applying the edits returned for the binder's own token>")…
#[path = "../els_common.rs"]
mod common;
use common::*;
use erg_compiler::erg_parser::lex::Lexer;
use erg_compiler::erg_parser::token::TokenKind;
use erg_common::traits::DequeStream;
use erg_harness::*;
use lsp_types::Url;
use serde_json::{json, Value};
use std::io::Write;
use std::path::{Path, PathBuf};
use std::sync::atomic::{AtomicBool, Ordering};
use std::sync::Arc;
use std::time::Duration;

const NEW_NAME: &str = "zz9";

// ------------------------------------------------------------------------------------------------ generated syntax

#[derive(Clone, Debug)]
enum GE {
    Var(usize),
    Lit(u32),
    Add(Box<GE>, Box<GE>),
    Call(usize, Vec<GE>),
    Lam(Vec<GP>, Box<GE>),
}
#[derive(Clone, Debug)]
struct GP { id: usize, tok: usize, dflt: Option<GE> }
#[derive(Clone, Debug)]
enum PArg { Str(&'static str), E(GE) }
#[derive(Clone, Debug)]
enum GS {
    DefV { id: usize, tok: usize, rhs: GE },
    DefF { id: usize, tok: usize, ps: Vec<GP>, body: Vec<GS> },
    Print(Vec<PArg>),
    Expr(GE),
}

#[derive(Clone, Debug, Default)]
struct Tok { name: String, line: u32, col: u32, rcol: u32 }

#[derive(Clone, Debug)]
enum Kind { Var, Fun { req: usize, total: usize } }

struct Gen<'a> {
    rng: &'a mut Rng,
    toks: Vec<Tok>,
    next_id: usize,
    /// scope stack; each scope: (name, kind) in definition order
    scopes: Vec<Vec<(String, Kind)>>,
    feats: Vec<&'static str>,
    /// names of the functions whose body is being generated (no recursive calls)
    hidden: Vec<String>,
    /// per open scope: names referenced so far inside it (Erg makes the functions of a block visible in the WHOLE block, so a function must
    /// not be defined under a name that was already referenced in the block — the reference would silently change its meaning)
    used: Vec<Vec<String>>,
}

const NAMES: [&str; 9] = ["x", "y", "a", "b", "c", "k", "m", "n", "w"];
const FNAMES: [&str; 5] = ["f", "g", "h", "p", "q"];
/// string literals placed BEFORE names on the same line: plain, with escapes, with non-ASCII characters of the BMP (1 UTF-16 unit, 2–3 UTF-8 bytes) and an astral one (2 UTF-16 units, 4 bytes)
const STRS: [&str; 11] = ["\"OK\u{1f600}\"", "\"T1\"", "\"T\\tQ\"", "\"A\\\\B\"", "\"N\\nM\"", "\"\"", "\"Q\\\"R\"", "\"PLAIN TEXT\"", "\"CAF\u{e9}: X\"", "\"\u{65e5}\u{672c}\"", "\"\u{df}\\t\u{e9}\""];

impl<'a> Gen<'a> {
    fn tok(&mut self, name: &str) -> usize { self.toks.push(Tok { name: name.to_string(), ..Default::default() }); self.toks.len() - 1 }
    fn id(&mut self) -> usize { self.next_id += 1; self.next_id - 1 }
    fn visible(&self) -> Vec<(String, Kind)> {
        // innermost first, shadowed names removed
        let mut out: Vec<(String, Kind)> = vec![];
        for sc in self.scopes.iter().rev() {
            for (n, k) in sc.iter().rev() {
                if !out.iter().any(|(m, _)| m == n) { out.push((n.clone(), k.clone())); }
            }
        }
        out
    }
    fn vars(&self) -> Vec<String> { self.visible().into_iter().filter(|(_, k)| matches!(k, Kind::Var)).map(|(n, _)| n).collect() }
    fn funs(&self) -> Vec<(String, usize, usize)> {
        self.visible().into_iter().filter_map(|(n, k)| if let Kind::Fun { req, total } = k { Some((n, req, total)) } else { None }).filter(|(n, _, _)| !self.hidden.contains(n)).collect()
    }
    fn mark_used(&mut self, n: &str) { for u in self.used.iter_mut() { u.push(n.to_string()); } }
    fn in_current(&self, n: &str) -> bool { self.scopes.last().unwrap().iter().any(|(m, _)| m == n) }

    fn atom(&mut self) -> GE {
        let vs = self.vars();
        if !vs.is_empty() && self.rng.chance(3, 4) {
            let n = vs[self.rng.below(vs.len() as u64) as usize].clone();
            self.mark_used(&n);
            GE::Var(self.tok(&n))
        } else { GE::Lit(self.rng.below(20) as u32) }
    }
    fn expr(&mut self, depth: u32) -> GE {
        let fs = self.funs();
        match self.rng.below(10) {
            0..=3 => self.atom(),
            4..=6 if depth > 0 => GE::Add(Box::new(self.expr(depth - 1)), Box::new(self.expr(depth - 1))),
            7 | 8 if !fs.is_empty() && depth > 0 => {
                let (n, req, total) = fs[self.rng.below(fs.len() as u64) as usize].clone();
                self.mark_used(&n);
                let t = self.tok(&n);
                let k = req + self.rng.below((total - req + 1) as u64) as usize;
                let args = (0..k).map(|_| self.atom()).collect();
                GE::Call(t, args)
            }
            _ => self.atom(),
        }
    }
    /// a name for a new definition in the current scope: not yet defined there; prefers shadowing an outer name sometimes
    fn fresh_name(&mut self, pool: &[&str], avoid: &[String]) -> Option<String> {
        let outer: Vec<String> = self.visible().into_iter().map(|(n, _)| n).filter(|n| pool.contains(&n.as_str()) && !self.in_current(n) && !avoid.contains(n)).collect();
        if !outer.is_empty() && self.scopes.len() > 1 && self.rng.chance(1, 2) {
            self.feats.push("shadow");
            return Some(outer[self.rng.below(outer.len() as u64) as usize].clone());
        }
        let cands: Vec<&&str> = pool.iter().filter(|n| !self.in_current(n) && !avoid.contains(&n.to_string())).collect();
        if cands.is_empty() { return None; }
        Some(cands[self.rng.below(cands.len() as u64) as usize].to_string())
    }
    fn params(&mut self, n: usize, allow_default: bool) -> (Vec<GP>, usize) {
        let mut ps: Vec<GP> = vec![];
        let mut names: Vec<String> = vec![];
        let mut req = 0;
        for i in 0..n {
            let outer: Vec<String> = self.vars().into_iter().filter(|v| !names.contains(v)).collect();
            let name = if !outer.is_empty() && self.rng.chance(1, 4) { self.feats.push("param-shadows"); outer[self.rng.below(outer.len() as u64) as usize].clone() }
                       else { let c: Vec<&&str> = NAMES.iter().filter(|m| !names.contains(&m.to_string())).collect(); c[self.rng.below(c.len() as u64) as usize].to_string() };
            names.push(name.clone());
            let tok = self.tok(&name);
            let id = self.id();
            // defaults are evaluated in the enclosing scope: generated BEFORE the parameters enter the scope
            let dflt = if allow_default && i + 1 == n && n >= 1 && self.rng.chance(1, 2) { self.feats.push("default-arg"); Some(self.atom()) } else { None };
            if dflt.is_none() { req += 1; }
            ps.push(GP { id, tok, dflt });
        }
        (ps, req)
    }
    fn def_f(&mut self, nested: bool) -> Option<GS> {
        let avoid = self.used.last().cloned().unwrap_or_default();
        let name = self.fresh_name(&FNAMES, &avoid)?;
        let tok = self.tok(&name);
        let id = self.id();
        let np = if nested { self.rng.below(2) as usize } else { 1 + self.rng.below(2) as usize };
        let (ps, req) = self.params(np, true);
        let total = ps.len();
        // the function is visible in its own body (not used recursively) and afterwards
        self.scopes.last_mut().unwrap().push((name.clone(), Kind::Fun { req, total }));
        let mut sc = vec![];
        for p in &ps { sc.push((self.toks[p.tok].name.clone(), Kind::Var)); }
        self.scopes.push(sc);
        self.used.push(vec![]);
        self.hidden.push(name.clone());
        let pnames: Vec<String> = ps.iter().map(|p| self.toks[p.tok].name.clone()).collect();
        let mut body = vec![];
        if !nested {
            let k = self.rng.below(3);
            for _ in 0..k {
                if self.rng.chance(2, 3) {
                    if let Some(n) = self.fresh_name(&NAMES, &pnames) {
                        let rhs = self.expr(1);
                        let t = self.tok(&n);
                        let i = self.id();
                        self.scopes.last_mut().unwrap().push((n, Kind::Var));
                        body.push(GS::DefV { id: i, tok: t, rhs });
                    }
                } else if let Some(d) = self.def_f(true) { self.feats.push("closure"); body.push(d); }
            }
        }
        let last = self.expr(2);
        body.push(GS::Expr(last));
        self.scopes.pop();
        self.used.pop();
        self.hidden.pop();
        // hide self-recursion: remove and re-add is unnecessary, calls are only generated to visible funs; a call to itself inside the
        // body would not terminate, so bodies are generated with the function temporarily marked as a variable-free name
        Some(GS::DefF { id, tok, ps, body })
    }
    fn program(&mut self) -> Vec<GS> {
        let mut out = vec![];
        let n = 3 + self.rng.below(5);
        for _ in 0..n {
            match self.rng.below(10) {
                0..=2 => if let Some(nm) = self.fresh_name(&NAMES, &[]) {
                    let rhs = self.expr(1);
                    let t = self.tok(&nm);
                    let i = self.id();
                    self.scopes.last_mut().unwrap().push((nm, Kind::Var));
                    out.push(GS::DefV { id: i, tok: t, rhs });
                },
                3..=5 => if let Some(d) = self.def_f(false) { out.push(d); },
                6 => if let Some(nm) = { let avoid = self.used.last().cloned().unwrap_or_default(); self.fresh_name(&FNAMES, &avoid) } {
                    // a lambda bound to a name: `h = a -> a + x`
                    self.feats.push("lambda");
                    let np = 1 + self.rng.below(2) as usize;
                    let (ps, _) = self.params(np, false);
                    self.scopes.push(ps.iter().map(|p| (self.toks[p.tok].name.clone(), Kind::Var)).collect());
                    self.used.push(vec![]);
                    let body = self.expr(1);
                    self.scopes.pop();
                    self.used.pop();
                    let t = self.tok(&nm);
                    let i = self.id();
                    let total = ps.len();
                    self.scopes.last_mut().unwrap().push((nm, Kind::Fun { req: total, total }));
                    out.push(GS::DefV { id: i, tok: t, rhs: GE::Lam(ps, Box::new(body)) });
                },
                _ => {
                    let k = 1 + self.rng.below(3);
                    let mut args = vec![];
                    if self.rng.chance(3, 4) { let s = STRS[self.rng.below(STRS.len() as u64) as usize]; if s.contains('\\') { self.feats.push("escaped-string"); } args.push(PArg::Str(s)); }
                    for _ in 0..k { let e = self.expr(1); args.push(PArg::E(e)); if self.rng.chance(1, 6) { args.push(PArg::Str(STRS[self.rng.below(STRS.len() as u64) as usize])); } }
                    out.push(GS::Print(args));
                }
            }
        }
        // always end with a print that uses something
        let e = self.expr(2);
        out.push(GS::Print(vec![PArg::Str("\"E\\tND\""), PArg::E(e)]));
        self.feats.push("escaped-string");
        out
    }
}

// ------------------------------------------------------------------------------------------------ rendering

struct W<'a> { out: String, line: u32, col: u32, toks: &'a mut Vec<Tok> }
impl<'a> W<'a> {
    /// `col` counts UTF-16 code units (LSP positions)
    fn s(&mut self, t: &str) { for c in t.chars() { if c == '\n' { self.line += 1; self.col = 0; } else { self.col += c.len_utf16() as u32; } } self.out.push_str(t); }
    fn name(&mut self, tok: usize) { self.toks[tok].line = self.line; self.toks[tok].col = self.col; let n = self.toks[tok].name.clone(); self.s(&n); }
    fn expr(&mut self, e: &GE, paren: bool) {
        match e {
            GE::Var(t) => self.name(*t),
            GE::Lit(n) => self.s(&n.to_string()),
            GE::Add(a, b) => { if paren { self.s("("); } self.expr(a, true); self.s(" + "); self.expr(b, true); if paren { self.s(")"); } }
            GE::Call(f, args) => { self.name(*f); self.s("("); for (i, a) in args.iter().enumerate() { if i > 0 { self.s(", "); } self.expr(a, false); } self.s(")"); }
            GE::Lam(ps, body) => {
                if ps.len() == 1 { self.name(ps[0].tok); } else { self.s("("); for (i, p) in ps.iter().enumerate() { if i > 0 { self.s(", "); } self.name(p.tok); } self.s(")"); }
                self.s(" -> "); self.expr(body, false);
            }
        }
    }
    fn stmts(&mut self, ss: &[GS], indent: usize) {
        for s in ss {
            self.s(&" ".repeat(indent));
            match s {
                GS::DefV { tok, rhs, .. } => { self.name(*tok); self.s(" = "); self.expr(rhs, false); self.s("\n"); }
                GS::DefF { tok, ps, body, .. } => {
                    self.name(*tok); self.s("(");
                    for (i, p) in ps.iter().enumerate() {
                        if i > 0 { self.s(", "); }
                        self.name(p.tok);
                        if let Some(d) = &p.dflt { self.s(" := "); self.expr(d, false); }
                    }
                    self.s(") =");
                    if let [GS::Expr(e)] = &body[..] { self.s(" "); self.expr(e, false); self.s("\n"); }
                    else { self.s("\n"); self.stmts(body, indent + 4); }
                }
                GS::Print(args) => {
                    self.s("print! ");
                    for (i, a) in args.iter().enumerate() {
                        if i > 0 { self.s(", "); }
                        match a { PArg::Str(t) => self.s(t), PArg::E(e) => self.expr(e, false) }
                    }
                    self.s("\n");
                }
                GS::Expr(e) => { self.expr(e, false); self.s("\n"); }
            }
        }
    }
}

// ------------------------------------------------------------------------------------------------ Tm S-expression

fn tm_e(e: &GE) -> String {
    match e {
        GE::Var(t) => format!("(var {})", t),
        GE::Lit(_) => "lit".into(),
        GE::Add(a, b) => format!("(app {} {})", tm_e(a), tm_e(b)),
        GE::Call(f, args) => args.iter().fold(format!("(var {})", f), |acc, a| format!("(app {} {})", acc, tm_e(a))),
        GE::Lam(ps, body) => format!("(lam {} {})", tm_ps(ps), tm_e(body)),
    }
}
fn tm_ps(ps: &[GP]) -> String {
    let v: Vec<String> = ps.iter().map(|p| format!("(p {} {} {})", p.id, p.tok, p.dflt.as_ref().map(tm_e).unwrap_or("lit".into()))).collect();
    if v.is_empty() { "(ps)".into() } else { format!("(ps {})", v.join(" ")) }
}
fn tm_block(ss: &[GS]) -> String {
    match ss {
        [] => "lit".into(),
        [s, rest @ ..] => {
            let r = tm_block(rest);
            match s {
                GS::DefV { id, tok, rhs } => format!("(letv {} {} {} {})", id, tok, tm_e(rhs), r),
                GS::DefF { id, tok, ps, body } => format!("(letf {} {} {} {} {})", id, tok, tm_ps(ps), tm_block(body), r),
                GS::Print(args) => {
                    let e = args.iter().filter_map(|a| if let PArg::E(e) = a { Some(tm_e(e)) } else { None }).fold("lit".to_string(), |acc, x| format!("(app {} {})", acc, x));
                    if rest.is_empty() { e } else { format!("(app {} {})", e, r) }
                }
                GS::Expr(e) => if rest.is_empty() { tm_e(e) } else { format!("(app {} {})", tm_e(e), r) },
            }
        }
    }
}

// ------------------------------------------------------------------------------------------------ the real lexer's columns

/// for every name token (in source order) the column the lexer reports; None when the token stream does not line up
fn reported_cols(src: &str, toks: &mut [Tok]) -> bool {
    let ts = match Lexer::from_str(src.to_string()).lex() { Ok(ts) => ts, Err((ts, _)) => ts };
    let mut order: Vec<usize> = (0..toks.len()).collect();
    order.sort_by_key(|&i| (toks[i].line, toks[i].col));
    let mut k = 0;
    for t in ts.iter() {
        if k >= order.len() { break; }
        let want = &toks[order[k]];
        if t.kind == TokenKind::Symbol && &t.content[..] == want.name && t.lineno == want.line + 1 {
            toks[order[k]].rcol = t.col_begin;
            k += 1;
        }
    }
    k == order.len()
}

// ------------------------------------------------------------------------------------------------ edits

type Edit = (u32, u32, u32);

fn edits_of(v: &Value, uri: &Url) -> Result<Vec<Edit>, String> {
    if v.is_null() { return Ok(vec![]); }
    let mut out = vec![];
    if let Some(ch) = v.get("changes").and_then(|c| c.as_object()) {
        for (u, es) in ch {
            if u != uri.as_str() { return Err(format!("edit in another file: {}", u)); }
            for e in es.as_array().cloned().unwrap_or_default() {
                let r = &e["range"];
                if e["newText"] != NEW_NAME { return Err(format!("newText {}", e["newText"])); }
                if r["start"]["line"] != r["end"]["line"] { return Err("multi-line edit".into()); }
                out.push((r["start"]["line"].as_u64().unwrap_or(0) as u32, r["start"]["character"].as_u64().unwrap_or(0) as u32, r["end"]["character"].as_u64().unwrap_or(0) as u32));
            }
        }
    }
    out.sort();
    Ok(out)
}

fn show_edits(es: &[Edit]) -> String { es.iter().map(|e| format!(" ({} {} {})", e.0, e.1, e.2)).collect() }

/// index of the character at UTF-16 column `col` (clamped to the line; a column inside a surrogate pair counts as after the character)
fn u16idx(ln: &[char], col: usize) -> usize {
    let (mut k, mut i) = (col, 0);
    while i < ln.len() && k > 0 { k = k.saturating_sub(ln[i].len_utf16()); i += 1; }
    i
}

/// mirror of the driver's `applyEdits`: last edit first, columns clamped to the line
fn apply_edits(src: &str, es: &[Edit]) -> String {
    let mut lines: Vec<Vec<char>> = src.split('\n').map(|l| l.chars().collect()).collect();
    let mut es = es.to_vec();
    es.sort();
    for e in es.iter().rev() {
        if let Some(ln) = lines.get_mut(e.0 as usize) {
            let c0 = u16idx(ln, e.1 as usize);
            let c1 = u16idx(ln, e.2.max(e.1) as usize);
            let mut n: Vec<char> = ln[..c0].to_vec();
            n.extend(NEW_NAME.chars());
            n.extend_from_slice(&ln[c1..]);
            *ln = n;
        }
    }
    lines.iter().map(|l| l.iter().collect::<String>()).collect::<Vec<_>>().join("\n")
}

// ------------------------------------------------------------------------------------------------ one program

struct Prog { src: String, toks: Vec<Tok>, tm: String, binder_toks: Vec<(usize, usize)> }

fn binders(ss: &[GS], out: &mut Vec<(usize, usize)>) {
    fn ge(e: &GE, out: &mut Vec<(usize, usize)>) {
        match e {
            GE::Add(a, b) => { ge(a, out); ge(b, out); }
            GE::Call(_, args) => for a in args { ge(a, out); },
            GE::Lam(ps, b) => { for p in ps { out.push((p.id, p.tok)); if let Some(d) = &p.dflt { ge(d, out); } } ge(b, out); }
            _ => {}
        }
    }
    for s in ss {
        match s {
            GS::DefV { id, tok, rhs } => { out.push((*id, *tok)); ge(rhs, out); }
            GS::DefF { id, tok, ps, body } => { out.push((*id, *tok)); for p in ps { out.push((p.id, p.tok)); if let Some(d) = &p.dflt { ge(d, out); } } binders(body, out); }
            GS::Print(args) => for a in args { if let PArg::E(e) = a { ge(e, out); } },
            GS::Expr(e) => ge(e, out),
        }
    }
}

/// answers the model makes no claim about (observed facts, judged by the specification only): tokens whose request returned an EMPTY edit,
/// and tokens whose answer contained the same edit twice (the harness removes the duplicate before comparing)
#[derive(Default, Clone)]
struct Anom { empty: Vec<usize>, dup: Vec<usize> }

fn input_of(p: &Prog, tp: &[(usize, Vec<Edit>)]) -> String { input_of2(p, tp, &Anom::default()) }

fn input_of2(p: &Prog, tp: &[(usize, Vec<Edit>)], an: &Anom) -> String {
    let toks: Vec<String> = p.toks.iter().map(|t| format!("(t {} {} {} {})", quote(&t.name), t.line, t.col, t.rcol)).collect();
    let tps: Vec<String> = tp.iter().map(|(i, es)| format!("({}{})", i, show_edits(es))).collect();
    let nums = |v: &[usize]| v.iter().map(|i| format!(" {}", i)).collect::<String>();
    format!("(prog (src {}) (new {}) (toks {}) (tm {}) (binders {}) (tp{}) (anom (empty{}) (dup{})))", quote(&p.src), quote(NEW_NAME), toks.join(" "), p.tm,
            p.binder_toks.iter().map(|(b, t)| format!("({} {})", b, t)).collect::<Vec<_>>().join(" "),
            if tps.is_empty() { String::new() } else { format!(" {}", tps.join(" ")) }, nums(&an.empty), nums(&an.dup))
}

fn prog_of(sx: &Sx) -> Option<Prog> {
    let items = sx.tagged("prog")?;
    let src = items.iter().find_map(|x| x.tagged("src"))?.first()?.str()?.to_string();
    let mut toks = vec![];
    for t in items.iter().find_map(|x| x.tagged("toks"))? {
        let t = t.tagged("t")?;
        toks.push(Tok { name: t.first()?.str()?.to_string(), line: t.get(1)?.num()? as u32, col: t.get(2)?.num()? as u32, rcol: t.get(3)?.num()? as u32 });
    }
    let tm = items.iter().find(|x| x.tagged("tm").is_some())?.tagged("tm")?.first()?.show();
    let mut binder_toks = vec![];
    for b in items.iter().find_map(|x| x.tagged("binders"))? { let l = b.list()?; binder_toks.push((l.first()?.num()? as usize, l.get(1)?.num()? as usize)); }
    Some(Prog { src, toks, tm, binder_toks })
}

fn rename_at(c: &mut Client, uri: &Url, line: u32, col: u32) -> Result<Vec<Edit>, String> {
    let r = c.request("textDocument/rename", json!({"textDocument": {"uri": uri}, "position": {"line": line, "character": col}, "newName": NEW_NAME}), Duration::from_secs(20))?;
    let es = edits_of(&r, uri);
    // the module's cache was cleared by the rename; a save re-checks it (this is what a client does after applying the edit)
    c.save(uri)?;
    es
}

fn run_prog(id: &str, p: &mut Prog, root: &Path) -> (String, String) {
    if !reported_cols(&p.src.clone(), &mut p.toks) { return (input_of(p, &[]), "out-of-model(lexer tokens do not line up)".into()); }
    let dir = root.join(id.replace(|c: char| !c.is_ascii_alphanumeric(), "_"));
    let _ = std::fs::remove_dir_all(&dir);
    std::fs::create_dir_all(&dir).unwrap();
    let path = dir.join("a.er");
    std::fs::write(&path, &p.src).unwrap();
    let uri = Url::from_file_path(path.canonicalize().unwrap()).unwrap();
    let mut c = match new_client(false) { Ok(c) => c, Err(e) => return (input_of(p, &[]), format!("crash({})", quote(&e))) };
    if let Err(e) = c.open(&uri, &p.src) { return (input_of(p, &[]), format!("crash({})", quote(&e))); }
    // the server waits (up to 1 s) for the edited files' modification time to change: keep touching the file meanwhile
    let stop = Arc::new(AtomicBool::new(false));
    let (s2, p2, src2) = (stop.clone(), path.clone(), p.src.clone());
    let th = std::thread::spawn(move || { while !s2.load(Ordering::Relaxed) { let _ = std::fs::write(&p2, &src2); std::thread::sleep(Duration::from_millis(2)); } });
    let mut rows = vec![];
    let mut tp = vec![];
    let mut by_tok: Vec<Option<Vec<Edit>>> = vec![None; p.toks.len()];
    let mut an = Anom::default();
    for i in 0..p.toks.len() {
        let t = p.toks[i].clone();
        match rename_at(&mut c, &uri, t.line, t.rcol) {
            Ok(mut es) => {
                let n = es.len();
                es.dedup();
                if es.len() != n { an.dup.push(i); }
                if es.is_empty() { an.empty.push(i); }
                rows.push(format!("(r {}{})", i, show_edits(&es)));
                by_tok[i] = Some(es);
            }
            Err(e) => rows.push(format!("(r {} error {})", i, quote(&e))),
        }
        if t.rcol != t.col {
            if let Ok(es) = rename_at(&mut c, &uri, t.line, t.col) { tp.push((i, es)); }
        }
    }
    stop.store(true, Ordering::Relaxed);
    let _ = th.join();
    let mut bs = p.binder_toks.clone();
    bs.sort();
    for (b, t) in bs {
        if let Some(Some(es)) = by_tok.get(t) { rows.push(format!("(edited {} {})", b, quote(&apply_edits(&p.src, es)))); }
    }
    let _ = std::fs::remove_dir_all(&dir);
    (input_of2(p, &tp, &an), rows.join(" "))
}

fn gen_prog(rng: &mut Rng, feats: &mut Vec<&'static str>) -> Prog {
    let mut g = Gen { rng, toks: vec![], next_id: 0, scopes: vec![vec![]], feats: vec![], hidden: vec![], used: vec![vec![]] };
    let ss = g.program();
    feats.extend(g.feats.iter());
    let mut toks = g.toks;
    let mut w = W { out: String::new(), line: 0, col: 0, toks: &mut toks };
    w.stmts(&ss, 0);
    let src = w.out;
    let mut bt = vec![];
    binders(&ss, &mut bt);
    Prog { src, toks, tm: tm_block(&ss), binder_toks: bt }
}

fn run_line(id: &str, input: &str, root: &Path) -> String {
    let Some(mut p) = parse_sx(input).as_ref().and_then(prog_of) else { return format!("{}\t{}\tbad-input", id, input) };
    let idc = id.to_string();
    let rootc = root.to_path_buf();
    let mut p2 = Prog { src: p.src.clone(), toks: p.toks.clone(), tm: p.tm.clone(), binder_toks: p.binder_toks.clone() };
    match catch(std::panic::AssertUnwindSafe(move || run_prog(&idc, &mut p2, &rootc))) {
        Ok((i, o)) => format!("{}\t{}\t{}", id, i, o),
        Err(e) => { let _ = reported_cols(&p.src.clone(), &mut p.toks); format!("{}\t{}\tcrash({})", id, input_of(&p, &[]), quote(&e)) }
    }
}

fn run_parallel(cases: &[(String, String)], jobs: usize) {
    let exe = std::env::current_exe().unwrap();
    let mut kids = vec![];
    for j in 0..jobs {
        let mine: String = cases.iter().enumerate().filter(|(i, _)| i % jobs == j).map(|(_, (id, inp))| format!("{}\t{}\n", id, inp)).collect();
        if mine.is_empty() { continue; }
        let mut ch = std::process::Command::new(&exe).arg("replay").stdin(std::process::Stdio::piped()).stdout(std::process::Stdio::piped())
            .stderr(std::process::Stdio::null()).spawn().unwrap();
        let mut si = ch.stdin.take().unwrap();
        std::thread::spawn(move || { let _ = si.write_all(mine.as_bytes()); });
        kids.push(ch);
    }
    let mut lines: std::collections::HashMap<String, String> = Default::default();
    for ch in kids {
        let o = ch.wait_with_output().unwrap();
        for l in String::from_utf8_lossy(&o.stdout).lines() { if let Some(id) = l.split('\t').next() { lines.insert(id.to_string(), l.to_string()); } }
    }
    for (id, inp) in cases {
        match lines.get(id) { Some(l) => println!("{}", l), None => println!("{}\t{}\tcrash(\"worker died\")", id, inp) }
    }
}

fn main() {
    quiet_panics();
    let a = parse_args();
    let root = scratch_dir("c30");
    std::env::set_current_dir(&root).unwrap();
    let jobs: usize = std::env::var("VERIF_JOBS").ok().and_then(|s| s.parse().ok()).unwrap_or(6);
    match a.mode.as_str() {
        "gen" => {
            let mut rng = Rng::new(a.seed);
            let mut feats = vec![];
            let mut cases = vec![];
            for i in 0..a.n {
                let p = gen_prog(&mut rng, &mut feats);
                cases.push((format!("g{}", i), input_of(&p, &[])));
            }
            run_parallel(&cases, jobs);
            let mut counts: std::collections::BTreeMap<&str, usize> = Default::default();
            for f in feats { *counts.entry(f).or_default() += 1; }
            eprintln!("features {:?}", counts);
        }
        "show" => {
            let mut rng = Rng::new(a.seed);
            let mut feats = vec![];
            for _ in 0..a.n { let p = gen_prog(&mut rng, &mut feats); println!("-----\n{}", p.src); }
        }
        "replay" => {
            let out = std::io::stdout();
            for (id, input) in stdin_cases() {
                let line = run_line(&id, &input, &root);
                let mut o = out.lock();
                writeln!(o, "{}", line).unwrap();
                o.flush().unwrap();
            }
        }
        _ => { eprintln!("usage: c30 gen|replay|show"); std::process::exit(2); }
    }
    let _ = std::fs::remove_dir_all(&root);
}
