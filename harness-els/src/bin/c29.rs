//! C29: incremental language-server analysis vs a fresh analysis.
//! Two kinds of cases (line protocol: id \t input \t impl-output):
//!  * `(diff (srcs "<old>" "<new>") (old <chunk>…) (new <chunk>…))` — the real parser on both sources, the hooked
//!    `ASTDiff::diff` / `ASTDiff::update`;   impl: `(d <diff>) (upd <chunk>…) (eqs t|f …)`
//!  * `(hist (mode save|auto) (deps b) (files (f "name" "text")…) (doc "a.er") (events <ev>…) (fresh-eq b))` — an edit history played
//!    against an in-process server (bound as `Server::bind_fake_client` binds it), then a FRESH server opened on the final text;
//!    impl: `(trace <obs>…) (lastpub k) (converged b)`.
//!    `<ev>` = `(open (parse <pr>))` | `(change (edits (sl sc el ec "text")…) (lower b) (parse <pr>))` | `(save)` | `(sleep ms)`;
//!    `<pr>` (parse of the text AFTER the event, by the real parser) = `(ok <chunk>…)` | `(err <chunk>…)` | `(err-none)`;
//!    `<chunk>` = `(c "<Display of the expr>" <first line>)`. The facts `parse`, `lower`, `fresh-eq` are the values of the model's
//!    abstract parameters (parser, lowerer verdict, analysis) observed on this run; on replay they are recomputed, never trusted.
#[path = "../els_common.rs"]
mod common;
use common::*;
use els::verif_hooks::ASTDiff;
use erg_common::traits::{Locational, Stream};
use erg_compiler::erg_parser::ast::Module;
use erg_compiler::erg_parser::parse::{Parsable, SimpleParser};
use erg_harness::*;
use lsp_types::Url;
use serde_json::Value;
use std::io::Write;
use std::path::{Path, PathBuf};
use std::time::{Duration, Instant};

type Change = (u32, u32, u32, u32, String);

#[derive(Clone, Debug)]
enum Ev {
    Open,
    Change(Vec<Change>),
    Save,
    Sleep(u64),
}

#[derive(Clone, Debug)]
struct Case {
    auto: bool,
    deps: bool,
    files: Vec<(String, String)>,
    doc: String,
    events: Vec<Ev>,
}

// ------------------------------------------------------------------------------------------------ parsing with the real parser

enum Pr {
    Ok(Module),
    Err(Option<Module>),
}

fn parse(src: &str) -> Pr {
    match SimpleParser::parse(src.to_string()) {
        Ok(art) => Pr::Ok(art.ast),
        Err(inc) => Pr::Err(inc.ast),
    }
}

fn chunks(m: &Module) -> String {
    m.iter().map(|e| format!("(c {} {})", quote(&e.to_string()), e.ln_begin().unwrap_or(0))).collect::<Vec<_>>().join(" ")
}

fn pr_sexp(p: &Pr) -> String {
    match p {
        Pr::Ok(m) => format!("(ok {})", chunks(m)).replace("(ok )", "(ok)"),
        Pr::Err(Some(m)) => format!("(err {})", chunks(m)).replace("(err )", "(err)"),
        Pr::Err(None) => "(err-none)".to_string(),
    }
}

// ------------------------------------------------------------------------------------------------ client-side text (ASCII documents)

fn offset(text: &str, line: u32, col: u32) -> usize {
    let mut off = 0usize;
    let mut l = 0u32;
    for seg in text.split_inclusive('\n') {
        if l == line {
            let body = seg.strip_suffix('\n').unwrap_or(seg);
            return off + (col as usize).min(body.len());
        }
        off += seg.len();
        l += 1;
    }
    text.len()
}

fn apply(text: &str, ch: &Change) -> String {
    let s = offset(text, ch.0, ch.1);
    let e = offset(text, ch.2, ch.3).max(s);
    format!("{}{}{}", &text[..s], ch.4, &text[e..])
}

// ------------------------------------------------------------------------------------------------ diagnostics

fn canon_diags(params: &Value) -> String {
    let mut v: Vec<String> = params["diagnostics"].as_array().cloned().unwrap_or_default().iter().map(|d| {
        let r = &d["range"];
        format!("({} {} {} {} s{} {} {})", r["start"]["line"], r["start"]["character"], r["end"]["line"], r["end"]["character"],
                d["severity"], d["code"].as_str().unwrap_or("-"), quote(d["message"].as_str().unwrap_or("")))
    }).collect();
    v.sort();
    format!("({})", v.join(" "))
}

/// the last `publishDiagnostics` for `uri` among `msgs`
fn last_pub(msgs: &[Value], uri: &Url) -> Option<String> {
    msgs.iter().rev().find(|m| is_method(m, "textDocument/publishDiagnostics") && m["params"]["uri"].as_str() == Some(uri.as_str()))
        .map(|m| canon_diags(&m["params"]))
}

// ------------------------------------------------------------------------------------------------ one history

fn diff_obs(msg: &str) -> Option<String> {
    let i = msg.find(": diff: ")?;
    let rest = &msg[i + 8..];
    if rest.starts_with("Nop") { return Some("nop".into()); }
    for (name, tag) in [("Addition(", "add"), ("Deletion(", "del"), ("Modification(", "mod")] {
        if let Some(r) = rest.strip_prefix(name) {
            let n: String = r.chars().take_while(|c| c.is_ascii_digit()).collect();
            return Some(format!("({} {})", tag, n));
        }
    }
    Some(format!("(unknown {})", quote(rest)))
}

fn run_hist(id: &str, case: &Case, root: &Path) -> (String, String) {
    let dir = root.join(id.replace(|c: char| !c.is_ascii_alphanumeric(), "_"));
    let _ = std::fs::remove_dir_all(&dir);
    std::fs::create_dir_all(&dir).unwrap();
    for (n, t) in &case.files { std::fs::write(dir.join(n), t).unwrap(); }
    let doc_path = dir.join(&case.doc);
    let uri = Url::from_file_path(doc_path.canonicalize().unwrap()).unwrap();
    let mut text = case.files.iter().find(|f| f.0 == case.doc).map(|f| f.1.clone()).unwrap_or_default();
    let mut client = match new_client(case.auto) { Ok(c) => c, Err(e) => return (input_of(case, &[], "-"), format!("crash({})", quote(&e))) };
    let mut seen = client.responses.len();
    let mut facts: Vec<String> = vec![];
    let mut trace: Vec<String> = vec![];
    let mut lastpub: i64 = -1;
    // a text is identified by the first event after which the document had exactly this text (the model's `Text` is this number)
    let mut texts: Vec<String> = vec![];
    for (i, ev) in case.events.iter().enumerate() {
        let r = match ev {
            Ev::Open => client.open(&uri, &text),
            Ev::Change(chs) => {
                let r = client.change(&uri, chs);
                for ch in chs { text = apply(&text, ch); }
                r
            }
            Ev::Save => {
                std::fs::write(&doc_path, &text).unwrap(); // an editor writes the file, then notifies
                client.save(&uri)
            }
            Ev::Sleep(ms) => { std::thread::sleep(Duration::from_millis(*ms)); client.drain(); Ok(()) }
        };
        if let Err(e) = r { trace.push(format!("(error {})", quote(&e))); }
        texts.push(text.clone());
        let ver = texts.iter().position(|t| *t == text).unwrap_or(i) + 1;
        let new = &client.responses[seen..];
        let logs: Vec<&str> = new.iter().filter_map(log_text).collect();
        let published = last_pub(new, &uri).is_some();
        if published { lastpub = i as i64; }
        match ev {
            Ev::Open => {
                facts.push(format!("(open (ver {}) (parse {}))", ver, pr_sexp(&parse(&text))));
                trace.push(format!("(open {})", if published { "pub" } else { "nopub" }));
            }
            Ev::Change(chs) => {
                let d = logs.iter().find_map(|l| diff_obs(l));
                let patched = logs.iter().any(|l| l.contains(": hir_diff: "));
                let noast = logs.iter().any(|l| l.contains("AST not found"));
                let edits: Vec<String> = chs.iter().map(|c| format!("({} {} {} {} {})", c.0, c.1, c.2, c.3, quote(&c.4))).collect();
                facts.push(format!("(change (edits {}) (ver {}) (lower {}) (parse {}))", edits.join(" "), ver, patched, pr_sexp(&parse(&text))));
                let q = match d {
                    Some(d) => format!("(qc {}{})", d, if patched { " patched" } else { "" }),
                    None => if noast { "qc-noast".to_string() } else { "noqc".to_string() },
                };
                trace.push(format!("(chg {}{})", q, if published { " pub" } else { "" }));
            }
            Ev::Save => {
                facts.push("(save)".into());
                let nochange = logs.iter().any(|l| l.contains("no changes: "));
                let checked = logs.iter().any(|l| l.contains(": checking "));
                trace.push(format!("(save {}{})", if nochange { "nochange" } else if checked { "check" } else { "nothing" }, if published { " pub" } else { "" }));
            }
            Ev::Sleep(ms) => { facts.push(format!("(sleep {})", ms)); }
        }
        seen = client.responses.len();
    }
    // the specification: a freshly started server opened on the final text
    std::fs::write(&doc_path, &text).unwrap();
    let fresh = match new_client(false) {
        Ok(mut f) => { let _ = f.open(&uri, &text); last_pub(&f.responses, &uri) }
        Err(_) => None,
    };
    let mut published = last_pub(&client.responses, &uri);
    if case.auto {
        // the periodic re-check thread polls every 500 ms: wait (bounded) until what is published equals the fresh analysis
        let t0 = Instant::now();
        while published != fresh && t0.elapsed() < Duration::from_millis(4000) {
            std::thread::sleep(Duration::from_millis(50));
            client.drain();
            published = last_pub(&client.responses, &uri);
        }
    }
    let converged = published.is_some() && published == fresh;
    let fe = if converged { "true".to_string() } else {
        format!("false (published {}) (fresh {})", published.unwrap_or("none".into()), fresh.unwrap_or("none".into()))
    };
    let input = input_of(case, &facts, &fe);
    let out = if case.auto { format!("(auto) (converged {})", converged) }
              else { format!("(trace {}) (lastpub {}) (converged {})", trace.join(" "), lastpub, converged) };
    let _ = std::fs::remove_dir_all(&dir);
    (input, out)
}

fn input_of(case: &Case, facts: &[String], fresh_eq: &str) -> String {
    let files: Vec<String> = case.files.iter().map(|(n, t)| format!("(f {} {})", quote(n), quote(t))).collect();
    let evs: Vec<String> = if facts.is_empty() {
        case.events.iter().map(|e| match e {
            Ev::Open => "(open)".to_string(),
            Ev::Change(chs) => format!("(change (edits {}))", chs.iter().map(|c| format!("({} {} {} {} {})", c.0, c.1, c.2, c.3, quote(&c.4))).collect::<Vec<_>>().join(" ")),
            Ev::Save => "(save)".to_string(),
            Ev::Sleep(ms) => format!("(sleep {})", ms),
        }).collect()
    } else { facts.to_vec() };
    format!("(hist (mode {}) (deps {}) (files {}) (doc {}) (events {}) (fresh-eq {}))", if case.auto { "auto" } else { "save" }, case.deps,
            files.join(" "), quote(&case.doc), evs.join(" "), fresh_eq)
}

fn case_of(sx: &Sx) -> Option<Case> {
    let items = sx.tagged("hist")?;
    let mut c = Case { auto: false, deps: false, files: vec![], doc: String::new(), events: vec![] };
    for it in items {
        let l = it.list()?;
        match l.first()?.atom()? {
            "mode" => c.auto = l.get(1)?.atom()? == "auto",
            "deps" => c.deps = l.get(1)?.atom()? == "true",
            "doc" => c.doc = l.get(1)?.str()?.to_string(),
            "files" => for f in &l[1..] { let f = f.tagged("f")?; c.files.push((f.first()?.str()?.to_string(), f.get(1)?.str()?.to_string())); },
            "events" => for e in &l[1..] {
                let e = e.list()?;
                match e.first()?.atom()? {
                    "open" => c.events.push(Ev::Open),
                    "save" => c.events.push(Ev::Save),
                    "sleep" => c.events.push(Ev::Sleep(e.get(1)?.num()? as u64)),
                    "change" => {
                        let eds = e.iter().find_map(|x| x.tagged("edits"))?;
                        let mut chs = vec![];
                        for ed in eds {
                            let ed = ed.list()?;
                            chs.push((ed.first()?.num()? as u32, ed.get(1)?.num()? as u32, ed.get(2)?.num()? as u32, ed.get(3)?.num()? as u32, ed.get(4)?.str()?.to_string()));
                        }
                        if chs.is_empty() { return None; }
                        c.events.push(Ev::Change(chs));
                    }
                    _ => return None,
                }
            },
            _ => {}
        }
    }
    Some(c)
}

// ------------------------------------------------------------------------------------------------ diff cases

fn diff_sexp(d: &ASTDiff) -> String {
    match d {
        ASTDiff::Nop => "nop".into(),
        ASTDiff::Deletion(i) => format!("(del {})", i),
        ASTDiff::Addition(i, e) => format!("(add {} {})", i, quote(&e.to_string())),
        ASTDiff::Modification(i, e) => format!("(mod {} {})", i, quote(&e.to_string())),
    }
}

fn run_diff(old_src: &str, new_src: &str) -> (String, String) {
    let (o, n) = (old_src.to_string(), new_src.to_string());
    let r = catch(move || {
        let old = match parse(&o) { Pr::Ok(m) => m, Pr::Err(Some(m)) => m, Pr::Err(None) => return None };
        let new = match parse(&n) { Pr::Ok(m) => m, Pr::Err(Some(m)) => m, Pr::Err(None) => return None };
        let input = format!("(diff (srcs {} {}) (old {}) (new {}))", quote(&o), quote(&n), chunks(&old), chunks(&new)).replace("(old )", "(old)").replace("(new )", "(new)");
        let eqs: Vec<&str> = old.iter().zip(new.iter()).map(|(a, b)| if a == b { "t" } else { "f" }).collect();
        let d = ASTDiff::diff(&old, &new);
        let ds = diff_sexp(&d);
        let mut upd = old.clone();
        d.update(&mut upd);
        Some((input, format!("(d {}) (upd {}) (eqs {})", ds, chunks(&upd), eqs.join(" ")).replace("(upd )", "(upd)").replace("(eqs )", "(eqs)")))
    });
    let plain = format!("(diff (srcs {} {}))", quote(old_src), quote(new_src));
    match r {
        Ok(Some(x)) => x,
        Ok(None) => (plain, "unparsable".into()),
        Err(e) => (plain, format!("crash({})", quote(&e))),
    }
}

// ------------------------------------------------------------------------------------------------ generator

#[derive(Clone, Debug)]
enum Item { Chunk(String), Comment(String), Blank }

impl Item {
    fn text(&self) -> String { match self { Item::Chunk(s) | Item::Comment(s) => s.clone(), Item::Blank => String::new() } }
    fn lines(&self) -> u32 { self.text().matches('\n').count() as u32 + 1 }
}

fn render(items: &[Item]) -> String { items.iter().map(|i| i.text() + "\n").collect() }

fn line_of(items: &[Item], idx: usize) -> u32 { items[..idx].iter().map(|i| i.lines()).sum() }

/// a fresh top-level definition; `k` makes names unique within a document, `uses` are names defined earlier
fn gen_chunk(rng: &mut Rng, k: usize, deps: bool) -> String {
    match rng.below(if deps { 11 } else { 10 }) {
        0 | 1 => format!("v{} = {}", k, rng.below(100)),
        2 => format!("v{}: Str = {}", k, rng.below(100)),                      // type error
        3 => format!("f{} x = x + {}", k, rng.below(10)),
        4 => format!("f{}(x: Int): Int =\n    y = x * {}\n    y + 1", k, rng.below(9) + 1),
        5 => format!("print! undefined_{}", k),                                 // name error
        6 => format!("print! {}", rng.below(50)),
        7 => format!("v{} = \"s{}\" + {}", k, k, rng.below(5)),                 // type error in an operator
        8 => format!("v{} = [{}, {}]", k, rng.below(9), rng.below(9)),
        9 => if rng.chance(1, 3) { format!("v{} = = {}", k, k) } else { format!("assert {} == {}", k, k) },  // sometimes a syntax error
        _ => format!("print! b.x + {}", k),
    }
}

fn gen_doc(rng: &mut Rng, deps: bool, next: &mut usize) -> Vec<Item> {
    let mut items = vec![];
    if deps { items.push(Item::Chunk("b = import \"b\"".into())); }
    let n = 1 + rng.below(5) as usize;
    for _ in 0..n {
        if rng.chance(1, 6) { items.push(if rng.chance(1, 2) { Item::Blank } else { Item::Comment(format!("# note {}", rng.below(9))) }); }
        items.push(Item::Chunk(gen_chunk(rng, *next, deps)));
        *next += 1;
    }
    items
}

/// one item-level edit → one LSP content change (+ the new item list)
fn gen_edit(rng: &mut Rng, items: &mut Vec<Item>, deps: bool, next: &mut usize, hist: &mut Vec<&'static str>) -> Change {
    let lo = if deps { 1 } else { 0 }; // the import line is never touched
    let n = items.len();
    let pick = rng.below(106);
    if pick >= 100 && n > 0 {
        // a no-op edit: a whole first line replaced by itself (range starts at column 0, so the quick check runs on a text that does not change)
        let at = rng.below(n as u64) as usize;
        let l = line_of(items, at);
        let t = items[at].text();
        let first = t.split('\n').next().unwrap_or("").to_string();
        hist.push("noop");
        return (l, 0, l, first.len() as u32, first);
    }
    if pick < 22 || n <= lo {
        // insert a definition
        let at = lo + rng.below((n - lo + 1) as u64) as usize;
        let it = Item::Chunk(gen_chunk(rng, *next, deps));
        *next += 1;
        let l = line_of(items, at);
        items.insert(at, it.clone());
        hist.push("ins-def");
        (l, 0, l, 0, it.text() + "\n")
    } else if pick < 40 {
        // position-only: a comment or blank line
        ins_comment(rng, items, hist)
    } else if pick < 58 {
        // delete an item
        let at = lo + rng.below((n - lo) as u64) as usize;
        let l = line_of(items, at);
        let k = items[at].lines();
        hist.push(match items[at] { Item::Chunk(_) => "del-def", _ => "del-comment" });
        items.remove(at);
        (l, 0, l + k, 0, String::new())
    } else if pick < 76 {
        // replace a whole item by a new definition (range starts at column 0)
        let at = lo + rng.below((n - lo) as u64) as usize;
        let l = line_of(items, at);
        let k = items[at].lines();
        let it = Item::Chunk(gen_chunk(rng, *next, deps));
        *next += 1;
        items[at] = it.clone();
        hist.push("replace-def");
        (l, 0, l + k, 0, it.text() + "\n")
    } else if pick < 90 {
        // modify the tail of the first line of a definition (range does not start at column 0: no quick check)
        let cands: Vec<usize> = (lo..n).filter(|&i| matches!(items[i], Item::Chunk(_))).collect();
        if cands.is_empty() { return ins_comment(rng, items, hist); }
        let at = cands[rng.below(cands.len() as u64) as usize];
        let l = line_of(items, at);
        let t = items[at].text();
        let first = t.split('\n').next().unwrap_or("").to_string();
        let len = first.len() as u32;
        let from = len - 1;
        let add = format!("{}", rng.below(1000));
        items[at] = Item::Chunk(format!("{}{}{}", &first[..from as usize], add, &t[first.len()..]));
        hist.push("modify-tail");
        (l, from, l, len, add)
    } else {
        // a trigger character typed at the end of a line (position-only for " ", a syntax error for "." after a definition)
        let cands: Vec<usize> = (0..n).filter(|&i| !matches!(items[i], Item::Blank)).collect();
        if cands.is_empty() { return ins_comment(rng, items, hist); }
        let at = cands[rng.below(cands.len() as u64) as usize];
        let l = line_of(items, at);
        let t = items[at].text();
        let first = t.split('\n').next().unwrap_or("").to_string();
        let len = first.len() as u32;
        let ch = if rng.chance(3, 4) { " " } else { "." };
        let newt = format!("{}{}{}", first, ch, &t[first.len()..]);
        items[at] = match items[at] { Item::Chunk(_) => Item::Chunk(newt), _ => Item::Comment(newt) };
        hist.push("trigger-char");
        (l, len, l, len, ch.to_string())
    }
}

fn ins_comment(rng: &mut Rng, items: &mut Vec<Item>, hist: &mut Vec<&'static str>) -> Change {
    let at = rng.below((items.len() + 1) as u64) as usize;
    let it = if rng.chance(1, 2) { Item::Blank } else { Item::Comment(format!("# c{}", rng.below(9))) };
    let l = line_of(items, at);
    items.insert(at, it.clone());
    hist.push("ins-comment");
    (l, 0, l, 0, it.text() + "\n")
}

fn gen_case(rng: &mut Rng, auto: bool, hist: &mut Vec<&'static str>) -> Case {
    let deps = rng.chance(3, 5);
    let mut next = 0usize;
    let mut items = gen_doc(rng, deps, &mut next);
    let mut files = vec![];
    if deps { files.push(("b.er".to_string(), ".x = 1\n".to_string())); }
    files.push(("a.er".to_string(), render(&items)));
    let mut events = vec![Ev::Open];
    if auto { events.push(Ev::Sleep(650)); }
    let nchg = 1 + rng.below(5) as usize;
    for _ in 0..nchg {
        let k = if rng.chance(1, 4) { 2 + rng.below(2) as usize } else { 1 };
        let mut chs = vec![];
        for _ in 0..k { chs.push(gen_edit(rng, &mut items, deps, &mut next, hist)); }
        events.push(Ev::Change(chs));
        if !auto && rng.chance(1, 5) { events.push(Ev::Save); }
    }
    if !auto { events.push(Ev::Save); }
    Case { auto, deps, files, doc: "a.er".into(), events }
}

fn gen_diff_pair(rng: &mut Rng) -> (String, String) {
    let mut next = 0usize;
    let mut items = gen_doc(rng, false, &mut next);
    if rng.chance(1, 10) { items.clear(); }
    let old = render(&items);
    let k = match rng.below(10) { 0 => 0, 1..=6 => 1, _ => 2 + rng.below(2) as usize };
    let mut text = old.clone();
    let mut h = vec![];
    for _ in 0..k {
        if items.is_empty() { items.push(Item::Chunk(gen_chunk(rng, next, false))); next += 1; text = render(&items); continue; }
        let ch = gen_edit(rng, &mut items, false, &mut next, &mut h);
        text = apply(&text, &ch);
    }
    (old, text)
}

// ------------------------------------------------------------------------------------------------ main

fn run_line(id: &str, input: &str, root: &Path) -> String {
    let Some(sx) = parse_sx(input) else { return format!("{}\t{}\tbad-input", id, input) };
    if let Some(rest) = sx.tagged("diff") {
        if let Some([Sx::Str(o), Sx::Str(n)]) = rest.iter().find_map(|x| x.tagged("srcs")) {
            let (i, o) = run_diff(o, n);
            return format!("{}\t{}\t{}", id, i, o);
        }
        return format!("{}\t{}\tbad-input", id, input);
    }
    match case_of(&sx) {
        Some(case) => {
            let c2 = case.clone();
            let (idc, rootc) = (id.to_string(), root.to_path_buf());
            match catch(std::panic::AssertUnwindSafe(move || run_hist(&idc, &c2, &rootc))) {
                Ok((i, o)) => format!("{}\t{}\t{}", id, i, o),
                Err(e) => format!("{}\t{}\tcrash({})", id, input_of(&case, &[], "-"), quote(&e)),
            }
        }
        None => format!("{}\t{}\tbad-input", id, input),
    }
}

fn worker(root: &Path) {
    let out = std::io::stdout();
    for (id, input) in stdin_cases() {
        let line = run_line(&id, &input, root);
        let mut o = out.lock();
        writeln!(o, "{}", line).unwrap();
        o.flush().unwrap();
    }
}

/// run the cases in `jobs` child processes (each server start costs ≈ 0.5–1 s of mostly single-threaded work)
fn run_parallel(cases: &[(String, String)], jobs: usize) {
    let exe = std::env::current_exe().unwrap();
    let mut kids = vec![];
    for j in 0..jobs {
        let mine: String = cases.iter().enumerate().filter(|(i, _)| i % jobs == j).map(|(_, (id, inp))| format!("{}\t{}\n", id, inp)).collect();
        if mine.is_empty() { continue; }
        let mut ch = std::process::Command::new(&exe).arg("replay").stdin(std::process::Stdio::piped()).stdout(std::process::Stdio::piped())
            .stderr(std::process::Stdio::null()).spawn().unwrap();
        let mut si = ch.stdin.take().unwrap();
        std::thread::spawn(move || { let _ = si.write_all(mine.as_bytes()); });
        kids.push(ch);
    }
    let mut lines: std::collections::HashMap<String, String> = std::collections::HashMap::new();
    for ch in kids {
        let o = ch.wait_with_output().unwrap();
        for l in String::from_utf8_lossy(&o.stdout).lines() {
            if let Some(id) = l.split('\t').next() { lines.insert(id.to_string(), l.to_string()); }
        }
    }
    for (id, inp) in cases {
        match lines.get(id) {
            Some(l) => println!("{}", l),
            None => println!("{}\t{}\tcrash(\"worker died\")", id, inp),
        }
    }
}

fn main() {
    quiet_panics();
    let a = parse_args();
    let root = scratch_dir("c29");
    std::env::set_current_dir(&root).unwrap();
    let jobs: usize = std::env::var("VERIF_JOBS").ok().and_then(|s| s.parse().ok()).unwrap_or(6);
    match a.mode.as_str() {
        "gen" => {
            let mut rng = Rng::new(a.seed);
            // `--n` counts histories; diff cases are cheap (no server): 25 per history
            let mut cases = vec![];
            let mut hist = vec![];
            let nauto = if a.tier == "thorough" { a.n / 10 } else { (a.n / 12).min(4) };
            for i in 0..a.n {
                let auto = i < nauto;
                let c = gen_case(&mut rng, auto, &mut hist);
                cases.push((format!("{}{}", if auto { "a" } else { "h" }, i), input_of(&c, &[], "-")));
            }
            for i in 0..a.n * 25 {
                let (o, n) = gen_diff_pair(&mut rng);
                let (inp, out) = run_diff(&o, &n);
                println!("d{}\t{}\t{}", i, inp, out);
            }
            run_parallel(&cases, jobs);
            let mut counts: std::collections::BTreeMap<&str, usize> = Default::default();
            for h in hist { *counts.entry(h).or_default() += 1; }
            eprintln!("edit-kinds {:?}", counts);
        }
        "replay" => worker(&root),
        _ => { eprintln!("usage: c29 gen|replay"); std::process::exit(2); }
    }
    let _ = std::fs::remove_dir_all(&root);
}
